"""C01 — exactly one response per client request, on the request's own stream."""
from checks import connstage, pendingstage
from checks import reqfamily as rf


def run(ctx):
    t = ctx.tier == "thorough"
    n = lambda q, th: str(th if t else q)
    plans = [
        ("scripted-drops-3x1", ["-nodes", "3", "-numconns", "1", "-clients", "3", "-workers", "4", "-round", "100"], True),
        ("random-drops-3x1", ["-random", n(400, 3000), "-nodes", "3", "-numconns", "1", "-clients", "4", "-workers", "6", "-round", "200", "-droprate", "0.5", "-delay", "3"], False),
        ("random-drops-3x2", ["-random", n(400, 3000), "-nodes", "3", "-numconns", "2", "-clients", "4", "-workers", "6", "-round", "200", "-droprate", "0.5", "-delay", "3"], False),
        ("random-drops-2x1", ["-random", n(300, 2000), "-nodes", "2", "-numconns", "1", "-clients", "2", "-workers", "4", "-round", "150", "-droprate", "0.7"], False),
        ("idle-close-3x1", ["-random", n(120, 1000), "-nodes", "3", "-numconns", "1", "-clients", "3", "-workers", "4", "-round", "60", "-idleclose", "-okbias", "2", "-nodrops"], False),
        # a client that pipelines 2600 queries with 20 KiB answers and reads 1.8 s late (every answer exactly once), and one that
        # never reads and hangs up (everybody else keeps being answered)
        ("slow-readers-2x1", ["-random", n(160, 800), "-nodes", "2", "-numconns", "1", "-clients", "3", "-workers", "4", "-round", "160", "-bigevery", "1",
                              "-slowreaders", "1", "-nonreaders", "1", "-okbias", "8", "-nodrops"], False),
        ("random-calm-4x1", ["-random", n(300, 2000), "-nodes", "4", "-numconns", "1", "-clients", "4", "-workers", "8", "-round", "300", "-delay", "5", "-okbias", "2"], False),
    ]
    # gated replay of the hazard schedules TLC finds on Request.tla (see harness/cmd/vdrv/gates.go)
    plans += [
        ("gated-d8", ["-scenario", "d8"], "gates", "gated-closing-cycle"),
        ("gated-d7", ["-scenario", "d7"], "gates", "gated-retry-same-no-conn"),
        ("gated-d11", ["-scenario", "d11"], "gates", "gated-reprepare-send-fails"),
    ]
    rf.run_property(ctx, "C01", plans, scenario_filter=lambda s: "drop" in s["outcomes"] or len(s["outcomes"]) >= 2, nscen=400, design=True,
                    stages=[lambda c: pendingstage.run(c, "C01"), lambda c: connstage.run(c, "C01")])
