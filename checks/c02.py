"""C02 — a response is delivered only to the request (stream, client) that caused it."""
from checks import pendingstage
from checks import reqfamily as rf


def run(ctx):
    t = ctx.tier == "thorough"
    n = lambda q, th: str(th if t else q)
    plans = [
        # many clients using the same stream ids, responses delayed and reordered
        ("reorder-3x1", ["-random", n(1500, 12000), "-nodes", "3", "-numconns", "1", "-clients", "8", "-workers", "8", "-round", n(750, 3000), "-delay", "8", "-okbias", "6"], False),
        # (every fifth plain answer is about 20 KiB: larger than what the proxy coalesces into one write)
        ("reorder-2x2", ["-random", n(1000, 8000), "-nodes", "2", "-numconns", "2", "-clients", "6", "-workers", "8", "-round", n(500, 2000), "-delay", "8", "-okbias", "6",
                         "-bigevery", "5"], False),
        ("reorder-drops-3x1", ["-random", n(600, 4000), "-nodes", "3", "-numconns", "1", "-clients", "6", "-workers", "6", "-round", "300", "-delay", "5", "-droprate", "0.4", "-okbias", "4"], False),
        # volume: one connection, > 2048 requests outstanding at once (every backend stream id in use, exhaustion crossed),
        # one heartbeat answered after the proxy gave up on it
        ("volume-stall-1x1", ["-random", n(2150, 2300), "-nodes", "1", "-numconns", "1", "-clients", "3", "-workers", n(717, 767), "-round", "2400",
                              "-stall", "3600", "-hold", "4200", "-okbias", "8", "-nodrops"], False),
        # every write is re-encoded by the consistency override: pipelined and retried requests must still carry their own bodies
        ("override-3x1", ["-random", n(600, 4000), "-nodes", "3", "-numconns", "1", "-clients", "4", "-workers", "8", "-round", "300", "-delay", "4",
                          "-override", "-okbias", "2", "-nodrops"], False),
        # short-lived clients hang up with requests in flight while others connect and query
        ("client-churn-3x1", ["-random", n(900, 4000), "-nodes", "3", "-numconns", "1", "-clients", "4", "-workers", "4", "-round", "300", "-delay", "3",
                              "-churn", "12", "-okbias", "4", "-nodrops"], False),
        # requests the proxy answers itself (reads of system.local, one alias each), pipelined in bursts of one write
        # next to forwarded traffic: the proxy's own answers must not be swapped between streams either
        ("local-bursts-3x1", ["-random", n(300, 2000), "-nodes", "3", "-numconns", "1", "-clients", "3", "-workers", "4", "-round", "150", "-delay", "2",
                              "-localbursts", "3", "-okbias", "4", "-nodrops"], False),
        # nodes that stop reading and then lose their connections, with bulky requests queued for them
        ("stall-drops-3x2", ["-random", n(300, 2000), "-nodes", "3", "-numconns", "2", "-clients", "4", "-workers", "6", "-round", "300",
                             "-stalldrops", "6", "-okbias", "6", "-nodrops"], False),
        ("scripted-3x1", ["-nodes", "3", "-numconns", "1", "-clients", "4", "-workers", "4", "-round", "160"], True),
    ]
    rf.run_property(ctx, "C02", plans, nscen=300, stages=[lambda c: pendingstage.run(c, "C02")])
