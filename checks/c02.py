"""C02 — a response is delivered only to the request (stream, client) that caused it."""
from checks import reqfamily as rf


def run(ctx):
    t = ctx.tier == "thorough"
    n = lambda q, th: str(th if t else q)
    plans = [
        # many clients using the same stream ids, responses delayed and reordered
        ("reorder-3x1", ["-random", n(1500, 12000), "-nodes", "3", "-numconns", "1", "-clients", "8", "-workers", "8", "-round", n(750, 3000), "-delay", "8", "-okbias", "6"], False),
        ("reorder-2x2", ["-random", n(1000, 8000), "-nodes", "2", "-numconns", "2", "-clients", "6", "-workers", "8", "-round", n(500, 2000), "-delay", "8", "-okbias", "6"], False),
        ("reorder-drops-3x1", ["-random", n(600, 4000), "-nodes", "3", "-numconns", "1", "-clients", "6", "-workers", "6", "-round", "300", "-delay", "5", "-droprate", "0.4", "-okbias", "4"], False),
        ("scripted-3x1", ["-nodes", "3", "-numconns", "1", "-clients", "4", "-workers", "4", "-round", "160"], True),
    ]
    rf.run_property(ctx, "C02", plans, nscen=300)
