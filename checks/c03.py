"""C03 — forwarded requests and responses are byte-transparent except for stream ids.

Spec: Wire.tla (no override configured).  TLC model-checks Transparent / ReplyTransparent /
WireWellFormed over {QUERY, EXECUTE, BATCH, PREPARE} x statement class x configured maximum version x
accepted version x header-flag subsets x compression (none / lz4 / snappy, frame compressed or not) x
every response shape (every RESULT kind of the request, every error code of the version, flag subsets
tracing / payload / warning, compressed or not) and exports the request table REQ and the response
table RESP.  The check pairs them (every request row several times, response rows round-robin per
version and compression so that every response row is answered at least once; bodies from a few
bytes to 256 KiB / 8 MiB), the driver vdrv-wire sends reference-encoded frames through the in-process
proxy to a two-node fake backend that answers with reference-encoded raw frames, and compares
byte by byte: header version / flags / opcode / length and wire body (compressed bytes as sent) of
what the backend received with what the client sent, and of what the client received with what the
backend sent last.  The oracle is identity.
"""
import collections

from vlib import core
from checks import wirecommon as wc

DESCRIBE = {
    "request-dropped": "the proxy closed the client connection instead of forwarding a well-formed request",
    "request-not-forwarded": "the client got an answer although the backend never received the request",
    "request-undecodable-at-backend": "the backend cannot decode the forwarded frame",
    "request-header-altered": "the backend received another version / flags / opcode than the client sent",
    "request-body-altered": "the backend received other body bytes (or another length) than the client sent",
    "reply-altered": "the client received other flags / opcode / length / body bytes than the backend sent",
    "reply-replaced": "the client received an answer of the proxy's own instead of the backend's RESULT",
}
ERRS_PROXY_MAY_ABSORB = "ERROR"  # a RESULT is never retried; an ERROR may be retried until the plan is exhausted


def classify(x, o):
    st = o["st"]
    if st == "closed":
        return [("request-dropped", "client connection closed, backend received %d frame(s)" % o["natt"])]
    if st == "undecodable":
        return [("request-undecodable-at-backend", o.get("err", ""))]
    if st != "ok":
        return []
    out = []
    if o["natt"] == 0:
        return [("request-not-forwarded", "reply kind %s" % o.get("rkind"))]
    if not o["hdr_same"]:
        out.append(("request-header-altered", ",".join(o.get("hdr_diff") or [])))
    if not o["bytes_same"]:
        out.append(("request-body-altered", "field diff %s, %s" % (o.get("diff"), o.get("wf_why", "body bytes differ"))))
    if o["rst"] == "differs":
        out.append(("reply-altered", o.get("rwhy", "")))
    elif o["rst"] == "proxy_own" and x["resp"]["op"] != ERRS_PROXY_MAY_ABSORB:
        out.append(("reply-replaced", o.get("rwhy", "")))
    return out


def run(ctx):
    thorough = ctx.tier == "thorough"
    res = ctx.tlc_must_pass("Wire", "Wire_c03_%s.cfg" % ("thorough" if thorough else "quick"), timeout=1500, name="wire")
    reqs = wc.extract_rows(res.output, "REQ")
    resps = wc.extract_rows(res.output, "RESP")
    if not reqs or not resps:
        raise core.Inconclusive("TLC exported no rows (REQ=%d RESP=%d)" % (len(reqs), len(resps)))
    rng = wc.rng_for(ctx, 3)
    levels = ["ANY", "ONE", "TWO", "THREE", "QUORUM", "ALL", "LOCAL_QUORUM", "EACH_QUORUM", "SERIAL", "LOCAL_SERIAL", "LOCAL_ONE"]

    # response rows per (version, negotiated compression, request family), shuffled; every request row is
    # run `reps` times, where reps is large enough for the requests of the group to meet every response row
    rgroups = collections.defaultdict(list)
    for r in resps:
        rgroups[(r["ver"], r["comp"], r["for"])].append(r)
    for k in sorted(rgroups):
        rgroups[k].sort(key=lambda r: (r["kind"], r["flags"], r["compressed"]))
        rng.shuffle(rgroups[k])
    qgroups = collections.Counter((q["ver"], q["comp"], "prepare" if q["op"] == "PREPARE" else "data") for q in reqs)
    base = 24 if thorough else 2
    cursor = collections.Counter()
    per_maxv = collections.defaultdict(list)
    for q in sorted(reqs, key=lambda q: (q["maxv"], q["ver"], q["comp"], q["op"], q["sel"], q["compressed"], q["flags"])):
        gk = (q["ver"], q["comp"], "prepare" if q["op"] == "PREPARE" else "data")
        pool = rgroups[gk]
        if not pool:
            raise core.Inconclusive("no response rows for %s" % (gk,))
        reps = max(base, -(-len(pool) // qgroups[gk]))
        for _ in range(reps):
            r = pool[cursor[gk] % len(pool)]
            cursor[gk] += 1
            a, b = rng.random(), rng.random()
            big = 0.015 if thorough else 0.012
            x = {"ver": q["ver"], "op": q["op"], "sel": q["sel"], "flags": q["flags"], "comp": q["comp"],
                 "compressed": q["compressed"], "cons": rng.choice(levels),
                 "size": "L" if a < big else "M" if a < big + 0.1 else "S",
                 "resp": {"kind": r["kind"], "op": r["op"], "flags": r["flags"], "compressed": r["compressed"],
                          "size": ("L" if b < big else "M" if b < big + 0.1 else "S") if r["kind"] in ("rows", "prepared") else "S"},
                 "salt": rng.randrange(1 << 40)}
            per_maxv[q["maxv"]].append((x, q, r))
    jobs, plan = [], {}
    chunk = 400
    for maxv in sorted(per_maxv):
        items = per_maxv[maxv]
        rng.shuffle(items)
        for c in range(0, len(items), chunk):
            part = sorted(items[c:c + chunk], key=lambda t: (t[0]["ver"], t[0]["comp"]))
            env_id = len(jobs) + 1
            for i, (x, q, r) in enumerate(part):
                x["i"] = i + 1
                plan[(env_id, i + 1)] = (x, q, r)
            jobs.append({"env": {"id": env_id, "maxv": maxv, "list": [], "override": "", "nodes": 2},
                         "ex": [x for x, _, _ in part]})

    obs, summ, errs = wc.run_driver(ctx, "c03", jobs, timeout=3000)
    if errs:
        raise core.Inconclusive("driver jobs failed: %s" % "; ".join(errs[:5]))
    missing = [k for k in plan if k not in obs]
    if missing:
        raise core.Inconclusive("%d planned exchanges have no observation" % len(missing))

    failures = collections.defaultdict(list)
    passing, samples = [], []
    req_rows_ok, resp_rows_same, pairs = set(), set(), set()
    reply_states = collections.defaultdict(collections.Counter)
    for k in sorted(plan):
        x, q, r = plan[k]
        o = obs[k]
        if o["st"] in ("generr", "timeout", "noconn", "rejected"):
            continue
        dims = wc.dims_of(x, {"kind": r["kind"], "rtracing": int("TRACING" in r["flags"]), "rpayload": int("PAYLOAD" in r["flags"]),
                                 "rwarning": int("WARNING" in r["flags"]), "rcompressed": int(bool(r["compressed"]))})
        bad = classify(x, o)
        qk = (q["maxv"], q["ver"], q["op"], q["sel"], tuple(q["flags"]), q["comp"], q["compressed"])
        rk = (r["ver"], r["comp"], r["compressed"], r["for"], r["kind"], tuple(r["flags"]))
        if o["st"] == "ok":
            reply_states[r["kind"]][o["rst"]] += 1
        if not bad:
            passing.append(dims)
            req_rows_ok.add(qk)
            if o["rst"] == "same":
                resp_rows_same.add(rk)
                if q["flags"] or q["compressed"] or r["flags"] or r["compressed"] or r["op"] == "ERROR" or x["size"] != "S":
                    pairs.add((qk, rk))
            if len(samples) < 5 and o["rst"] == "same" and (len(samples) < 2 or x["flags"] or x["size"] != "S"):
                samples.append({"maxv": q["maxv"], "request": {k2: x[k2] for k2 in x if k2 != "resp"}, "response": x["resp"],
                                "observed": {"backend_attempts": o["natt"], "request_bytes_same": o["bytes_same"],
                                             "request_header_same": o["hdr_same"], "reply": o["rst"],
                                             "request_frame_bytes": o["sent_len"], "reply_frame_bytes": o["reply_len"]}})
        for what, text in bad:
            failures[what].append((dims, text, {"maxv": q["maxv"], "request": x, "observed": o}))
    primary = ["op", "ver"]
    minor = ["sel", "tracing", "payload", "beta", "compressed", "comp", "kind", "rtracing", "rpayload", "rwarning", "rcompressed"]
    keys = wc.report(ctx, "c03", failures, passing, primary, minor, DESCRIBE)

    infra = wc.infra_failures(obs)
    n_infra = sum(len(v) for v in infra.values())
    executed = len(obs) - n_infra
    all_resp = {(r["ver"], r["comp"], r["compressed"], r["for"], r["kind"], tuple(r["flags"])) for r in resps}
    kinds = sorted({r["kind"] for r in resps})
    never_forwarded = [kd for kd in kinds if reply_states[kd]["same"] == 0]
    ctx.assumptions += [
        "the fake backend and the client use the reference codecs of go-cassandra-native-protocol; compared are raw bytes",
        "protocol v5 is exercised as the library frames it (no v5 segment framing exists in the proxy or in the library frame codec)",
        "an ERROR answer may be absorbed by the proxy's retry policy (the client then gets the proxy's own error or a later "
        "answer of the backend): a client reply that differs from the backend's last answer is accepted only if it is an ERROR "
        "frame that does not carry the request's token; RESULT answers must always arrive unchanged",
        "contents below the abstract row (options, values, payloads, sizes) are seeded-random, not exhaustive; bodies up to "
        + ("8 MiB" if thorough else "256 KiB"),
    ]
    from checks import reqfamily as _rf
    _rf.override_stage(ctx, 'C03', ctx.tier == "thorough")
    _rf.concurrent_replies_stage(ctx, 'C03', ctx.tier == "thorough")
    ctx.write_evidence("exploration", {
        "evaluations": executed,
        "distinct_nontrivial": len(pairs),
        "rule": "every REQ row of the TLC table is run at least %d times, RESP rows round-robin per (version, compression, request "
                "family); distinct_nontrivial = distinct (request row, response row) pairs with flags, compression, an error "
                "answer or a non-small body on which both directions were byte-identical" % base,
        "samples": samples,
        "states": ctx.states, "transitions": ctx.transitions,
        "request_rows": len(reqs), "request_rows_transparent": len(req_rows_ok),
        "response_rows": len(all_resp), "response_rows_delivered_byte_identical": len(resp_rows_same),
        "reply_outcome_by_kind": {kd: dict(reply_states[kd]) for kd in kinds},
        "response_kinds_never_delivered": never_forwarded,
        "configurations_run": len(jobs),
        "disagreeing_exchanges_by_kind": {k: len(v) for k, v in failures.items()},
        "violation_keys": keys,
        "driver": summ,
        "inconclusive_exchanges": {k: len(v) for k, v in infra.items()},
        "exhaustive": False,
    })
    if executed == 0 or n_infra > max(5, 0.01 * len(obs)):
        raise core.Inconclusive("%d of %d exchanges were inconclusive: %s" % (
            n_infra, len(obs), {k: v[:3] for k, v in infra.items()}))
    for kd in ("void", "rows", "schema_change", "prepared"):
        if reply_states[kd]["same"] == 0 and not failures:
            raise core.Inconclusive("no %s answer was ever delivered unchanged (vacuous run)" % kd)
