"""C04 — non-idempotent requests are never re-executed once they may have been applied."""
from checks import reqfamily as rf


def run(ctx):
    t = ctx.tier == "thorough"
    n = lambda q, th: str(th if t else q)
    plans = [
        ("scripted-nonidem-3x1", ["-nodes", "3", "-numconns", "1", "-clients", "2", "-workers", "3", "-round", "80"], True),
        ("scripted-nonidem-2x2", ["-nodes", "2", "-numconns", "2", "-clients", "2", "-workers", "3", "-round", "80"], True),
        # clients that negotiated compression: the backend compresses its answers, errors included
        ("scripted-nonidem-lz4-3x1", ["-nodes", "3", "-numconns", "1", "-clients", "2", "-workers", "3", "-round", "80", "-compression", "lz4"], True),
        ("random-drops-3x1", ["-random", n(500, 4000), "-nodes", "3", "-numconns", "1", "-clients", "3", "-workers", "4", "-round", "150", "-droprate", "0.5", "-okbias", "1"], False),
        # graph requests in every form (traversal text, CQL text and EXECUTE of a prepared statement, all with the graph
        # payload) and prepared statements
        ("random-graph-3x1", ["-random", n(240, 2000), "-kinds", "graph,graph,execute", "-nodes", "3", "-numconns", "1", "-clients", "3", "-workers", "4", "-round", "120", "-okbias", "1", "-nodrops"], False),
        # the proxy runs with --idempotent-graph: graph requests are idempotent, and nothing else is because a graph request
        # went over the same connection before
        ("idempotent-graph-3x1", ["-random", n(240, 2000), "-kinds", "graph,graph,execute,batch", "-nodes", "3", "-numconns", "1", "-clients", "2", "-workers", "4", "-round", "120",
                                  "-idemgraph", "-okbias", "1", "-nodrops"], False),
        # connections closed by the proxy itself (a node falls silent, the idle timeout passes) with requests outstanding
        ("idle-close-3x1", ["-random", n(160, 1200), "-nodes", "3", "-numconns", "1", "-clients", "3", "-workers", "4", "-round", "80", "-idleclose", "-okbias", "2", "-nodrops"], False),
    ]
    rf.run_property(ctx, "C04", plans, scenario_filter=lambda s: not s["idem"], nscen=500)
