"""C05 — retries follow the documented policy, terminate, and fail over to healthy hosts."""
from checks import reqfamily as rf


def run(ctx):
    t = ctx.tier == "thorough"
    plans = [
        ("scripted-3x1", ["-nodes", "3", "-numconns", "1", "-clients", "2", "-workers", "3", "-round", "80"], True),
        ("scripted-3x2", ["-nodes", "3", "-numconns", "2", "-clients", "2", "-workers", "3", "-round", "120"], True),
        ("random-4x1", ["-random", "1500" if t else "300", "-nodes", "4", "-numconns", "1", "-clients", "3", "-workers", "3", "-round", "100", "-okbias", "1"], False),
        ("random-2x1", ["-random", "800" if t else "200", "-nodes", "2", "-numconns", "1", "-clients", "2", "-workers", "2", "-round", "100", "-okbias", "1"], False),
        # clients that negotiated compression: the backend compresses its answers, errors included (the retry decision must
        # not depend on how an error frame is dressed)
        ("scripted-lz4-3x1", ["-nodes", "3", "-numconns", "1", "-clients", "2", "-workers", "3", "-round", "80", "-compression", "lz4"], True),
        ("random-snappy-3x1", ["-random", "1000" if t else "200", "-nodes", "3", "-numconns", "1", "-clients", "2", "-workers", "3", "-round", "100", "-okbias", "1",
                               "-compression", "snappy"], False),
        # connections the proxy gives up itself (a node falls silent, the idle timeout passes) with requests outstanding: to the
        # retry policy that is a lost connection like any other (an idempotent request moves on to the next host)
        ("idle-close-3x1", ["-random", "800" if t else "120", "-nodes", "3", "-numconns", "1", "-clients", "3", "-workers", "4", "-round", "60", "-idleclose", "-okbias", "2", "-nodrops"], False, None,
         # (the proxy's close notification reaches the request before the harness sees the connection go: the order of attempts
         # is not judged in this stage, only what the client is told)
         ["the client received an error of the proxy's own making"]),
        # a pool with one slot empty for half a second (the node is slow to accept the replacement): the host still has a usable
        # connection and must not be skipped
        ("half-pool-2x2", ["-random", "1500" if t else "360", "-nodes", "2", "-numconns", "2", "-clients", "3", "-workers", "4", "-round", "180", "-halfpool", "3",
                           "-okbias", "6", "-nodrops", "-delay", "6"], False),
        ("random-1x2", ["-random", "600" if t else "150", "-nodes", "1", "-numconns", "2", "-clients", "2", "-workers", "2", "-round", "75", "-okbias", "1"], False),
    ]
    rf.run_property(ctx, "C05", plans)
