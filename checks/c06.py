"""C06 — the idempotency classifier (parser.IsQueryIdempotent) is sound, spelling-stable and total.

Spec: Idempotency.tla (decision table).  TLC derives every abstract CQL statement of weight
<= Budget from the abstract grammar (exhaustive BFS of the derivation system) plus seeded random
deep derivations (simulation, large budget), checks the algebra of the three-valued ground truth
(Disjoint / Compositional / Monotone / Roots) and exports one JSON row per complete sentence with
its expected class: F (must be reported not idempotent), T (must be reported idempotent),
O (the statement leaves the verdict open).

Binding: harness/cmd/vdrv-idem renders every row into CQL text in 8 spellings (keyword and
identifier case, blanks / tabs / newlines / tight punctuation, `;`, quoted identifiers, qualified
table, leading white space), calls the real parser.IsQueryIdempotent and compares:
    F => false in every spelling, T => true in every spelling, all spellings agree (also for O).
Totality part (NO TLA+ oracle beyond `Garbage => not idempotent`): byte-level mutants of the
rendered texts and deeply nested input are fed to IsQueryIdempotent and IsQueryHandled; asserted
are only: the call returns, does not panic / crash, and a parse error is never accompanied by
`idempotent`.
"""
import json
import os
import re

from vlib import core

DRV = "vdrv-idem"

# what the exported table must contain for the run to mean anything (vacuity guard)
REQUIRED_REASONS = {"nonidem-call", "lwt", "counter-batch", "counter-update", "list-append-prepend-remove",
                    "ambiguous-col-plus-minus", "list-delete-by-index", "ambiguous-delete-element",
                    "not-select-or-dml", "unparseable"}
REQUIRED_KINDS = {"insert", "update", "delete", "batch:logged", "batch:unlogged", "batch:counter", "select:star",
                  "use", "ddl:create", "json:plain", "values", "if:not-exists", "if:exists", "if:cond",
                  "using:ttl-int", "using:ts-bind",
                  "op:assign", "op:colplus", "op:colminus", "op:termpluscol", "op:pluseq", "op:minuseq", "op:idx", "op:field",
                  "rel:eq", "rel:cmp", "rel:in", "rel:in-bind-pos", "rel:in-bind-named", "rel:tuple-in", "rel:tuple-cmp",
                  "rel:token", "rel:contains", "rel:like", "rel:paren",
                  "delop:col", "delop:idx", "delop:field",
                  "int", "prim:string", "prim:pgstring", "prim:float", "prim:uuid", "prim:duration", "prim:null",
                  "bind:pos", "bind:named", "fn:now", "fn:uuid", "fn:system.now", "fn:system.uuid", "fn:user.now",
                  "fn:other", "fn:other/args", "list", "set", "map", "udt", "tuple", "cast:simple", "cast:param", "colref",
                  "garbage:empty", "garbage:binary", "garbage:unclosed-list", "garbage:insert-no-into"}


def extract_rows(out, fh, seen):
    """ROW lines printed by TLC -> NDJSON (de-duplicated: simulation prints a sentence many times)."""
    n = new = 0
    pre = '<<"ROW", '
    for m in re.finditer(r'^<<"ROW", (".*")>>\s*$', out, flags=re.M):
        n += 1
        inner = json.loads(m.group(1))
        h = hash(inner)
        if h in seen:
            continue
        seen.add(h)
        fh.write(inner + "\n")
        new += 1
    return n, new


def first_bad(sample, dirn):
    vs = sample.get("verdicts") or []
    for t, v in zip(sample["texts"], vs):
        if (dirn == "unsound" and v) or (dirn == "incomplete" and not v):
            return t
    return sample["texts"][0]


def run(ctx):
    thorough = ctx.tier == "thorough"

    # 1. the table: exhaustive derivation of every sentence within the budget + algebra of the ground truth
    res = ctx.tlc_must_pass("Idempotency", "Idempotency_thorough.cfg" if thorough else "Idempotency_quick.cfg",
                            timeout=2400, name="table-exhaustive", heap="14g")
    rows_path = ctx.path("idem_rows.ndjson")
    seen = set()
    with open(rows_path, "w") as fh:
        n_exh, new_exh = extract_rows(res.output, fh, seen)
        res.output = ""
        # 2. seeded random deep derivations (budget 7, width 3)
        sim = ctx.tlc("Idempotency", "Idempotency_sim.cfg", simulate="num=%d" % (6000 if thorough else 1500), depth=100,
                      workers=8, timeout=1500, count=False, name="deep-simulation")
        if not sim.ok or sim.violated:
            raise core.Inconclusive("TLC simulation of Idempotency did not pass (violated=%s error=%s)\n%s" % (
                sim.violated, sim.error, "\n".join(sim.output.splitlines()[-30:])))
        n_sim, new_sim = extract_rows(sim.output, fh, seen)
        ms = re.search(r"(\d+) states checked, (\d+) traces generated", sim.output)
        sim_states, sim_traces = (int(ms.group(1)), int(ms.group(2))) if ms else (0, 0)
        sim.output = ""
    if new_exh == 0 or new_sim == 0:
        raise core.Inconclusive("TLC exported no rows (exhaustive=%d simulated=%d)" % (new_exh, new_sim))

    # 3. replay into the real classifier
    out = ctx.path("idem_result.json")
    n_mut = 1000000 if thorough else 150000
    ctx.drv(["table", "-in", rows_path, "-out", out, "-mutants", str(n_mut)], cmd_name=DRV, timeout=2400)
    r = json.load(open(out))
    outd = ctx.path("idem_deep.json")
    ctx.drv(["deep", "-out", outd, "-forms", "[,(,{,cast,call,udt,casttype" if thorough else "[,(,{,casttype"], cmd_name=DRV, timeout=2400)
    deep = json.load(open(outd))["probes"]

    # 4. vacuity guards (machinery, not verdicts)
    missing = REQUIRED_REASONS - set(r["by_reason"])
    if missing:
        raise core.Inconclusive("table has no row for reasons %s" % sorted(missing))
    missing = REQUIRED_KINDS - set(r["node_kinds_rendered"])
    if missing:
        raise core.Inconclusive("table has no row containing %s" % sorted(missing))
    for c in ("F", "T", "O"):
        if r["by_class"].get(c, 0) < 100:
            raise core.Inconclusive("table has only %d rows of class %s" % (r["by_class"].get(c, 0), c))
    if r["rows_distinct"] != new_exh + new_sim:
        raise core.Inconclusive("driver saw %d rows, TLC exported %d" % (r["rows_distinct"], new_exh + new_sim))
    if r["mutants"]["mutants"] < n_mut:
        raise core.Inconclusive("driver ran only %d mutants" % r["mutants"]["mutants"])

    # 5. verdicts
    expl = {"unsound": "Idempotency.tla requires `not idempotent` (%s) but parser.IsQueryIdempotent answers idempotent",
            "incomplete": "Idempotency.tla requires `idempotent` (plain mutation: literals, bind markers, collection/UDT/tuple "
                          "literals only%s) but parser.IsQueryIdempotent answers not idempotent",
            "unstable": "the answer of parser.IsQueryIdempotent changes with the spelling (case / white space / `;` / quoting)%s"}
    for g in r.get("groups") or []:
        s = g["samples"][0]
        why = ", ".join(sorted(set(s.get("why") or []))) if g["dir"] == "unsound" else ""
        bad = first_bad(s, g["dir"])
        err = ""
        if s.get("errors"):
            err = " [parser error: %s]" % next((e for e in s["errors"] if e), "")
        ctx.violation(g["key"], "%s; %d abstract rows / %d texts, e.g. %r%s" % (
            expl[g["dir"]] % why, g["rows"], g["texts"], bad, err), replay=g)
    for g in r.get("totality_groups") or []:
        s = g["samples"][0]
        ctx.violation(g["key"], "totality (%s): %d inputs, e.g. %r: %s" % (
            g["dir"], g["texts"], s["texts"][0][:300], (s.get("errors") or [""])[0]), replay=g)
    # width: the verdict of a list of sibling terms does not depend on their number (Compositional)
    outw = ctx.path("idem_wide.json")
    ctx.drv(["wide", "-out", outw], cmd_name=DRV, timeout=600)
    wide = json.load(open(outw))["probes"]
    for w in wide:
        if w.get("panic"):
            ctx.violation("total:panic:wide:%s" % w["shape"], "panic on %s with %d sibling terms: %s" % (w["shape"], w["n"], w["panic"]), replay=w)
        elif w["got"] != w["want"]:
            direction = "incomplete" if w["want"] else "unsound"
            ctx.violation("%s:wide:%s" % (direction, w["shape"]),
                          "a statement of shape %s with %d sibling terms%s is classified %s (%s); Idempotency.tla's verdict does not depend on the number of siblings" % (
                              w["shape"], w["n"], " (one of them now())" if w["nonidem_sibling"] else "", "idempotent" if w["got"] else "not idempotent", w.get("err", "")),
                          replay=w)
    ctx.notes["width_probes"] = len(wide)
    fatal = [p for p in deep if p.get("fatal")]
    if fatal:
        p0 = min(fatal, key=lambda p: p["query_bytes"])
        ctx.violation("total:fatal-crash:deep-nesting",
                      "the process running parser.IsQueryIdempotent dies (%s) on deeply nested input: %d forms, smallest: "
                      "%r repeated %d times in %s (%d bytes); a Go stack overflow cannot be recovered, the proxy exits" % (
                          p0["fatal"], len(fatal), p0["form"], p0["depth"], p0["template"], p0["query_bytes"]),
                      replay={"probes": fatal, "how": "vdrv-idem deepchild -template %s -form '%s' -depth %d" % (
                          p0["template"], p0["form"], p0["depth"])})
    for p in deep:
        if p.get("panic"):
            ctx.violation("total:panic:deep-nesting", "panic on %r x %d: %s" % (p["form"], p["depth"], p["panic"]), replay=p)
        elif p.get("returned") and p.get("error") and p.get("idempotent"):
            ctx.violation("total:parse-error-but-idempotent", "deep nesting %r x %d" % (p["form"], p["depth"]), replay=p)

    # 6. evidence
    ctx.assumptions += [
        "the concretiser (harness/cmd/vdrv-idem/render.go) renders an abstract sentence into CQL text of exactly that shape; "
        "all spellings of a row are spellings of the same statement under the CQL lexical rules",
        "expected classes are transcribed from the property statement and the parser package's documentation comments; "
        "function calls other than now()/uuid(), casts, `col +/- primitive literal`, relations that are not valid in the WHERE "
        "clause of a mutation and truncated statements are left open (class O: only spelling stability is asserted)",
        "bounded: exhaustive up to derivation weight %d (collections / argument lists / batches of at most 2), random "
        "derivations up to weight 7 and width 3" % (3 if thorough else 2),
        "totality on arbitrary bytes and on deep nesting has no TLA+ oracle beyond `Garbage => not idempotent`: only "
        "`returns / does not panic or crash / parse error => not idempotent` is asserted there",
    ]
    m = r["mutants"]
    ctx.write_evidence("exploration", {
        "evaluations": r["texts"] + m["mutants"] + len(deep),
        "distinct_nontrivial": r["rows_nontrivial_distinct"],
        "rule": "rows = complete sentences of the abstract CQL grammar of Idempotency.tla, enumerated exhaustively by TLC (BFS over "
                "the derivation system) up to the weight budget and sampled by seeded TLC simulation beyond it; each row carries the "
                "class computed by the specification; a row is non-trivial if it deviates from the minimal statement of its kind "
                "(weight >= 1) and distinct if its canonical rendering is distinct; evaluations = calls of IsQueryIdempotent on "
                "rendered texts (rows x %d spellings) + byte-level mutants + deep-nesting probes" % len(r["spellings"]),
        "exhaustive": True,
        "samples": r["samples"][:6],
        "tlc_states": ctx.states,
        "tlc_transitions": ctx.transitions,
        "rows_exhaustive": new_exh,
        "rows_simulated_new": new_sim,
        "rows_simulated_printed": n_sim,
        "simulation_traces": sim_traces,
        "simulation_states_checked": sim_states,
        "rows_by_class": r["by_class"],
        "rows_by_kind_and_class": r["by_kind_class"],
        "rows_by_reason_must_be_false": r["by_reason"],
        "rows_by_weight": r["by_cost"],
        "max_term_depth": r["max_term_depth"],
        "node_kinds_rendered": r["node_kinds_rendered"],
        "distinct_edge_features": r["distinct_edge_features"],
        "spellings": r["spellings"],
        "texts": r["texts"],
        "texts_distinct": r["texts_distinct"],
        "class_vs_answer_texts": r["class_verdict_texts"],
        "open_rows": {"reported_idempotent": r["open_rows_reported_idempotent"],
                      "reported_not_idempotent": r["open_rows_reported_not_idempotent"],
                      "asserted": "spelling stability only"},
        "disagreement_groups": [{"key": g["key"], "rows": g["rows"], "texts": g["texts"]} for g in r.get("groups") or []],
        "totality": {
            "oracle": "NONE beyond `Garbage => not idempotent`: no TLA+ verdict exists for a mutant; asserted are only "
                      "`returns (20 s watchdog) / no panic / no crash / parse error => not idempotent` for IsQueryIdempotent and "
                      "`returns / no panic` for IsQueryHandled",
            "mutants": m["mutants"], "mutants_distinct": m["distinct"], "by_operator": m["by_op"],
            "non_utf8": m["non_utf8"], "parse_errors": m["parse_errors"],
            "accepted_idempotent": m["accepted_idempotent"], "accepted_not_idempotent": m["accepted_not_idempotent"],
            "is_query_handled_calls": m["is_query_handled_calls"],
            "mutant_samples": m["samples"][:4],
            "deep_nesting_probes": [{k: p[k] for k in ("form", "template", "depth", "query_bytes", "returned", "millis") if k in p}
                                    | ({"fatal": p["fatal"]} if p.get("fatal") else {}) for p in deep],
            "groups": [{"key": g["key"], "inputs": g["texts"]} for g in r.get("totality_groups") or []],
        },
    })


def replay(path):
    """Re-classify the sample texts of a recorded violation with the current tree."""
    d = json.load(open(path))
    g = d.get("replay") or {}
    ctx = core.Ctx("C06", d.get("tier", "quick"), int(d.get("seed") or 1))
    try:
        if "probes" in g:  # deep nesting
            p = g["probes"][0]
            rc, so, se = ctx.drv(["deepchild", "-template", p["template"], "-form", p["form"], "-depth", str(p["depth"])],
                                 cmd_name=DRV, check=False, timeout=600)
            msg = next((l for l in se.splitlines() if "fatal error" in l or "panic" in l), "")
            print("deepchild %r x %d in %s: rc=%d %s" % (p["form"], p["depth"], p["template"], rc, msg or so[:300]))
            return 1 if rc != 0 else 0
        texts, want = [], []
        for s in g.get("samples") or []:
            for t in s["texts"]:
                texts.append(t)
                want.append(s.get("expected"))
        tin, tout = ctx.path("replay_in.json"), ctx.path("replay_out.json")
        json.dump(texts, open(tin, "w"))
        ctx.drv(["classify", "-in", tin, "-out", tout], cmd_name=DRV)
        bad = 0
        for o, w in zip(json.load(open(tout)), want):
            wrong = (w == "F" and o["idempotent"]) or (w == "T" and not o["idempotent"]) or o.get("panic") \
                or (o.get("error") and o["idempotent"])
            bad += 1 if wrong else 0
            print("%s expected=%s idempotent=%s error=%s  %r" % ("BAD" if wrong else "ok ", w, o["idempotent"],
                                                                   o.get("error"), o["text"][:200]))
        print("%d of %d texts still disagree with the specification (key %s)" % (bad, len(texts), d.get("key")))
        return 1 if bad else 0
    finally:
        ctx.cleanup()
