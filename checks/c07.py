"""C07 — requests run in the client's current keyspace, protocol version and compression.

Spec: Session.tla (USE as the code's critical sections: look-up under the read lock, write lock, ConnectSession's
Listen / per-host pool connect / close(connected) / select, store, reply; concurrent clients; explicit table lock)
model-checked by TLC for ForwardInClientKs, OnlyValidKs, NoBrokenSession, FailedUseKeepsKs, Isolation, UseAnswered.  Binding: seeded histories
of USE (valid, quoted, mixed-case, non-existent) and data requests over concurrent clients with different
versions/compressions - including every client switching to the same new keyspace at the same instant, and a gated
schedule of Session.tla's UseConnect in which every pool has failed before the creator of the session looks at the
outcome - are run against the real proxy; the fake backend records keyspace / version / compression of the connection every
data request arrives on; TLC validates the trace against TraceSession.tla.
"""
import json
import os
import re

from vlib import core

USE_RE = re.compile(r"^use\|(.*)\|(True|False|true|false)$")


def normalise(raw):
    out = []
    rounds, cur = [], []
    for e in raw:
        cur.append(e)
        if e["ev"] in ("Quiet", "NotQuiet"):
            rounds.append(cur)
            cur = []
    if cur:
        rounds.append(cur)
    nreq = 0
    nuse = 0
    for rnd in rounds:
        out.append({"ev": "Reset"})
        tok2r = {}
        pending_use = {}
        pending_data = {}
        started = False
        for e in rnd:
            ev = e["ev"]
            if ev == "Hello":
                out.append({"ev": "Hello", "c": e["c"], "ver": e["ver"], "comp": e["comp"]})
            elif ev == "ScenarioStart":
                started = True
            elif not started:
                continue
            elif ev == "ClientSend":
                m = USE_RE.match(e.get("class", ""))
                if m:
                    nuse += 1
                    pending_use[(e["c"], e["stream"])] = True
                    out.append({"ev": "Use", "c": e["c"], "folded": m.group(1), "valid": m.group(2).lower() == "true"})
                elif e.get("class") == "data":
                    nreq += 1
                    tok2r[e["t"]] = nreq
                    pending_data[(e["c"], e["stream"])] = nreq
                    out.append({"ev": "Submit", "c": e["c"], "r": nreq})
            elif ev == "ClientRecv":
                if (e["c"], e["stream"]) in pending_data:
                    out.append({"ev": "DataReply", "r": pending_data.pop((e["c"], e["stream"])), "kind": e["kind"]})
                elif pending_use.pop((e["c"], e["stream"]), None):
                    msg = e.get("msg", "")
                    out.append({"ev": "UseReply", "c": e["c"], "kind": e["kind"], "ks": e.get("setks", ""),
                                "msgok": "does not exist" in msg})
            elif ev == "BackendRecv" and e.get("t") in tok2r:
                out.append({"ev": "Take", "r": tok2r[e["t"]], "ks": e.get("ks", ""), "ver": e.get("ver", 0), "comp": e.get("comp", "")})
    return out, nreq, nuse


def run(ctx):
    t = ctx.tier == "thorough"
    ctx.tlc_must_pass("SessionMC", "SessionMC_quick.cfg", timeout=1500, name="mc")
    ctx.tlc_must_pass("SessionMC", "SessionMC_live.cfg", timeout=900, workers=4, name="mc-liveness")
    # sensitivity: with the pinned tree's select (a ready `connected` may win over a pending failure) the model must
    # exhibit the broken session that the gated schedule reproduces on the code
    r = ctx.tlc("SessionMC", "SessionMC_pinned_select.cfg", timeout=600, workers=4, count=False, name="sensitivity-select")
    ctx.notes["design_model_sensitivity"] = {"select_ignores_failure": r.violated}
    if not r.violated:
        raise core.Inconclusive("Session.tla lost its sensitivity to the ConnectSession select hazard")
    for cfg, what in (("SessionMC_hazard_reopen.cfg", "reopen_forgets_keyspace"), ("SessionMC_hazard_faillock.cfg", "failed_use_keeps_lock")):
        r = ctx.tlc("SessionMC", cfg, timeout=600, workers=4, count=False, name="sensitivity-" + what)
        ctx.notes["design_model_sensitivity"][what] = r.violated
        if not r.violated:
            raise core.Inconclusive("Session.tla lost its sensitivity to the hazard %s" % what)
    if t:
        ctx.tlc_must_pass("SessionMC", "SessionMC_thorough.cfg", timeout=3000, name="mc")
    raw = ctx.path("raw-session.ndjson")
    stats = ctx.path("stats-session.json")
    ctx.drv(["session", "-rounds", "12" if t else "3", "-clients", "6", "-steps", "30" if t else "14", "-nodes", "2",
             "-gated", "40" if t else "12", "-out", raw, "-stats", stats], timeout=1500)
    st = json.load(open(stats))
    events, nreq, nuse = normalise(core.read_ndjson(raw))
    if st.get("Gated", 0) < (6 if not t else 20):
        raise core.Inconclusive("the gated USE schedule could not be forced (%s of the attempts)" % st.get("Gated"))
    if nreq < 10 or nuse < 5:
        raise core.Inconclusive("driver produced too few operations (%d data, %d USE)" % (nreq, nuse))
    v = core.validate_trace(ctx, "TraceSession", events, {}, name="session")
    for b in v["bad"]:
        if b["p"] == "HARNESS":
            raise core.Inconclusive("trace inconsistent with the harness model: %s" % b)
        at = b.get("at", 0)
        window = events[max(0, at - 12):at + 1]
        key = "C07:" + re.sub(r"[^a-z0-9]+", "-", b["what"].lower()).strip("-")[:70]
        ctx.violation(key, b["what"], replay={"violation": b, "events": window})
    # a node joins when the clients' sessions (plain and lz4 / snappy) already exist: requests of a compressed client that
    # reach the new node must travel on connections of the client's own session (RequestObs: DoTake compares the session
    # of the connection with the session of the request)
    from checks import reqfamily as rf
    late = {}
    for comp, nq in (("lz4", 2000 if t else 200), ("snappy", 1000 if t else 120)):
        name = "late-node-%s-3x1" % comp
        lv, lst, reqinfo, _ = rf.run_traces(ctx, name, ["-random", str(nq), "-nodes", "3", "-numconns", "1", "-clients", "3", "-workers", "3",
                                                        "-round", "100", "-lateaddnode", "-compression", comp, "-okbias", "3"], sub="req")
        rf.report(ctx, lv, reqinfo, "C07", lv["events"], tag=name)
        late[name] = {"events": lv["total"], "requests": len(reqinfo)}
    ctx.notes["late_node_stages"] = late
    ctx.assumptions += ["the fake backend implements USE with CQL identifier folding and a fixed keyspace set; a failed USE is recognised by the "
                        "backend's message text ('does not exist') in the proxy's error, not by its error code"]
    ctx.write_evidence("model_checking", {
        "traces_validated_against_impl": st["Rounds"],
        "samples": events[:25],
        "use_statements": nuse,
        "data_requests": nreq,
        "trace_events_validated": v["total"],
        "driver_stats": st,
    })
