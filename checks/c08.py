"""C08 — prepared statements execute on every backend host without client involvement.

The prepare path is part of RequestObs (unprepared -> re-prepare on the same connection -> re-execute on the same
host; failed re-prepare -> next host; UNPREPARED never reaches the client while the statement is cached).  Scenario
families: hosts that never saw the PREPARE (every setup PREPARE reaches one host only), scripted UNPREPARED with
re-prepare ok / error / connection loss, node restarts (statements forgotten), a node that joins after start-up,
lz4 and snappy sessions.
"""
from checks import reqfamily as rf


def run(ctx):
    t = ctx.tier == "thorough"
    n = lambda q, th: str(th if t else q)
    ex = ["-kinds", "execute,batch,execute"]
    plans = [
        ("scripted-exec-3x1", ["-nodes", "3", "-numconns", "1", "-clients", "2", "-workers", "3", "-round", "100"], True, "plain"),
        ("random-exec-3x2", ["-random", n(300, 2000), "-nodes", "3", "-numconns", "2", "-clients", "3", "-workers", "3", "-round", "150"] + ex, False, "plain"),
        ("restarts-3x1", ["-random", n(300, 2000), "-nodes", "3", "-numconns", "1", "-clients", "3", "-workers", "3", "-round", "100", "-restarts", "4"] + ex, False, "restart"),
        ("addnode-3x1", ["-random", n(240, 1500), "-nodes", "3", "-numconns", "1", "-clients", "3", "-workers", "3", "-round", "120", "-addnode"] + ex, False, "addnode"),
        ("addnode-2x2", ["-random", n(160, 1000), "-nodes", "2", "-numconns", "2", "-clients", "2", "-workers", "3", "-round", "80", "-addnode"] + ex, False, "addnode"),
        ("lz4-3x1", ["-random", n(240, 1500), "-nodes", "3", "-numconns", "1", "-clients", "3", "-workers", "3", "-round", "120", "-compression", "lz4"] + ex, False, "compressed"),
        ("snappy-3x1", ["-random", n(160, 1000), "-nodes", "3", "-numconns", "1", "-clients", "2", "-workers", "3", "-round", "80", "-compression", "snappy"] + ex, False, "compressed"),
    ]
    # the statements were prepared first by a client of a session with other settings (lz4), then by the plain clients: a
    # re-PREPARE must be the statement in the form of the connection it is sent on
    plans.append(("mixed-compression-3x1", ["-random", n(160, 1000), "-nodes", "3", "-numconns", "1", "-clients", "2", "-workers", "3", "-round", "80",
                                            "-precompression", "lz4"] + ex, False, "mixed-compression"))
    # ... and the other way round: a client of another session (lz4, or protocol version 3) prepares the statements last
    plans.append(("mixed-compression-last-3x1", ["-random", n(120, 800), "-nodes", "3", "-numconns", "1", "-clients", "2", "-workers", "3", "-round", "60",
                                                 "-postcompression", "lz4"] + ex, False, "mixed-compression"))
    plans.append(("mixed-version-last-3x1", ["-random", n(120, 800), "-nodes", "3", "-numconns", "1", "-clients", "2", "-workers", "3", "-round", "60",
                                             "-postcompression", "v3"] + ex, False, "mixed-version"))
    # nodes that forget a statement after two executions, many clients: re-preparations of the same statement run on
    # several connections at the same moment
    plans.append(("reprepare-storm-3x2", ["-random", n(700, 4000), "-kinds", "execute", "-nodes", "3", "-numconns", "2", "-clients", "8", "-workers", "8", "-round", "700",
                                          "-evict", "2", "-okbias", "8", "-nodrops"], False, "storm"))
    plans.append(("gated-d11", ["-scenario", "d11"], "gates", "gated-reprepare-send-fails"))
    # the host becomes unusable exactly between the answer to a re-PREPARE and the re-execution (reached through the proxy's
    # own PreparedCache interface): the request moves on, it never hangs
    import json as _json
    rx = ctx.path("reexec.json")
    ctx.drv(["reexec", "-out", rx, "-rounds", "6" if t else "2"], timeout=600)
    rxr = _json.load(open(rx))
    if rxr["rounds_in_which_the_moment_was_reached"] == 0:
        raise rf.core.Inconclusive("reexec: the moment between re-prepare and re-execution was never reached: %s" % rxr.get("observations"))
    for h in rxr.get("hung") or []:
        ctx.violation("C08:request-hangs-after-its-statement-was-re-prepared-never-re-e@host-lost-before-re-execution", h, replay=rxr)
    ctx.notes["reexec"] = {k: rxr[k] for k in rxr if k != "hung"}
    rf.run_property(ctx, "C08", plans, scenario_filter=lambda s: "unprepared" in s["outcomes"], nscen=300)
