"""C09 — only USE and genuine system-table SELECTs are answered by the proxy itself.

Spec: Intercept.tla — a decision table (current keyspace x keyspace qualifier x table spelling x
statement shape/kind) run through a small model of one client connection (USE to establish the
keyspace; the statement as QUERY, as PREPARE+EXECUTE, as PREPARE, USE <keyspace of the other
kind>, EXECUTE, and as QUERY after a second successful or failed USE).  TLC checks the table's sanity properties (NeverForwardSystemLocalOrPeers,
UserKeyspaceForwarded, OnlyUseAndSelectLocal, LookAlikeForwarded, QualifierWins,
Keyspace/TableSpellingIrrelevant, ExecuteFollowsPrepare) and exports every complete behaviour
with the expected disposition (local | forward) of every step.

Binding (driver harness/cmd/vdrv-intercept):
  (a) every QUERY/PREPARE step in seven spellings (keyword case, white space also around the dot,
      trailing semicolon) into parser.IsQueryHandled(parser.IdentifierFromString(ks), text);
  (b) behaviours replayed on the in-process proxy against the fake backend: a step is forwarded
      iff a backend frame arrives between the client's send and receive, local iff the client is
      answered without any backend frame (and its token never reaches the backend later).
      quick: a stratified seeded half of the behaviours; thorough: all of them.
"""
import json
import os

from vlib import core

PRE = '<<"BEH", '


def extract(out, path):
    n = 0
    with open(path, "w") as f:
        for line in out.splitlines():
            if line.startswith(PRE) and line.endswith(">>"):
                f.write(json.loads(line[len(PRE):-2]) + "\n")
                n += 1
    return n


def base(g):
    return "kind=%s,curks=%s,qual=%s,table=%s" % (g["kind"], g["cc"], g["qc"], g["tc"])


def run(ctx):
    thorough = ctx.tier == "thorough"
    res = ctx.tlc_must_pass("Intercept", "Intercept_thorough.cfg" if thorough else "Intercept_quick.cfg",
                            timeout=1500, name="table+dispatch")
    beh = ctx.path("intercept_behaviours.jsonl")
    n_beh = extract(res.output, beh)
    if n_beh == 0:
        raise core.Inconclusive("no behaviours exported by TLC")
    out = ctx.path("intercept_result.json")
    frac = "1" if thorough else "0.5"
    ctx.drv(["-in", beh, "-out", out, "-e2e", frac, "-workers", str(min(core.NCPU, 8))],
            cmd_name="vdrv-intercept", timeout=1800)
    r = json.load(open(out))
    fn, e2e, mism = r["fn"], r["e2e"], r["mismatches"] or []
    if r["behaviours"] != n_beh or fn["render_mismatch"]:
        raise core.Inconclusive("driver read %s of %d behaviours, %s steps whose text is not pre+ref+post" % (
            r["behaviours"], n_beh, fn["render_mismatch"]))

    # ---- violations, grouped under one key per abstract shape (cause), not per input
    all_variants = set(fn["variant_totals"].keys())
    found = {}   # key -> {"text": [...], "replay": {...}}

    def add(key, text, g):
        f = found.setdefault(key, {"text": [], "replay": {"groups": []}})
        f["text"].append(text)
        f["replay"]["groups"].append(g)

    fn_causes = {}
    for g in mism:
        if g["stage"] != "fn":
            continue
        cause = (g["kind"], g["cc"], g["qc"], g["tc"], g["want"], g["got"])
        ex = g["examples"][0]
        what = ("parser.IsQueryHandled(keyspace %r, %r) says %s where the specification says %s "
                "(%d inputs of this shape: %d statement shapes, spellings %s)" % (
                    ex["ks"], ex["text"], g["got"], g["want"], g["count"], len(g["shapes"]), sorted(g["variants"])))
        if g["got"] == "panic":
            add("intercept:panic," + base(g), what + " " + ex.get("detail", ""), g)
            continue
        k = "intercept:%s,want=%s,got=%s" % (base(g), g["want"], g["got"])
        cls_shapes = set((fn["class_totals"].get("|".join([g["kind"], g["cc"], g["qc"], g["tc"], g["want"]])) or {}).keys())
        keys = [k]
        if set(g["shapes"].keys()) != cls_shapes:          # only some statement shapes fail
            keys = [k + ",shape=" + s for s in sorted(g["shapes"])]
        if set(g["variants"].keys()) != all_variants:      # only some spellings fail
            keys = [kk + ",spelling=" + v for kk in keys for v in sorted(g["variants"])]
        for kk in keys:
            add(kk, what, g)
        fn_causes[cause] = keys
    # end-to-end mismatches without a function-level counterpart that cut across many statement
    # classes have a cause that is independent of the statement (e.g. the connection's keyspace
    # after a second USE): one key per (operation, submission paths, verdicts)
    across = {}
    for g in mism:
        if g["stage"] == "e2e" and (g["kind"], g["cc"], g["qc"], g["tc"], g["want"], g["got"]) not in fn_causes:
            across.setdefault((g["op"], ",".join(sorted(g["vias"])), g["want"], g["got"]), []).append(g)
    collapsed = set()
    for (op, vias, want, got), gs in sorted(across.items()):
        if len(gs) > 6:
            ex = gs[0]["examples"][0]
            add("dispatch:op=%s,via=%s,want=%s,got=%s,classes=many" % (op, vias, want, got),
                "end to end (%s): %s of statements of %d classes answered %s where the specification says %s, e.g. %r with "
                "current keyspace %r (%s)" % (vias, op, len(gs), got, want, ex["text"], ex["ks"], ex.get("detail", "")),
                {"groups": [{k: g[k] for k in ("op", "kind", "cc", "qc", "tc", "want", "got", "count", "vias")} for g in gs],
                 "example": ex})
            collapsed.update(id(g) for g in gs)
    for g in mism:
        if g["stage"] != "e2e" or id(g) in collapsed:
            continue
        cause = (g["kind"], g["cc"], g["qc"], g["tc"], g["want"], g["got"])
        ex = g["examples"][0]
        what = ("end to end: %s of %r with current keyspace %r was answered %s where the specification says %s "
                "(%d steps; %s)" % (g["op"], ex["text"], ex["ks"], g["got"], g["want"], g["count"], ex.get("detail", "")))
        if cause in fn_causes:
            for kk in fn_causes[cause]:
                add(kk, what, g)
        elif g["op"] == "EXECUTE" and (g["kind"], g["cc"], g["qc"], g["tc"]) in [(c[0], c[1], c[2], c[3]) for c in fn_causes]:
            # EXECUTE follows a PREPARE of a class that is already mis-dispatched at function level
            for c, keys in fn_causes.items():
                if c[:4] == (g["kind"], g["cc"], g["qc"], g["tc"]):
                    for kk in keys:
                        add(kk, what, g)
        else:
            add("dispatch:op=%s,%s,want=%s,got=%s" % (g["op"], base(g), g["want"], g["got"]), what, g)
    for ex in e2e.get("late_forward") or []:
        add("dispatch:late-backend-frame", "a step answered locally was nevertheless received by the backend later: %r" % ex["text"], ex)

    for key in sorted(found):
        f = found[key]
        ctx.violation(key, " | ".join(f["text"][:4]), replay=f["replay"])

    # ---- observations outside the statement of C09 (reported, never a verdict unless asked for)
    obs = r["observations"]
    # A system.local / system.peers read that is forwarded because a CQL comment hides it from the proxy's lexer breaks
    # "reads of system.local/system.peers are never forwarded": reported, one key per comment form (set
    # VERIF_C09_LEXICAL=off to only record the observation).
    if os.environ.get("VERIF_C09_LEXICAL") != "off":
        byform = {}
        for g in obs["groups"]:
            if g["want"] == "local" and g["got"] == "forward":
                byform.setdefault(g["op"], []).append(g)
        for form, gs in sorted(byform.items()):
            ex = gs[0]["examples"][0]
            ctx.violation("intercept:lexical=%s:system-table-select-forwarded" % form,
                          "a SELECT on a system table containing a %s is not recognised and is forwarded to the backend, e.g. "
                          "IsQueryHandled(%r, %r)" % (form.replace("_", " "), ex["ks"], ex["text"]),
                          replay={"form": form, "groups": gs[:6]})

    # ---- vacuity: every class of interest was really exercised
    need = [(cc, qc, tc) for cc in ("none", "system", "user") for qc in ("absent", "system", "user")
            for tc in ("systable", "lookalike", "user")]
    fn_cls = {}
    for k, shapes in fn["class_totals"].items():
        kind, cc, qc, tc, want = k.split("|")
        if kind == "SELECT":
            fn_cls[(cc, qc, tc)] = fn_cls.get((cc, qc, tc), 0) + sum(shapes.values())
    e2e_cls, e2e_ops = {}, {}
    for k, n in e2e["class_counts"].items():
        op, kind, cc, qc, tc, want = k.split("|")
        e2e_ops[(op, want)] = e2e_ops.get((op, want), 0) + n
        if kind == "SELECT" and op in ("QUERY", "PREPARE"):
            e2e_cls[(op, cc, qc, tc)] = e2e_cls.get((op, cc, qc, tc), 0) + n
    missing = [c for c in need if not fn_cls.get(c)]
    missing += [(op,) + c for c in need for op in ("QUERY", "PREPARE") if not e2e_cls.get((op,) + c)]
    missing += [x for x in [("QUERY", "local"), ("QUERY", "forward"), ("PREPARE", "local"), ("PREPARE", "forward"),
                            ("EXECUTE", "local"), ("EXECUTE", "forward")] if not e2e_ops.get(x)]
    missing += [v for v in ("query", "prepare", "prepare_switch", "switch_query", "faileduse_query", "prepare_reqks") if not e2e["via_counts"].get(v)]
    kinds = {k.split("|")[0] for k in fn["class_totals"]}
    missing += [k for k in ("USE", "SELECT", "INSERT", "UPDATE", "DELETE", "DDL", "BATCH", "TRUNCATE", "GARBAGE") if k not in kinds]

    ctx.assumptions += [
        "the virtualised tables are local, peers, peers_v2, schema_keyspaces, schema_columnfamilies, schema_columns, "
        "schema_usertypes (parser/metadata.go); other legacy schema_* names are not asserted",
        "statement spellings vary keyword case, white space (space, tab, LF, CRLF; also around the dot) and a trailing "
        "semicolon; CQL comments and a lone CR are exercised as observations only (outside the quantifier of C09)",
        "end to end runs use protocol v4 (the token travels in the custom payload), one backend node, one connection "
        "per session; the fake backend accepts every statement; malformed SELECT/USE statements are not asserted",
        "the content of locally produced answers (e.g. 'Doesn't exist' for system.LOCAL, D5b) is C10's business",
    ]
    samples = (fn.get("samples") or [])[:4] + (e2e.get("samples") or [])[:3]
    ctx.write_evidence("exploration", {
        "evaluations": fn["evaluations"] + e2e["ops"],
        "distinct_nontrivial": fn["steps_nontrivial"],
        "rule": "every row of Intercept.tla's table (current keyspace x qualifier x table spelling x statement shape; "
                "USE; non-SELECT kinds) x {QUERY, PREPARE+EXECUTE, PREPARE+USE+EXECUTE, USE+QUERY, failed USE+QUERY}; function level: every distinct "
                "(keyspace, statement) in 7 spellings; end to end: %s of the behaviours, stratified by class; a distinct "
                "(keyspace, statement text) is non-trivial when it is a USE or mentions a system keyspace or a "
                "system-table / look-alike name" % ("all" if thorough else "a seeded half"),
        "samples": samples,
        "exhaustive": True,
        "states": ctx.states, "transitions": ctx.transitions,
        "traces_validated_against_impl": e2e["behaviours"],
        "behaviours_exported": n_beh,
        "function_level": {k: fn[k] for k in ("steps_distinct", "steps_nontrivial", "evaluations", "panics", "variant_totals")},
        "function_level_select_classes": {"/".join(k): v for k, v in sorted(fn_cls.items())},
        "end_to_end": {k: e2e[k] for k in ("behaviours", "ops", "local", "forward", "noreply", "mismatch_total",
                                           "prepare_answered_with_error_no_execute", "via_counts", "reply_kinds")},
        "end_to_end_ops_by_expectation": {"/".join(k): v for k, v in sorted(e2e_ops.items())},
        "mismatch_groups": [{k: g[k] for k in ("stage", "op", "kind", "cc", "qc", "tc", "want", "got", "count")} for g in mism],
        "observations_outside_statement": {
            "lexical_forms_evaluated": obs["totals"],
            "lexical_disagreements": [{k: g[k] for k in ("op", "cc", "qc", "tc", "want", "got", "count")} | {"example": g["examples"][0]["text"]}
                                      for g in obs["groups"]],
            "lexical_end_to_end": obs["e2e"],
            "intercepted_but_answered_doesnt_exist": {"count": e2e["doesnt_exist"], "examples": e2e["doesnt_exist_examples"]},
            "promoted_to_violations": os.environ.get("VERIF_C09_LEXICAL") != "off",
        },
    })
    if missing:
        raise core.Inconclusive("classes not exercised: %s" % missing[:10])
    if e2e["noreply"]:
        raise core.Inconclusive("%d end-to-end steps got no reply (not a C09 verdict)%s: %s" % (
            e2e["noreply"], ", run cut short" if e2e.get("aborted") else "", e2e["noreply_examples"][:2]))
    if e2e["token_anomalies"]:
        raise core.Inconclusive("forwarded steps answered without their token: %s" % e2e["token_anomalies"][:2])
