"""C10 — virtual system.local / system.peers present a correct, mutually consistent ring.

Spec: SystemTables.tla (decision tables).  TLC
  (1) enumerates every proxy-group configuration in bounds (peer lists in every order, with and
      without the proxy's own entry, data centers none/all/mixed, tokens none/all, DSE or not) with
      the ring every proxy has to present, checking OneLocalRow / PeersAreOthers / TokensDistinct /
      HostIdsInjective / Agreement on the table, and
  (2) enumerates the SELECTs (selector lists over the advertised columns, aliases, *, count, now,
      spellings of the identifiers) with the projection each has to produce, checking
      ProjectionShape / DseColumn,
and exports both tables.  harness/cmd/vdrv-systables starts one real in-process proxy per proxy of
every configuration (sharing one fake backend), sends every SELECT as QUERY and as PREPARE+EXECUTE,
decodes the rows with the reference datacodec under the advertised column types and compares with
the specification's rows; rings of proxies that share a list are compared with each other.

A disagreement is keyed by the check that failed plus the smallest set of abstract features
(selector kinds, spellings, table, DSE, request kind, configuration class) such that every executed
case with these features fails, so one cause gives one key.
"""
import itertools
import json
import os
import random

from vlib import core


def extract(out, tag):
    pre = '<<"%s", ' % tag
    rows = []
    for line in out.splitlines():
        if line.startswith(pre) and line.endswith(">>"):
            rows.append(json.loads(json.loads(line[len(pre):-2])))
    return rows


def cfg_class(c):
    role = "outsider" if c["self"] else ("norpc" if not c["list"] else "selfin")
    n = len(c["list"])
    return (role, c["dcm"], c["tokm"], c["dse"], n if n <= 5 else "big")


MIN_SUPPORT = 4


def attribute(check, sigs, maxsize=3):
    """sigs: {signature: {"pass": n, "fail": m, "sample": ...}} -> {key: [fail count, sample, n signatures, size]}.
    A feature set S is *pure* when no executed case whose signature contains S passed.  Failing
    signatures are covered greedily by pure sets (largest number of failing cases first, then the
    smaller set, then lexicographic order); the key names the covering set.  Sets supported by fewer
    than MIN_SUPPORT failing abstract shapes, and signatures that both passed and failed, are
    reported together under `<check>:sometimes:<features common to all of them>`."""
    feats_of = {s: frozenset(f for f in s.split(",") if f) for s in sigs}
    passing = [feats_of[s] for s, c in sigs.items() if c["pass"] > 0]
    bit = {}
    for i, p in enumerate(passing):
        for f in p:
            bit[f] = bit.get(f, 0) | (1 << i)
    allbits = (1 << len(passing)) - 1
    cache = {}

    def pure(S):
        if S not in cache:
            m = allbits
            for f in S:
                m &= bit.get(f, 0)
                if not m:
                    break
            cache[S] = (m == 0)
        return cache[S]

    out = {}

    def add(key, s):
        c = sigs[s]
        e = out.setdefault(key, [0, c.get("sample"), 0, len(feats_of[s])])
        e[0] += c["fail"]
        e[2] += 1
        if len(feats_of[s]) < e[3] and c.get("sample"):     # show the simplest failing shape
            e[1], e[3] = c["sample"], len(feats_of[s])

    todo = {s for s, c in sigs.items() if c["fail"] > 0 and c["pass"] == 0}
    mixed = sorted(s for s, c in sigs.items() if c["fail"] > 0 and c["pass"] > 0)
    subsets = {}
    for s in todo:
        F = sorted(feats_of[s])
        subsets[s] = [S for size in range(0, maxsize + 1) for S in itertools.combinations(F, size) if pure(S)]
    while todo:
        cover, support = {}, {}
        for s in todo:
            for S in subsets[s]:
                cover[S] = cover.get(S, 0) + sigs[s]["fail"]
                support[S] = support.get(S, 0) + 1
        # a set supported by very few abstract shapes is pure by coincidence
        cand = [S for S in cover if support[S] >= MIN_SUPPORT or not S]
        if not cand:
            break
        best = min(cand, key=lambda S: (-cover[S], len(S), S))
        key = check + (":" + ",".join(best) if best else "")
        for s in sorted(todo):
            if set(best) <= feats_of[s]:
                add(key, s)
                todo.discard(s)
    rest = sorted(todo) + mixed
    if rest:
        common = frozenset.intersection(*[feats_of[s] for s in rest])
        for s in rest:
            add(check + ":sometimes:" + ",".join(sorted(common)), s)
    return out


def run(ctx):
    thorough = ctx.tier == "thorough"
    tier = "thorough" if thorough else "quick"
    rnd = random.Random(ctx.seed)

    # 1. the two tables: model-check their sanity properties and export the rows
    rc = ctx.tlc_must_pass("SystemTables", "SystemTables_cfg_%s.cfg" % tier, timeout=1500, name="configurations", workers=4)
    cfgs = extract(rc.output, "CFG")
    rs = ctx.tlc_must_pass("SystemTables", "SystemTables_sel_%s.cfg" % tier, timeout=2400, name="selects", workers=4)
    sels = extract(rs.output, "SEL")
    if not cfgs or not sels:
        raise core.Inconclusive("TLC exported no rows (cfg=%d sel=%d)" % (len(cfgs), len(sels)))
    if len(cfgs) != rc.distinct or len(sels) != rs.distinct:
        raise core.Inconclusive("export incomplete: %d/%d configuration rows, %d/%d select rows" % (
            len(cfgs), rc.distinct, len(sels), rs.distinct))

    # 2. configurations to replay: every row of lists up to MaxPeers, a seeded sample of the big lists
    #    (every class of big list at least once)
    cfgs.sort(key=lambda c: json.dumps(c, sort_keys=True))
    maxpeers = 5 if thorough else 4
    small = [c for c in cfgs if len(c["list"]) <= maxpeers]
    big = [c for c in cfgs if len(c["list"]) > maxpeers]
    rnd.shuffle(big)
    chosen_big, seen = [], {}
    per_class = 10 ** 6 if thorough else 1      # thorough: every big-list row
    for c in big:
        k = cfg_class(c) + (len(c["list"]),)
        if seen.get(k, 0) < per_class:
            seen[k] = seen.get(k, 0) + 1
            chosen_big.append(c)
    chosen = small + chosen_big
    for i, c in enumerate(chosen):
        c["id"] = i
    sels.sort(key=lambda s: json.dumps(s, sort_keys=True))
    for i, s in enumerate(sels):
        s["id"] = i
    cfgp, selp, outp = ctx.path("c10_cfg.jsonl"), ctx.path("c10_sel.jsonl"), ctx.path("c10_result.json")
    with open(cfgp, "w") as f:
        for c in chosen:
            f.write(json.dumps(c) + "\n")
    with open(selp, "w") as f:
        for s in sels:
            f.write(json.dumps(s) + "\n")

    # 3. replay against real proxies
    ctx.drv(["-cfg", cfgp, "-sel", selp, "-out", outp, "-reps", "16" if thorough else "4"],
            cmd_name="vdrv-systables", timeout=2400)
    r = json.load(open(outp))
    if r.get("infra_errors"):
        raise core.Inconclusive("driver reported infrastructure errors: %s" % r["infra_errors"][:5])
    counts = r["counts"]
    checks = r["checks"]

    # 4. verdicts
    per_check = {}
    n_fail_cases = 0
    for check in sorted(checks):
        sigs = checks[check]
        per_check[check] = {"signatures": len(sigs), "pass": sum(c["pass"] for c in sigs.values()),
                            "fail": sum(c["fail"] for c in sigs.values())}
        if per_check[check]["fail"] == 0:
            continue
        for key, (nfail, sample, nsig, _) in sorted(attribute(check, sigs).items()):
            n_fail_cases += nfail
            s = sample or {}
            what = "%s: %s" % (check, s.get("detail") or "disagrees with the specification")
            if s.get("cql"):
                what += " — %s [%s] on proxy %s" % (s["cql"], s.get("mode"), s.get("proxy"))
            what += " — got %s, specification demands %s (%d failing cases in %d abstract shapes)" % (
                json.dumps(s.get("got"))[:300], json.dumps(s.get("want"))[:300], nfail, nsig)
            ctx.violation(key, what, replay={"check": check, "failing_cases": nfail, "abstract_shapes": nsig, "sample": s})
    orders = r.get("star_orders") or {}
    for k, m in sorted(orders.items()):
        if len(m) > 1:
            ctx.violation("star-order:inconsistent:" + k.split("/")[0],
                          "SELECT * advertises its columns in different orders: %s" % sorted(m), replay={"orders": m})
    # informational: does the observed `*` order match the order written down in the specification?
    spec_order = {}
    for s in sels:
        if s["star"]:
            spec_order["%s/dse=%d" % (s["table"], 1 if s["dse"] else 0)] = ",".join(o["name"] for o in s["out"])
    star_matches = {k: (list(m) == [spec_order.get(k)]) for k, m in orders.items()}

    # 5. vacuity: every class has to be present in the tables and exercised by the driver (after the
    #    verdicts: a violation that starves a later stage is still reported as a violation)
    classes = sorted({cfg_class(c) for c in chosen}, key=str)
    need_roles = {"selfin", "outsider", "norpc"}
    if {k[0] for k in classes} != need_roles or {k[1] for k in classes} != {"none", "all", "mixed"} \
            or {k[2] for k in classes} != {"none", "all"} or {k[3] for k in classes} != {True, False}:
        raise core.Inconclusive("configuration table lacks a class: %s" % classes)
    kinds = {s2["k"] for s in sels for s2 in s["sels"]}
    if kinds != {"id", "alias", "star", "count_star", "count_col", "now", "alias_count_star", "alias_now"}:
        raise core.Inconclusive("select table lacks a selector kind: %s" % sorted(kinds))
    n_exec = counts.get("selects_query", 0) + counts.get("selects_prepare", 0) + counts.get("selects_execute", 0)
    for k in ("configurations", "proxies_started", "ring_views", "agreement_groups", "rows_decoded", "values_compared",
              "count_values_compared", "now_values_checked", "rowcounts_compared"):
        if counts.get(k, 0) <= 0:
            raise core.Inconclusive("driver exercised nothing for %s: %s" % (k, counts))
    if counts["configurations"] != len(chosen):
        raise core.Inconclusive("driver ran %d of %d configurations" % (counts["configurations"], len(chosen)))
    if counts.get("selects_query", 0) < len(sels):
        raise core.Inconclusive("driver sent %d QUERYs for %d select rows" % (counts.get("selects_query", 0), len(sels)))
    for must in ("reply", "columns", "types", "decode", "rowcount", "count", "now", "agree", "tokens-computed", "start",
                 "prepmeta-vs-rows", "value:local.host_id", "value:peers.host_id", "value:peers.tokens", "value:peers.data_center",
                 "rowset:peers"):
        if must not in checks:
            raise core.Inconclusive("driver never evaluated check %r" % must)

    nontrivial_cfg = sum(1 for c in chosen if c["list"])
    nontrivial_sel = sum(1 for s in sels if not (s["star"] and all(v == "lower" for v in s["sp"].values())))
    ctx.assumptions += [
        "the fake backend (reference codecs) supplies the backend-derived facts; its data center is 'backend-dc'",
        "address order is the order of the 16-byte (IPv4-mapped) form; concrete addresses are a seeded, order-preserving image of the abstract ones",
        "computed tokens: only 'one 64-bit token per node, minimum token first, strictly increasing in address order' is asserted (even spacing is not part of the statement)",
        "aggregates: only the value is asserted (an aggregate over an empty system.peers returns no row, counted in aggregate_selects_answered_with_zero_rows)",
        "rack, cluster_name, schema_version: decodable and not null only; `*`: column set and types (order only recorded)",
        "peer lists mixing entries with and without data center: DC-less peers' data_center is not asserted and no cross-proxy agreement is demanded",
    ]
    samples = list(r.get("samples") or [])[:3]
    for c in (chosen[len(chosen) // 2], chosen[-1]):
        samples.append({"configuration": {k: c[k] for k in ("list", "self", "dcm", "tokm", "dse", "agree")},
                        "first_proxy_expects": {"local": c["proxies"][0]["local"], "peers": c["proxies"][0]["peers"][:3]}})
    ctx.write_evidence("exploration", {
        "evaluations": n_exec,
        "distinct_nontrivial": nontrivial_cfg + nontrivial_sel,
        "rule": "TLC enumerates (a) every peer list of 0..%d abstract addresses in every order x own entry present / absent "
                "(absent: every relative position of the own address) / no rpc-address x data centers none|all|mixed x tokens "
                "none|all x DSE or not, plus lists of %s entries for four stride permutations, and "
                "(b) every selector list of length <=2 over {column, column AS alias, count(*), count(column), now(), count(*) AS "
                "alias, now() AS alias} for all advertised columns, `*`, %s and 11 spelling variants (upper case / quoted "
                "keyspace, table, column and alias identifiers, upper-case function names) of every single-selector list; each "
                "select row is sent (QUERY and PREPARE+EXECUTE) to %d different proxies; every proxy of every configuration also answers "
                "SELECT * on both tables.  distinct_nontrivial = configuration rows with at least one peer entry + select rows other "
                "than the plain SELECT *; evaluations = request frames answered and checked" % (
                    maxpeers, "10, 12 and 16 (all rows)" if thorough else "10 and 16 (one seeded row per class)",
                    "length-3 lists over a reduced alphabet" if thorough else "no length-3 lists in this tier",
                    16 if thorough else 4),
        "samples": samples,
        "exhaustive": len(chosen) == len(cfgs),
        "configuration_rows_enumerated": len(cfgs),
        "configuration_rows_replayed": len(chosen),
        "configuration_rows_big_lists_sampled": len(chosen_big),
        "configuration_classes": len(classes),
        "select_rows": len(sels),
        "selector_kinds": sorted(kinds),
        "driver_counts": counts,
        "checks": per_check,
        "failing_cases": n_fail_cases,
        "star_order_matches_specification": star_matches,
    })
