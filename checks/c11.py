"""C11 — the partial QUERY/EXECUTE/BATCH codecs agree with the reference protocol codecs.

Spec: WireCodec.tla, a decision table with byte-level semantics written from the native protocol
specifications (v3, v4, v5, DSE v1, DSE v2): the complete layout of every request body per version
and opcode (`Items`), which of its fields are *leading* (everything up to <consistency>), the
extraction a partial decoder has to produce (`Extract`: query string / prepared id / batch children /
consistency as offsets, `LeadingLen`), a decoder and a re-encoder of the leading fields written from
the notation rules.  TLC (1) enumerates every abstract row (version x opcode x option subsets legal
for the version x value lists x batch children x lengths x malformations), (2) checks on every row
that layout, arithmetic extraction and decoder agree, Reenc(Dec(body)) = body, every prefix shorter
than LeadingLen is rejected and every longer prefix is accepted with the same extraction, and
(3) exports every row with its layout, its extraction, its class and a checksum of its bytes.

Binding: harness/cmd/vdrv-codec renders each row, requires frame.NewRawCodec() (the reference codec)
to encode the same message to exactly the rendered bytes (filler and seeded random contents), then
decodes with codecs.CustomRawCodec on the proxy's path (DecodeBody over NewFrameBodyReader), on the
bytes.Buffer path, behind a custom payload and behind lz4 / snappy; extracted fields are compared
with the specification's offsets and with the reference decoder, the message is re-encoded and the
bytes compared; every prefix, seeded mutants and random bytes are decoded for: error below
LeadingLen, no panic, no hang, input untouched, returned slices inside the input.

Verdicts (class of a row, from the specification):
  valid  - decode must succeed with the reference's fields and re-encode byte-exactly; prefixes
           shorter than LeadingLen must be errors.
  reject - leading layout undefined (unknown batch child kind): decoding must fail.
  open   - well-delimited but not a valid message (invalid consistency / batch type, zero or
           negative lengths, n < -2 values, `not set` in v3): only safety is asserted; what the
           code does is recorded in the evidence (open_rows_observed).
Prefixes that cut only the opaque remainder are accepted by design of a partial decoder.
"""
import json
import os

from vlib import core

VERS = ["v3", "v4", "v5", "DSEv1", "DSEv2"]
OPS = ["QUERY", "EXECUTE", "BATCH"]
RMID_VERS = {"v5", "DSEv2"}


def extract_rows(out, path):
    pre = '<<"ROW", '
    rows = []
    with open(path, "w") as f:
        for line in out.splitlines():
            if line.startswith(pre) and line.endswith(">>"):
                inner = json.loads(line[len(pre):-2])
                f.write(inner + "\n")
                rows.append(json.loads(inner))
    return rows


def vacuity(rows):
    """The table must contain every interesting class; otherwise the check proves nothing."""
    problems = []
    by = {}
    for r in rows:
        by.setdefault((r["op"], r["ver"], r["cls"]), []).append(r)
    for op in OPS:
        for v in VERS:
            if not by.get((op, v, "valid")):
                problems.append("no valid rows for %s/%s" % (op, v))
            if not by.get((op, v, "open")):
                problems.append("no open rows for %s/%s" % (op, v))
    for v in VERS:
        if not by.get(("BATCH", v, "reject")):
            problems.append("no reject rows for BATCH/%s" % v)
        ex = by.get(("EXECUTE", v, "valid"), [])
        with_rmid = [r for r in ex if any(p["k"] == "rmid" for p in r["x"]["parts"])]
        if v in RMID_VERS and len(with_rmid) != len(ex):
            problems.append("EXECUTE/%s rows without result metadata id" % v)
        if v not in RMID_VERS and with_rmid:
            problems.append("EXECUTE/%s rows with result metadata id" % v)
        # every option of the version occurs, set and unset, in QUERY and EXECUTE rows
        want = {"skipmeta", "pagesize", "paging", "serial", "ts"}
        if v in ("v5", "DSEv2"):
            want.add("ks")
        if v == "v5":
            want.add("now")
        if v.startswith("DSE"):
            want |= {"psbytes", "contpaging"}
        for op in ("QUERY", "EXECUTE"):
            seen = set()
            for r in by.get((op, v, "valid"), []):
                seen |= set(r["opts"])
            if seen != want:
                problems.append("%s/%s options %s, expected %s" % (op, v, sorted(seen), sorted(want)))
            vms = {r["vm"] for r in by.get((op, v, "valid"), [])}
            if vms != {"none", "pos", "named"}:
                problems.append("%s/%s value modes %s" % (op, v, sorted(vms)))
        codes = set()
        nkids = set()
        for r in by.get(("BATCH", v, "valid"), []):
            nkids.add(len(r["kids"]))
            for k in r["kids"]:
                codes |= set(k["vals"])
        wantc = {-1, 0, 4, 300} | (set() if v == "v3" else {-2})
        if codes != wantc:
            problems.append("BATCH/%s value length codes %s" % (v, sorted(codes)))
        if not {0, 1, 2, 3} <= nkids:
            problems.append("BATCH/%s child counts %s" % (v, sorted(nkids)))
    return problems


def describe(f, totals):
    tot = totals.get((f["op"], f["ver"], f["mal"]), 0)
    det = sorted(f["details"].items(), key=lambda kv: -kv[1])
    head = {
        "decode": "valid bodies are rejected or decoded to other fields than the reference codec's",
        "reencode": "re-encoding the partially decoded message does not reproduce the original bytes",
        "encode-complete-message": "a complete (reference) message is encoded differently by codecs.CustomRawCodec than by the reference codec",
        "truncation-accepted": "bodies truncated inside the leading fields are decoded without error",
        "malformed-accepted": "bodies whose leading layout is undefined are decoded without error",
        "panic": "the decoder panics",
        "hang": "the decoder does not return",
        "out-of-bounds": "the decoder returns a slice outside its input or modifies the input",
    }.get(f["kind"], f["kind"])
    return "%s %s%s: %s — %d concrete inputs from %d of %d abstract rows%s; e.g. %s" % (
        f["op"], f["ver"], (" [" + f["mal"] + "]") if f["mal"] != "none" else "", head,
        f["count"], f["rows_affected"], tot, (" (path " + f["path"] + ")") if f["path"] else "",
        det[0][0] if det else "")


def run(ctx):
    thorough = ctx.tier == "thorough"
    res = ctx.tlc_must_pass("WireCodec", "WireCodec_thorough.cfg" if thorough else "WireCodec_quick.cfg",
                            timeout=2400, name="table", workers=min(core.NCPU, 16))
    rows_path = ctx.path("wire_rows.jsonl")
    rows = extract_rows(res.output, rows_path)
    if not rows:
        raise core.Inconclusive("TLC exported no rows")
    if len(rows) >= res.distinct:
        raise core.Inconclusive("TLC exported %d rows but found only %d distinct states" % (len(rows), res.distinct))
    problems = vacuity(rows)
    if problems:
        raise core.Inconclusive("decision table is vacuous: " + "; ".join(problems[:8]))

    out = ctx.path("wire_result.json")
    seeds, mutants, rnd = (5, 16, 100000) if thorough else (2, 12, 20000)
    ctx.drv(["-in", rows_path, "-out", out, "-seeds", str(seeds), "-mutants", str(mutants), "-random", str(rnd)],
            cmd_name="vdrv-codec", timeout=2400)
    r = json.load(open(out))
    r["findings"] = r.get("findings") or []
    r["machinery_errors"] = r.get("machinery_errors") or []

    if r["n_machinery_errors"]:
        raise core.Inconclusive("specification / reference codec / harness disagree (not a verdict about /repo): "
                                + " | ".join(r["machinery_errors"][:3])[:3000])
    if r["rows"] != len(rows) or r["distinct_rows"] != len(rows):
        raise core.Inconclusive("driver saw %d rows (%d distinct), TLC exported %d" % (r["rows"], r["distinct_rows"], len(rows)))
    # the driver really exercised every class
    nvalid = sum(1 for x in rows if x["cls"] == "valid")
    refchecks = sum(o["reference_layout_checks"] for o in r["by_op_ver"].values())
    if refchecks != nvalid * (seeds + 1):
        raise core.Inconclusive("reference layout checks %d, expected %d" % (refchecks, nvalid * (seeds + 1)))
    for op in OPS:
        for v in VERS:
            o = r["by_op_ver"].get(op + "/" + v)
            if not o or min(o["bodies"], o["prefixes"], o["mutants"], o["random_inputs"], o["field_comparisons"]) == 0:
                raise core.Inconclusive("driver did not exercise %s/%s: %s" % (op, v, o))
    for name in ("buffer", "payload", "lz4", "snappy"):
        if not r["variant_decodes"].get(name):
            ctx.assumptions.append("decode path '%s' was not exercised (the base path failed on every body it would apply to)" % name)

    totals = {}
    for x in rows:
        k = (x["op"], x["ver"], x["mal"])
        totals[k] = totals.get(k, 0) + 1
    for f in r["findings"]:
        ctx.violation(f["key"], describe(f, totals),
                      replay={"examples": f["examples"], "details": f["details"], "count": f["count"],
                              "rows_affected": f["rows_affected"],
                              "how": "./vcheck replay C11 <this file> decodes the example inputs with the partial and the reference codec"})

    ctx.assumptions += [
        "the reference codec github.com/datastax/go-cassandra-native-protocol (frame.NewRawCodec) is the oracle for 'valid body'; "
        "the specification's layout is required to equal its encoding byte for byte on every concrete body",
        "optional parameters after <consistency> carry fixed numeric values (page size, timestamp, ...); contents of strings, ids, "
        "values, paging state and keyspace are filler and seeded random bytes",
        "inputs announcing a [long string] above 1 MiB are not generated as mutants (the library allocates the announced length "
        "before reading); a few are run alone and timed (huge_length_cases)",
        "open rows (invalid consistency / batch type, zero or negative lengths, n < -2 values, `not set` in v3) and prefixes that "
        "cut only the opaque remainder carry no accept/reject verdict",
        "arbitrary bytes are seeded random, not coverage-guided",
    ]
    cls = {}
    for x in rows:
        cls[x["cls"]] = cls.get(x["cls"], 0) + 1
    ctx.write_evidence("exploration", {
        "evaluations": r["evaluations"],
        "distinct_nontrivial": r["distinct_rows"],
        "rule": "every abstract row of WireCodec.tla (version x opcode x legal option subsets x value lists x batch children x "
                "lengths x malformations; TLC-enumerated, distinct as TLC states) is concretised with filler and %d seeded random "
                "contents by the reference codec and replayed into codecs.CustomRawCodec: full body on 5 decode paths, every prefix, "
                "%d mutants per body, %d random inputs per opcode and version; evaluations = decodes + re-encodes by the real code; "
                "distinct_nontrivial = distinct abstract rows replayed" % (seeds, mutants, rnd),
        "samples": r["samples"],
        "exhaustive": True,
        "states": ctx.states,
        "transitions": ctx.transitions,
        "rows": len(rows),
        "rows_by_class": cls,
        "rows_by_malformation": r["rows_by_mal"],
        "by_op_ver": r["by_op_ver"],
        "variant_decodes": r["variant_decodes"],
        "reference_layout_checks": refchecks,
        "open_rows_observed": r["open_rows_observed"],
        "inputs_skipped_huge_allocation": r["inputs_skipped_huge_allocation"],
        "huge_length_cases": r["huge_length_cases"],
        "findings": [{"key": f["key"], "count": f["count"], "rows_affected": f["rows_affected"]} for f in r["findings"]],
        "driver_wall_s": r["wall_s"],
    })


def replay(path):
    ctx = core.Ctx("C11", "quick", 1)
    try:
        rc, out, err = ctx.drv(["-replay", path], cmd_name="vdrv-codec", check=False)
        print(out, end="")
        if rc != 0:
            print(err)
        return rc
    finally:
        ctx.cleanup()
