"""C12 — the write-consistency override rewrites exactly the consistency of matching writes.

Spec: Wire.tla.  TLC (1) model-checks OverrideOnlyConsistency / OverrideTarget / SelectUntouched /
NoListNoChange / UnlistedUntouched / IdempotentOverride / WireWellFormed over unsupported lists
({}, singletons, pairs, all) x override level x request consistency x statement class, and over the
frame shapes (opcode x statement class x version x header flags x compression), (2) exports the
decision table DEC (verdict + expected consistency) and the shape table REQ.  The check pairs them
(every decision of every enumerated configuration, shapes round-robin so that every shape meets
every verdict), the driver vdrv-wire runs each pair end to end (in-process proxy configured with the
row's list and override, reference-encoded requests over the whole option grammar, fake backend
recording raw frames) and reports what the backend received; only the consistency may differ from
what was sent, and only where the table says so.
"""
import collections

from vlib import core
from checks import wirecommon as wc

DESCRIBE = {
    "not-overridden": "a non-SELECT request whose consistency is in the unsupported list reached the backend with its original consistency",
    "wrong-level": "an overridden request carries a consistency that is neither the original nor the configured override",
    "overridden-unexpectedly": "a request that must be forwarded unmodified (SELECT, consistency not listed, or no list configured) reached the backend with another consistency",
    "altered-without-override": "a request that must be forwarded unmodified reached the backend with other bytes",
    "field-changed": "an overridden request differs from the original in a field other than the consistency",
    "header-changed": "an overridden request reached the backend with another version / opcode / header flags",
    "malformed-frame(length+16)": "the backend received a frame whose header announces 16 body bytes more than the message has (the frame swallows the head of the next frame)",
    "malformed-frame(other)": "the backend received a frame that is not well framed (announced body length does not match the message, or the body does not decompress / decode)",
    "undecodable-at-backend(missing-result-metadata-id)": "the backend cannot decode the forwarded EXECUTE: the result-metadata id is missing",
    "undecodable-at-backend(does-not-decompress)": "the backend cannot decompress the body of the forwarded frame",
    "undecodable-at-backend(garbled)": "the backend cannot decode the forwarded frame",
    "dropped": "the proxy closed the client connection instead of forwarding a well-formed request",
    "not-forwarded": "the client got an answer although the backend never received the request",
}


# statement forms of the generator that get their own key dimension (index in gen.go selectForms)
FORMS = {("text_select", "form4"): "leading-comment"}


def classify(x, dec, o):
    """-> list of (what, text) for one exchange; [] = agrees with the table."""
    out = []
    st = o["st"]
    if st == "closed":
        return [("dropped", "client connection closed, backend received %d frame(s)" % o["natt"])]
    if st == "undecodable":
        err = o.get("err", "")
        what = ("missing-result-metadata-id" if "missing result metadata id" in err
                else "does-not-decompress" if "cannot decompress" in err else "garbled")
        return [("undecodable-at-backend(%s)" % what, o.get("err", ""))]
    if st != "ok":
        return []
    if o["natt"] == 0:
        return [("not-forwarded", "reply kind %s" % o.get("rkind"))]
    if not o["wf"]:
        out.append(("malformed-frame(%s)" % ("length+16" if o.get("trail") == 16 else "other"), o.get("wf_why", "")))
    cons = o.get("cons") or []
    sent, override, verdict = x["cons"], dec["override"], dec["verdict"]
    changed = [c for c in cons if c != sent]
    if verdict == "same" or (verdict == "open" and not changed and o["bytes_same"]):
        if changed:
            out.append(("overridden-unexpectedly", "sent %s, backend saw %s (list %s, override %s, class %s)" % (
                sent, cons, dec["list"], override, x["sel"])))
        elif o["wf"] and not (o["bytes_same"] and o["hdr_same"]):
            if sent == override and not o.get("diff") and o["hdr_same"]:
                # field-wise equal but other bytes: the frame went through the override path (re-encoded)
                # although it must not; the level written happens to equal the one sent
                out.append(("overridden-unexpectedly", "sent %s = override; the frame was re-encoded (list %s, class %s)" % (
                    sent, dec["list"], x["sel"])))
            else:
                out.append(("altered-without-override", "hdr_diff=%s field_diff=%s" % (o.get("hdr_diff"), o.get("diff"))))
        return out
    # verdict override, or open and the proxy chose to override
    if o["wf"] or cons:
        if any(c == sent for c in cons) and sent != override and verdict == "override":
            out.append(("not-overridden", "sent %s with list %s override %s, backend saw %s" % (sent, dec["list"], override, cons)))
        elif any(c not in (sent, override) for c in cons):
            out.append(("wrong-level", "sent %s, override %s, backend saw %s" % (sent, override, cons)))
    if o.get("diff"):
        out.append(("field-changed", "fields %s" % ",".join(o["diff"])))
    hd = [h for h in (o.get("hdr_diff") or []) if h != "compressed_flag"]
    if hd:
        out.append(("header-changed", ",".join(hd)))
    return out


def run(ctx):
    thorough = ctx.tier == "thorough"
    tier = "thorough" if thorough else "quick"
    rdec = ctx.tlc_must_pass("Wire", "Wire_c12_dec_%s.cfg" % tier, timeout=1500, name="decisions")
    rshape = ctx.tlc_must_pass("Wire", "Wire_c12_shape_%s.cfg" % tier, timeout=900, name="shapes")
    dec = wc.extract_rows(rdec.output, "DEC")
    shapes = [r for r in wc.extract_rows(rshape.output, "REQ")]
    if not dec or not shapes:
        raise core.Inconclusive("TLC exported no rows (DEC=%d REQ=%d)" % (len(dec), len(shapes)))
    verdicts = collections.Counter(d["verdict"] for d in dec)
    if len(verdicts) < 3:
        raise core.Inconclusive("decision table is degenerate: %s" % dict(verdicts))

    rng = wc.rng_for(ctx, 12)
    # configurations: every enumerated list with overrides cycling through all levels (thorough: all)
    levels = sorted({d["override"] for d in dec})
    by_cfg = collections.defaultdict(list)
    for d in dec:
        by_cfg[(tuple(d["list"]), d["override"])].append(d)
    lists = sorted({k[0] for k in by_cfg}, key=lambda l: (len(l), l))
    cfgs = []
    for n, l in enumerate(lists):
        ovs = levels if thorough else [levels[(2 * n) % len(levels)], levels[(2 * n + 1) % len(levels)]]
        if not thorough and l and "LOCAL_QUORUM" not in ovs and n % 3 == 0:
            ovs = ovs + ["LOCAL_QUORUM"]        # the documented default override
        for ov in ovs:
            cfgs.append((l, ov, ov))
    cfgs.append(((), levels[0], ""))            # nothing configured at all
    # shapes per (maxv, op, sel), shuffled once; a global cursor per (op, sel, verdict) spreads them evenly
    by_shape = collections.defaultdict(list)
    for s in shapes:
        by_shape[(s["maxv"], s["op"], s["sel"])].append(s)
    for k in by_shape:
        by_shape[k].sort(key=lambda s: (s["ver"], s["comp"], s["compressed"], s["flags"]))
        rng.shuffle(by_shape[k])
    maxvs = sorted({s["maxv"] for s in shapes})
    cursor = collections.Counter()
    jobs, plan = [], {}
    for n, (l, ov, ov_cfg) in enumerate(cfgs):
        # most configurations accept every version; some use the default maximum (v4)
        maxv = "v4" if ("v4" in maxvs and n % 5 == 4) else "dse2" if "dse2" in maxvs else maxvs[-1]
        ex = []
        for d in by_cfg[(l, ov)]:
            interesting = d["verdict"] != "same" or d["cons"] in d["list"]
            reps = (3 if d["verdict"] != "same" else 2) if interesting else 1
            if thorough and not interesting and rng.random() < 0.5:
                continue
            pool = by_shape[(maxv, d["op"], d["sel"])]
            for _ in range(reps):
                ck = (maxv, d["op"], d["sel"], d["verdict"])
                s = pool[cursor[ck] % len(pool)]
                cursor[ck] += 1
                r = rng.random()
                # (compressed frames get more medium bodies: a third of those is incompressible data)
                size = "L" if (thorough and r < 0.004) else "M" if r < (0.2 if s["compressed"] else 0.05) else "S"
                x = {"i": len(ex) + 1, "ver": s["ver"], "op": s["op"], "sel": s["sel"], "flags": s["flags"],
                     "comp": s["comp"], "compressed": s["compressed"], "size": size, "cons": d["cons"],
                     "salt": rng.randrange(1 << 40)}
                ex.append((x, d))
        ex.sort(key=lambda p: (p[0]["ver"], p[0]["comp"]))
        for i, (x, d) in enumerate(ex):
            x["i"] = i + 1
            plan[(n + 1, i + 1)] = (x, d)
        jobs.append({"env": {"id": n + 1, "maxv": maxv, "list": list(l), "override": ov_cfg, "nodes": 1},
                     "ex": [x for x, _ in ex]})

    obs, summ, errs = wc.run_driver(ctx, "c12", jobs, timeout=3000)
    # SELECTs prepared and executed at once, at a listed consistency: forwarded unmodified (SelectUntouched) however soon the
    # EXECUTE follows its PREPARE
    ra = ctx.notes.get("right_after_prepare") or []
    tot_sent = sum(x["sent"] for x in ra)
    tot_alt = sum(x["altered"] for x in ra)
    for x in ra:
        if x["altered"]:
            ctx.violation("c12:altered-without-override:op=EXECUTE,sel=prepared-select-executed-right-after-prepare",
                          "%d of %d prepared SELECTs executed immediately after their PREPARE (consistency %s, which is in the list) reached the backend "
                          "with another consistency" % (tot_alt, tot_sent, x["cons"]), replay=x)
            break
    ctx.notes["right_after_prepare"] = {"executed": tot_sent, "altered": tot_alt, "errors": [x["err"] for x in ra if x.get("err")][:3]}
    if errs:
        raise core.Inconclusive("driver jobs failed: %s" % "; ".join(errs[:5]))
    missing = [k for k in plan if k not in obs]
    if missing:
        raise core.Inconclusive("%d planned exchanges have no observation" % len(missing))

    failures = collections.defaultdict(list)
    passing = []
    seen_shapes = collections.defaultdict(set)
    agree = collections.Counter()
    samples = []
    info = collections.Counter()
    for k in sorted(plan):
        x, d = plan[k]
        o = obs[k]
        dims = wc.dims_of(x, {"verdict": d["verdict"], "form": FORMS.get((x["sel"], o.get("form")), "plain")})
        if o["st"] in ("generr", "timeout", "noconn", "rejected"):
            continue
        bad = classify(x, d, o)
        seen_shapes[d["verdict"]].add((x["op"], x["sel"], x["ver"], tuple(x["flags"]), x["comp"], x["compressed"]))
        if o.get("patched") is False:
            info["re-encoded bytes differ from a consistency-only patch (field-wise equal)"] += 1
        if "compressed_flag" in (o.get("hdr_diff") or []):
            info["compression flag differs on a re-encoded frame"] += 1
        if not bad:
            passing.append(dims)
            agree[d["verdict"]] += 1
            if len(samples) < 6 and (d["verdict"] != "same" or len(samples) < 2):
                samples.append({"config": {"list": d["list"], "override": d["override"]}, "request": x,
                                "expected": {"verdict": d["verdict"], "consistency_at_backend": d["exp_cons"]},
                                "observed": {"consistency_at_backend": o.get("cons"), "bytes_same": o["bytes_same"],
                                             "well_framed": o["wf"], "field_diff": o.get("diff", [])}})
        for what, text in bad:
            failures[what].append((dims, text, {"config": {"list": d["list"], "override": d["override"], "maxv": jobs[k[0] - 1]["env"]["maxv"]},
                                                "request": x, "expected": {"verdict": d["verdict"], "consistency_at_backend": d["exp_cons"]},
                                                "observed": o}))
    primary = ["op", "ver"]
    minor = ["sel", "form", "tracing", "payload", "beta", "compressed", "comp"]
    keys = wc.report(ctx, "c12", failures, passing, primary, minor, DESCRIBE)

    infra = wc.infra_failures(obs)
    n_infra = sum(len(v) for v in infra.values())
    executed = len(obs) - n_infra
    nshape = len({(s["op"], s["sel"], s["ver"], tuple(s["flags"]), s["comp"], s["compressed"]) for s in shapes})
    ctx.assumptions += [
        "the fake backend (reference codecs of go-cassandra-native-protocol) is the judge of well-framedness and of field equality",
        "protocol v5 is exercised as the library frames it (no v5 segment framing exists in the proxy or in the library frame codec)",
        "EXECUTE of an id the proxy never saw a PREPARE for: the statement leaves the verdict open (proxy cannot know the statement class); only well-framedness and field equality are asserted",
        "the compression flag of a re-encoded (overridden) frame is not asserted; contents below the abstract row are seeded-random, not exhaustive",
    ]
    from checks import reqfamily as _rf
    _rf.override_stage(ctx, 'C12', ctx.tier == "thorough")
    ctx.write_evidence("exploration", {
        "evaluations": executed,
        "distinct_nontrivial": sum(len(v) for k, v in seen_shapes.items() if k != "same"),
        "rule": "every decision row (unsupported list x override x request consistency x statement class) of every enumerated "
                "configuration is run end to end with frame shapes (version x header flags x compression x compressed) taken "
                "round-robin per (opcode, class, verdict); distinct_nontrivial = distinct (shape, verdict) pairs with verdict "
                "override/open that were executed",
        "samples": samples,
        "states": ctx.states, "transitions": ctx.transitions,
        "decision_rows": len(dec), "decision_rows_by_verdict": dict(verdicts),
        "configurations_run": len(jobs), "shape_rows": len(shapes), "distinct_shapes": nshape,
        "shapes_executed_by_verdict": {k: len(v) for k, v in seen_shapes.items()},
        "agreeing_exchanges_by_verdict": dict(agree),
        "disagreeing_exchanges_by_kind": {k: len(v) for k, v in failures.items()},
        "violation_keys": keys,
        "not_asserted_observations": dict(info),
        "driver": summ,
        "inconclusive_exchanges": {k: len(v) for k, v in infra.items()},
        "exhaustive": False,
    })
    if executed == 0 or n_infra > max(5, 0.01 * len(obs)):
        raise core.Inconclusive("%d of %d exchanges were inconclusive: %s" % (
            n_infra, len(obs), {k: v[:3] for k, v in infra.items()}))
    for v in ("override", "same"):
        if not seen_shapes[v]:
            raise core.Inconclusive("no exchange with verdict %s was executed" % v)
