"""C13 — handshake, version negotiation and compression selection are answered locally.

Spec: ClientConn.tla (per client connection: codec, started, alive; abstract frame alphabet; step
function Outcomes(maxVersion, state, frame) = the SET of outcomes the statement allows).

1. TLC model-checks HandshakeLocalExactlyOne, VersionGate, UnsupportedCompressionOnlyError,
   CodecSwitch, CodecSwitchLocalToConnection over every frame of the full alphabet (7 version
   classes x every opcode class x every STARTUP option map class) in every state reachable by <= 4
   frames on 2 connections, for every configured maximum version.
2. TLC exports (a) every sequence of 4 frames of the sequence alphabet on 2 connections and (b) the
   single-frame table (every frame of the full alphabet in each state reachable by one STARTUP),
   each step with the outcomes the specification allows, plus the probe table.
3. harness/cmd/vdrv-handshake replays every behaviour against the real proxy (in-process, fake
   backend) over raw sockets and compares count / opcode / stream / version / error code and text /
   decodability under the expected codec / connection liveness / "reached the backend" with the
   specification; thorough tier additionally sweeps all 128 version bytes x 256 opcode bytes.
"""
import json
import os

from vlib import core


def extract(out, path, seen):
    """BEH and PROBE lines of a TLC run -> JSON lines file (appended, de-duplicated)."""
    n = {"BEH": 0, "PROBE": 0}
    with open(path, "a") as f:
        for line in out.splitlines():
            for tag in ("BEH", "PROBE"):
                pre = '<<"%s", ' % tag
                if line.startswith(pre) and line.endswith(">>"):
                    inner = json.loads(line[len(pre):-2])
                    if inner in seen:
                        continue
                    seen.add(inner)
                    f.write(inner + "\n")
                    n[tag] += 1
    return n


# input classes that must have been replayed for the run to mean anything (prefix match on the
# driver's class names)
REQUIRED_CLASSES = [
    "OPTIONS,ver=ok", "OPTIONS,ver=above-max", "OPTIONS,ver=below3", "OPTIONS,ver=unknown",
    "STARTUP,ver=ok,comp=absent", "STARTUP,ver=ok,comp=supported", "STARTUP,ver=ok,comp=unsupported",
    "STARTUP,ver=above-max", "STARTUP,ver=below3", "STARTUP,ver=unknown",
    "REGISTER,ver=ok", "REGISTER,ver=above-max", "REGISTER,ver=below3", "REGISTER,ver=unknown",
    "QUERY,ver=ok,codec=none", "QUERY,ver=ok,codec=lz4", "QUERY,ver=above-max", "QUERY,ver=below3",
    "probe:REGISTER,ver=ok,codec=lz4", "probe:QUERY,ver=ok,codec=lz4", "probe:QUERY,ver=ok,codec=none",
    "RESPONSE-OPCODE,ver=above-max", "BADOP,ver=ok",
]


def describe(mm):
    ob = mm.get("observed") or {}
    got = []
    for r in ob.get("replies") or []:
        s = "%s v%d" % (r["op"], r["ver"])
        if r["op"] == "ERROR":
            s += " code 0x%04x %r" % (r.get("errcode", 0), r.get("errmsg", ""))
        if not r.get("decodable", True):
            s += " (not decodable under the expected codec)"
        got.append(s)
    if ob.get("closed"):
        got.append("connection closed")
    if ob.get("forwarded"):
        got.append("frame reached the backend")
    return "frame %s (%s) on a connection in state %s [%s, sequence %s]: the proxy answered [%s]; the specification allows %s (%s)%s" % (
        mm.get("frame"), mm.get("concrete"), mm.get("state_before"), mm.get("env"), " ; ".join(mm.get("sequence") or []),
        "; ".join(got) or "nothing", mm.get("allowed_outcomes"), mm.get("why"),
        " — after an earlier disagreement in the same behaviour" if mm.get("after_earlier_mismatch") else "")


def run(ctx):
    thorough = ctx.tier == "thorough"
    # 1. the properties on the specification
    ctx.tlc_must_pass("ClientConn", "ClientConn_mc.cfg", timeout=1200, name="mc")
    # 2. behaviours with expected outcomes
    beh = ctx.path("c13_behaviours.jsonl")
    seen = set()
    counts = {}
    cfgs = ["ClientConn_rows.cfg"] + (["ClientConn_seqmid4.cfg", "ClientConn_seqwide3.cfg", "ClientConn_seqwide4_m4.cfg", "ClientConn_seqwide4_m66.cfg"]
                                      if thorough else ["ClientConn_seq4.cfg"])
    for cfg in cfgs:
        res = ctx.tlc_must_pass("ClientConn", cfg, timeout=2400, name="export:" + cfg, workers=8)
        n = extract(res.output, beh, seen)
        counts[cfg] = n["BEH"]
        res.output = ""
        if n["BEH"] == 0:
            raise core.Inconclusive("no behaviours exported by %s" % cfg)
    n_beh = sum(counts.values())
    seen = None

    # 3a. binding self-test: with one expected opcode corrupted in every outcome the driver must report it
    head = ctx.path("c13_selftest.jsonl")
    with open(beh) as f, open(head, "w") as g:
        k = 0
        for line in f:
            if '"p":' in line or ('"m":4,' in line and k < 400 and "OPTIONS" in line):
                g.write(line)
                k += 0 if '"p":' in line else 1
    st_out = ctx.path("c13_selftest.json")
    ctx.drv(["-in", head, "-out", st_out, "-corrupt", "SUPPORTED=READY", "-low=false", "-workers", "64"], timeout=600, cmd_name="vdrv-handshake")
    st = json.load(open(st_out))
    st_keys = sorted(k for k in st["mismatch_counts"] if k.startswith("c13:OPTIONS,ver=ok:got=SUPPORTED"))
    if not st_keys:
        raise core.Inconclusive("binding self-test: a corrupted expected opcode (SUPPORTED -> READY) was not reported by the replay: %s"
                                % list(st["mismatch_counts"])[:5])
    selftest = {"corruption": "expected opcode SUPPORTED replaced by READY in every outcome", "behaviours": st["behaviours"],
                "reported": {k: st["mismatch_counts"][k] for k in st_keys}}

    # 3b. the replay
    out = ctx.path("c13_result.json")
    args = ["-in", beh, "-out", out, "-workers", "256", "-sweep", "-sweep-stride", "1" if thorough else "13"]
    ctx.drv(args, timeout=3000, cmd_name="vdrv-handshake")
    r = json.load(open(out))

    fw = r["forward_checks"]
    # 4. verdicts
    first = {}
    for mm in r.get("mismatches") or []:
        first.setdefault(mm["key"], mm)
    for key, n in sorted(r["mismatch_counts"].items()):
        mm = first.get(key, {})
        ctx.violation(key, "%d replayed step(s); e.g. %s" % (n, describe(mm)), replay=mm)

    ctx.assumptions += [
        "fake backend (reference codecs) and raw client are trusted; 'reached the backend' is observed by the proxy-side hook pending.store "
        "(client address + stream) and by the backend's request log (token in the query text); the fake backend does not log OPTIONS/STARTUP/"
        "REGISTER frames, for those only the hook, the count of REGISTERs after warm-up and 'second STARTUP on a backend connection' are checked",
        "late extra frames are looked for during a %d ms quiet window at the end of every behaviour" % 25,
        "response opcodes / undefined opcode bytes / direction bit sent by a client, hostile bodies on accepted versions, PREPARE/EXECUTE/BATCH/"
        "AUTH_RESPONSE, snappy on v5, and REGISTER or QUERY before STARTUP are left open by the statement: observed and recorded, not judged",
        "backend sessions are created sequentially during warm-up (the replay never triggers concurrent session creation)",
    ]
    ctx.write_evidence("model_checking", {
        "traces_validated_against_impl": r["replays"],
        "samples": r.get("samples") or [],
        "exhaustive": True,
        "rule": "every behaviour exported by TLC (all sequences of 4 frames of the sequence alphabet on 2 connections and the single-frame "
                "table of the full alphabet in 4 connection states, for each maximum version 3,4,5,65,66) is replayed once; "
                "sweep = concrete version byte x opcode byte points judged by the table row of their class",
        "behaviours_exported": counts,
        "behaviours_replayed": r["replays"],
        "replayed_to_the_end": r["replayed_to_the_end"],
        "left_on_an_allowed_alternative": r["left_on_an_allowed_alternative"],
        "continued_after_mismatch": r["continued_after_mismatch"],
        "stopped_at_mismatch": r["stopped_at_mismatch"],
        "steps_compared": r["steps"],
        "probe_steps": r["probe_steps"],
        "sweep_runs": r["sweep_runs"],
        "input_classes": r["classes"],
        "outcome_kinds": r["outcome_kinds"],
        "open_verdict_observations": r["open_observations"],
        "frames_sent_compressed": r["frames_sent_compressed"],
        "frames_received_compressed": r["frames_received_compressed"],
        "behaviours_sent_in_one_write_per_connection": r.get("behaviours_sent_in_one_write", 0),
        "forward_checks": fw,
        "environments": r["envs"],
        "mixed_case_names": r["mixed_case_names"],
        "warm_sessions": r["warm_sessions"],
        "replay_mismatches": r["mismatch_counts"],
        "binding_selftest": selftest,
        "wall_replay_s": r["wall_replay_s"],
    })

    # infrastructure sanity: never a verdict
    if r.get("infrastructure_errors"):
        raise core.Inconclusive("replay infrastructure errors: %s" % r["infrastructure_errors"][:5])
    if fw.get("hook_and_backend_disagree", 0):
        raise core.Inconclusive("proxy-side hook and backend log disagree on %d forwarded queries" % fw["hook_and_backend_disagree"])
    if not fw.get("forwardable_queries_forwarded") or not fw.get("backend_requests_with_token"):
        raise core.Inconclusive("forward detection saw no forwarded query at all (vacuous)")
    if r["replays"] < n_beh:
        raise core.Inconclusive("only %d of %d behaviours replayed" % (r["replays"], n_beh))
    if not r.get("behaviours_sent_in_one_write"):
        raise core.Inconclusive("no behaviour was replayed pipelined")
    if not r["frames_sent_compressed"] or not r["frames_received_compressed"]:
        raise core.Inconclusive("no compressed frame was sent or received (codec switch not exercised)")
    missing = [c for c in REQUIRED_CLASSES if not any(k.startswith(c) for k in r["classes"])]
    if missing:
        raise core.Inconclusive("input classes never replayed: %s" % missing)
