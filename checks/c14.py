"""C14 — schema-change events reach every registered client exactly once, and only those.

Spec: Events.tla (EventsMC.tla exhaustive: clients connect / register any subset of event types / disconnect
at any point, events of all three kinds; properties OnlySchema, OnlyRegistered, DeliveredAtRest).  Binding:
seeded histories against the real proxy (several clients, v3/v4, none/lz4/snappy, registering twice,
disconnecting, control-connection failover between events); TLC validates the trace against TraceEvents.tla.
"""
import json
import re

from vlib import core


def normalise(raw):
    out = []
    rounds, cur = [], []
    for e in raw:
        cur.append(e)
        if e["ev"] == "ScenarioStart" and len(cur) > 1:
            rounds.append(cur[:-1])
            cur = [e]
    if cur:
        rounds.append(cur)
    nemit = nrecv = 0
    for rnd in rounds:
        started = False
        out.append({"ev": "Reset"})
        for e in rnd:
            ev = e["ev"]
            if ev == "ScenarioStart":
                started = True
            elif not started:
                continue
            elif ev == "Hello":
                out.append({"ev": "Hello", "c": e["c"], "ver": e.get("ver", 4)})
            elif ev == "Register":
                out.append({"ev": "Register", "c": e["c"], "schema": bool(e["schema"])})
            elif ev == "RegisterAck":
                out.append({"ev": "RegisterAck", "c": e["c"]})
            elif ev in ("ClientClose", "ClientClosed"):
                out.append({"ev": "Close", "c": e["c"]})
            elif ev == "BackendEvent":
                nemit += 1
                out.append({"ev": "Emit", "id": int(e["id"][1:]), "kind": e["kind"], "h": e["h"], "v4only": bool(e.get("v4only"))})
            elif ev == "ClientRecv" and e.get("kind") == "event":
                nrecv += 1
                out.append({"ev": "Recv", "c": e["c"], "h": e["h"], "stream": e["stream"], "ver": e.get("ver", 0)})
            elif ev == "Quiet":
                out.append({"ev": "Quiet"})
    return out, nemit, nrecv


def run(ctx):
    t = ctx.tier == "thorough"
    ctx.tlc_must_pass("EventsMC", "EventsMC_quick.cfg", timeout=1500, name="mc")
    if t:
        ctx.tlc_must_pass("EventsMC", "EventsMC_thorough.cfg", timeout=3000, name="mc")
    raw = ctx.path("raw-events.ndjson")
    stats = ctx.path("stats-events.json")
    ctx.drv(["events", "-rounds", "20" if t else "5", "-ops", "60" if t else "40", "-out", raw, "-stats", stats], timeout=1500)
    st = json.load(open(stats))
    for u in st.get("Unregistered") or []:
        # Events.tla's DoEmit presupposes a control connection that REGISTERed: without one no schema change can reach anybody
        ctx.violation("C14:control-connection-not-registered:%s" % re.sub(r"[^a-z0-9=]+", "-", re.sub(r"round \d+ ", "", u)).strip("-"),
                      "the proxy holds a control connection (no outage) that never sent REGISTER: schema changes cannot reach any client (%s)" % u,
                      replay={"what": u})
    events, nemit, nrecv = normalise(core.read_ndjson(raw))
    if nemit < 10 or nrecv < 5:
        raise core.Inconclusive("driver produced too few events (%d emitted, %d received)" % (nemit, nrecv))
    v = core.validate_trace(ctx, "TraceEvents", events, {}, name="events")
    for b in v["bad"]:
        at = b.get("at", 0)
        window = events[max(0, at - 15):at + 1]
        key = "C14:" + re.sub(r"[^a-z0-9]+", "-", b["what"].lower()).strip("-")[:70]
        ctx.violation(key, b["what"], replay={"violation": b, "events": window})
    ctx.assumptions += ["events are emitted only while a registered control connection exists and never while it is failing over (the statement "
                        "excludes events in flight on a dying connection); missing deliveries are judged after a quiescence window",
                        "EVENT frames are matched to backend events by the hash of opcode and uncompressed body"]
    ctx.write_evidence("model_checking", {
        "traces_validated_against_impl": st["Rounds"],
        "samples": events[:25],
        "backend_events": nemit,
        "event_frames_received": nrecv,
        "trace_events_validated": v["total"],
        "driver_stats": st,
    })
