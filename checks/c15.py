"""C15 — query plans visit each live host exactly once, in round-robin rotation.

Spec: LoadBalancer.tla.  TLC (1) model-checks PlanExactlyOnce / ConsecutiveStarts / Balance /
SnapshotImmutable exhaustively, (2) enumerates every behaviour of the export configuration and
(3) simulates long random behaviours; all behaviours are replayed through
proxycore.NewRoundRobinLoadBalancer()'s public API with the Go counter preset to values congruent
to the specification's ideal counter (mod lcm(1..5)) around 0, 2^31 and 2^32, and a subset is
replayed with concurrent planners under the race detector.
"""
import json
import os
import re

from vlib import core


def extract_behaviours(out, path, tag="BEH"):
    n = 0
    pre = '<<"%s", ' % tag
    with open(path, "a") as f:
        for line in out.splitlines():
            if line.startswith(pre) and line.endswith(">>"):
                inner = json.loads(line[len(pre):-2])
                f.write(inner + "\n")
                n += 1
    return n


def classify(mm):
    """Stable key for a replay mismatch."""
    if mm["kind"] == "panic":
        return "lb:panic"
    p = mm["preset"]
    if p >= 2 ** 32 - 200:
        return "lb:yield-mismatch-counter-near-2^32"
    if p >= 2 ** 31 - 200:
        return "lb:yield-mismatch-counter-near-2^31"
    return "lb:yield-mismatch"


def run(ctx):
    thorough = ctx.tier == "thorough"
    # 1. exhaustive model check of the design
    ctx.tlc_must_pass("LoadBalancer", "LoadBalancer_mc_thorough.cfg" if thorough else "LoadBalancer_mc_quick.cfg",
                      timeout=3000, name="mc")
    # 2. exhaustive behaviour enumeration (tree, no VIEW) for replay
    beh = ctx.path("lb_behaviours.jsonl")
    res = ctx.tlc_must_pass("LoadBalancer", "LoadBalancer_export_thorough.cfg" if thorough else "LoadBalancer_export_quick.cfg",
                            timeout=3000, count=False, name="export", workers=8)
    n_exh = extract_behaviours(res.output, beh)
    # 3. long random behaviours
    sim = ctx.tlc("LoadBalancer", "LoadBalancer_sim.cfg", simulate="num=%d" % (3000 if thorough else 400),
                  depth=60, workers=1, timeout=900, count=False, name="simulate")
    n_sim = extract_behaviours(sim.output, beh)
    if n_exh == 0:
        raise core.Inconclusive("no behaviours exported by TLC")
    # de-duplicate (simulation prints the same behaviour several times)
    lines = list(dict.fromkeys(open(beh).read().splitlines()))
    with open(beh, "w") as f:
        f.write("\n".join(lines) + "\n")
    out = ctx.path("lb_result.json")
    ctx.drv(["lb", "-in", beh, "-out", out, "-balance"], timeout=1800)
    r = json.load(open(out))
    # concurrent clause under the race detector
    outc = ctx.path("lb_result_conc.json")
    head = ctx.path("lb_beh_head.jsonl")
    with open(head, "w") as f:
        step = max(1, len(lines) // (400 if thorough else 60))
        f.write("\n".join(lines[::step]) + "\n")
    rc, so, se = ctx.drv(["lb", "-in", head, "-out", outc, "-concurrent", "100000", "-balance"], race=True, timeout=1800, check=False)
    races = se.count("WARNING: DATA RACE")
    rconc = json.load(open(outc)) if os.path.exists(outc) else {"concurrent": None}
    if rc != 0 and not races:
        raise core.Inconclusive("concurrent lb replay failed rc=%d: %s" % (rc, se[-2000:]))

    for mm in r.get("mismatches") or []:
        ctx.violation(classify(mm), "plan yields %s where the specification yields %s (step %d, counter preset %d)" % (
            mm.get("got"), mm.get("want"), mm.get("step"), mm.get("preset")), replay=mm)
    conc = rconc.get("concurrent") or {}
    for v in conc.get("violations") or []:
        ctx.violation("lb:concurrent-plan-unsafe", v, replay={"what": v})
    # NewPlan is one atomic step in LoadBalancer.tla: concurrent planners over a fixed membership get consecutive starts
    unb = ((r.get("concurrent") or {}).get("unbalanced") or []) + (conc.get("unbalanced") or [])
    if unb:
        ctx.violation("lb:concurrent-plans-not-consecutive", unb[0], replay={"what": unb})
    ctx.notes["concurrent_balance_runs"] = ((r.get("concurrent") or {}).get("balance_runs") or 0) + (conc.get("balance_runs") or 0)
    if races:
        m = re.search(r"WARNING: DATA RACE.*?(?=\n\n)", se, flags=re.S)
        ctx.violation("lb:data-race", "race detector report during concurrent plan/event replay",
                      replay={"report": m.group(0) if m else se[:3000]})

    ctx.assumptions += [
        "Add is only delivered for hosts not already present (Cluster.mergeHosts contract, checked by Topology.tla)",
        "counter boundary conformance is sampled at presets congruent to the spec counter mod 60 around 0, 2^31, 2^32",
    ]
    ctx.write_evidence("model_checking", {
        "traces_validated_against_impl": r["replays"] + (conc.get("plans") or 0),
        "samples": r.get("samples") or lines[:2],
        "behaviours_exhaustive": n_exh,
        "behaviours_simulated": n_sim,
        "behaviours_distinct": r["behaviours"],
        "replay_steps": r["steps"],
        "next_calls_compared": r["next_calls"],
        "counter_presets": sorted(r.get("presets") or []),
        "replay_mismatches": r["n_mismatch"],
        "concurrent": conc,
        "race_reports": races,
        "exhaustive": True,
        "rule": "every behaviour of the export configuration (all interleavings of bootstrap/add/remove/newplan/next up to the "
                "stated bounds) plus seeded simulations; each replayed against the real load balancer for every counter preset",
    })
