"""C16 — the proxy tracks backend topology and heals lost backend connections.

Specs: Topology.tla (the select loop of Cluster.stayConnected - event debouncing with the refresh timer, refresh,
control-connection fail-over - against an environment applying node add / remove / unlist / stop / start / restart /
connection drops (pooled, control, all at once) / heartbeat silence; invariant: a quiescent proxy routes exactly to the
listed live nodes; liveness: it settles) and
Backoff.tla (the reconnect delay table with its bounds).  Binding: every TLC-exported fault sequence (a seeded
sample in quick tier) is applied to the real proxy (refresh window shortened to 100 ms through the verif hook); after
every fault the set of nodes that receive requests must converge to the expected set, a control connection must
exist and the reported outage must be zero; with every node down the outage must grow and return to zero
afterwards; every reconnect delay observed through the hooks and every row of the Backoff table replayed into
NewReconnectPolicyWithDelays must lie within the bounds.
"""
import json
import random

from vlib import core


def rows(out, tag):
    pre = '<<"%s", ' % tag
    res = []
    for line in out.splitlines():
        if line.startswith(pre) and line.endswith(">>"):
            res.append(json.loads(line[len(pre):-2]))
    return res


def run(ctx):
    t = ctx.tier == "thorough"
    rnd = random.Random(ctx.seed)
    res = ctx.tlc_must_pass("Topology", "Topology_thorough.cfg" if t else "Topology_quick.cfg", workers=4, timeout=1500, name="topology")
    # unbounded in the number of faults and in the interleaving: TopologyInd.IndInv is inductive (Apalache), holds
    # initially and implies QuiescentConverged; with the hazard switch the induction step must fail
    ind = {}
    base = ["--cinit=CInitConsts", "--next=IndNext"]
    ind["base"] = ctx.apalache("TopologyInd", base + ["--init=CInit", "--inv=IndInv", "--length=0"], name="inductive-base")
    ind["step"] = ctx.apalache("TopologyInd", base + ["--init=IndInit", "--inv=IndInv", "--length=1"], name="inductive-step")
    ind["implies"] = ctx.apalache("TopologyInd", base + ["--init=IndInit", "--inv=QuiescentConverged", "--length=0"], name="inductive-implies")
    ind["step_with_hazard"] = ctx.apalache("TopologyInd", ["--cinit=CInitHazard", "--next=IndNext", "--init=IndInit", "--inv=IndInv", "--length=1"],
                                           name="inductive-step-hazard")
    if [ind["base"], ind["step"], ind["implies"]] != ["NoError"] * 3 or ind["step_with_hazard"] != "Error":
        raise core.Inconclusive("the inductive convergence proof of TopologyInd.tla does not go through: %s" % ind)
    ctx.notes["inductive_proof"] = ind
    behs = list(dict.fromkeys(rows(res.output, "BEH")))
    if len(behs) < 50:
        raise core.Inconclusive("TLC exported too few fault sequences (%d)" % len(behs))
    # the fault sequences that separate a correct cluster loop from one with a known hazard (the model with the hazard
    # switch on fails to converge after them) are replayed first, the rest of the budget is a seeded sample
    hres = ctx.tlc("Topology", "Topology_hazard.cfg", workers=4, timeout=900, count=False, name="topology-hazard")
    haz = list(dict.fromkeys(rows(hres.output, "HAZ")))
    if len(haz) < 5:
        raise core.Inconclusive("the hazard model produced too few discriminating fault sequences (%d)" % len(haz))
    rnd.shuffle(haz)
    hsel = haz if t else haz[:8]
    rest = [b for b in behs if b not in set(hsel)]
    chosen = hsel + rnd.sample(rest, min(len(rest), 180 if t else 16))
    # make sure every fault kind occurs in the sample
    kinds = set()
    for b in chosen:
        kinds |= {s["a"] for s in json.loads(b)}
    path = ctx.path("topo_behaviours.jsonl")
    open(path, "w").write("\n".join(chosen) + "\n")
    out = ctx.path("topo_result.json")
    base_ms, max_ms, connect_ms = 5, 400, 400
    ctx.drv(["topo", "-in", path, "-out", out, "-base", str(base_ms), "-max", str(max_ms), "-budget", "8000"], timeout=3000)
    r = json.load(open(out))
    for m in r.get("mismatches") or []:
        st = m["behaviour"][m["step"]]
        key = "C16:%s-does-not-converge:after=%s" % (m["kind"], st["a"])
        ctx.violation(key, "after fault %s(%s) the proxy routes to %s, expected %s %s" % (st["a"], st.get("h"), m["got"], m["want"], m.get("note", "")), replay=m)
    ad = r.get("all_down") or {}
    if ad:
        # sampled 400 ms and 700 ms after every node went away: the outage is the time since the control connection was lost
        # (readiness compares it with its timeout), so it must have reached those ages, less the time the loss takes to be noticed
        if not (ad.get("down_1", 0) >= 250e6 and ad.get("down_2", 0) >= ad.get("down_1", 0) + 200e6):
            ctx.violation("C16:outage-not-reported-while-all-nodes-down", "outage duration does not grow with the time since the control connection was lost "
                          "while every node is down (sampled 400 ms and 700 ms after the loss): %s" % ad, replay=ad)
        if not ad.get("healed") or ad.get("after", 1) != 0:
            ctx.violation("C16:outage-not-cleared-after-recovery", "outage not cleared / control connection not re-established after the nodes returned: %s" % ad, replay=ad)
        if ad.get("before", 1) != 0:
            ctx.violation("C16:outage-reported-with-control-connection", "non-zero outage while a control connection exists: %s" % ad, replay=ad)
    # delays observed at the hooks: within [min(base,max), max]; the first delay after a successful connect is the attempt-0 delay
    ms = 1000000
    floor, mx = min(base_ms, max_ms) * ms, max_ms * ms
    nd = 0
    for d in r.get("delays") or []:
        nd += 1
        if not (floor <= d["ns"] <= mx):
            ctx.violation("C16:reconnect-delay-out-of-bounds:%s" % d["who"], "reconnect delay %d ns outside [%d, %d]" % (d["ns"], floor, mx), replay=d)
        elif d.get("waited_ns", 0) and not (floor - 2 * ms <= d["waited_ns"] <= mx + connect_ms * ms + 1500 * ms):
            # the wait really made (plus one connection attempt of at most the connect timeout, plus scheduling slack)
            ctx.violation("C16:reconnect-wait-out-of-bounds:%s" % d["who"], "the proxy waited %d ns before its next reconnect step, bounds [%d, %d] (+ connect timeout)" % (d["waited_ns"], floor, mx), replay=d)
        elif d["who"] == "pool" and d["seq"] == 0 and not ((base_ms + 1 + 85) * ms <= d["ns"] < (base_ms + 1 + 115) * ms):
            ctx.violation("C16:reconnect-delay-not-reset-after-success", "first delay after a successful connect is %d ns" % d["ns"], replay=d)
    # Backoff table
    bres = ctx.tlc_must_pass("Backoff", "Backoff.cfg", workers=2, timeout=600, name="backoff")
    brows = rows(bres.output, "ROW")
    bpath = ctx.path("backoff_rows.jsonl")
    open(bpath, "w").write("\n".join(brows) + "\n")
    bout = ctx.path("backoff_result.json")
    ctx.drv(["backoff", "-in", bpath, "-out", bout], timeout=600)
    br = json.load(open(bout))
    for m in br.get("mismatches") or []:
        row = m["row"]
        big = row["Base"] >= 35184372  # 2^45 ns in ms
        key = "C16:backoff:%s:%s" % (m["what"].replace(" ", "-")[:50], "base>=2^45ns" if big else "base<2^45ns")
        ctx.violation(key, "%s: base=%dms max=%dms attempt=%d -> %d ns" % (m["what"], row["Base"], row["Max"], row["Attempt"], m["got_ns"]), replay=m)
    ctx.assumptions += ["convergence is judged after a bounded wait (8 s per fault; refresh window 100 ms, reconnect delays <= 400 ms); "
                        "the refresh window is shortened through a verif hook, everything else is the production code path"]
    ctx.write_evidence("model_checking", {
        "traces_validated_against_impl": r["behaviours"],
        "samples": r.get("samples") or [],
        "fault_sequences_exported": len(behs),
        "fault_sequences_replayed": r["behaviours"],
        "hazard_discriminating_sequences": len(haz),
        "hazard_discriminating_sequences_replayed": len(hsel),
        "fault_steps_applied_before_the_proxy_settled": r.get("rushed_steps", 0),
        "fault_kinds_in_sample": sorted(kinds),
        "fault_steps": r["steps"],
        "probes": r["probes"],
        "max_convergence_ms": r["max_convergence_ms"],
        "reconnect_delays_observed": nd,
        "reconnect_waits_timed": sum(1 for d in r.get("delays") or [] if d.get("waited_ns")),
        "all_down": ad,
        "backoff_rows": br["rows"],
        "backoff_calls": br["calls"],
    })
