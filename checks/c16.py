"""C16 — the proxy tracks backend topology and heals lost backend connections.

Specs: Topology.tla (the select loop of Cluster.stayConnected - event debouncing with the refresh timer, refresh,
control-connection fail-over - against an environment applying node add / remove / unlist / stop / start / restart /
connection drops (pooled, control, all at once) / heartbeat silence; invariant: a quiescent proxy routes exactly to the
listed live nodes; liveness: it settles) and
Backoff.tla (the reconnect delay table with its bounds).  Binding: every TLC-exported fault sequence (a seeded
sample in quick tier) is applied to the real proxy (refresh window shortened to 100 ms through the verif hook); after
every fault the set of nodes that receive requests must converge to the expected set, a control connection must
exist and the reported outage must be zero; with every node down the outage must grow and return to zero
afterwards; every reconnect delay observed through the hooks and every row of the Backoff table replayed into
NewReconnectPolicyWithDelays must lie within the bounds.
"""
import json
import random
import re

from vlib import core


def rows(out, tag):
    pre = '<<"%s", ' % tag
    res = []
    for line in out.splitlines():
        if line.startswith(pre) and line.endswith(">>"):
            res.append(json.loads(line[len(pre):-2]))
    return res


def pool_events(raw):
    """Hook events of the topo driver -> Pool.tla vocabulary (Reset, Fill, Clear, Delay with the wait actually made)."""
    out = []
    open_delay = {}

    def close(key, ts):
        i = open_delay.pop(key, None)
        if i is not None and ts and out[i].get("ts"):
            out[i]["w"] = max(1, (ts - out[i]["ts"]) // 1000)

    for e in raw:
        ev, ts = e["ev"], e.get("ts", 0)
        if ev == "Reset":
            open_delay.clear()
            out.append({"ev": "Reset"})
        elif ev == "H.delay":
            key = "ctrl" if e["who"] == "ctrl" else "pool|%s|%s|%s" % (e["host"], e.get("pool", 0), e["idx"])
            close(key, ts)
            out.append({"ev": "Delay", "key": key, "us": int(e["ns"]) // 1000, "w": 0, "ts": ts})
            open_delay[key] = len(out) - 1
        elif ev == "H.slotfill":
            key = "pool|%s|%s|%s" % (e["host"], e.get("pool", 0), e["idx"])
            close(key, ts)
            out.append({"ev": "Fill", "key": key})
        elif ev == "H.slotclear":
            out.append({"ev": "Clear", "key": "pool|%s|%s|%s" % (e["host"], e.get("pool", 0), e["idx"])})
        elif ev == "H.outage":
            if e.get("zero"):
                close("ctrl", ts)
                out.append({"ev": "Fill", "key": "ctrl"})
            else:
                out.append({"ev": "Clear", "key": "ctrl"})
    for e in out:
        e.pop("ts", None)
    return out


def run(ctx):
    t = ctx.tier == "thorough"
    rnd = random.Random(ctx.seed)
    res = ctx.tlc_must_pass("Topology", "Topology_thorough.cfg" if t else "Topology_quick.cfg", workers=4, timeout=1500, name="topology")
    # the heartbeat loop of a backend connection: an answering peer is never given up, a silent one within idle + interval +
    # timeout (the bound the driver's mute fault waits for); with interval = idle timeout the first claim fails (C20's rule)
    ctx.tlc_must_pass("Heartbeat", "Heartbeat_ok.cfg", workers=2, timeout=300, name="heartbeat")
    hb = ctx.tlc("Heartbeat", "Heartbeat_badconfig.cfg", workers=2, timeout=300, count=False, name="heartbeat-interval-equals-idle")
    if not hb.violated:
        raise core.Inconclusive("Heartbeat.tla no longer shows why the heartbeat interval must be below the idle timeout")
    # unbounded in the number of faults and in the interleaving: TopologyInd.IndInv is inductive (Apalache), holds
    # initially and implies QuiescentConverged; with the hazard switch the induction step must fail
    ind = {}
    base = ["--cinit=CInitConsts", "--next=IndNext"]
    ind["base"] = ctx.apalache("TopologyInd", base + ["--init=CInit", "--inv=IndInv", "--length=0"], name="inductive-base")
    ind["step"] = ctx.apalache("TopologyInd", base + ["--init=IndInit", "--inv=IndInv", "--length=1"], name="inductive-step")
    ind["implies"] = ctx.apalache("TopologyInd", base + ["--init=IndInit", "--inv=QuiescentConverged", "--length=0"], name="inductive-implies")
    ind["step_with_hazard"] = ctx.apalache("TopologyInd", ["--cinit=CInitHazard", "--next=IndNext", "--init=IndInit", "--inv=IndInv", "--length=1"],
                                           name="inductive-step-hazard")
    if [ind["base"], ind["step"], ind["implies"]] != ["NoError"] * 3 or ind["step_with_hazard"] != "Error":
        raise core.Inconclusive("the inductive convergence proof of TopologyInd.tla does not go through: %s" % ind)
    ctx.notes["inductive_proof"] = ind
    behs = list(dict.fromkeys(rows(res.output, "BEH")))
    if len(behs) < 50:
        raise core.Inconclusive("TLC exported too few fault sequences (%d)" % len(behs))
    # the fault sequences that separate a correct cluster loop from one with a known hazard (the model with the hazard
    # switch on fails to converge after them) are replayed first, the rest of the budget is a seeded sample
    eres = ctx.tlc("Topology", "Topology_hazard_events.cfg", workers=4, timeout=600, count=False, name="topology-hazard-events")
    ctx.notes["events_block_refresh_breaks"] = eres.violated
    if eres.violated != "RefreshNotBlockedByEvents":
        raise core.Inconclusive("Topology.tla lost its sensitivity to the hazard EventsBlockRefresh (D23): %s" % eres.violated)
    hres = ctx.tlc("Topology", "Topology_hazard.cfg", workers=4, timeout=900, count=False, name="topology-hazard")
    haz = list(dict.fromkeys(rows(hres.output, "HAZ")))
    if len(haz) < 5:
        raise core.Inconclusive("the hazard model produced too few discriminating fault sequences (%d)" % len(haz))
    rnd.shuffle(haz)
    hsel = haz if t else haz[:8]
    rest = [b for b in behs if b not in set(hsel)]
    chosen = hsel + rnd.sample(rest, min(len(rest), 180 if t else 16))
    # make sure every fault kind occurs in the sample
    kinds = set()
    for b in chosen:
        kinds |= {s["a"] for s in json.loads(b)}
    for b in rest:
        ks = {s["a"] for s in json.loads(b)}
        if not ks <= kinds:
            chosen.append(b)
            kinds |= ks
    path = ctx.path("topo_behaviours.jsonl")
    open(path, "w").write("\n".join(chosen) + "\n")
    out = ctx.path("topo_result.json")
    base_ms, max_ms, connect_ms = 5, 400, 400
    ptrace = ctx.path("pool_trace.ndjson")
    ctx.drv(["topo", "-in", path, "-out", out, "-base", str(base_ms), "-max", str(max_ms), "-budget", "8000", "-trace", ptrace], timeout=3000)
    r = json.load(open(out))
    for m in r.get("mismatches") or []:
        st = m["behaviour"][m["step"]]
        if m["kind"] == "idle":
            ctx.violation("C16:silent-connection-kept-beyond-idle-timeout", "1.5 s after node %s stopped answering (heartbeat interval 150 ms, idle timeout "
                          "600 ms) the proxy still holds: %s" % (st.get("h"), m.get("note")), replay=m)
            continue
        key = "C16:%s-does-not-converge:after=%s" % (m["kind"], st["a"])
        ctx.violation(key, "after fault %s(%s) the proxy routes to %s, expected %s %s" % (st["a"], st.get("h"), m["got"], m["want"], m.get("note", "")), replay=m)
    ad = r.get("all_down") or {}
    if ad:
        # sampled 400 ms and 700 ms after every node went away: the outage is the time since the control connection was lost
        # (readiness compares it with its timeout), so it must have reached those ages, less the time the loss takes to be noticed
        if not (ad.get("down_1", 0) >= 250e6 and ad.get("down_2", 0) >= ad.get("down_1", 0) + 200e6):
            ctx.violation("C16:outage-not-reported-while-all-nodes-down", "outage duration does not grow with the time since the control connection was lost "
                          "while every node is down (sampled 400 ms and 700 ms after the loss): %s" % ad, replay=ad)
        if not ad.get("healed") or ad.get("after", 1) != 0:
            ctx.violation("C16:outage-not-cleared-after-recovery", "outage not cleared / control connection not re-established after the nodes returned: %s" % ad, replay=ad)
        if ad.get("before", 1) != 0:
            ctx.violation("C16:outage-reported-with-control-connection", "non-zero outage while a control connection exists: %s" % ad, replay=ad)
    # the reconnect events recorded at the hooks, validated against Pool.tla: every delay within [min(base,max), max], continuing
    # the backoff series of its loop, restarted after a successful connect; the wait actually made within the bounds too
    pevents = pool_events(core.read_ndjson(ptrace))
    nd = sum(1 for e in pevents if e["ev"] == "Delay")
    ntimed = sum(1 for e in pevents if e["ev"] == "Delay" and e["w"])
    if nd < 10:
        raise core.Inconclusive("too few reconnect delays observed (%d)" % nd)
    pcfg = {"base_us": base_ms * 1000, "max_us": max_ms * 1000, "base_log2": (base_ms * 1000000).bit_length() - 1,
            "connect_us": connect_ms * 1000, "slack_us": 1500000}
    pv = core.validate_trace(ctx, "TracePool", pevents, pcfg, name="pool")
    for b in pv["bad"]:
        at = b.get("at", 0)
        e = pevents[at - 1] if 0 < at <= len(pevents) else {}
        who = (e.get("key") or "?").split("|")[0]
        key = "C16:%s:%s" % (re.sub(r"[^a-z0-9]+", "-", b["what"].lower()).strip("-")[:70], who)
        ctx.violation(key, "%s: %s" % (b["what"], e), replay={"violation": b, "events": pevents[max(0, at - 15):at + 1], "cfg": pcfg})
    # binding self-test: the same log with one loop's counter not reset after its successful connect must be flagged
    mutated, done = [], False
    last_big = {}
    for e in pevents:
        e2 = dict(e)
        if e["ev"] == "Delay":
            if not done and e["key"] in last_big and last_big[e["key"]] == "filled":
                e2["us"] = max_ms * 1000 + 5000
                done = True
            last_big[e["key"]] = "delay"
        elif e["ev"] == "Fill":
            last_big[e["key"]] = "filled"
        mutated.append(e2)
    if done:
        mv = core.validate_trace(ctx, "TracePool", mutated, pcfg, name="pool-selftest")
        if not mv["bad"]:
            raise core.Inconclusive("binding self-test: a corrupted reconnect log was accepted by TracePool")
        ctx.notes["pool_binding_selftest"] = sorted({b["what"] for b in mv["bad"]})
    # readiness endpoint of the real binary: behaviours of Readiness.tla (lose / tick / regain) replayed, /readiness and
    # /liveness polled half a tick after every step
    rres = ctx.tlc_must_pass("Readiness", "Readiness.cfg", workers=2, timeout=300, name="readiness")
    rbehs = list(dict.fromkeys(rows(rres.output, "RDY")))
    if len(rbehs) < 5:
        raise core.Inconclusive("TLC exported too few readiness behaviours (%d)" % len(rbehs))
    long_outage = [b for b in rbehs if '"readiness":503' in b and '"a":"regain"' in b]
    rnd.shuffle(long_outage)
    rsel = (rbehs if t else long_outage[:2] + [b for b in rbehs if '"readiness":503' not in b][:1])
    rpath = ctx.path("readiness_behaviours.jsonl")
    open(rpath, "w").write("\n".join(rsel) + "\n")
    rout = ctx.path("readiness_result.json")
    ctx.drv(["readiness", "-bin", ctx.build_proxy_binary(), "-in", rpath, "-out", rout, "-tick", "1000", "-timeout", "2"], timeout=1500)
    rr = json.load(open(rout))
    for m in rr.get("mismatches") or []:
        st = m["behaviour"][m["step"]]
        key = "C16:readiness:%s" % re.sub(r"[^a-z0-9]+", "-", re.sub(r"\d+", "N", m["what"].lower())).strip("-")[:70]
        ctx.violation(key, "after %s (control connection %s, outage age %s ticks of 1 s, readiness timeout 2 s): %s %s" % (
            st["a"], st["ctrl"], st["since"], m["what"], m.get("got", "")), replay=m)
    # the handshake every replaced connection goes through: rows of BackendHandshake.tla (backend personalities x
    # configurations) replayed against the real ConnectCluster / control-connection reconnect / ConnectSession
    hres = ctx.tlc_must_pass("BackendHandshakeMC", "BackendHandshakeMC.cfg", workers=4, timeout=600, name="backend-handshake")
    hrows = list(dict.fromkeys(rows(hres.output, "BHS")))
    if len(hrows) < 20000:
        raise core.Inconclusive("TLC exported too few handshake rows (%d)" % len(hrows))
    if not t:
        parsed = [(json.loads(x), x) for x in hrows]
        heal_ok = [x for r, x in parsed if r["out"] == "ok" and r["row"]["kind"] == "reconnect"]
        pool_ok = [x for r, x in parsed if r["out"] == "ok" and r["row"]["kind"] == "pool"]
        other = [x for r, x in parsed if r["out"] != "ok" or r["row"]["kind"] == "initial"]
        hrows = heal_ok + rnd.sample(pool_ok, 300) + rnd.sample(other, 500)
    hpath = ctx.path("handshake_rows.jsonl")
    open(hpath, "w").write("\n".join(hrows) + "\n")
    hout = ctx.path("handshake_result.json")
    ctx.drv(["bhs", "-in", hpath, "-out", hout, "-workers", "12"], timeout=1800)
    hr = json.load(open(hout))
    beyond = []
    for m in hr.get("mismatches") or []:
        row = m["row"]
        rr_ = row["row"]
        desc = "%s connection, version %s asked of a backend speaking %s (refusing with '%s'), authentication '%s' %s credentials, REGISTER answered '%s'%s" % (
            rr_["kind"], rr_["start"], rr_["supp"], rr_["wording"], rr_["auth"], "with" if rr_["creds"] else "without", rr_["reg"],
            (", compression '%s', keyspace '%s'" % (rr_["comp"], rr_["ks"])) if rr_["kind"] == "pool" else "")
        if row["out"] == "ok" and rr_["kind"] in ("reconnect", "pool") and m.get("outcome") != "ok":
            # a connection that the specification says is (re-)established, and the code does not establish: C16's
            # "the proxy replaces it".  (A different exchange that still ends with a usable connection is not C16's.)
            key = "C16:handshake:%s-not-established:auth-%s" % (rr_["kind"], rr_["auth"])
            ctx.violation(key, "%s: connection not established; %s: expected %s, got %s" % (desc, m["what"], m["want"], m["got"]), replay=m)
        else:
            beyond.append("%s: %s; expected %s, got %s" % (desc, m["what"], m["want"], m["got"]))
    if beyond:
        # deviations from BackendHandshake.tla outside what C16 states (start-up, or an exchange that must fail): on record
        print("NOTE beyond-property: %d deviations from BackendHandshake.tla, e.g. %s" % (len(beyond), beyond[0][:400]))
    ctx.notes["backend_handshake"] = {"rows_exported": hres.distinct and len(rows(hres.output, "BHS")), "rows_replayed": hr["rows"],
                                      "by_kind": hr["by_kind"], "by_expected_outcome": hr["by_outcome"],
                                      "frames_compared": hr["frames_compared"],
                                      "deviations_outside_C16": beyond[:20]}
    # how a row of system.peers becomes a host: behaviours of HostDiscovery.tla (the row about one node has a shape when
    # the proxy starts, becomes ordinary, takes the shape again) replayed against the in-process proxy
    dres = ctx.tlc_must_pass("HostDiscovery", "HostDiscovery.cfg", workers=2, timeout=300, name="host-discovery")
    dbehs = list(dict.fromkeys(rows(dres.output, "HD")))
    if len(dbehs) != 24:
        raise core.Inconclusive("TLC exported %d host-discovery behaviours, expected 24" % len(dbehs))
    dpath = ctx.path("discovery_behaviours.jsonl")
    open(dpath, "w").write("\n".join(dbehs) + "\n")
    dout = ctx.path("discovery_result.json")
    ctx.drv(["discovery", "-in", dpath, "-out", dout, "-workers", "6"], timeout=900)
    dr = json.load(open(dout))
    dnotes = []
    for m in dr.get("mismatches") or []:
        sh = m["behaviour"]["steps"][m["step"]]["shape"]
        phase = ["when the proxy starts", "after the row became ordinary", "after the row took the shape again"][m["step"]]
        desc = "system.peers row about h2 with rpc_address=%s peer=%s data_center=%s, %s: %s (expected %s, got %s)" % (
            sh["rpc"], sh["peer"], sh["dc"], phase, m["what"], m["want"], m.get("got"))
        missing = sorted(set(m["want"]) - set(m.get("got") or []))
        if missing:
            # a listed node with a usable client address that does not receive requests
            ctx.violation("C16:discovery:listed-node-not-routed:rpc-%s:peer-%s:dc-%s:phase%d" % (sh["rpc"], sh["peer"], sh["dc"], m["step"]), desc, replay=m)
        else:
            dnotes.append(desc)
    if dnotes:
        print("NOTE beyond-property: %d deviations from HostDiscovery.tla, e.g. %s" % (len(dnotes), dnotes[0][:400]))
    ctx.notes["host_discovery"] = {"behaviours_replayed": dr["behaviours"], "phases": dr["steps"], "probes": dr["probes"],
                                   "deviations_outside_C16": dnotes[:20]}
    # a membership change announced at the head of a steady stream of further announcements (a rolling restart), with
    # topology queries that take a while: Topology.tla's PEvent leaves a pending refresh alone and nothing an
    # announcement does keeps the refresh from completing, so the change is followed within a few refresh windows of
    # ITS announcement (window 100 ms; the budget is 15 windows, the stream lasts 30)
    sout = ctx.path("stream_result.json")
    streams = []
    for pd in (("60", "20") if not t else ("60", "20", "5", "150")):
        ctx.drv(["stream", "-out", sout, "-window", "100", "-peersdelay", pd, "-spacing", "25", "-length", "3000"], timeout=300)
        sr = json.load(open(sout))
        streams.append(sr)
        for field, what in (("added_routed_after_ms", "a node that joined is not routed to"), ("removed_unrouted_after_ms", "a node that was unlisted keeps receiving requests")):
            v = sr[field]
            if field == "removed_unrouted_after_ms" and sr.get("note"):
                continue
            if v < 0 or v > 1500:
                ctx.violation("C16:event-stream:%s" % field.replace("_after_ms", ""),
                              "%s within 15 refresh windows of its announcement while other nodes keep announcing themselves every %s ms and a read of system.peers "
                              "takes %s ms (%s; control connection lost during the stream: %s)" % (
                                  what, sr["spacing_ms"], sr["peers_delay_ms"], "never during the 3 s stream" if v < 0 else "%d ms" % v,
                                  bool(sr["control_connections_lost_during_streams"])), replay=sr)
    # two changes one refresh apart: the second is announced while the first refresh waits for its answer
    for pd in ("150", "300"):
        ctx.drv(["stream", "-double", "-out", sout, "-window", "100", "-peersdelay", pd], timeout=300)
        sr = json.load(open(sout))
        streams.append(sr)
        v = sr["added_routed_after_ms"]
        if v < 0 or v > 1500 + int(pd):
            ctx.violation("C16:second-change-during-refresh:added_routed",
                          "a node that joined while the refresh caused by an earlier change was waiting for its answer (%s ms) is not routed to within 15 refresh "
                          "windows of its own announcement (%s)" % (pd, "not within 3 s" if v < 0 else "%d ms" % v), replay=sr)
    ctx.notes["event_streams"] = streams
    # Backoff table
    bres = ctx.tlc_must_pass("Backoff", "Backoff.cfg", workers=2, timeout=600, name="backoff")
    brows = rows(bres.output, "ROW")
    bpath = ctx.path("backoff_rows.jsonl")
    open(bpath, "w").write("\n".join(brows) + "\n")
    bout = ctx.path("backoff_result.json")
    ctx.drv(["backoff", "-in", bpath, "-out", bout], timeout=600)
    br = json.load(open(bout))
    for m in br.get("mismatches") or []:
        row = m["row"]
        big = row["Base"] >= 35184372  # 2^45 ns in ms
        key = "C16:backoff:%s:%s" % (m["what"].replace(" ", "-")[:50], "base>=2^45ns" if big else "base<2^45ns")
        ctx.violation(key, "%s: base=%dms max=%dms attempt=%d -> %d ns" % (m["what"], row["Base"], row["Max"], row["Attempt"], m["got_ns"]), replay=m)
    ctx.assumptions += ["convergence is judged after a bounded wait (8 s per fault; refresh window 100 ms, reconnect delays <= 400 ms); "
                        "the refresh window is shortened through a verif hook, everything else is the production code path"]
    ctx.write_evidence("model_checking", {
        "traces_validated_against_impl": r["behaviours"],
        "samples": r.get("samples") or [],
        "fault_sequences_exported": len(behs),
        "fault_sequences_replayed": r["behaviours"],
        "hazard_discriminating_sequences": len(haz),
        "hazard_discriminating_sequences_replayed": len(hsel),
        "fault_steps_applied_before_the_proxy_settled": r.get("rushed_steps", 0),
        "fault_kinds_in_sample": sorted(kinds),
        "fault_steps": r["steps"],
        "probes": r["probes"],
        "max_convergence_ms": r["max_convergence_ms"],
        "reconnect_delays_observed": nd,
        "reconnect_waits_timed": ntimed,
        "reconnect_events_validated": pv["total"],
        "all_down": ad,
        "readiness_behaviours_replayed": rr["behaviours"],
        "readiness_samples": rr["samples"],
        "backoff_rows": br["rows"],
        "backoff_calls": br["calls"],
    })
