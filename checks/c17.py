"""C17 — hostile or malformed peers cannot crash or wedge the proxy.

Spec: Hostile.tla enumerates all sequences (length 2 quick / 3 thorough) over the abstract classes of hostile client
behaviour (malformed framing, wrong directions, hostile field contents) and hostile backend behaviour (unknown
stream, wrong opcode, short error body, garbage, unsolicited event, ...) with the outcomes the offender may observe;
ProcessAlive is the invariant.  Binding: a seeded cover of the sequences is replayed against the REAL BINARY (built
from /repo, run as a subprocess against the fake backend) for several --max-protocol-version settings; every listed
variant of every class is sent at least once; after every event the process must be alive, the offender must have
seen an allowed outcome and a canary client must get a locally answered and a forwarded query right.
"""
import json
import random
import re

from checks import connstage
from vlib import core


def run(ctx):
    # the connection object both sides of the proxy use: nobody stays inside Write once a connection is gone (Conn.tla)
    connstage.run(ctx, "C17")
    t = ctx.tier == "thorough"
    rnd = random.Random(ctx.seed)
    res = ctx.tlc_must_pass("Hostile", "Hostile_thorough.cfg" if t else "Hostile_quick.cfg", workers=4, timeout=1500, name="hostile")
    seqs = []
    for line in res.output.splitlines():
        if line.startswith('<<"SEQ", '):
            seqs.append(json.loads(line[len('<<"SEQ", '):-2]))
    seqs = list(dict.fromkeys(seqs))
    if len(seqs) < 100:
        raise core.Inconclusive("TLC exported too few sequences (%d)" % len(seqs))
    rnd.shuffle(seqs)
    # greedy cover of all ordered pairs (thorough) / all classes (quick), plus a random sample
    chosen, seen = [], set()
    for s in seqs:
        q = json.loads(s)["seq"]
        feats = set(q) if not t else {(q[i], q[i + 1]) for i in range(len(q) - 1)}
        if not feats <= seen:
            chosen.append(s)
            seen |= feats
    chosen += seqs[:(300 if t else 25)]
    path = ctx.path("hostile_seqs.jsonl")
    open(path, "w").write("\n".join(chosen) + "\n")
    # thorough: the pair cover runs against one version setting, the other settings get a sample (every class and
    # every listed variant still occurs under each of them)
    spath = ctx.path("hostile_seqs_sample.jsonl")
    sample, seen1 = [], set()
    for s in seqs:
        q = json.loads(s)["seq"]
        if not set(q) <= seen1:
            sample.append(s)
            seen1 |= set(q)
    open(spath, "w").write("\n".join(sample + seqs[:120]) + "\n")
    binp = ctx.build_proxy_binary()
    total = {"sequences": 0, "events": 0, "canary_checks": 0, "process_restarts": 0}
    classes = {}
    outcomes = {}
    samples = []
    for maxv in (["v4", "v5", "v3", "DSEv2"] if t else ["v4", "v5"]):
        out = ctx.path("hostile_%s.json" % maxv)
        # frequent heartbeats heal (and hide) a stalled backend connection within their interval: the v5 run uses slow ones
        hb = ["-heartbeat", "6s", "-idle", "30s"] if maxv == "v5" else []
        if maxv == "v4":
            hb += ["-debug"]        # one run with the development logger (--debug is a documented option like any other)
        ctx.drv(["hostile", "-bin", binp, "-in", path if (maxv == "v4" or not t) else spath, "-out", out, "-maxversion", maxv, "-reps", "2"] + hb,
                timeout=6000)
        r = json.load(open(out))
        for k in total:
            total[k] += r[k]
        for k, v in (r.get("events_per_class") or {}).items():
            classes[k] = classes.get(k, 0) + v
        for k, v in (r.get("outcomes") or {}).items():
            outcomes[k] = outcomes.get(k, 0) + v
        samples = samples or r.get("samples") or []
        for f in r.get("findings") or []:
            if f["kind"] == "process-died":
                m = re.search(r"(panic: [^\n|]*|fatal error: [^\n|]*)", f["detail"])
                site = re.search(r"github.com/datastax/cql-proxy/([\w./()*]+)\(", f["detail"])
                key = "C17:process-died:%s:%s" % (f["class"], site.group(1) if site else "?")
                ctx.violation(key, "the proxy process died on a %s event: %s" % (f["class"], m.group(1) if m else f["detail"][:200]), replay=f)
            elif f["kind"] == "canary-failed":
                ctx.violation("C17:canary-failed:after=%s" % f["class"], "a well-behaved client is not served correctly after a %s event: %s" % (f["class"], f["detail"]), replay=f)
            else:
                ctx.violation("C17:offender-outcome:%s:%s" % (f["class"], f["observed"]),
                              "offender of class %s observed %s (%s), allowed outcomes exclude it" % (f["class"], f["observed"], f["detail"]), replay=f)
    # the TLS listener: offenders that misbehave inside the TLS handshake and keep their sockets open (HostileTLS.tla)
    tres = ctx.tlc_must_pass("HostileTLS", "HostileTLS_thorough.cfg" if t else "HostileTLS_quick.cfg", workers=2, timeout=300, name="hostile-tls")
    tseqs = []
    for line in tres.output.splitlines():
        if line.startswith('<<"TLSSEQ", '):
            tseqs.append(json.loads(line[len('<<"TLSSEQ", '):-2]))
    tseqs = list(dict.fromkeys(tseqs))
    if len(tseqs) < 30:
        raise core.Inconclusive("TLC exported too few TLS-listener sequences (%d)" % len(tseqs))
    rnd.shuffle(tseqs)
    if not t:
        # every class at least once, then a few more
        pick, seen_t = [], set()
        for s_ in tseqs:
            acts = {x["a"] for x in json.loads(s_)}
            if not acts <= seen_t:
                pick.append(s_)
                seen_t |= acts
        tseqs = pick + tseqs[:6]
    tpath = ctx.path("hostile_tls_seqs.jsonl")
    open(tpath, "w").write("\n".join(tseqs) + "\n")
    tout = ctx.path("hostile_tls.json")
    ctx.drv(["tlsfront", "-bin", binp, "-in", tpath, "-out", tout, "-dir", ctx.scratch], timeout=3000)
    tr = json.load(open(tout))
    for f in tr.get("findings") or []:
        acts = [x["a"] for x in f["sequence"][:f["step"] + 1]]
        key = "C17:tls-listener:%s:after=%s" % (re.sub(r"[^a-z0-9]+", "-", f["what"].lower())[:60].strip("-"), acts[-1])
        ctx.violation(key, "TLS listener, after %s: %s (%s)" % (" , ".join(acts), f["what"], f["detail"][:300]), replay=f)
    total["events"] += tr["steps"]
    total["canary_checks"] += tr["canaries"]
    total["sequences"] += tr["sequences"]
    for k, v in (tr.get("offender_observations") or {}).items():
        outcomes["tls:" + k] = v
        classes[k.split(" -> ")[0]] = classes.get(k.split(" -> ")[0], 0) + v
    # valid frames only, many connections at once: PREPARE and EXECUTE of statements the proxy answers itself (reads of the
    # virtual tables, USE) - a process that the Go runtime kills ("fatal error: concurrent map ...") serves nobody
    sp_stats = ctx.path("sysprep_c17.json")
    rc, sout, serr = ctx.drv(["sysprep", "-ms", "12000" if t else "4000", "-stats", sp_stats], check=False, timeout=900)
    if rc != 0:
        m = re.search(r"(fatal error: [^\n]*|panic: [^\n]*)", serr + sout)
        site = re.search(r"github.com/datastax/cql-proxy/([\w./()*]+)\(", serr + sout)
        if not m:
            raise core.Inconclusive("sysprep driver failed rc=%d\n%s" % (rc, (serr or sout)[-1500:]))
        ctx.violation("C17:process-died:concurrent-prepare-execute:%s" % (site.group(1) if site else "?"),
                      "the proxy process died while several connections PREPAREd and EXECUTEd statements the proxy answers itself: %s" % m.group(1),
                      replay={"stderr_tail": (serr or sout)[-3000:]})
    else:
        total["events"] += 1
    if total["events"] < 100:
        raise core.Inconclusive("too few hostile events executed")
    ctx.assumptions += ["abstract classes with listed concrete variants and seeded contents, not coverage-guided byte fuzzing; declared lengths up to 15 MiB; "
                        "a backend connection torn down by garbage may take the reconnect delay (2 s) to return - the canary retries for 8 s"]
    ctx.write_evidence("exploration", {
        "evaluations": total["events"],
        "distinct_nontrivial": len(classes),
        "rule": "evaluation = one hostile event (concrete byte string of an abstract class) sent to the real binary followed by the liveness and canary "
                "checks; distinct non-trivial = abstract classes exercised (every listed variant of a class is sent at least once)",
        "samples": samples,
        "sequences_exported": len(seqs),
        "sequences_replayed": total["sequences"],
        "canary_checks": total["canary_checks"],
        "process_restarts": total["process_restarts"],
        "events_per_class": classes,
        "offender_outcomes": outcomes,
        "exhaustive": False,
    })
