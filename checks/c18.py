"""C18 — concurrent operation is free of data races.

A TLA+ model cannot observe Go's memory model.  The specifications contribute (a) the lock discipline of the
design (Session.tla: TableWriteExclusive; Request.tla: MutexOK and the explicit lock variables) checked by TLC,
and (b) the concurrent scenario families (request lifecycle with drops and re-prepares, USE histories, plan
creation under membership changes, the gated hazard schedules); the verdict on the code is the happens-before
race detector observing those scenario families (`go build -race -tags verif`).  A report counts when both
stacks contain a frame of github.com/datastax/cql-proxy; it is keyed by the unordered pair of access sites
(package.function, not line numbers).  A process abort ("fatal error: concurrent map ...") is a violation too.
"""
import json
import os
import random
import re

from vlib import core

PKG = "github.com/datastax/cql-proxy/"


def parse_races(stderr):
    """Returns list of (key, report_text)."""
    out = []
    blocks = re.split(r"={18}\n", stderr)
    for b in blocks:
        if "WARNING: DATA RACE" not in b:
            continue
        # the two access stacks: "Write at/Read at ... by goroutine" and "Previous write/read at ... by goroutine"
        parts = re.split(r"\n\n", b)
        sites = []
        for p in parts[:2]:
            site = None
            for line in p.splitlines():
                line = line.strip()
                if line.startswith(PKG) and line.endswith("()"):
                    site = line[:-2]
                    break
            sites.append(site)
        if all(sites) and len(sites) == 2:
            fn = lambda s: re.sub(r"\.func\d+(\.\d+)*$", "", s.replace(PKG, ""))
            key = "race:" + "|".join(sorted(fn(s) for s in sites))
            out.append((key, b[:3000]))
    return out


def parse_fatal(stderr):
    m = re.search(r"fatal error: (concurrent map [a-z ]+)", stderr)
    if not m:
        return None
    site = None
    for line in stderr[m.start():].splitlines()[1:40]:
        mm = re.match(r"(" + re.escape(PKG) + r"\S+)\(", line)
        if mm:
            site = re.sub(r"\(0x.*$", "", mm.group(1).replace(PKG, ""))
            break
    return "fatal:%s:%s" % (m.group(1).replace(" ", "-"), site), stderr[m.start():m.start() + 2500]


def run(ctx):
    t = ctx.tier == "thorough"
    n = lambda q, th: str(th if t else q)
    # design-level lock discipline
    ctx.tlc_must_pass("SessionMC", "SessionMC_lock.cfg", timeout=600, workers=4, name="lock-discipline-session")
    ctx.tlc_must_pass("RequestMC", "RequestMC_quick.cfg", timeout=1500, name="lock-discipline-request")
    scenarios = [
        ("session-use", ["session", "-rounds", n(2, 6), "-clients", "8", "-steps", "10", "-out", ctx.path("r1.ndjson"), "-stats", ctx.path("s1.json")]),
        ("req-drops", ["req", "-random", n(500, 4000), "-nodes", "3", "-numconns", "2", "-clients", "6", "-workers", "6", "-round", "250",
                       "-droprate", "0.5", "-delay", "2", "-out", ctx.path("r2.ndjson"), "-stats", ctx.path("s2.json")]),
        # nodes that stop reading and then lose their connections while bulky requests are queued for them: requests still
        # in the write queue of a dead connection are retried on another one
        ("req-stall-drops", ["req", "-random", n(300, 2000), "-nodes", "3", "-numconns", "2", "-clients", "4", "-workers", "6", "-round", "300",
                             "-stalldrops", "6", "-okbias", "6", "-nodrops", "-out", ctx.path("r9.ndjson"), "-stats", ctx.path("s9.json")]),
        ("req-prepare", ["req", "-random", n(400, 3000), "-nodes", "3", "-numconns", "1", "-clients", "6", "-workers", "6", "-round", "200",
                         "-kinds", "execute,batch", "-restarts", "4", "-out", ctx.path("r3.ndjson"), "-stats", ctx.path("s3.json")]),
        ("req-addnode-lz4", ["req", "-random", n(200, 1500), "-nodes", "2", "-numconns", "1", "-clients", "4", "-workers", "4", "-round", "100",
                             "-addnode", "-compression", "lz4", "-out", ctx.path("r4.ndjson"), "-stats", ctx.path("s4.json")]),
        ("events", ["events", "-rounds", n(2, 6), "-ops", "40", "-out", ctx.path("r7.ndjson"), "-stats", ctx.path("s7.json")]),
        ("intercept-prepare-execute", ["sysprep", "-ms", n(3000, 10000), "-stats", ctx.path("s8.json")]),
        ("gates-d8", ["gates", "-scenario", "d8", "-out", ctx.path("r5.ndjson"), "-stats", ctx.path("s5.json")]),
        ("gates-d11", ["gates", "-scenario", "d11", "-out", ctx.path("r6.ndjson"), "-stats", ctx.path("s6.json")]),
    ]
    # membership changes with query plans in flight: fault sequences of Topology.tla that add, remove and unlist nodes,
    # applied while concurrent clients keep issuing requests
    tres = ctx.tlc_must_pass("Topology", "Topology_quick.cfg", workers=4, timeout=900, name="topology")
    behs = []
    for line in tres.output.splitlines():
        if line.startswith('<<"BEH", ') and line.endswith(">>"):
            behs.append(json.loads(line[len('<<"BEH", '):-2]))
    behs = sorted(set(behs))
    random.Random(ctx.seed).shuffle(behs)
    member = [b for b in behs if sum(1 for st in json.loads(b) if st["a"] in ("add", "remove", "unlist")) >= 2 and '"remove"' in b or '"unlist"' in b]
    if len(member) < 5:
        raise core.Inconclusive("too few membership-changing fault sequences exported (%d)" % len(member))
    tpath = ctx.path("topo_race.jsonl")
    # ... and sequences in which the control connection is lost and re-established (what the cluster loop learns on a
    # reconnect is read by every client goroutine that answers OPTIONS or a read of the virtual system tables)
    ctrl = [b for b in behs if ('"dropctrl"' in b or '"dropall"' in b) and b not in member[:int(n(5, 30))]]
    open(tpath, "w").write("\n".join(member[:int(n(5, 30))] + ctrl[:int(n(3, 15))]) + "\n")
    scenarios.append(("topology-hammer", ["topo", "-in", tpath, "-out", ctx.path("topo_race.json"), "-base", "5", "-max", "400", "-budget", "8000", "-hammer", "4"]))
    # plan creation and consumption while membership events are applied (LoadBalancer.tla behaviours, in memory: no
    # socket operations order the goroutines, so the detector sees every unsynchronised access of this family)
    from checks import c15
    sim = ctx.tlc("LoadBalancer", "LoadBalancer_sim.cfg", simulate="num=%s" % n(300, 2000), depth=60, workers=1, timeout=900, count=False, name="lb-simulate")
    lbpath = ctx.path("lb_behaviours.jsonl")
    if c15.extract_behaviours(sim.output, lbpath) == 0:
        raise core.Inconclusive("no load-balancer behaviours exported by TLC")
    lblines = list(dict.fromkeys(open(lbpath).read().splitlines()))
    open(lbpath, "w").write("\n".join(lblines[:int(n(150, 1000))]) + "\n")
    scenarios.append(("lb-plans-under-membership-changes", ["lb", "-in", lbpath, "-out", ctx.path("lb_conc.json"), "-concurrent", "100000"]))
    extra = os.path.join(core.VERIF, "checks", "c18_extra.py")
    reports = 0
    ran = []
    samples = []
    for name, args in scenarios:
        # the hook sink takes one mutex at every hook point: that orders all proxy goroutines and hides races from the
        # detector, so only the gated schedules (which need the hooks to steer the goroutines) run with hooks on
        rc, so, se = ctx.drv(args, race=True, timeout=1500, check=False, env=None if name.startswith("gates") else {"VERIF_NOHOOKS": "1"})
        races = parse_races(se)
        fatal = parse_fatal(se)
        ran.append({"scenario": name, "rc": rc, "race_reports": len(races), "fatal": bool(fatal)})
        for key, text in races:
            reports += 1
            ctx.violation(key, "data race (scenario %s)" % name, replay={"scenario": name, "report": text})
            if len(samples) < 2:
                samples.append({"scenario": name, "key": key})
        if fatal:
            ctx.violation(fatal[0], "process aborted: %s (scenario %s)" % (fatal[0], name), replay={"scenario": name, "report": fatal[1]})
        elif rc == 66 and "WARNING: DATA RACE" in se and not races:
            # reports whose stacks are not both inside the proxy (harness or library code only): recorded, not a verdict
            ctx.notes.setdefault("foreign_race_reports", []).append({"scenario": name, "excerpt": se[se.index("WARNING: DATA RACE"):][:1500]})
        elif rc != 0 and not races:
            raise core.Inconclusive("scenario %s failed rc=%d: %s" % (name, rc, se[-1500:]))
        for f in os.listdir(ctx.scratch):
            if f.endswith(".ndjson"):
                os.remove(os.path.join(ctx.scratch, f))
    ctx.assumptions += ["the race detector reports only races that the executed schedules exhibit; schedules come from the seeded scenario families and gates"]
    ctx.write_evidence("exploration", {
        "evaluations": len(ran),
        "distinct_nontrivial": len([r for r in ran if r["rc"] == 0 or r["race_reports"] or r["fatal"]]),
        "rule": "one evaluation = one concurrent scenario family executed under the Go race detector with the proxy in-process; "
                "non-trivial = the scenario ran to completion (or produced a report)",
        "samples": ran,
        "race_reports": reports,
        "exhaustive": False,
    })
