"""C19 — Astra bundle connections authenticate the server and identify the client.

Spec: AstraTLS.tla.  TLC enumerates the abstract server certificate chains of the statement
(signer x extra certificate sent x SAN x validity, plus the empty chain) for every connection kind
(metadata service, node via contact point, node via system.peers), bundle host kind (DNS name /
IP literal), TLS version and node-id draw, checks the obligations of the statement on the client
handshake machine (NoCQLBeforeAccept, PresentsBundleCert, CertOnlyToVerified, SNIOk) and exports
the observation expected at the end of every row.  harness/cmd/vdrv-tls mints real certificates
of each shape offline, runs local TLS servers, and drives the real astra resolver / endpoints /
proxycore.Connect[Client]; the observations are compared with the table here.
"""
import json

from vlib import core


def extract_rows(out):
    rows = []
    pre = '<<"ROW", '
    for line in out.splitlines():
        if line.startswith(pre) and line.endswith(">>"):
            rows.append(json.loads(json.loads(line[len(pre):-2])))
    return rows


def chain_key(c):
    if c["signer"] == "none":
        return "empty"
    return "signer=%s,extra=%s,san=%s,leaf=%s" % (c["signer"], "yes" if c["extra"] else "no", c["san"], c["validity"])


class Agg:
    """Collects disagreements and reports one key per (kind, target, shape); the bundle host kind /
    TLS version become part of the key only when the disagreement depends on them.  For servers that
    are wrongly ACCEPTED only the minimal sets of violated conjuncts are reported (a chain that is
    wrong in two ways adds nothing once each single way is already reported)."""

    def __init__(self):
        self.items = {}   # (kind, target, shape) -> list of (host, tls, text, replay, whyset)
        self.tried = {}   # (target, shape) -> set of (host, tls)

    def tried_row(self, target, shape, host, tls):
        self.tried.setdefault((target, shape), set()).add((host, tls))

    def add(self, kind, target, shape, host, tls, text, replay, why=None):
        self.items.setdefault((kind, target, shape), []).append((host, tls, text, replay, frozenset(why or [])))

    def flush(self, ctx):
        keys = sorted(self.items)
        # minimality filter for the wrongly-accepted kinds
        minimal = set(keys)
        for k in keys:
            if k[0] != "accepts-bad-server":
                continue
            wk = self.items[k][0][4]
            for k2 in keys:
                if k2 != k and k2[0] == k[0] and k2[1] == k[1] and self.items[k2][0][4] < wk:
                    minimal.discard(k)
                    break
        suppressed = len(keys) - len(minimal)
        for k in keys:
            if k not in minimal:
                continue
            kind, target, shape = k
            items = self.items[k]
            failing = {(h, t) for h, t, _, _, _ in items}
            tried = self.tried.get((target, shape), failing)
            key = "%s:%s:%s" % (kind, target, shape)
            if failing != tried:
                fh, ft = sorted({h for h, _ in failing}), sorted({t for _, t in failing})
                th, tt = sorted({h for h, _ in tried}), sorted({t for _, t in tried})
                if fh != th:
                    key += ",host=" + "+".join(fh)
                if ft != tt:
                    key += ",tls=" + "+".join(ft)
            _, _, text, rep, _ = items[0]
            rep = dict(rep)
            rep["failing_rows"] = len(items)
            rep["failing_variants"] = sorted(failing)
            rep["variants_tried"] = sorted(tried)
            ctx.violation(key, "%s [%d failing rows]" % (text, len(items)), replay=rep)
        return suppressed


def run(ctx):
    thorough = ctx.tier == "thorough"
    res = ctx.tlc_must_pass("AstraTLS", "AstraTLS_thorough.cfg" if thorough else "AstraTLS_quick.cfg",
                            timeout=900, name="table", workers=4)
    rows = extract_rows(res.output)
    if not rows:
        raise core.Inconclusive("no rows exported by TLC")
    rows.sort(key=lambda r: json.dumps(r, sort_keys=True))
    inp = ctx.path("c19_rows.jsonl")
    with open(inp, "w") as f:
        for i, r in enumerate(rows):
            f.write(json.dumps({"id": i + 1, "target": r["target"], "chain": r["chain"], "host": r["host"],
                                "tls": r["tls"], "draw": r["draw"], "prior": r.get("prior", "cold")}) + "\n")
    outp = ctx.path("c19_result.json")
    ctx.drv(["-in", inp, "-out", outp, "-workers", "16"], cmd_name="vdrv-tls", timeout=1500)
    out = json.load(open(outp))
    results = {r["id"]: r for r in out["results"]}
    infra = [r for r in out["results"] if r.get("infra")]
    if infra:
        raise core.Inconclusive("%d rows hit a harness problem, e.g. row %d: %s" % (len(infra), infra[0]["id"], infra[0]["infra"]))

    agg = Agg()
    n = {"accept_rows": 0, "reject_rows": 0, "accepted_ok": 0, "rejected_ok": 0, "hellos": 0, "handshakes": 0,
         "client_certs_seen": 0, "app_bytes_on_accepted": 0, "connects": 0, "resolves": 0}
    classes = {}
    for i, row in enumerate(rows):
        r = results.get(i + 1)
        if r is None:
            raise core.Inconclusive("driver returned no result for row %d" % (i + 1))
        exp, tgt, host, tls = row["expect"], row["target"], row["host"], row["tls"]
        why = sorted(exp["why"])
        shape = "+".join(why) if why else chain_key(row["chain"])
        if row.get("prior") == "warm":
            shape += ",after-a-genuine-server-was-accepted"
        agg.tried_row(tgt, shape, host, tls)
        rep = {"row": row, "observed": r}
        if row.get("prior") == "concurrent":
            co = r.get("concurrent")
            if r.get("infra") or not co:
                raise core.Inconclusive("row %d (concurrent): %s" % (i + 1, r.get("infra") or "no observation"))
            n["concurrent_rows"] = n.get("concurrent_rows", 0) + 1
            n["concurrent_dials"] = n.get("concurrent_dials", 0) + co["dials"]
            if co["genuine_chain_handshakes_completed"] == 0 or co["row_chain_presented"] == 0:
                raise core.Inconclusive("row %d (concurrent): the mix of genuine and row chains did not happen: %s" % (i + 1, co))
            if not exp["accept"]:
                n["reject_rows"] += 1
                if co["row_chain_handshakes_completed"] or co["row_chain_app_bytes"]:
                    agg.add("accepts-bad-server", tgt, shape + ",while-genuine-handshakes-run-through-the-same-endpoint", host, tls,
                            "a server whose chain must be rejected (%s) completed %d of %d handshakes and received %d application bytes while handshakes "
                            "with a genuine server ran through the same endpoint" % (shape, co["row_chain_handshakes_completed"], co["row_chain_presented"],
                                                                                      co["row_chain_app_bytes"]), rep)
                else:
                    n["rejected_ok"] += 1
            else:
                n["accept_rows"] += 1
                if co["row_chain_handshakes_completed"] != co["row_chain_presented"]:
                    agg.add("rejects-good-server", tgt, shape + ",while-genuine-handshakes-run-through-the-same-endpoint", host, tls,
                            "only %d of %d handshakes completed with a server whose chain verifies" % (co["row_chain_handshakes_completed"], co["row_chain_presented"]), rep)
                else:
                    n["accepted_ok"] += 1
            continue
        srv = r["server"]
        n["hellos"] += srv["hellos"]
        n["handshakes"] += srv["handshakes"]
        n["client_certs_seen"] += srv["client_cert_ok"]
        n["connects"] += r["connects"]
        n["resolves"] += 1
        for w in (why or ["accepted:" + chain_key(row["chain"])]):
            classes["%s/%s" % (tgt, w)] = classes.get("%s/%s" % (tgt, w), 0) + 1
        attempts = 1 if tgt == "metadata" else r["connects"]
        ok_count = (1 if r["resolve_ok"] else 0) if tgt == "metadata" else r["connect_ok"]
        served = srv["requests"] if tgt == "metadata" else r["cql_ok"]
        if attempts != r["attempts"]:
            raise core.Inconclusive("row %d: %d connection attempts, %d planned" % (i + 1, attempts, r["attempts"]))
        # SNI (the specification's terminal `sni`): every ClientHello names the node - its contact point or its
        # host id; for the metadata service the bundle host when it is a DNS name (an IP literal is never an SNI)
        exp_sni = {"contactPoint": r["contact_points"], "hostId": [r["host_id"]],
                   "bundleHost": [r["bundle_host"]] if host == "dns" else None}[exp["sni"]]
        if exp_sni is not None and sorted(srv["snis"]) != sorted(exp_sni):
            agg.add("wrong-sni", tgt, "any", host, tls,
                    "ClientHello SNI %s where %s (%s) is expected" % (srv["snis"], exp_sni, exp["sni"]), rep)
        if exp["accept"] != (exp["clientCert"] == "bundle") or exp["accept"] != exp["appData"]:
            raise core.Inconclusive("row %d: inconsistent expectation %s" % (i + 1, exp))
        if exp["accept"]:
            n["accept_rows"] += 1
            if ok_count != attempts or served != attempts:
                agg.add("rejects-good-server", tgt, shape, host, tls,
                        "a server whose chain verifies against the bundle CA for the bundle host is not connected to / not served "
                        "(%d of %d attempts succeeded, %d served): %s" % (ok_count, attempts, served, r.get("resolve_err") or r.get("connect_err")), rep)
                continue
            if srv["client_cert_ok"] != attempts:
                agg.add("client-cert-not-presented", tgt, "any", host, tls,
                        "the verified server did not receive the bundle's client certificate (ok=%d none=%d other=%d of %d)" % (
                            srv["client_cert_ok"], srv["client_cert_none"], srv["client_cert_other"], attempts), rep)
            if srv["app_bytes"] <= 0:
                raise core.Inconclusive("row %d: accepted server recorded no application bytes (byte counter broken?)" % (i + 1))
            n["app_bytes_on_accepted"] += srv["app_bytes"]
            n["accepted_ok"] += 1
        else:
            n["reject_rows"] += 1
            symptoms = []
            if ok_count != 0:
                symptoms.append("%d of %d connection attempts returned success" % (ok_count, attempts))
            if srv["handshakes"] != 0:
                symptoms.append("the server completed %d TLS handshakes" % srv["handshakes"])
            if srv["app_bytes"] != 0 or srv["requests"] != 0:
                symptoms.append("%d application bytes / %d requests reached the server" % (srv["app_bytes"], srv["requests"]))
            if srv["client_cert_ok"] + srv["client_cert_other"] != 0:
                symptoms.append("the client certificate was shown to the server")
            bad = bool(symptoms)
            if bad:
                agg.add("accepts-bad-server", tgt, shape, host, tls,
                        "a server with chain {%s} is not rejected before use: %s" % (shape, "; ".join(symptoms)), rep, why=why)
            if srv["hellos"] != attempts:
                raise core.Inconclusive("row %d: %d ClientHellos for %d attempts" % (i + 1, srv["hellos"], attempts))
            if not bad:
                n["rejected_ok"] += 1
    suppressed = agg.flush(ctx)

    # vacuity guards: every rejected class of the statement and the accepted chains were really exercised
    for tgt in ("metadata", "contact", "peer"):
        for w in ("signer=other", "signer=self", "intermediate-missing", "intermediate=expired", "name=otherName", "leaf=expired", "leaf=notyet", "empty-chain"):
            if not classes.get("%s/%s" % (tgt, w)):
                raise core.Inconclusive("no row of class %s/%s" % (tgt, w))
    for tgt in ("contact", "peer"):
        if not classes.get("%s/name=sniName" % tgt):
            raise core.Inconclusive("no row of class %s/name=sniName" % tgt)
    if n["accept_rows"] == 0 or n["reject_rows"] == 0 or n["handshakes"] == 0:
        raise core.Inconclusive("vacuous run: %s" % n)

    nontrivial = len({json.dumps([r["target"], r["chain"], r["host"], r["tls"], r["draw"]], sort_keys=True) for r in rows
                      if r["expect"]["why"] or r["chain"]["extra"] or r["chain"]["signer"] in ("int", "intexp")})
    ctx.assumptions += [
        "bundle host names are 'localhost' (resolved by /etc/hosts to 127.0.0.1) and the IP literal '127.0.0.1'; the sni_proxy_address is <bundle host>:<port of the local TLS node>",
        "the astra.Bundle value is built as LoadBundleZip builds it, but with a private pool holding only the bundle CA (the system pool is not part of the check); LoadBundleZip itself (zip parsing) is not exercised",
        "the 'other CA' is a private CA minted by the harness; certificates are ECDSA P-256; 'expired'/'not yet valid' are +-24h; validity of CA/intermediate certificates is not varied",
        "servers are crypto/tls servers requesting (not requiring) a client certificate; the empty chain is a Go TLS server configured with a key and no certificate",
        "node ids / contact points are random UUIDs drawn from VERIF_SEED",
    ]
    samples = []
    seen = set()
    for i, row in enumerate(rows):
        k = (row["target"], row["expect"]["accept"])
        if k in seen:
            continue
        seen.add(k)
        r = results[i + 1]
        samples.append({"row": {k2: row[k2] for k2 in ("target", "chain", "host", "tls", "draw")}, "expect": row["expect"],
                        "observed": {"resolve_ok": r["resolve_ok"], "connect_ok": r["connect_ok"], "connects": r["connects"],
                                     "error": r.get("resolve_err") or r.get("connect_err"), "server": r["server"]}})
    ctx.write_evidence("exploration", {
        "evaluations": len(rows),
        "distinct_nontrivial": nontrivial,
        "rule": "every row of the AstraTLS.tla table (connection kind x abstract chain x bundle host kind x TLS version x node-id draw, "
                "exhaustive) replayed with freshly minted certificates against the real resolver / endpoints / Connect; distinct = distinct rows; "
                "non-trivial = the chain must be rejected, or involves an intermediate / extra certificate",
        "samples": samples,
        "exhaustive": True,
        "states": ctx.states, "transitions": ctx.transitions,
        "rows_by_class": classes,
        "counts": n,
        "suppressed_non_minimal_keys": suppressed,
        "driver_wall_s": round(out["wall_s"], 1),
    })
