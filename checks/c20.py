"""C20 — configuration values are honoured as documented and bad configurations refused.

Spec: Config.tla (decision table).  TLC checks the sanity of the documented tables (injective
version / consistency tables, total version order, every single fault named by the statement is
refused) and exports every abstract row with its expected outcome.  This file renders a row into
the DOCUMENTED concrete syntax of its source (flag, environment variable, YAML key: README
"Configuration" / `--help`), the driver harness/cmd/vdrv-config starts the real proxy for it
(in-process proxy.Run; in the thorough tier also the real binary) against a private fake backend
and reports the observable effect; the comparison with the table's verdict is done here.
"""
import json
import random

from vlib import core

# ---- documented concrete syntax (README / --help): option -> (flag, environment variable, YAML key)
SYNTAX = {
    "ver": ("--protocol-version", "PROTOCOL_VERSION", "protocol-version"),
    "max": ("--max-protocol-version", "MAX_PROTOCOL_VERSION", "max-protocol-version"),
    "hb": ("--heartbeat-interval", "HEARTBEAT_INTERVAL", "heartbeat-interval"),
    "idle": ("--idle-timeout", "IDLE_TIMEOUT", "idle-timeout"),
    "conns": ("--num-conns", "NUM_CONNS", "num-conns"),
    "rpc": ("--rpc-address", "RPC_ADDRESS", "rpc-address"),
    "tokens": ("--tokens", "TOKENS", "tokens"),
    "unsup": ("--unsupported-write-consistencies", "UNSUPPORTED_WRITE_CONSISTENCIES", "unsupported-write-consistencies"),
    "override": ("--unsupported-write-consistency-override", None, "unsupported-write-consistency-override"),
    "cp": ("--contact-points", "CONTACT_POINTS", "contact-points"),
    "port": ("--port", "PORT", "port"),
}
VERSION_LABEL = {3: "v3", 4: "v4", 5: "v5", 65: "DSEv1", 66: "DSEv2"}
DOC_ORDER = [3, 4, 5, 65, 66]


def extract_rows(out):
    rows = []
    pre = '<<"ROW", '
    for line in out.splitlines():
        if line.startswith(pre) and line.endswith(">>"):
            rows.append(json.loads(json.loads(line[len(pre):-2])))
    return rows


def spell_version(name, sp, code):
    if sp == "lower":
        return name.lower()
    if sp == "upper":
        return name.upper()
    if sp == "num":
        return str(code)
    return name


def spell_mask(name, mask):
    out, i = [], 0
    for ch in name:
        if ch.isalpha():
            out.append(ch.upper() if (mask >> i) & 1 else ch.lower())
            i += 1
        else:
            out.append(ch)
    return "".join(out)


def spell_cl(name, case, rnd, mask=-1):
    if case == "mask":
        return spell_mask(name, mask)
    if case == "lower":
        return name.lower()
    if case == "capital":
        return name.capitalize()
    if case == "random":
        s = "".join(ch.upper() if rnd.random() < 0.5 else ch.lower() for ch in name)
        if s in (name.upper(), name.lower()) and len(name) > 1:  # make it really mixed
            s = name[0].lower() + name[1:].upper()
        return s
    return name.upper()


def lifecycle_replay(ctx, rnd):
    """Beyond C20's statement (never a verdict): the life cycle proxy.Run drives - NewProxy / Connect / Serve / Close - as
    ProxyLifecycle.tla states it, model-checked in its documented form and in the form of the current tree
    (spec/tree_switches.json closing_flag_unset), and the behaviours of the latter replayed against a real proxy.Proxy."""
    info = {}
    try:
        doc = ctx.tlc("ProxyLifecycle", "ProxyLifecycle_doc.cfg", workers=2, timeout=300, name="lifecycle-documented")
        haz = ctx.tlc("ProxyLifecycle", "ProxyLifecycle_hazard.cfg", workers=2, timeout=300, count=False, name="lifecycle-sensitivity")
        cur = ctx.tlc("ProxyLifecycle", "ProxyLifecycle.cfg", workers=2, timeout=300, name="lifecycle-current-tree")
        info["documented_model_holds"] = bool(doc.ok and not doc.violated)
        info["flag_never_set_breaks"] = haz.violated
        behs = []
        pre = '<<"LIFE", '
        for line in cur.output.splitlines():
            if line.startswith(pre) and line.endswith(">>"):
                behs.append(json.loads(line[len(pre):-2]))
        behs = list(dict.fromkeys(behs))
        info["behaviours_exported"] = len(behs)
        if ctx.tier != "thorough":
            behs = rnd.sample(behs, min(len(behs), 96))
        path = ctx.path("lifecycle_behaviours.jsonl")
        open(path, "w").write("\n".join(behs) + "\n")
        out = ctx.path("lifecycle_result.json")
        ctx.drv(["lifecycle", "-in", path, "-out", out, "-workers", "8"], timeout=900)
        r = json.load(open(out))
        info["behaviours_replayed"] = r["behaviours"]
        info["steps"] = r["steps"]
        dev = ["%s: expected %s, got %s (after %s)" % (m["what"], m["want"], m["got"], [x["a"] for x in m["behaviour"][:m["step"] + 1]])
               for m in r.get("mismatches") or []]
        info["deviations"] = dev[:20]
        if dev:
            print("NOTE beyond-property: %d deviations from ProxyLifecycle.tla, e.g. %s" % (len(dev), dev[0][:300]))
    except Exception as e:  # outside the property: never turns the check inconclusive
        info["error"] = str(e)[:300]
        print("NOTE beyond-property: lifecycle replay did not run: %s" % str(e)[:200])
    return info


def yq(s):
    return '"%s"' % s


def render(row, rid, rnd):
    """abstract row -> concrete {id, args, env, yaml} in the documented syntax of row['src']"""
    cfg, src, given, cls, sp = row["cfg"], row["src"], set(row["given"]), row["cls"], row["sp"]
    args, env, y = [], {}, []

    def put(opt, text, ytext=None):
        flag, var, key = SYNTAX[opt]
        if src == "flag":
            args.append("%s=%s" % (flag, text))
        elif src == "env":
            if var is None:
                raise core.Inconclusive("row %d: option %s has no environment variable" % (rid, opt))
            env[var] = text
        else:
            y.append("%s: %s" % (key, ytext if ytext is not None else text))

    # the backend: contact points always given by flag except in the rows of class `backend`
    if cfg["backend"]:
        if cls == "backend" and "backend" in given and src != "flag":
            if src == "env":
                env["CONTACT_POINTS"] = "{CP}"
                env["PORT"] = "{PORT}"
            else:
                y.append("contact-points:\n  - {CP}")
                y.append("port: {PORT}")
        else:
            args += ["--contact-points", "{CP}", "--port", "{PORT}"]
    args += ["--bind", "{BIND}"]

    if "ver" in given:
        # the spelling variant belongs to the option under test; the other one keeps the documented spelling
        vs = sp if cls in ("ver_spelling",) else "doc"
        code = row["expect"]["startup"] if row["expect"]["kind"] == "run" else 0
        t = spell_version(cfg["ver"], vs, code)
        put("ver", t, yq(t))
    if "max" in given:
        ms = sp if cls in ("max_spelling",) else "doc"
        code = row["expect"]["accepted"] if row["expect"]["kind"] == "run" else 0
        t = spell_version(cfg["max"], ms, code)
        put("max", t, yq(t))
    if "hb" in given:
        put("hb", "%dms" % cfg["hb"])
    if "idle" in given:
        put("idle", "%dms" % cfg["idle"])
    if "conns" in given:
        put("conns", str(cfg["conns"]))
    if "rpc" in given:
        put("rpc", "127.0.0.1")
    if "tokens" in given:
        put("tokens", "0,100", '["0", "100"]')
    if "unsup" in given:
        names = [spell_cl(n, sp, rnd, row["mask"]) if n.isupper() and cls.startswith("cl_") and cls != "cl_override" else n for n in cfg["unsup"]]
        put("unsup", ",".join(names), "[%s]" % ", ".join(yq(n) for n in names))
    if "override" in given:
        n = cfg["override"]
        t = spell_cl(n, sp, rnd, row["mask"]) if cls == "cl_override" else n
        put("override", t, yq(t))
    if "peers" in given:
        lines = ["peers:"] if cfg["peers"] else ["peers: []"]
        for i, p in enumerate(cfg["peers"]):
            ent = []
            if p["rpc"]:
                ent.append("rpc-address: 127.0.0.%d" % (i + 2))
            ent.append("data-center: dc%d" % (i + 2))
            if p["tokens"]:
                ent.append('tokens: ["%d"]' % (200 + i))
            lines.append("  - " + ent[0])
            lines += ["    " + e for e in ent[1:]]
        y.append("\n".join(lines))
    yaml = None
    if y:
        yaml = "\n".join(y) + "\n"
        args += ["--config", "{CONFIG}"]
    return {"id": rid, "args": args, "env": env, "yaml": yaml}


def shape(row):
    """stable name of the abstract shape of a row (for violation keys)"""
    cfg, cls = row["cfg"], row["cls"]
    if cls in ("ver_spelling",):
        return "protocol-version=%s" % cfg["ver"]
    if cls in ("max_spelling",):
        return "max-protocol-version=%s" % cfg["max"]
    if cls == "pair":
        return "ver=%s,max=%s" % (cfg["ver"], cfg["max"])
    if cls == "cl_override":
        return "override=%s" % cfg["override"]
    if cls in ("cl_unsupported", "cl_list"):
        return "unsupported=%s" % "+".join(cfg["unsup"])
    return cls


def highest(acc):
    best = None
    for v in DOC_ORDER:
        if v in (acc or []):
            best = v
    return best


def compare(ctx, row, conc, res, stats):
    """one executed row against the table"""
    exp = row["expect"]
    cfg = row["cfg"]
    src = row["src"]
    rep = {"row": row, "concrete": conc, "observed": res}
    if res.get("panic"):
        stats["panics"] += 1
    if exp["kind"] == "refuse":
        why = "+".join(sorted(exp["why"]))
        if row["cls"] == "pair":
            why += "," + shape(row)
        stats["refuse_rows"] += 1
        pend = stats["pending"]
        stats["sources"].setdefault(why, set()).add(src)
        if res["served"]:
            pend.append(("runs-despite", why, src,
                         "configuration violating {%s} (given as %s) is not refused: the proxy serves on %s "
                         "(backend saw STARTUP v%s, consistency map %s)" % (why, src, res["bind"], res["startup"], res["cl"]), rep))
            return
        if not res["returned"]:
            raise core.Inconclusive("row %d neither served nor returned" % conc["id"])
        if res["rc"] == 0:
            pend.append(("exit-zero", why, src, "configuration violating {%s} makes start-up return %d" % (why, res["rc"]), rep))
        if res["listener_left"]:
            pend.append(("listener-left", why, src,
                         "start-up failed for {%s} but %s still accepts connections" % (why, res["bind"]), rep))
        stats["refused_ok"] += 1
        return
    # expected to run
    stats["run_rows"] += 1
    stats["valid_sources"].setdefault(shape(row), set()).add(src)
    if not res["served"]:
        if row["open"]:
            stats["open_refused"] += 1
            return
        stats["pending_valid"].append((shape(row), src, "valid documented configuration is refused (rc=%s%s)" % (
            res["rc"], ", panic " + res["panic"] if res.get("panic") else ""), rep))
        return
    if res["returned"]:
        ctx.violation("died-while-serving:%s" % shape(row), "the proxy stopped on its own (rc=%s %s)" % (res["rc"], res.get("panic")), replay=rep)
        return
    stats["served_ok"] += 1
    # 1. the version the backend is first greeted with is the one --protocol-version names
    if res["startup"] != exp["startup"]:
        ctx.violation("protocol-version:name=%s,startup=%s" % (cfg["ver"], VERSION_LABEL.get(res["startup"], res["startup"])),
                      "protocol version %s (wire %d) configured, but the first STARTUP the backend receives has version %s" % (
                          cfg["ver"], exp["startup"], res["startup"]), replay=rep)
    # 2. the max version named is served, everything documented above it is not
    acc = res["accepted"] or []
    bad_gate = exp["accepted"] not in acc or any(v in acc for v in exp["rejected"])
    if bad_gate:
        ctx.violation("max-protocol-version:name=%s,highest-accepted=%s" % (cfg["max"], VERSION_LABEL.get(highest(acc), highest(acc))),
                      "max protocol version %s (wire %d) configured, but the proxy accepts client versions %s and rejects %s" % (
                          cfg["max"], exp["accepted"], acc, res["rejected"]), replay=rep)
    # 3. consistency mapping
    if res["cl"] is None or any(c < 0 for c in res["cl"]):
        raise core.Inconclusive("row %d: consistency probe incomplete: %s" % (conc["id"], res["cl"]))
    if list(res["cl"]) != list(exp["cl"]):
        diff = {i: (exp["cl"][i], res["cl"][i]) for i in range(11) if exp["cl"][i] != res["cl"][i]}
        role = shape(row) if row["cls"].startswith("cl_") else "unsupported=%s,override=%s" % ("+".join(cfg["unsup"]), cfg["override"])
        ctx.violation("consistency:%s" % role,
                      "writes reach the backend with another consistency than configured: {sent: (expected, seen)} = %s" % diff, replay=rep)
    if res["listener_left"]:
        ctx.violation("listener-left-after-stop:%s" % shape(row), "listener still open after cancellation", replay=rep)
    if res["stop_rc"] not in (0,):
        stats["stop_rc_nonzero"] += 1


def flush_refusals(ctx, stats):
    """One key per (kind, violated clauses): the source is part of the key only when the defect
    depends on it (some other source of the same shape is refused correctly)."""
    groups = {}
    for kind, why, src, text, rep in stats["pending"]:
        groups.setdefault((kind, why), []).append((src, text, rep))
    for (kind, why), items in sorted(groups.items()):
        failing = sorted({src for src, _, _ in items})
        tried = sorted(stats["sources"].get(why, set()))
        key = "%s:%s" % (kind, why)
        if failing != tried:
            key += ",source=" + "+".join(failing)
        src, text, rep = items[0]
        rep = dict(rep)
        rep["failing_sources"] = failing
        rep["sources_tried"] = tried
        rep["failing_rows"] = len(items)
        ctx.violation(key, text + " [%d failing rows; sources failing %s of %s]" % (len(items), failing, tried), replay=rep)
    stats["pending"] = []
    # valid configurations that were refused: one key per shape; when the all-defaults configuration
    # itself is refused everything else is a consequence and only that is reported
    groups = {}
    for shp, src, text, rep in stats["pending_valid"]:
        groups.setdefault(shp, []).append((src, text, rep))
    if "backend" in groups:
        n = sum(len(v) for v in groups.values())
        src, text, rep = groups["backend"][0]
        rep = dict(rep)
        rep["refused_valid_rows_total"] = n
        rep["refused_shapes"] = sorted(groups)[:50]
        ctx.violation("refused-valid:all-defaults", text + " [the all-defaults configuration with a backend is refused; "
                      "%d valid rows refused in total]" % n, replay=rep)
    else:
        for shp, items in sorted(groups.items()):
            failing = sorted({src for src, _, _ in items})
            tried = sorted(stats["valid_sources"].get(shp, set()))
            key = "refused-valid:%s" % shp
            if failing != tried:
                key += ",source=" + "+".join(failing)
            src, text, rep = items[0]
            rep = dict(rep)
            rep["failing_sources"], rep["sources_tried"], rep["failing_rows"] = failing, tried, len(items)
            ctx.violation(key, text + " [%d failing rows; sources failing %s of %s]" % (len(items), failing, tried), replay=rep)
    stats["pending_valid"] = []


def run(ctx):
    thorough = ctx.tier == "thorough"
    res = ctx.tlc_must_pass("Config", "Config_thorough.cfg" if thorough else "Config_quick.cfg", timeout=600, name="table", workers=4)
    rows = extract_rows(res.output)
    if len(rows) != res.distinct or not rows:
        raise core.Inconclusive("exported %d rows, TLC reports %d states" % (len(rows), res.distinct))
    rows.sort(key=lambda r: json.dumps(r, sort_keys=True))
    rnd = random.Random(ctx.seed)
    concrete = [render(r, i + 1, rnd) for i, r in enumerate(rows)]

    # open probes: shapes the statement does not name; observed and recorded, never asserted
    base = ["--contact-points", "{CP}", "--port", "{PORT}", "--bind", "{BIND}"]
    probes = [
        ("yaml-malformed+valid-flags", {"args": base + ["--config", "{CONFIG}"], "env": {}, "yaml": "contact-points: [not closed\n"}, False),
        ("yaml-wrong-type(num-conns: many)", {"args": base + ["--config", "{CONFIG}"], "env": {}, "yaml": "num-conns: many\n"}, False),
        ("precedence:flag=v3,yaml=v4", {"args": base + ["--protocol-version=v3", "--config", "{CONFIG}"], "env": {}, "yaml": 'protocol-version: "v4"\n'}, False),
        ("precedence:flag=v3,env=v4", {"args": base + ["--protocol-version=v3"], "env": {"PROTOCOL_VERSION": "v4"}, "yaml": None}, False),
        ("precedence:env=v3,yaml=v4", {"args": base + ["--config", "{CONFIG}"], "env": {"PROTOCOL_VERSION": "v3"}, "yaml": 'protocol-version: "v4"\n'}, False),
        ("bundle-unreadable", {"args": ["--astra-bundle", "{SCRATCH}/no-such-bundle.zip", "--bind", "{BIND}"], "env": {}, "yaml": None}, True),
        ("config-file-missing", {"args": base + ["--config", "{SCRATCH}/no-such-config.yaml"], "env": {}, "yaml": None}, False),
    ]
    probe_rows = []
    for i, (name, c, binary_only) in enumerate(probes):
        c = dict(c)
        c["id"] = 100000 + i
        probe_rows.append((name, c, binary_only))

    stats = {k: 0 for k in ("run_rows", "refuse_rows", "served_ok", "refused_ok", "open_refused", "panics", "stop_rc_nonzero")}
    stats["pending"] = []
    stats["sources"] = {}
    stats["pending_valid"] = []
    stats["valid_sources"] = {}
    executions = 0
    observations = []
    modes = [("inproc", None)]
    if thorough:
        modes.append(("binary", ctx.build_proxy_binary()))
    done_modes = []
    while modes:
        mode, binpath = modes.pop(0)
        done_modes.append(mode)
        inp = ctx.path("c20_rows_%s.jsonl" % mode)
        with open(inp, "w") as f:
            for row, c in zip(rows, concrete):
                if mode == "binary" and row["sp"] == "mask":
                    continue   # exhaustive letter-case rows: in-process only
                f.write(json.dumps(c) + "\n")
            for name, c, binary_only in probe_rows:
                if binary_only and mode != "binary":
                    continue
                f.write(json.dumps(c) + "\n")
        outp = ctx.path("c20_result_%s.json" % mode)
        argv = ["-in", inp, "-out", outp, "-workers", "8"]
        if binpath:
            argv += ["-bin", binpath]
        rc, so, se = ctx.drv(argv, cmd_name="vdrv-config", timeout=1500, check=False)
        if rc != 0:
            # a panic in a goroutine of the in-process proxy kills the driver: that is no verdict, but the
            # rows can still be judged through the real binary (a crash there is an exit code)
            if mode == "inproc" and "binary" not in [m for m, _ in modes] + done_modes:
                core.log("[c20] in-process driver died (rc=%d): falling back to the real binary\n%s" % (rc, se[-1500:]))
                ctx.notes["inproc_driver_died"] = se[-1500:]
                modes.append(("binary", ctx.build_proxy_binary()))
                continue
            raise core.Inconclusive("driver failed rc=%d in %s mode\n%s" % (rc, mode, se[-3000:]))
        out = json.load(open(outp))
        byid = {r["id"]: r for r in out["results"]}
        infra = []
        for row, conc in zip(rows, concrete):
            r = byid.get(conc["id"])
            if r is None and mode == "binary" and row["sp"] == "mask":
                continue
            if r is None:
                raise core.Inconclusive("driver returned no result for row %d" % conc["id"])
            executions += 1
            if r.get("infra") and not (row["expect"]["kind"] == "refuse" and r["served"]):
                # a probe that could not be completed is no verdict - except that a configuration which must
                # be refused and nevertheless serves is already judged by that alone
                infra.append(r)
                continue
            compare(ctx, row, conc, r, stats)
        flush_refusals(ctx, stats)
        if infra:
            raise core.Inconclusive("%d rows hit a harness problem (%s mode), e.g. row %d: %s" % (
                len(infra), mode, infra[0]["id"], infra[0]["infra"]))
        for name, c, binary_only in probe_rows:
            r = byid.get(c["id"])
            if r is not None:
                observations.append({"probe": name, "mode": mode, "served": r["served"], "returned": r["returned"], "rc": r["rc"],
                                     "startup": r["startup"], "listener_left": r["listener_left"], "panic": r.get("panic", ""),
                                     "stderr_tail": (r.get("stderr") or "")[-200:]})
        ctx.notes["driver_wall_s_" + mode] = round(out["wall_s"], 1)

    by_class, by_src = {}, {}
    for r in rows:
        k = "%s/%s" % (r["cls"], r["expect"]["kind"])
        by_class[k] = by_class.get(k, 0) + 1
        by_src[r["src"]] = by_src.get(r["src"], 0) + 1
    defaults = [r["cfg"] for r in rows if r["cls"] == "backend" and r["expect"]["kind"] == "run"]
    if not defaults:
        raise core.Inconclusive("no all-defaults row in the table")
    nontrivial = len({json.dumps([r["cfg"], r["sp"], r["mask"], r["src"], r["cls"]], sort_keys=True) for r in rows if r["cfg"] != defaults[0]})
    refuse_shapes = sorted({"+".join(sorted(r["expect"]["why"])) for r in rows if r["expect"]["kind"] == "refuse"})
    for need in ("ver_spelling/run", "max_spelling/run", "pair/run", "pair/refuse", "cl_override/run", "cl_unsupported/run",
                 "ver_unknown/refuse", "override_unknown/refuse", "unsupported_unknown/refuse", "hb_idle/run", "hb_idle/refuse",
                 "conns/run", "conns/refuse", "backend/refuse", "peers/run", "peers/refuse"):
        if not by_class.get(need):
            raise core.Inconclusive("table has no row of class %s" % need)
    if stats["served_ok"] == 0 or stats["refused_ok"] == 0:
        raise core.Inconclusive("vacuous run: served_ok=%d refused_ok=%d" % (stats["served_ok"], stats["refused_ok"]))

    lifecycle = lifecycle_replay(ctx, rnd)
    ctx.assumptions += [
        "the documented order of protocol versions is the order of the help text (v3 < v4 < v5 < DSEv1 < DSEv2); pairs mixing v5 with a DSE version are left open",
        "undocumented spellings of version names (other letter case, decimal wire code) may be refused; when accepted they must select the version they name",
        "malformed YAML, a missing configuration file, an unreadable bundle and source precedence are not named by the statement: observed and recorded only (coverage.open_observations)",
        "the backend is verif/fakecql (accepts v3..DSEv2); a proxy counts as started when its --bind address accepts TCP connections",
        "letter case of consistency names is sampled with four variants per name (upper, lower, capitalised, seeded random mix), not all 2^n",
    ]
    samples = []
    for cls in ("ver_spelling", "pair", "cl_override", "unsupported_unknown", "peers"):
        for row, conc in zip(rows, concrete):
            if row["cls"] == cls:
                samples.append({"cls": cls, "src": row["src"], "cfg": row["cfg"], "expect": row["expect"]["kind"],
                                "why": row["expect"]["why"], "args": conc["args"], "env": conc["env"], "yaml": conc["yaml"]})
                break
    ctx.write_evidence("exploration", {
        "evaluations": executions,
        "distinct_nontrivial": nontrivial,
        "rule": "every row of the Config.tla table (classes x spellings x sources, exhaustive for the tier) started through the real "
                "proxy.Run%s; distinct = distinct abstract rows; non-trivial = the abstract configuration differs from the all-defaults configuration" % (
                    " and the real binary" if "binary" in done_modes else ""),
        "samples": samples,
        "exhaustive": True,
        "states": ctx.states, "transitions": ctx.transitions,
        "table_rows": len(rows),
        "rows_by_class_and_verdict": by_class,
        "rows_by_source": by_src,
        "refusal_shapes": refuse_shapes,
        "modes": done_modes,
        "outcomes": {k: v for k, v in stats.items() if isinstance(v, int)},
        "open_observations": observations,
        "beyond_property_lifecycle": lifecycle,
    })
