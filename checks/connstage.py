"""Stage shared by C01 and C17: the connection object proxycore.Conn (both sides of the proxy use it).

1. TLC checks Conn.tla exhaustively (ConnMC): callers of Write and Close, the writer, the reader and a peer that
   reads, stalls, sends and goes away, one action per channel operation / critical section.  The wire carries the
   accepted messages in order, each once; nothing accepted is dropped while the connection is open; Write fails only
   on a closed connection; once the connection is closed nobody stays inside Write, writer and reader end and
   recv.Closing is called exactly once (liveness under weak fairness).  With the hazard switches (Write ignores a closed
   connection / a full queue is an error) the same runs must fail.
2. `vdrv-conn` drives the real proxycore.Conn over pipes and TCP sockets (peer that stalls until the 1024-entry queue is
   full, Close and peer loss while callers wait, concurrent Close, a Receiver that refuses a frame) and records the
   history.
3. TLC validates the history against TraceConn (channel operations, flushes and checkErr are placed by TLC).  An event
   that cannot be explained names the property: a refused or lost write, a frame the peer read out of order -> C01;
   a caller still inside Write after the connection went away, recv.Closing not called exactly once -> C17.
"""
import json
import os
import re
import shutil

from vlib import core

OWNER = {"Stuck": "C17", "Quiesce": "C17", "Closing": "C17", "Ret:write": "C01", "PeerRead": "C01", "Sent": "C01", "Ret:close": "C17"}
WHAT = {
    "Stuck": "a caller is still inside Conn.Write although the connection is closed (or its queue has room)",
    "Quiesce": "after the connection was closed a call has not returned or recv.Closing was not called exactly once",
    "Closing": "recv.Closing was called although the reader has not failed, or a second time",
    "Ret:write": "the result of Conn.Write cannot be explained: refused although the connection is open, or accepted although the queue is full",
    "PeerRead": "the peer read a frame that is not the next accepted one (lost, repeated or reordered)",
    "Sent": "the writer ran a sender function out of order",
    "Ret:close": "the result of Conn.Close cannot be explained",
}


def validate(ctx, events, cfg, name):
    d = os.path.join(ctx.scratch, "tvc-%s-%d" % (name, len(ctx.tlc_runs)))
    shutil.copytree(core.SPEC, d)
    with open(os.path.join(d, "trace.ndjson"), "w") as f:
        for e in events:
            f.write(json.dumps(e) + "\n")
    with open(os.path.join(d, "trace_cfg.json"), "w") as f:
        json.dump(cfg, f)
    res = ctx.tlc("TraceConn", "TraceConn.cfg", workers=1, timeout=1200, count=False, name=name, cwd=d, heap="8g")
    shutil.rmtree(d, ignore_errors=True)
    if not res.ok or res.violated or res.error:
        raise core.Inconclusive("TraceConn run failed: %s %s\n%s" % (res.violated, res.error, "\n".join(res.output.splitlines()[-30:])))
    hw = re.search(r'<<"HW", (\d+)>>', res.output)
    if not hw:
        raise core.Inconclusive("TraceConn printed no high-water mark")
    return re.search(r'<<"VERDICT", ', res.output) is not None, int(hw.group(1)), res.distinct


def model_check(ctx, thorough, own):
    # the full quick configuration is explored by C17 (which owns the liveness properties); C01's quick tier uses two callers
    # with one message each
    cfg = "ConnMC_thorough.cfg" if thorough else ("ConnMC_quick.cfg" if own == "C17" else "ConnMC_light.cfg")
    ctx.tlc_must_pass("ConnMC", cfg, timeout=3000, name="conn-mc")
    sens = {}
    for cfg, want in (("ConnMC_hazard_ignoresclose.cfg", "Quiesces"), ("ConnMC_hazard_failsfull.cfg", "FailsOnlyWhenClosed")):
        r = ctx.tlc("ConnMC", cfg, timeout=900, count=False, name="conn-sensitivity")
        sens[cfg] = r.violated
        if not r.violated:
            raise core.Inconclusive("Conn.tla with a hazard switch (%s) no longer violates %s" % (cfg, want))
    ctx.notes["conn_model_sensitivity"] = sens


def run(ctx, own):
    thorough = ctx.tier == "thorough"
    model_check(ctx, thorough, own)
    out, stats = ctx.path("conn.ndjson"), ctx.path("conn-stats.json")
    ctx.drv(["-rounds", "64" if thorough else "16", "-out", out, "-stats", stats], cmd_name="vdrv-conn", timeout=1200)
    st = json.load(open(stats))
    events = core.read_ndjson(out)
    os.remove(out)
    cfg = {"threads": st["threads"], "qcap": st["qcap"]}
    accepted, hw, states = validate(ctx, events, cfg, "conn")
    note = {"rounds": st["rounds"], "kinds": st["kinds"], "events": len(events), "frames_offered": st["frames_offered"],
            "callers_seen_waiting_on_a_full_queue": st["callers_waiting_on_a_full_queue"],
            "rounds_with_goroutines_left": st["rounds_with_goroutines_left"], "tlc_states": states, "accepted": accepted}
    others = []
    if not accepted:
        stuck = events[hw] if hw < len(events) else {}
        lo = hw
        while lo > 0 and events[lo].get("ev") != "Reset":
            lo -= 1
        kind = events[lo].get("kind", "?")
        tag = stuck.get("ev", "?") + ((":" + stuck["op"]) if stuck.get("ev") in ("Call", "Ret") else "")
        owner = OWNER.get(tag, "C17")
        key = "%s:conn:%s-not-explained@%s" % (owner, tag.lower().replace(":", "-"), kind)
        text = "history of the real proxycore.Conn is not a behaviour of Conn.tla (round kind %s): %s (event %d: %s)" % (
            kind, WHAT.get(tag, "?"), hw + 1, stuck)
        if owner == own:
            ctx.violation(key, text, replay={"stuck_event": stuck, "index": hw + 1, "round_kind": kind, "round_tail": events[max(lo, hw - 300):hw + 1]})
        else:
            others.append({"key": key, "what": text})
    else:
        if st["callers_waiting_on_a_full_queue"] == 0:
            raise core.Inconclusive("no caller was ever seen waiting on a full queue: the stall rounds did not stall")
        # binding self-test: a dropped frame and a refused write on an open connection must be rejected
        first = []
        for e in events[1:]:
            if e["ev"] == "Reset":
                break
            first.append(e)
        first = [events[0]] + first
        res = {}
        reads = [k for k, e in enumerate(first) if e["ev"] == "PeerRead"]
        if len(reads) >= 3:
            res["frame-lost"] = validate(ctx, first[:reads[1]] + first[reads[1] + 1:], cfg, "selftest-frame-lost")[0]
        i = next((k for k, e in enumerate(first) if e["ev"] == "Ret" and e["op"] == "write" and e["ok"]), None)
        if i is not None:
            v = [dict(e) for e in first]
            v[i]["ok"] = False
            res["write-refused-while-open"] = validate(ctx, v, cfg, "selftest-write-refused")[0]
        note["binding_selftest_rejected"] = {k: (not acc) for k, acc in res.items()}
        if not res or any(res.values()):
            raise core.Inconclusive("binding self-test of TraceConn: a corrupted history was accepted (%s)" % res)
    ctx.notes["conn_stage"] = note
    if others:
        ctx.notes["conn_stage_other_properties"] = others
    return note
