"""Stage shared by C01 and C02: the pending-request table of a backend connection.

1. TLC checks Pending.tla exhaustively (PendingMC): whatever the interleaving of the container
   operations of concurrent store / loadAndDelete / closing calls, every id is in exactly one
   place, a stored request stays findable under its id (C01), is handed to one loadAndDelete
   only (C01), and an id is handed out only while nobody holds it (C02).  With the hazard switch
   (loadAndDelete as Load, Release, Delete) the same run must fail.
2. `vdrv-pending` drives the real table (proxycore.pendingRequests through the verif-tagged
   export) from concurrent goroutines on pools of 1..3 ids and records the call / return history.
3. TLC validates the history against TracePending: it searches for an interleaving of the
   unobservable container operations that explains every logged result.  A history that has none
   is not a behaviour of the specification: the result that cannot be explained names the property
   (a loadAndDelete / closing result -> C01, a store result -> C02).
"""
import json
import os
import re
import shutil

from vlib import core

OWNER = {"lad": "C01", "closing": "C01", "store": "C02"}
WHAT = {
    "lad": "the result of a loadAndDelete cannot be explained: a stored request is not found under its stream id (or is found twice)",
    "closing": "the set of requests notified by closing() is not the set of requests in the table",
    "store": "the result of a store cannot be explained: a stream id was handed out while a request holds it (or refused while one was free)",
}


def validate(ctx, events, cfg, name):
    """Returns (accepted, highwater, states)."""
    d = os.path.join(ctx.scratch, "tvp-%s-%d" % (name, len(ctx.tlc_runs)))
    shutil.copytree(core.SPEC, d)
    with open(os.path.join(d, "trace.ndjson"), "w") as f:
        for e in events:
            f.write(json.dumps(e) + "\n")
    with open(os.path.join(d, "trace_cfg.json"), "w") as f:
        json.dump(cfg, f)
    res = ctx.tlc("TracePending", "TracePending.cfg", workers=1, timeout=1500, count=False, name=name, cwd=d, heap="8g")
    shutil.rmtree(d, ignore_errors=True)
    if not res.ok or res.violated or res.error:
        raise core.Inconclusive("TracePending run failed: %s %s\n%s" % (res.violated, res.error, "\n".join(res.output.splitlines()[-30:])))
    hw = re.search(r'<<"HW", (\d+)>>', res.output)
    if not hw:
        raise core.Inconclusive("TracePending printed no high-water mark")
    accepted = re.search(r'<<"VERDICT", ', res.output) is not None
    return accepted, int(hw.group(1)), res.distinct


def model_check(ctx, thorough):
    ctx.tlc_must_pass("PendingMC", "PendingMC_quick.cfg", timeout=1500, name="pending-mc")
    if thorough:
        ctx.tlc_must_pass("PendingMC", "PendingMC_thorough.cfg", timeout=3400, name="pending-mc")
    sens = {}
    for inv in ("Retrievable", "NoAlias", "ConservationM"):
        r = ctx.tlc("PendingMC", "PendingMC_hazard_%s.cfg" % inv, timeout=600, count=False, name="pending-sensitivity-" + inv)
        sens[inv] = r.violated
        if not r.violated:
            raise core.Inconclusive("Pending.tla with the hazard switch no longer violates %s" % inv)
    # the lease of a stream id, seen from both ends of the connection (StreamLease.tla): an answer is handed only to the request
    # it was produced for; giving an id back when a caller stops waiting (hazard switch) breaks that
    ctx.tlc_must_pass("StreamLease", "StreamLease.cfg", timeout=600, name="stream-lease-mc")
    r = ctx.tlc("StreamLease", "StreamLease_hazard.cfg", timeout=600, count=False, name="stream-lease-sensitivity")
    sens["StreamLease.OwnAnswerOnly"] = r.violated
    if not r.violated:
        raise core.Inconclusive("StreamLease.tla with ReleaseOnGiveUp no longer violates OwnAnswerOnly")
    ctx.notes["pending_model_sensitivity"] = sens


def run(ctx, own):
    thorough = ctx.tier == "thorough"
    model_check(ctx, thorough)
    rounds = 1500 if thorough else 250
    out, stats = ctx.path("pending.ndjson"), ctx.path("pending-stats.json")
    ctx.drv(["-rounds", str(rounds), "-out", out, "-stats", stats], cmd_name="vdrv-pending", timeout=900)
    st = json.load(open(stats))
    events = core.read_ndjson(out)
    os.remove(out)
    cfg = {"maxid": st["maxid"], "threads": st["threads"]}
    accepted, hw, states = validate(ctx, events, cfg, "pending")
    note = {"rounds": st["rounds"], "events": len(events), "stores": st["stores"], "loads_found": st["loads_found"],
            "loads_empty": st["loads_empty"], "rounds_cut_short": st["rounds_cut_short"], "tlc_states": states, "accepted": accepted}
    others = []
    if not accepted:
        stuck = events[hw] if hw < len(events) else {}
        lo = hw
        while lo > 0 and events[lo].get("ev") != "Reset":
            lo -= 1
        owner = OWNER.get(stuck.get("op"), "C01")
        key = "%s:pending-table:%s-result-not-explained" % (owner, stuck.get("op", "?"))
        text = "history of the real pending-request table is not a behaviour of Pending.tla: %s (event %d: %s)" % (
            WHAT.get(stuck.get("op"), "?"), hw + 1, stuck)
        if owner == own:
            ctx.violation(key, text, replay={"stuck_event": stuck, "index": hw + 1, "round": events[lo:hw + 1][-400:]})
        else:
            others.append({"key": key, "what": text})
    elif st["rounds_cut_short"]:
        raise core.Inconclusive("the pending-table driver stalled although its history is accepted: %s" % st)
    else:
        # binding self-test: the specification must reject a lost entry and an aliased stream id
        first = []
        for e in events[1:]:
            if e["ev"] == "Reset":
                break
            first.append(e)
        first = [events[0]] + first
        res = {}
        i = next((k for k, e in enumerate(first) if e["ev"] == "Ret" and e["op"] == "lad" and e["r"] != 0), None)
        if i is not None:
            v = [dict(e) for e in first]
            v[i]["r"] = 0
            res["entry-lost"] = validate(ctx, v, cfg, "selftest-entry-lost")[0]
        j = [k for k, e in enumerate(first) if e["ev"] == "Ret" and e["op"] == "store" and e["s"] >= 0]
        if len(j) >= 2 and first[0]["m"] >= 1:
            # the second successful store claims the id of the first, which nobody has looked up in between
            a, b = j[0], j[1]
            if not any(e["ev"] == "Call" and e["op"] == "lad" for e in first[:b]):
                v = [dict(e) for e in first]
                v[b]["s"] = first[a]["s"]
                res["id-aliased"] = validate(ctx, v, cfg, "selftest-id-aliased")[0]
        note["binding_selftest_rejected"] = {k: (not acc) for k, acc in res.items()}
        if not res or any(res.values()):
            raise core.Inconclusive("binding self-test of TracePending: a corrupted history was accepted (%s)" % res)
    ctx.notes["pending_table_stage"] = note
    if others:
        ctx.notes["pending_table_stage_other_properties"] = others
    return note
