"""Shared pipeline of the request-lifecycle checks (C01 C02 C04 C05 C08).

1. TLC model-checks RequestObsMC (the observable-level specification of the request
   lifecycle with the documented retry policy) on every outcome / fault sequence of the
   configuration: the properties hold on the specification.
2. TLC exports every terminal attempt history as a scenario script.
3. `vdrv req` drives the scripts (and seeded random workloads with connection drops)
   through the real proxy (hooks on) against the fake backend and records the trace.
4. TLC validates the normalised traces against TraceRequestObs; the violations it
   records are tagged with the property they break.
"""
import json
import os
import random
import re

from vlib import core, reqtrace


def slug(s):
    return re.sub(r"[^a-z0-9]+", "-", s.lower()).strip("-")[:60]


def export_scenarios(ctx, cfgs, path):
    """Runs the export configurations and writes distinct scenario scripts; returns the list."""
    seen = {}
    for cfg in cfgs:
        res = ctx.tlc_must_pass("RequestObsMC", cfg, workers=8, timeout=1500, count=False, name="export")
        for line in res.output.splitlines():
            if line.startswith('<<"SCN", '):
                inner = json.loads(line[len('<<"SCN", '):-2])
                seen.setdefault(inner, json.loads(inner))
    scs = []
    for i, (k, v) in enumerate(sorted(seen.items())):
        outs = ["drop" if o == "lost" else o for o in v["outcomes"]]
        scs.append({"id": "s%d" % i, "idem": v["idem"], "outcomes": outs, "expect": v["reply"]})
    with open(path, "w") as f:
        for s in scs:
            f.write(json.dumps(s) + "\n")
    return scs


def run_traces(ctx, name, drv_args, timeout=1500, sub="req"):
    """Runs `vdrv req` (or `vdrv gates`), normalises and validates the trace.  Returns (verdict, stats, reqinfo, rawevents)."""
    raw = ctx.path("raw-%s.ndjson" % name)
    stats = ctx.path("stats-%s.json" % name)
    ctx.drv([sub, "-out", raw, "-stats", stats] + drv_args, timeout=timeout)
    st = json.load(open(stats))
    rawev = core.read_ndjson(raw)
    events, hosts, numconns, reqinfo = reqtrace.normalise(rawev)
    sw = core.tree_switches()
    # the observable-level specification always states the property: a failed re-prepare moves on, a failed
    # retry on the same host moves on (the legacy switches exist only for sensitivity runs of the models)
    cfg = {"hosts": hosts, "numconns": numconns, "streamlimit": 2048,
           "reprepare_fail_forwards": False, "retry_same_spins": False}
    v = core.validate_trace(ctx, "TraceRequestObs", events, cfg, name=name)
    v["events"] = events
    v["cfg"] = cfg
    if v["bad"]:
        # keep the raw trace of a run with violations next to the replay artefacts
        os.makedirs(os.path.join(core.EVIDENCE, "replay"), exist_ok=True)
        import shutil
        shutil.copy(raw, os.path.join(core.EVIDENCE, "replay", "%s-raw-%s-%d.ndjson" % (ctx.prop, name, ctx.seed)))
    os.remove(raw)
    return v, st, reqinfo, rawev


def report(ctx, v, reqinfo, own, sample_events=None, tag=None, own_tags=(), only=None):
    """Turns the `bad` records of a validated trace into verdicts for property `own`."""
    others = []
    seen_violation = False
    for b in v["bad"]:
        info = reqinfo.get(b["r"], {})
        key = "%s:%s:%s:%s" % (b["p"], slug(b["what"]), info.get("op", "?"), info.get("class", "?"))
        if tag:
            # family-tagged checks (C08) identify a finding by what fails and in which scenario family
            key = "%s:%s@%s" % (b["p"], slug(b["what"]), tag)
        ctxev = None
        if sample_events is not None and b.get("at"):
            at = b["at"]
            lo = at - 1
            while lo > 0 and sample_events[lo].get("ev") != "Reset" and not (sample_events[lo].get("ev") == "Submit" and sample_events[lo].get("r") == b["r"]):
                lo -= 1
            ctxev = [dict(e, i=i + 1) for i, e in enumerate(sample_events[max(lo - 5, 0):at + 3], start=max(lo - 5, 0))]
            if len(ctxev) > 400:
                ctxev = ctxev[-400:]
        rec = {"violation": b, "request": info, "events": ctxev}
        if b["p"] == "HARNESS":
            # the bookkeeping of the harness cannot follow a trace after a property was violated in it (a frame
            # delivered to the wrong request makes that request look answered, ...): records after the first violation
            # are not judged; without an earlier violation the inconsistency is the machinery's
            if seen_violation:
                ctx.notes.setdefault("harness_records_after_a_violation", 0)
                ctx.notes["harness_records_after_a_violation"] += 1
                break
            raise core.Inconclusive("trace inconsistent with the harness model: %s" % rec)
        seen_violation = True
        # C02 also owns a second frame on a stream: whatever request the client has outstanding there by then (none, or its
        # next one), the frame is not the answer to it
        if only is not None and not any(b["what"].startswith(o) for o in only):
            # this stage judges only what it names (see the plan)
            others.append({"key": key, "what": b["what"]})
            continue
        if b["p"] == own or b["p"] in own_tags or (own == "C02" and b["what"].startswith("second response for one request")) \
                or (own == "C01" and b["what"].startswith("request hangs")):     # never answered is C01's too, whatever phase the request hangs in
            ctx.violation(key, "%s (request %s)" % (b["what"], info), replay=rec)
        else:
            others.append({"key": key, "what": b["what"]})
    return others


def design_check(ctx, thorough):
    """Design-level model (goroutines, locks): deadlock freedom, at-most-one reply, termination."""
    ctx.tlc_must_pass("RequestMC", "RequestMC_quick.cfg", timeout=1500, name="design-mc")
    ctx.tlc_must_pass("RequestMC", "RequestMC_live.cfg", timeout=1500, workers=8, name="design-liveness")
    # refinement: every behaviour of the design model, projected onto the observable events, is accepted by the
    # observable-level specification that validates the real traces (no false alarm is built into that specification)
    ctx.tlc_must_pass("RequestRefine", "RequestRefine_quick.cfg", timeout=1500, name="design-refines-observable")
    if thorough:
        for c in ("RequestRefine_thorough.cfg", "RequestRefine_thorough_3h.cfg"):
            ctx.tlc_must_pass("RequestRefine", c, timeout=3400, name="design-refines-observable")
        for c in ("RequestMC_thorough_3h.cfg", "RequestMC_thorough_3r.cfg"):
            ctx.tlc_must_pass("RequestMC", c, timeout=3400, name="design-mc")
        # sensitivity: with the pinned tree's behaviour the model must exhibit the hazards
        sens = {}
        r = ctx.tlc("RequestMC", "RequestMC_pinned_deadlock.cfg", timeout=900, count=False, name="sensitivity-closing-cycle")
        sens["closing_holds_lock"] = r.violated
        r = ctx.tlc("RequestMC", "RequestMC_pinned_spin.cfg", timeout=900, workers=8, count=False, name="sensitivity-retry-same")
        sens["retry_same_sticks"] = r.violated
        ctx.notes["design_model_sensitivity"] = sens
        if sens["closing_holds_lock"] != "deadlock" or sens["retry_same_sticks"] != "temporal":
            raise core.Inconclusive("design model lost its sensitivity to the known hazards: %s" % sens)


def binding_selftest(ctx, events, cfg):
    """Corrupts a validated trace in three ways and requires TraceRequestObs to flag each (the specification really
    constrains the recorded events).  Returns the result dict recorded in the evidence."""
    first = []
    for e in events:
        first.append(e)
        if e["ev"] == "Quiet":
            break
    res = {}
    # 1. a second response for one request
    i = next((k for k, e in enumerate(first) if e["ev"] == "Reply"), None)
    # 2. an answer delivered with another request's token
    oks = [k for k, e in enumerate(first) if e["ev"] == "Reply" and e["kind"] == "ok" and e.get("t")]
    # 3. a reply without the backend answer that justifies it
    # (an answer whose removal must show: the only answer its request ever got, to its own execution and not to a re-PREPARE,
    # and the client did get "ok")
    owner, nans, ansreq = {}, {}, {}
    for k, e in enumerate(first):
        if e["ev"] == "Take":
            owner[(e["b"], e["bs"])] = (e.get("r"), e.get("op"))
        elif e["ev"] == "Answer":
            r, op = owner.get((e["b"], e["bs"]), (None, None))
            nans[r] = nans.get(r, 0) + 1
            ansreq[k] = (r, op)
    okreplied = {e.get("r") for e in first if e["ev"] == "Reply" and e.get("kind") == "ok"}
    ans = next((k for k, e in enumerate(first) if e["ev"] == "Answer" and e["o"] == "ok" and ansreq[k][0] is not None
                and ansreq[k][1] != "PREPARE" and nans.get(ansreq[k][0]) == 1 and ansreq[k][0] in okreplied), None)
    variants = {}
    if i is not None:
        variants["duplicate-reply"] = (first[:i + 1] + [first[i]] + first[i + 1:], "C01")
    if len(oks) >= 2:
        v = [dict(e) for e in first]
        v[oks[0]]["t"], v[oks[0]]["tr"] = first[oks[1]]["t"], first[oks[1]].get("tr", 0)
        variants["swapped-answer"] = (v, "C02")
    if ans is not None:
        variants["answer-removed"] = (first[:ans] + first[ans + 1:], None)
    for name, (evs, want) in variants.items():
        try:
            v = core.validate_trace(ctx, "TraceRequestObs", evs, cfg, name="selftest-" + name)
            tags = sorted({b["p"] for b in v["bad"]})
        except core.Inconclusive:
            tags = ["REJECTED"]
        res[name] = tags
        if not tags or (want and want not in tags):
            raise core.Inconclusive("binding self-test: corrupted trace '%s' was not flagged as expected (%s)" % (name, tags))
    return res


def model_check(ctx, thorough):
    cfgs = ["RequestObsMC_quick_idem.cfg", "RequestObsMC_quick_nonidem.cfg", "RequestObsMC_local.cfg"]
    if thorough:
        cfgs += ["RequestObsMC_thorough_idem.cfg", "RequestObsMC_thorough_nonidem.cfg", "RequestObsMC_thorough_two.cfg"]
    for c in cfgs:
        ctx.tlc_must_pass("RequestObsMC", c, timeout=3400, name="mc")
    # liveness (termination) on the reduced configuration
    ctx.tlc_must_pass("RequestObsMC", "RequestObsMC_live.cfg", timeout=1500, name="liveness")


def pick(scs, n, rnd):
    if len(scs) <= n:
        return list(scs)
    return rnd.sample(scs, n)


def write_scripts(path, scs):
    with open(path, "w") as f:
        for s in scs:
            f.write(json.dumps({k: s[k] for k in ("id", "idem", "outcomes") if k in s} | ({"kind": s["kind"]} if "kind" in s else {})) + "\n")


def run_property(ctx, own, plans, scenario_filter=None, nscen=700, extra_cov=None, design=False, own_tags=(), stages=()):
    """plans: list of (name, driver args without -in, use_scripts: bool)."""
    thorough = ctx.tier == "thorough"
    rnd = random.Random(ctx.seed)
    model_check(ctx, thorough)
    if design:
        design_check(ctx, thorough)
    scs = export_scenarios(ctx, ["RequestObsMC_export_idem.cfg", "RequestObsMC_export_nonidem.cfg",
                                 "RequestObsMC_export_drops.cfg", "RequestObsMC_export_drops_nonidem.cfg"],
                           ctx.path("scenarios_all.jsonl"))
    if not scs:
        raise core.Inconclusive("TLC exported no scenarios")
    pool = [s for s in scs if scenario_filter is None or scenario_filter(s)]
    chosen = pool if thorough else pick(pool, nscen, rnd)
    path = ctx.path("scenarios.jsonl")
    write_scripts(path, chosen)
    total_events, traces, others, samples, stats_all, nreq = 0, 0, [], [], [], 0
    for stage in stages:
        stage(ctx)
    for plan in plans:
        name, args, scripted = plan[0], plan[1], plan[2]
        tag = plan[3] if len(plan) > 3 else None
        only = plan[4] if len(plan) > 4 else None
        a = (["-in", path] if scripted else []) + args
        if scripted == "gates":
            a = args
        v, st, reqinfo, _ = run_traces(ctx, name, a, sub="gates" if scripted == "gates" else "req")
        total_events += v["total"]
        traces += st.get("rounds", 1)
        nreq += len(reqinfo)
        st.pop("goroutine_dump", None)
        stats_all.append({name: st})
        others += report(ctx, v, reqinfo, own, v["events"], tag=tag, own_tags=own_tags, only=only)
        if not samples:
            samples = [e for e in v["events"] if e["ev"] != "GC"][:30]
            if not v["bad"]:
                ctx.notes["binding_selftest"] = binding_selftest(ctx, v["events"], v["cfg"])
    ctx.assumptions += [
        "fake backend outcomes are concrete frames of each outcome class; the starting host of a plan is inferred from the first attempt",
        "hook events (send failures, close notifications) only justify skipping a host that the harness knows to have lost a connection",
        "a request with a failed write after registration (stale pending entry) is exempt from policy conformance (C05) but not from C01/C02/C04",
    ]
    cov = {
        "traces_validated_against_impl": traces,
        "samples": samples,
        "scenarios_exported_by_tlc": len(scs),
        "scenarios_replayed": len(chosen),
        "requests_validated": nreq,
        "trace_events_validated": total_events,
        "driver_stats": stats_all,
        "violations_of_other_properties_seen": others[:10],
        "rule": "scenario = terminal attempt history of RequestObsMC (all outcome sequences up to the attempt bound, both idempotency "
                "classes, <=2 connection losses); quick tier replays a seeded sample, thorough all, plus seeded random workloads; every "
                "trace is validated event by event by TLC against TraceRequestObs",
    }
    cov.update(extra_cov or {})
    ctx.write_evidence("model_checking", cov)


def concurrent_replies_stage(ctx, own, thorough):
    """Byte transparency of answers under concurrency (C03): bursts of 48..127 queries written in one piece by three clients
    next to the one-at-a-time workers, answers delayed and reordered, every third plain answer about 20 KiB; the fake backend records a digest of every answer it sends, the
    client of every frame it receives.  A frame that names a request's token but is none of the answers a backend gave to
    it (`Altered`), a frame on a stream that no request used, a second frame on a stream are reported under `own`."""
    n = "4000" if thorough else "700"
    v, st, reqinfo, rawev = run_traces(ctx, "big-answers-2x2", ["-random", n, "-nodes", "2", "-numconns", "2", "-clients", "4", "-workers", "8",
                                                             "-round", "350", "-delay", "2", "-bigevery", "3", "-okbias", "8", "-nodrops",
                                                             "-localbursts", "3", "-burstsforwarded"])
    keys = []
    for b in v["bad"]:
        info = reqinfo.get(b["r"], {})
        if b["p"] == "HARNESS":
            if keys:
                continue
            raise core.Inconclusive("trace inconsistent with the harness model: %s" % b)
        if b["p"] in ("C03", "C02", "C01"):
            key = "%s:answers-under-concurrency:%s" % (own.lower(), slug(b["what"]))
            ctx.violation(key, "answers of up to 20 KiB, pipelined and reordered: %s (request %s)" % (b["what"], info),
                          replay={"violation": b, "request": info})
            keys.append(key)
    # every client of this stage is well-behaved and hangs up only at the end of its round: a connection that ends without the
    # client having closed it was closed by the proxy, and what the client had sent on it never reached a backend as it was sent
    closed_by_client, hung_up = set(), []
    for e in rawev:
        if e.get("ev") == "ClientClose":
            closed_by_client.add(e.get("c"))
        elif e.get("ev") == "ClientClosed" and e.get("c") not in closed_by_client:
            hung_up.append(e.get("c"))
    if hung_up:
        key = "%s:answers-under-concurrency:the-proxy-closed-the-connection-of-a-well-behaved-client" % own.lower()
        ctx.violation(key, "bursts of well-formed requests written in one piece: the proxy closed %d client connection(s) (clients %s)" % (len(hung_up), hung_up[:5]),
                      replay={"clients": hung_up})
        keys.append(key)
    ctx.notes["answers_under_concurrency"] = {"requests": len(reqinfo), "events": v["total"], "violations": len(keys), "client_connections_closed_by_the_proxy": len(hung_up)}
    return keys


def override_stage(ctx, own, thorough):
    """Pipelined and retried writes under a write-consistency override (every write is re-encoded by the proxy): the
    recorded trace is validated against TraceRequestObs; a request that reaches the backend with another request's
    body shows up as a reply carrying another request's answer / a request taken twice, and is reported under `own`."""
    n = "3000" if thorough else "500"
    v, st, reqinfo, rawev = run_traces(ctx, "override-pipelined", ["-random", n, "-nodes", "3", "-numconns", "1", "-clients", "4", "-workers", "8",
                                                                "-round", "250", "-delay", "4", "-override", "-okbias", "2", "-nodrops"])
    keys = []
    for b in v["bad"]:
        info = reqinfo.get(b["r"], {})
        if b["p"] == "HARNESS":
            raise core.Inconclusive("trace inconsistent with the harness model: %s" % b)
        if b["p"] in ("C02", "C01", "C04"):
            key = "%s:override-pipelined:%s" % (own.lower(), slug(b["what"]))
            ctx.violation(key, "with a consistency override configured and requests pipelined/retried: %s (request %s)" % (b["what"], info),
                          replay={"violation": b, "request": info})
            keys.append(key)
    # every write of this workload carries a listed consistency: whichever attempt of it a backend receives - the first, a retry on
    # the next host, the re-execution after a re-prepare - must carry the override (C12)
    listed, seen = {6: "LOCAL_QUORUM", 7: "EACH_QUORUM"}, 0
    for e in rawev:
        if e.get("ev") == "BackendRecv" and e.get("op") in ("QUERY", "EXECUTE", "BATCH") and e.get("sel") is False:
            seen += 1
            if e.get("cl") in listed and own == "C12":
                key = "c12:override-pipelined:write-reaches-a-backend-with-a-listed-consistency:attempt=%s" % ("first" if e.get("att") == 1 else "later")
                ctx.violation(key, "with the override configured a %s (attempt %s of its request) reached the backend at %s" % (e["op"], e.get("att"), listed[e["cl"]]),
                              replay={"event": e})
                keys.append(key)
    if not seen:
        raise core.Inconclusive("override stage: no write was seen by a backend")
    ctx.notes["override_pipelined"] = {"requests": len(reqinfo), "events": v["total"], "violations": len(keys), "writes_seen_by_backends": seen}
    return keys
