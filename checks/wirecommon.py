"""Shared by c03.py and c12.py: TLC table extraction, plan/driver plumbing and stable violation keys
for the Wire.tla family (driver harness/cmd/vdrv-wire)."""
import json
import os
import random

from vlib import core

DIM_ORDER = ["what", "op", "sel", "form", "ver", "tracing", "payload", "beta", "compressed", "comp", "kind", "rtracing", "rpayload", "rwarning", "rcompressed", "verdict"]


def extract_rows(out, tag):
    """PrintT(<<tag, ToJson(rec)>>) lines of a TLC run -> list of dicts (duplicates removed, order kept)."""
    pre = '<<"%s", ' % tag
    seen, rows = set(), []
    for line in out.splitlines():
        if line.startswith(pre) and line.endswith(">>"):
            inner = json.loads(line[len(pre):-2])
            if inner not in seen:
                seen.add(inner)
                rows.append(json.loads(inner))
    return rows


def run_driver(ctx, mode, jobs, timeout):
    """Writes the plan, runs vdrv-wire and returns ({(env, i): obs}, summary, job_errors)."""
    plan = ctx.path("%s_plan.jsonl" % mode)
    with open(plan, "w") as f:
        for j in jobs:
            f.write(json.dumps(j) + "\n")
    out, summ = ctx.path("%s_obs.jsonl" % mode), ctx.path("%s_summary.json" % mode)
    ctx.drv([mode, "-plan", plan, "-out", out, "-summary", summ], timeout=timeout, cmd_name="vdrv-wire")
    obs, errs = {}, []
    ctx.notes.setdefault("right_after_prepare", [])
    for r in core.read_ndjson(out):
        if r.get("err"):
            errs.append("env %s: %s" % (r["env"], r["err"]))
        if r.get("right_after_prepare"):
            ctx.notes["right_after_prepare"].append(dict(r["right_after_prepare"], env=r["env"]))
        for o in r.get("obs") or []:
            obs[(r["env"], o["i"])] = o
    return obs, json.load(open(summ)), errs


def dims_of(x, extra=None):
    d = {"op": x["op"], "sel": x["sel"], "ver": x["ver"], "tracing": int("TRACING" in x["flags"]),
         "payload": int("PAYLOAD" in x["flags"]), "beta": int("BETA" in x["flags"]),
         "compressed": int(bool(x["compressed"])), "comp": x["comp"]}
    d.update(extra or {})
    return d


def shape_key(fail, passing, primary, minor, multi=("ver",), min_fail=6):
    """Smallest conjunction dim=value that all failing cases share and that separates them from the
    passing ones: first over the primary dimensions, then (only with enough failing cases and a
    clear separation) over the minor ones.  Deterministic for a given set of abstract cases."""
    conj, remaining = {}, list(passing)
    for phase, dims in (("primary", primary), ("minor", minor)):
        while remaining:
            best = None
            for d in dims:
                if d in conj:
                    continue
                vals = sorted({str(f[d]) for f in fail})
                if len(vals) != 1 and not (d in multi and len(fail) >= 2 * min_fail and
                                           all(sum(1 for f in fail if str(f[d]) == v) >= 3 for v in vals)):
                    continue
                excl = sum(1 for p in remaining if str(p[d]) not in vals)
                if excl == 0:
                    continue
                if len(vals) > 1 and excl < 0.2 * len(remaining):
                    continue
                if phase == "minor" and (len(fail) < min_fail or excl < 0.2 * len(remaining)):
                    continue
                cand = (excl, -len(vals), d, vals)
                if best is None or cand[:2] > best[:2]:
                    best = cand
            if best is None:
                break
            _, _, d, vals = best
            conj[d] = "|".join(vals)
            remaining = [p for p in remaining if str(p[d]) in vals]
    return ",".join("%s=%s" % (d, conj[d]) for d in DIM_ORDER if d in conj)


def breakdown(cases, dims):
    out = {}
    for d in dims:
        c = {}
        for x in cases:
            c[str(x[d])] = c.get(str(x[d]), 0) + 1
        out[d] = dict(sorted(c.items()))
    return out


def report(ctx, prefix, failures, passing, primary, minor, describe):
    """failures: {what: [(dims, text, replay)]}.  One violation per cause: failures confined to one
    (opcode, version) cell are reported under the cell (`<prefix>:mishandled:op=..,ver=..`, all their
    symptoms listed), the others under `<prefix>:<symptom>:<minimal shape>`."""
    keys = []
    cells = {}
    # failures that all stem from one statement form (e.g. a SELECT preceded by a comment, which the proxy's lexer does
    # not recognise as a SELECT) are one cause whatever their symptom: report them under the form
    byform = {}
    rest = {}
    for what, items in failures.items():
        for it in items:
            f = it[0].get("form")
            if f == "leading-comment":
                byform.setdefault(f, []).append((what, it))
            else:
                rest.setdefault(what, []).append(it)
    for f, lst in sorted(byform.items()):
        key = "%s:select-form-not-recognised:form=%s" % (prefix, f)
        whats = sorted({w for w, _ in lst})
        d0, text, replay = lst[0][1]
        ctx.violation(key, "a SELECT written as `%s` is not treated as a SELECT (%d exchanges; symptoms: %s; first: %s)" % (
            f, len(lst), ", ".join(whats), text), replay={"form": f, "symptoms": whats, "first": replay})
        keys.append(key)
    failures = rest
    for what in sorted(failures):
        items = failures[what]
        fd = [d for d, _, _ in items]
        ops, vers = {d["op"] for d in fd}, {d["ver"] for d in fd}
        if len(ops) == 1 and len(vers) == 1 and any(p["op"] not in ops or p["ver"] not in vers for p in passing):
            cells.setdefault((ops.pop(), vers.pop()), []).append(what)
            continue
        shape = shape_key(fd, passing, primary, minor)
        key = "%s:%s%s" % (prefix, what, (":" + shape) if shape else "")
        d0, text, replay = items[0]
        rep = {"what": what, "failing_exchanges": len(items), "passing_exchanges_compared": len(passing),
               "failing_by_dimension": breakdown(fd, primary + minor), "first": replay,
               "more": [r for _, _, r in items[1:4]]}
        ctx.violation(key, "%s (%d exchanges; first: %s)" % (describe.get(what, what), len(items), text), replay=rep)
        keys.append(key)
    for (op, ver), whats in sorted(cells.items()):
        key = "%s:mishandled:op=%s,ver=%s" % (prefix, op, ver)
        n_pass = sum(1 for p in passing if p["op"] == op and p["ver"] == ver)
        rep = {"cell": {"op": op, "ver": ver}, "passing_exchanges_in_cell": n_pass, "symptoms": {}}
        parts = []
        for what in whats:
            items = failures[what]
            parts.append("%s x%d" % (what, len(items)))
            rep["symptoms"][what] = {"failing_exchanges": len(items), "meaning": describe.get(what, what),
                                     "failing_by_dimension": breakdown([d for d, _, _ in items], minor),
                                     "first_text": items[0][1], "first": items[0][2], "more": [r for _, _, r in items[1:3]]}
        ctx.violation(key, "%s frames of version %s are not forwarded as the specification requires: %s (%d exchanges of the "
                      "cell agree)" % (op, ver, "; ".join(parts), n_pass), replay=rep)
        keys.append(key)
    return keys


def sizes_for(rng, n, thorough, big_share):
    """Size classes for n exchanges: mostly small, a share of medium and large bodies."""
    out = []
    for _ in range(n):
        r = rng.random()
        out.append("L" if r < big_share else "M" if r < big_share + 0.12 else "S")
    return out


def infra_failures(obs):
    """Exchanges that say nothing about the property (driver/generator/timeouts)."""
    bad = {}
    for k, o in obs.items():
        if o["st"] in ("generr", "timeout", "noconn", "rejected"):
            bad.setdefault(o["st"], []).append((k, o.get("err", "")))
    return bad


def rng_for(ctx, salt):
    return random.Random(ctx.seed * 1000003 + salt)
