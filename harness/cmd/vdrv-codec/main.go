// vdrv-codec is the Go side of check C11 (partial QUERY/EXECUTE/BATCH codecs agree with the
// reference codecs). It reads the decision table exported by TLC from spec/WireCodec.tla (one JSON
// row per line: abstract shape, complete layout as items, expected extraction as offsets, class,
// checksum of the specification's bytes) and for every row
//
//  1. renders the layout to bytes (filler contents) and compares length and checksum with TLC,
//  2. concretises the row with the REFERENCE codec (frame.NewRawCodec()) for filler and for seeded
//     random contents and requires the reference encoding to equal the rendered layout byte for
//     byte (the specification's layout is thereby validated against the reference codec),
//  3. decodes every concrete body with the REAL partial codecs (codecs.CustomRawCodec and the
//     compressing variants) on the proxy's own path (DecodeBody over codecs.NewFrameBodyReader),
//     on the bytes.Buffer path (ConvertFromRawFrame), behind a custom payload and behind lz4 /
//     snappy, compares the extracted fields with the specification's offsets and with the
//     reference decoder, re-encodes and compares the bytes,
//  4. decodes every prefix (error required below LeadingLen), seeded mutants and random bytes:
//     no panic, no hang, input untouched, returned slices inside the input.
//
// Disagreements are aggregated per (kind, opcode, version, class) and written to the result file.
package main

import (
	"bytes"
	"encoding/binary"
	"encoding/hex"
	"encoding/json"
	"flag"
	"fmt"
	"hash/fnv"
	"math/rand"
	"os"
	"runtime"
	"sort"
	"strings"
	"sync"
	"time"
	"unsafe"

	"verif/hutil"

	"github.com/datastax/cql-proxy/codecs"
	"github.com/datastax/go-cassandra-native-protocol/compression/lz4"
	"github.com/datastax/go-cassandra-native-protocol/compression/snappy"
	"github.com/datastax/go-cassandra-native-protocol/frame"
	"github.com/datastax/go-cassandra-native-protocol/message"
	"github.com/datastax/go-cassandra-native-protocol/primitive"
)

// ------------------------------------------------------------------------------------- table rows

type item struct {
	T    string
	V    int64
	N    string
	Lead bool
}

func (it *item) UnmarshalJSON(b []byte) error {
	var raw []json.RawMessage
	if err := json.Unmarshal(b, &raw); err != nil {
		return err
	}
	if len(raw) != 4 {
		return fmt.Errorf("item: want 4 elements, got %d", len(raw))
	}
	if err := json.Unmarshal(raw[0], &it.T); err != nil {
		return err
	}
	if err := json.Unmarshal(raw[1], &it.V); err != nil {
		return err
	}
	if err := json.Unmarshal(raw[2], &it.N); err != nil {
		return err
	}
	return json.Unmarshal(raw[3], &it.Lead)
}

func (it item) MarshalJSON() ([]byte, error) {
	return json.Marshal([]interface{}{it.T, it.V, it.N, it.Lead})
}

func (it item) size() int {
	switch it.T {
	case "b":
		return 1
	case "s":
		return 2
	case "i":
		return 4
	case "l":
		return 8
	case "f":
		return int(it.V)
	}
	panic("unknown item type " + it.T)
}

type part struct {
	K   string `json:"k"`
	Off int    `json:"off"`
	Len int    `json:"len"`
}

type extract struct {
	Ok    bool   `json:"ok"`
	Btype int    `json:"btype"`
	Cons  int    `json:"cons"`
	Lead  int    `json:"lead"`
	Parts []part `json:"parts"`
}

type kid struct {
	Kind int   `json:"kind"`
	Len  int   `json:"len"`
	Vals []int `json:"vals"`
}

type row struct {
	Ver     string   `json:"ver"`
	Op      string   `json:"op"`
	Mal     string   `json:"mal"`
	Cls     string   `json:"cls"`
	Qlen    int      `json:"qlen"`
	Idlen   int      `json:"idlen"`
	Rmidlen int      `json:"rmidlen"`
	Cons    int      `json:"cons"`
	Opts    []string `json:"opts"`
	Vm      string   `json:"vm"`
	Vals    []int    `json:"vals"`
	Btype   int      `json:"btype"`
	Kids    []kid    `json:"kids"`
	Items   []item   `json:"items,omitempty"`
	X       extract  `json:"x"`
	Len     int      `json:"len"`
	Ck      int      `json:"ck"`
}

func (r *row) has(o string) bool {
	for _, x := range r.Opts {
		if x == o {
			return true
		}
	}
	return false
}

// shape is the abstract row without its layout (used in reports and as identity).
func (r *row) shape() string {
	c := *r
	c.Items = nil
	b, _ := json.Marshal(&c)
	return string(b)
}

var versions = map[string]primitive.ProtocolVersion{
	"v3": primitive.ProtocolVersion3, "v4": primitive.ProtocolVersion4, "v5": primitive.ProtocolVersion5,
	"DSEv1": primitive.ProtocolVersionDse1, "DSEv2": primitive.ProtocolVersionDse2,
}

var opcodes = map[string]primitive.OpCode{
	"QUERY": primitive.OpCodeQuery, "EXECUTE": primitive.OpCodeExecute, "BATCH": primitive.OpCodeBatch,
}

// ------------------------------------------------------------------------------- rendering layouts

func filler(n int) []byte {
	b := make([]byte, n)
	for j := range b {
		b[j] = byte(97 + j%26)
	}
	return b
}

// contents returns one content slice per "f" item, in layout order (rng == nil: filler).
func contents(items []item, rng *rand.Rand) [][]byte {
	var out [][]byte
	for _, it := range items {
		if it.T != "f" {
			continue
		}
		if rng == nil {
			out = append(out, filler(int(it.V)))
		} else {
			b := make([]byte, it.V)
			rng.Read(b)
			out = append(out, b)
		}
	}
	return out
}

// render encodes a layout; offs[i] is the offset of item i.
func render(items []item, cont [][]byte) (body []byte, offs []int) {
	ci := 0
	for _, it := range items {
		offs = append(offs, len(body))
		switch it.T {
		case "b":
			body = append(body, byte(it.V))
		case "s":
			body = binary.BigEndian.AppendUint16(body, uint16(it.V))
		case "i":
			body = binary.BigEndian.AppendUint32(body, uint32(int32(it.V)))
		case "l":
			body = binary.BigEndian.AppendUint64(body, uint64(it.V))
		case "f":
			body = append(body, cont[ci]...)
			ci++
		}
	}
	return
}

func cksum(b []byte) int {
	acc := 0
	for i, x := range b {
		acc = (acc + ((i%251)+1)*int(x)) % 65521
	}
	return acc
}

// ------------------------------------------------------------- concretisation by the reference codec

type contQ struct {
	c [][]byte
	i int
}

func (q *contQ) next(n int) []byte {
	if n <= 0 {
		return []byte{}
	}
	if q.i >= len(q.c) || len(q.c[q.i]) != n {
		panic(fmt.Sprintf("harness: content %d has unexpected length (want %d)", q.i, n))
	}
	b := q.c[q.i]
	q.i++
	return b
}

func mkValue(n int, q *contQ) *primitive.Value {
	switch {
	case n == -1:
		return primitive.NewNullValue()
	case n == -2:
		return primitive.NewUnsetValue()
	case n == 0:
		return primitive.NewValue([]byte{})
	case n > 0:
		return primitive.NewValue(q.next(n))
	}
	panic("harness: value length code not producible by the reference codec")
}

// the fixed contents of optional parameters: must equal the constants of WireCodec.tla
const (
	pageSize       = 5000
	pagingStateLen = 9
	serialCons     = primitive.ConsistencyLevelSerial
	timestamp      = int64(1234567)
	keyspaceLen    = 5
	nowInSeconds   = int32(1234)
)

func queryOptions(r *row, q *contQ) *message.QueryOptions {
	o := &message.QueryOptions{Consistency: primitive.ConsistencyLevel(r.Cons)}
	switch r.Vm {
	case "pos":
		o.PositionalValues = make([]*primitive.Value, 0, len(r.Vals))
		for _, v := range r.Vals {
			o.PositionalValues = append(o.PositionalValues, mkValue(v, q))
		}
	case "named":
		o.NamedValues = map[string]*primitive.Value{}
		if len(r.Vals) > 1 {
			panic("harness: more than one named value (map order is not deterministic)")
		}
		for _, v := range r.Vals {
			name := string(q.next(2))
			o.NamedValues[name] = mkValue(v, q)
		}
	}
	o.SkipMetadata = r.has("skipmeta")
	if r.has("pagesize") {
		o.PageSize = pageSize
		o.PageSizeInBytes = r.has("psbytes")
	}
	if r.has("paging") {
		o.PagingState = q.next(pagingStateLen)
	}
	if r.has("serial") {
		c := serialCons
		o.SerialConsistency = &c
	}
	if r.has("ts") {
		t := timestamp
		o.DefaultTimestamp = &t
	}
	if r.has("ks") {
		o.Keyspace = string(q.next(keyspaceLen))
	}
	if r.has("now") {
		n := nowInSeconds
		o.NowInSeconds = &n
	}
	if r.has("contpaging") {
		o.ContinuousPagingOptions = &message.ContinuousPagingOptions{MaxPages: 7, PagesPerSecond: 3, NextPages: 2}
	}
	return o
}

// refMessage builds the reference message of a valid row from the contents, in layout order.
func refMessage(r *row, cont [][]byte) (msg message.Message, err error) {
	defer func() {
		if p := recover(); p != nil {
			err = fmt.Errorf("%v", p)
		}
	}()
	q := &contQ{c: cont}
	switch r.Op {
	case "QUERY":
		s := string(q.next(r.Qlen))
		msg = &message.Query{Query: s, Options: queryOptions(r, q)}
	case "EXECUTE":
		e := &message.Execute{QueryId: q.next(r.Idlen)}
		if r.Rmidlen > 0 {
			e.ResultMetadataId = q.next(r.Rmidlen)
		}
		e.Options = queryOptions(r, q)
		msg = e
	case "BATCH":
		b := &message.Batch{Type: primitive.BatchType(r.Btype), Consistency: primitive.ConsistencyLevel(r.Cons)}
		b.Children = make([]*message.BatchChild, 0, len(r.Kids))
		for _, k := range r.Kids {
			c := &message.BatchChild{}
			if k.Kind == 0 {
				c.Query = string(q.next(k.Len))
			} else {
				c.Id = q.next(k.Len)
			}
			c.Values = make([]*primitive.Value, 0, len(k.Vals))
			for _, v := range k.Vals {
				c.Values = append(c.Values, mkValue(v, q))
			}
			b.Children = append(b.Children, c)
		}
		if r.has("serial") {
			c := serialCons
			b.SerialConsistency = &c
		}
		if r.has("ts") {
			t := timestamp
			b.DefaultTimestamp = &t
		}
		if r.has("ks") {
			b.Keyspace = string(q.next(keyspaceLen))
		}
		if r.has("now") {
			n := nowInSeconds
			b.NowInSeconds = &n
		}
		msg = b
	}
	if q.i != len(cont) {
		return nil, fmt.Errorf("harness: %d of %d contents consumed", q.i, len(cont))
	}
	return msg, nil
}

var refCodec = frame.NewRawCodec()

func header(r *row) *frame.Header {
	return &frame.Header{Version: versions[r.Ver], OpCode: opcodes[r.Op]}
}

// ------------------------------------------------------------------------- calling the real code

type decoded struct {
	msg      message.Message
	body     *frame.Body
	err      error
	panicked string
}

func safely(f func()) (p string) {
	defer func() {
		if x := recover(); x != nil {
			buf := make([]byte, 2048)
			buf = buf[:runtime.Stack(buf, false)]
			p = fmt.Sprintf("%v\n%s", x, buf)
		}
	}()
	f()
	return ""
}

// decodeReader is the proxy's own path: client.Receive in proxy/proxy.go.
func decodeReader(c frame.RawCodec, h *frame.Header, in []byte) (d decoded) {
	d.panicked = safely(func() {
		d.body, d.err = c.DecodeBody(h, codecs.NewFrameBodyReader(in))
		if d.err == nil {
			d.msg = d.body.Message
		}
	})
	return
}

// decodeBuffer goes through bytes.Buffer (frame.RawCodec.ConvertFromRawFrame).
func decodeBuffer(c frame.RawCodec, h *frame.Header, in []byte) (d decoded) {
	d.panicked = safely(func() {
		var f *frame.Frame
		f, d.err = c.ConvertFromRawFrame(&frame.RawFrame{Header: h, Body: in})
		if d.err == nil {
			d.body = f.Body
			d.msg = f.Body.Message
		}
	})
	return
}

func encodeBody(c frame.RawCodec, h *frame.Header, b *frame.Body) (out []byte, err error, panicked string) {
	panicked = safely(func() {
		var buf bytes.Buffer
		err = c.EncodeBody(h, b, &buf)
		out = buf.Bytes()
	})
	return
}

// guarded copies b into a buffer with spare capacity filled with a canary.
const guardLen = 64

func guarded(b []byte) []byte {
	g := make([]byte, len(b)+guardLen)
	copy(g, b)
	for i := len(b); i < len(g); i++ {
		g[i] = 0xEE
	}
	return g
}

func guardIntact(g []byte, orig []byte) bool {
	if !bytes.Equal(g[:len(orig)], orig) {
		return false
	}
	for _, x := range g[len(orig):] {
		if x != 0xEE {
			return false
		}
	}
	return true
}

// inside reports whether s is either disjoint from the backing array of in (a copy) or lies within
// in[0:len(in)].
func inside(in []byte, s []byte) bool {
	if len(s) == 0 || cap(in) == 0 {
		return true
	}
	base := uintptr(unsafe.Pointer(unsafe.SliceData(in)))
	p := uintptr(unsafe.Pointer(unsafe.SliceData(s)))
	if p < base || p >= base+uintptr(cap(in)) {
		return true
	}
	return p+uintptr(len(s)) <= base+uintptr(len(in))
}

// slicesOf lists the byte slices a partially decoded message holds.
func slicesOf(m message.Message) [][]byte {
	switch x := m.(type) {
	case *codecs.PartialQuery:
		return [][]byte{x.Parameters}
	case *codecs.PartialExecute:
		return [][]byte{x.QueryId, x.ResultMetadataId, x.Parameters}
	case *codecs.PartialBatch:
		out := [][]byte{x.Parameters}
		for _, q := range x.Queries {
			out = append(out, q.Values)
			if id, ok := q.QueryOrId.([]byte); ok {
				out = append(out, id)
			}
		}
		return out
	}
	return nil
}

func allInside(in []byte, m message.Message) bool {
	for _, s := range slicesOf(m) {
		if !inside(in, s) {
			return false
		}
	}
	return true
}

// ----------------------------------------------------------------------------------- comparisons

// compareSpec compares a partially decoded message with the specification's extraction of body x
// (offsets relative to base). Returns "" or a description of the first difference.
func compareSpec(r *row, m message.Message, x []byte, base int) string {
	sl := func(p part) []byte { return x[base+p.Off : base+p.Off+p.Len] }
	switch r.Op {
	case "QUERY":
		q, ok := m.(*codecs.PartialQuery)
		if !ok {
			return fmt.Sprintf("message type %T", m)
		}
		if q.Query != string(sl(r.X.Parts[0])) {
			return "query string differs from the body's <query>"
		}
		if int(q.Consistency) != r.X.Cons {
			return fmt.Sprintf("consistency: want %d got %d", r.X.Cons, q.Consistency)
		}
		if !bytes.Equal(q.Parameters, x[base+r.X.Lead:]) {
			return "remainder (Parameters) differs from the bytes after <consistency>"
		}
	case "EXECUTE":
		e, ok := m.(*codecs.PartialExecute)
		if !ok {
			return fmt.Sprintf("message type %T", m)
		}
		if !bytes.Equal(e.QueryId, sl(r.X.Parts[0])) {
			return "prepared id differs from the body's <id>"
		}
		if int(e.Consistency) != r.X.Cons {
			return fmt.Sprintf("consistency: want %d got %d", r.X.Cons, e.Consistency)
		}
		if !bytes.Equal(e.Parameters, x[base+r.X.Lead:]) {
			return "remainder (Parameters) differs from the bytes after <consistency>"
		}
	case "BATCH":
		b, ok := m.(*codecs.PartialBatch)
		if !ok {
			return fmt.Sprintf("message type %T", m)
		}
		if int(b.Type) != r.X.Btype {
			return fmt.Sprintf("batch type: want %d got %d", r.X.Btype, b.Type)
		}
		if len(b.Queries)*2 != len(r.X.Parts) {
			return fmt.Sprintf("children: want %d got %d", len(r.X.Parts)/2, len(b.Queries))
		}
		for i, c := range b.Queries {
			p, v := r.X.Parts[2*i], r.X.Parts[2*i+1]
			switch qi := c.QueryOrId.(type) {
			case string:
				if p.K != "q" || qi != string(sl(p)) {
					return fmt.Sprintf("child %d: query string differs (spec kind %s)", i, p.K)
				}
			case []byte:
				if p.K != "id" || !bytes.Equal(qi, sl(p)) {
					return fmt.Sprintf("child %d: prepared id differs (spec kind %s)", i, p.K)
				}
			default:
				return fmt.Sprintf("child %d: QueryOrId has type %T", i, c.QueryOrId)
			}
			if !bytes.Equal(c.Values, sl(v)) {
				return fmt.Sprintf("child %d: raw values differ from the body's <n><value_1>...<value_n>", i)
			}
		}
		if int(b.Consistency) != r.X.Cons {
			return fmt.Sprintf("consistency: want %d got %d", r.X.Cons, b.Consistency)
		}
		if !bytes.Equal(b.Parameters, x[base+r.X.Lead:]) {
			return "remainder (Parameters) differs from the bytes after <consistency>"
		}
	}
	return ""
}

// compareRef compares a partially decoded message with the reference decoder's message.
func compareRef(r *row, m message.Message, ref message.Message, v primitive.ProtocolVersion) string {
	switch rm := ref.(type) {
	case *message.Query:
		q, ok := m.(*codecs.PartialQuery)
		if !ok {
			return fmt.Sprintf("message type %T", m)
		}
		if q.Query != rm.Query {
			return "query string differs from the reference decoder's"
		}
		if q.Consistency != rm.Options.Consistency {
			return fmt.Sprintf("consistency: reference %d got %d", rm.Options.Consistency, q.Consistency)
		}
	case *message.Execute:
		e, ok := m.(*codecs.PartialExecute)
		if !ok {
			return fmt.Sprintf("message type %T", m)
		}
		if !bytes.Equal(e.QueryId, rm.QueryId) {
			return "prepared id differs from the reference decoder's"
		}
		if e.Consistency != rm.Options.Consistency {
			return fmt.Sprintf("consistency: reference %d got %d", rm.Options.Consistency, e.Consistency)
		}
	case *message.Batch:
		b, ok := m.(*codecs.PartialBatch)
		if !ok {
			return fmt.Sprintf("message type %T", m)
		}
		if b.Type != rm.Type {
			return fmt.Sprintf("batch type: reference %d got %d", rm.Type, b.Type)
		}
		if len(b.Queries) != len(rm.Children) {
			return fmt.Sprintf("children: reference %d got %d", len(rm.Children), len(b.Queries))
		}
		for i, c := range b.Queries {
			rc := rm.Children[i]
			switch qi := c.QueryOrId.(type) {
			case string:
				if rc.Id != nil || qi != rc.Query {
					return fmt.Sprintf("child %d: query string differs from the reference decoder's", i)
				}
			case []byte:
				if rc.Id == nil || !bytes.Equal(qi, rc.Id) {
					return fmt.Sprintf("child %d: prepared id differs from the reference decoder's", i)
				}
			}
			var vb bytes.Buffer
			if err := primitive.WritePositionalValues(rc.Values, &vb, v); err != nil {
				return "harness: cannot re-encode reference values: " + err.Error()
			}
			if !bytes.Equal(c.Values, vb.Bytes()) {
				return fmt.Sprintf("child %d: values differ from the reference decoder's", i)
			}
		}
		if b.Consistency != rm.Consistency {
			return fmt.Sprintf("consistency: reference %d got %d", rm.Consistency, b.Consistency)
		}
	default:
		return fmt.Sprintf("harness: reference message type %T", ref)
	}
	return ""
}

// ------------------------------------------------------------------------------------- findings

type example struct {
	Shape  json.RawMessage `json:"row"`
	Seed   int             `json:"content_seed"`
	Stage  string          `json:"stage"`
	Input  string          `json:"input_hex"`
	Detail string          `json:"detail"`
	Got    string          `json:"got_hex,omitempty"`
}

type finding struct {
	Key      string          `json:"key"`
	Kind     string          `json:"kind"`
	Op       string          `json:"op"`
	Ver      string          `json:"ver"`
	Mal      string          `json:"mal"`
	Path     string          `json:"path"`
	Count    int             `json:"count"`
	Rows     int             `json:"rows_affected"`
	Details  map[string]int  `json:"details"`
	Examples []example       `json:"examples"`
	rowset   map[string]bool `json:"-"`
	cats     map[string]bool `json:"-"`
}

type opver struct {
	Rows        int `json:"rows"`
	Valid       int `json:"valid"`
	Reject      int `json:"reject"`
	Open        int `json:"open"`
	Bodies      int `json:"bodies"`
	Decodes     int `json:"decodes"`
	Prefixes    int `json:"prefixes"`
	PrefixesErr int `json:"prefixes_rejected"`
	Mutants     int `json:"mutants"`
	MutantsErr  int `json:"mutants_rejected"`
	Random      int `json:"random_inputs"`
	Reencodes   int `json:"reencodes"`
	FieldChecks int `json:"field_comparisons"`
	RefChecks   int `json:"reference_layout_checks"`
}

type result struct {
	Rows          int                       `json:"rows"`
	DistinctRows  int                       `json:"distinct_rows"`
	ByOpVer       map[string]*opver         `json:"by_op_ver"`
	ByClass       map[string]int            `json:"rows_by_class"`
	ByMal         map[string]int            `json:"rows_by_mal"`
	Variants      map[string]int            `json:"variant_decodes"`
	Evaluations   int                       `json:"evaluations"`
	OpenObserved  map[string]map[string]int `json:"open_rows_observed"`
	SkippedHuge   int                       `json:"inputs_skipped_huge_allocation"`
	Huge          []map[string]interface{}  `json:"huge_length_cases"`
	Findings      []*finding                `json:"findings"`
	Machinery     []string                  `json:"machinery_errors"`
	NMachinery    int                       `json:"n_machinery_errors"`
	Samples       []json.RawMessage         `json:"samples"`
	ContentSeeds  int                       `json:"content_seeds_per_row"`
	MutantsPerRow int                       `json:"mutants_per_body"`
	Workers       int                       `json:"workers"`
	WallS         float64                   `json:"wall_s"`
	mu            sync.Mutex
	fmap          map[string]*finding
	shapes        map[uint64]bool
}

func (res *result) machinery(s string) {
	res.mu.Lock()
	res.NMachinery++
	if len(res.Machinery) < 20 {
		res.Machinery = append(res.Machinery, s)
	}
	res.mu.Unlock()
}

func (res *result) report(kind string, r *row, path string, seed int, stage string, in []byte, detail string, got []byte) {
	key := fmt.Sprintf("%s:op=%s,ver=%s", kind, r.Op, r.Ver)
	// safety findings are one cause per opcode and version, whatever input class revealed them
	if kind != "panic" && kind != "hang" && kind != "out-of-bounds" {
		if r.Mal != "none" {
			key += ",mal=" + r.Mal
		}
		if path != "" {
			key += ",path=" + path
		}
	}
	res.mu.Lock()
	defer res.mu.Unlock()
	f := res.fmap[key]
	if f == nil {
		f = &finding{Key: key, Kind: kind, Op: r.Op, Ver: r.Ver, Mal: r.Mal, Path: path, Details: map[string]int{}, rowset: map[string]bool{}}
		res.fmap[key] = f
		res.Findings = append(res.Findings, f)
	}
	f.Count++
	sh := r.shape()
	if !f.rowset[sh] {
		f.rowset[sh] = true
		f.Rows++
	}
	d := detail
	if i := strings.IndexByte(d, '\n'); i >= 0 {
		d = d[:i]
	}
	if len(d) > 160 {
		d = d[:160]
	}
	if _, ok := f.Details[d]; ok || len(f.Details) < 12 {
		f.Details[d]++
	}
	// examples: prefer one per kind of detail (digits ignored)
	cat := strings.Map(func(c rune) rune {
		if c >= '0' && c <= '9' {
			return -1
		}
		return c
	}, d)
	if len(cat) > 60 {
		cat = cat[:60]
	}
	if f.cats == nil {
		f.cats = map[string]bool{}
	}
	if len(f.Examples) < 4 && (!f.cats[cat] || (len(f.Examples) < 2 && f.Count > 50)) {
		f.cats[cat] = true
		if len(in) > 4096 {
			in = in[:4096]
		}
		if len(got) > 4096 {
			got = got[:4096]
		}
		f.Examples = append(f.Examples, example{Shape: json.RawMessage(sh), Seed: seed, Stage: stage,
			Input: hex.EncodeToString(in), Detail: detail, Got: hex.EncodeToString(got)})
	}
}

// --------------------------------------------------------------------------------------- watchdog

type slot struct {
	mu    sync.Mutex
	desc  string
	r     *row
	input []byte
	start time.Time
	busy  bool
}

func (s *slot) enter(r *row, desc string, in []byte) {
	s.mu.Lock()
	s.r, s.desc, s.input, s.start, s.busy = r, desc, in, time.Now(), true
	s.mu.Unlock()
}

func (s *slot) leave() {
	s.mu.Lock()
	s.busy = false
	s.mu.Unlock()
}

// ------------------------------------------------------------------------------ huge-length guard

const hugeLimit = 1 << 20

// wouldAllocHuge walks the leading structure of b the way any decoder of [long string]s would and
// reports whether a [long string] length above hugeLimit is met. It is a resource guard for the
// generator of mutants only (the reference primitives allocate the announced length before reading);
// it is never used as an oracle.
func wouldAllocHuge(op string, b []byte) bool {
	rd16 := func(p int) (int, bool) {
		if p+2 > len(b) {
			return 0, false
		}
		return int(binary.BigEndian.Uint16(b[p:])), true
	}
	rd32 := func(p int) (int, bool) {
		if p+4 > len(b) {
			return 0, false
		}
		return int(int32(binary.BigEndian.Uint32(b[p:]))), true
	}
	switch op {
	case "QUERY":
		n, ok := rd32(0)
		return ok && n > hugeLimit
	case "BATCH":
		cnt, ok := rd16(1)
		if !ok {
			return false
		}
		p := 3
		for i := 0; i < cnt; i++ {
			if p >= len(b) {
				return false
			}
			kind := b[p]
			p++
			switch kind {
			case 0:
				n, ok := rd32(p)
				if !ok {
					return false
				}
				if n > hugeLimit {
					return true
				}
				p += 4
				if n > 0 {
					p += n
				}
			case 1:
				n, ok := rd16(p)
				if !ok {
					return false
				}
				p += 2 + n
			default:
				return false
			}
			m, ok := rd16(p)
			if !ok {
				return false
			}
			p += 2
			for j := 0; j < m; j++ {
				n, ok := rd32(p)
				if !ok {
					return false
				}
				p += 4
				if n > 0 {
					p += n
				}
				if p > len(b) {
					return false
				}
			}
			if p > len(b) {
				return false
			}
		}
	}
	return false
}

// ---------------------------------------------------------------------------------------- mutants

func mutate(rng *rand.Rand, x []byte, items []item, offs []int) ([]byte, string) {
	y := append([]byte{}, x...)
	special := []byte{0x00, 0x01, 0x02, 0x7f, 0x80, 0xfe, 0xff}
	for tries := 0; tries < 8; tries++ {
		switch op := rng.Intn(8); {
		case op == 0 && len(y) > 0:
			i := rng.Intn(len(y))
			y[i] ^= 1 << uint(rng.Intn(8))
			return y, fmt.Sprintf("flip bit at %d", i)
		case op == 1 && len(y) > 0:
			i := rng.Intn(len(y))
			y[i] = byte(rng.Intn(256))
			return y, fmt.Sprintf("random byte at %d", i)
		case op == 2 && len(y) > 0:
			i := rng.Intn(len(y))
			y[i] = special[rng.Intn(len(special))]
			return y, fmt.Sprintf("special byte at %d", i)
		case op == 3 || op == 4:
			// overwrite a numeric field of the layout with an interesting value
			var idx []int
			for i, it := range items {
				if it.T == "s" || it.T == "i" || it.T == "b" {
					idx = append(idx, i)
				}
			}
			if len(idx) == 0 {
				continue
			}
			i := idx[rng.Intn(len(idx))]
			it, o := items[i], offs[i]
			rem := len(y) - o - it.size()
			cands := []int64{0, 1, -1, -2, -3, it.V + 1, it.V - 1, int64(rem), int64(rem) + 1, int64(rem) - 1, 255, 256, 65535, 65536, 1 << 20}
			v := cands[rng.Intn(len(cands))]
			switch it.T {
			case "b":
				y[o] = byte(v)
			case "s":
				binary.BigEndian.PutUint16(y[o:], uint16(v))
			case "i":
				binary.BigEndian.PutUint32(y[o:], uint32(int32(v)))
			}
			return y, fmt.Sprintf("%s at %d := %d", it.N, o, v)
		case op == 5 && len(y) > 0:
			i := rng.Intn(len(y))
			y = append(y[:i], y[i+1:]...)
			return y, fmt.Sprintf("delete byte at %d", i)
		case op == 6:
			i := rng.Intn(len(y) + 1)
			y = append(y[:i], append([]byte{byte(rng.Intn(256))}, y[i:]...)...)
			return y, fmt.Sprintf("insert byte at %d", i)
		case op == 7 && len(y) > 0:
			i := rng.Intn(len(y))
			y = y[:i]
			n := rng.Intn(8)
			for j := 0; j < n; j++ {
				y = append(y, byte(rng.Intn(256)))
			}
			return y, fmt.Sprintf("cut at %d and append %d random bytes", i, n)
		}
	}
	return y, "unchanged"
}

// ------------------------------------------------------------------------------------ per-row work

type worker struct {
	res   *result
	slot  *slot
	seeds int
	nmut  int
	local map[string]*opver
	vars  map[string]int
	open  map[string]map[string]int
	skip  int
}

func (w *worker) ov(r *row) *opver {
	k := r.Op + "/" + r.Ver
	o := w.local[k]
	if o == nil {
		o = &opver{}
		w.local[k] = o
	}
	return o
}

// safety runs one decode of an input that carries no expectation beyond safety and returns whether
// the decoder accepted it.
func (w *worker) safety(r *row, h *frame.Header, in []byte, seed int, stage string, viaBuffer bool) (accepted bool, d decoded) {
	g := guarded(in)
	inp := g[:len(in)]
	if viaBuffer {
		d = decodeBuffer(codecs.CustomRawCodec, h, inp)
	} else {
		d = decodeReader(codecs.CustomRawCodec, h, inp)
	}
	if d.panicked != "" {
		w.res.report("panic", r, "", seed, stage, in, d.panicked, nil)
		return false, d
	}
	if !guardIntact(g, in) {
		w.res.report("out-of-bounds", r, "", seed, stage, in, "decoder modified its input or the bytes after it", nil)
	}
	if d.err == nil && !allInside(inp, d.msg) {
		w.res.report("out-of-bounds", r, "", seed, stage, in, "a returned slice extends past the input", nil)
	}
	return d.err == nil, d
}

func (w *worker) doRow(r *row, rowIdx int) {
	res := w.res
	ov := w.ov(r)
	ov.Rows++
	switch r.Cls {
	case "valid":
		ov.Valid++
	case "reject":
		ov.Reject++
	default:
		ov.Open++
	}
	h := header(r)
	v := versions[r.Ver]
	// 1. the specification's own bytes
	spec, offs := render(r.Items, contents(r.Items, nil))
	if len(spec) != r.Len || cksum(spec) != r.Ck {
		res.machinery(fmt.Sprintf("rendering of row %s: len %d/%d checksum %d/%d", r.shape(), len(spec), r.Len, cksum(spec), r.Ck))
		return
	}
	hs := fnv.New64a()
	hs.Write([]byte(r.shape()))
	rng := hutil.NewRand(int64(hs.Sum64() >> 1))

	for seed := 0; seed <= w.seeds; seed++ {
		var cont [][]byte
		if seed == 0 {
			cont = contents(r.Items, nil)
		} else {
			cont = contents(r.Items, rng)
		}
		x, _ := render(r.Items, cont)
		ov.Bodies++
		w.slot.enter(r, fmt.Sprintf("seed %d", seed), x)

		if r.Cls != "valid" {
			// rows outside the valid bodies: the rendered layout is the concrete input
			acc, _ := w.safety(r, h, x, seed, "full body", false)
			ov.Decodes++
			if r.Cls == "reject" && acc {
				res.report("malformed-accepted", r, "", seed, "full body", x, "a body whose leading layout is undefined ("+r.Mal+") was decoded without error", nil)
			}
			if r.Cls == "open" {
				k := fmt.Sprintf("%s/%s/%s", r.Mal, r.Op, r.Ver)
				if w.open[k] == nil {
					w.open[k] = map[string]int{}
				}
				if acc {
					w.open[k]["accepted"]++
				} else {
					w.open[k]["rejected"]++
				}
			}
			for k := 0; k < len(x); k++ {
				acc, _ := w.safety(r, h, x[:k], seed, fmt.Sprintf("prefix %d", k), seed == 0 && k%2 == 0)
				ov.Decodes++
				ov.Prefixes++
				if !acc {
					ov.PrefixesErr++
				}
				if acc && r.Cls == "reject" {
					res.report("malformed-accepted", r, "", seed, fmt.Sprintf("prefix %d", k), x[:k], "a prefix of a body whose leading layout is undefined ("+r.Mal+") was decoded without error", nil)
				}
			}
			w.mutants(r, h, x, offs, rng, seed, ov)
			continue
		}

		// 2. the reference codec must produce exactly the rendered layout
		msg, err := refMessage(r, cont)
		if err != nil {
			res.machinery(fmt.Sprintf("reference message of row %s: %v", r.shape(), err))
			return
		}
		var rb bytes.Buffer
		if err := refCodec.EncodeBody(h, &frame.Body{Message: msg}, &rb); err != nil {
			res.machinery(fmt.Sprintf("reference codec refuses valid row %s: %v", r.shape(), err))
			return
		}
		ov.RefChecks++
		if !bytes.Equal(rb.Bytes(), x) {
			res.machinery(fmt.Sprintf("layout of the specification differs from the reference encoding for row %s seed %d: spec %x reference %x", r.shape(), seed, x, rb.Bytes()))
			return
		}
		rf, err := refCodec.DecodeBody(h, bytes.NewReader(x))
		if err != nil {
			res.machinery(fmt.Sprintf("reference codec cannot decode its own encoding of row %s: %v", r.shape(), err))
			return
		}

		// the custom codec encodes complete messages by delegating to the built-in codec: same bytes
		if seed == 0 {
			out, err, p := encodeBody(codecs.CustomRawCodec, h, &frame.Body{Message: msg})
			ov.Reencodes++
			if p != "" {
				res.report("panic", r, "", seed, "encode complete message", x, p, nil)
			} else if err != nil || !bytes.Equal(out, x) {
				res.report("encode-complete-message", r, "", seed, "encode complete message", x,
					fmt.Sprintf("codecs.CustomRawCodec encodes the reference message differently from the reference codec (error: %v)", err), out)
			}
			// a source that is neither a FrameBodyReader nor a bytes.Buffer: any answer but a panic
			if p := safely(func() { _, _ = codecs.CustomRawCodec.DecodeBody(h, bytes.NewReader(x)) }); p != "" {
				res.report("panic", r, "", seed, "decode from a plain io.Reader", x, p, nil)
			}
			ov.Decodes++
		}

		// 3. the real partial codec: the proxy's path
		fieldsOK, baseOK := w.positive(r, h, v, x, 0, rf.Message, seed, "", ov, func(in []byte) decoded {
			return decodeReader(codecs.CustomRawCodec, h, in)
		}, func(d decoded) ([]byte, error, string) {
			return encodeBody(codecs.CustomRawCodec, h, &frame.Body{Message: d.msg})
		})
		if baseOK && seed <= 1 {
			w.variants(r, h, v, x, rf.Message, seed, ov)
		}

		// 4. prefixes
		g := guarded(x)
		for k := 0; k < len(x); k++ {
			inp := g[:k]
			var d decoded
			if seed == 0 && k%2 == 1 {
				d = decodeBuffer(codecs.CustomRawCodec, h, inp)
			} else {
				d = decodeReader(codecs.CustomRawCodec, h, inp)
			}
			ov.Decodes++
			ov.Prefixes++
			stage := fmt.Sprintf("prefix %d of %d (LeadingLen %d)", k, len(x), r.X.Lead)
			if d.panicked != "" {
				res.report("panic", r, "", seed, stage, x[:k], d.panicked, nil)
				continue
			}
			if d.err != nil {
				ov.PrefixesErr++
				continue
			}
			if !allInside(inp, d.msg) {
				res.report("out-of-bounds", r, "", seed, stage, x[:k], "a returned slice extends past the truncated input", nil)
			}
			if k < r.X.Lead && fieldsOK {
				res.report("truncation-accepted", r, "", seed, stage, x[:k], "a body truncated inside the leading fields was decoded without error", nil)
			}
		}
		if !guardIntact(g, x) {
			res.report("out-of-bounds", r, "", seed, "prefixes", x, "decoder modified its input or the bytes after it", nil)
		}

		// 5. mutants
		w.mutants(r, h, x, offs, rng, seed, ov)
	}
	w.slot.leave()
}

// positive checks one concrete valid body x (the message starts at base) on one decode path.
func (w *worker) positive(r *row, h *frame.Header, v primitive.ProtocolVersion, x []byte, base int, ref message.Message,
	seed int, path string, ov *opver, dec func([]byte) decoded, enc func(decoded) ([]byte, error, string)) (fieldsOK, allOK bool) {
	res := w.res
	g := guarded(x)
	inp := g[:len(x)]
	d := dec(inp)
	ov.Decodes++
	if path != "" {
		w.vars[path]++
	}
	stage := "full body"
	if d.panicked != "" {
		res.report("panic", r, path, seed, stage, x, d.panicked, nil)
		return false, false
	}
	if d.err != nil {
		res.report("decode", r, path, seed, stage, x, "valid body rejected: "+d.err.Error(), nil)
		return false, false
	}
	ov.FieldChecks++
	if diff := compareSpec(r, d.msg, x, base); diff != "" {
		res.report("decode", r, path, seed, stage, x, "extracted fields differ from the specification: "+diff, nil)
		return false, false
	}
	if diff := compareRef(r, d.msg, ref, v); diff != "" {
		res.report("decode", r, path, seed, stage, x, "extracted fields differ from the reference codec: "+diff, nil)
		return false, false
	}
	if !guardIntact(g, x) {
		res.report("out-of-bounds", r, path, seed, stage, x, "decoder modified its input or the bytes after it", nil)
		return false, false
	}
	if path != "lz4" && path != "snappy" && !allInside(inp, d.msg) {
		res.report("out-of-bounds", r, path, seed, stage, x, "a returned slice extends past the input", nil)
		return false, false
	}
	out, err, p := enc(d)
	ov.Reencodes++
	if p != "" {
		res.report("panic", r, path, seed, "re-encode", x, p, nil)
		return true, false
	}
	if err != nil {
		res.report("reencode", r, path, seed, "re-encode", x, "re-encoding fails: "+err.Error(), nil)
		return true, false
	}
	if !bytes.Equal(out, x) {
		i := 0
		for i < len(out) && i < len(x) && out[i] == x[i] {
			i++
		}
		res.report("reencode", r, path, seed, "re-encode", x,
			fmt.Sprintf("re-encoded body differs from the original: lengths %d/%d, first difference at offset %d (LeadingLen %d)", len(out), len(x), i, r.X.Lead), out)
		return true, false
	}
	return true, true
}

func (w *worker) variants(r *row, h *frame.Header, v primitive.ProtocolVersion, x []byte, ref message.Message, seed int, ov *opver) {
	// bytes.Buffer path
	w.positive(r, h, v, x, 0, ref, seed, "buffer", ov, func(in []byte) decoded {
		return decodeBuffer(codecs.CustomRawCodec, h, in)
	}, func(d decoded) (out []byte, err error, p string) {
		p = safely(func() {
			var raw *frame.RawFrame
			raw, err = codecs.CustomRawCodec.ConvertToRawFrame(&frame.Frame{Header: h.DeepCopy(), Body: d.body})
			if err == nil {
				out = raw.Body
			}
		})
		return
	})
	// behind a custom payload (v4 and later): the message does not start at offset 0 of the body
	if v >= primitive.ProtocolVersion4 {
		payload := map[string][]byte{"pk": {1, 2, 3}}
		var pb bytes.Buffer
		_ = primitive.WriteBytesMap(payload, &pb)
		base := pb.Len()
		y := append(pb.Bytes(), x...)
		hp := h.DeepCopy()
		hp.Flags = hp.Flags.Add(primitive.HeaderFlagCustomPayload)
		w.positive(r, hp, v, y, base, ref, seed, "payload", ov, func(in []byte) decoded {
			return decodeReader(codecs.CustomRawCodec, hp, in)
		}, func(d decoded) ([]byte, error, string) {
			return encodeBody(codecs.CustomRawCodec, hp, &frame.Body{CustomPayload: d.body.CustomPayload, Message: d.msg})
		})
	}
	// behind compression
	for _, name := range codecs.CompressionNames {
		var comp frame.BodyCompressor
		switch name {
		case "lz4":
			comp = lz4.Compressor{}
		case "snappy":
			comp = snappy.Compressor{}
		default:
			continue
		}
		var cb bytes.Buffer
		if err := comp.CompressWithLength(bytes.NewReader(x), &cb); err != nil {
			w.res.machinery("compress " + name + ": " + err.Error())
			continue
		}
		hc := h.DeepCopy()
		hc.Flags = hc.Flags.Add(primitive.HeaderFlagCompressed)
		hc.BodyLength = int32(cb.Len())
		cc := codecs.CustomRawCodecsWithCompression[name]
		cbytes := cb.Bytes()
		nm := name
		// the library's decompressors give up on some inputs (lz4: compression ratio above 8); a body the
		// reference codec itself cannot read back through the compressor says nothing about the partial codecs
		if _, err := codecs.DefaultRawCodecsWithCompression[name].DecodeBody(hc, bytes.NewReader(cbytes)); err != nil {
			w.vars[name+":skipped-compressor-cannot-roundtrip"]++
			continue
		}
		// positive() hands the uncompressed bytes to dec; the compressed frame is decoded instead and the
		// fields are compared with the uncompressed body
		cmp := comp
		w.positive(r, h, v, x, 0, ref, seed, nm, ov, func(_ []byte) decoded {
			return decodeReader(cc, hc, append([]byte{}, cbytes...))
		}, func(d decoded) ([]byte, error, string) {
			// re-encode through the compressing codec (this is what a client connection with compression
			// does) and undo the compression with the library's compressor
			out, err, p := encodeBody(cc, hc, &frame.Body{Message: d.msg})
			if err != nil || p != "" {
				return out, err, p
			}
			var plain bytes.Buffer
			if err := cmp.DecompressWithLength(bytes.NewReader(out), &plain); err != nil {
				return nil, fmt.Errorf("re-encoded compressed body cannot be decompressed: %w", err), ""
			}
			return plain.Bytes(), nil, ""
		})
	}
}

func (w *worker) mutants(r *row, h *frame.Header, x []byte, offs []int, rng *rand.Rand, seed int, ov *opver) {
	for m := 0; m < w.nmut; m++ {
		y, desc := mutate(rng, x, r.Items, offs)
		if wouldAllocHuge(r.Op, y) {
			w.skip++
			continue
		}
		acc, _ := w.safety(r, h, y, seed, "mutant: "+desc, m%4 == 3)
		ov.Decodes++
		ov.Mutants++
		if !acc {
			ov.MutantsErr++
		}
	}
}

// randomInputs decodes arbitrary bytes for every opcode and version: safety only.
func (w *worker) countBoundaries(ver string) {
	v := versions[ver]
	ref := frame.NewRawCodec()
	for _, n := range []int{32767, 32768, 40000, 65535} {
		vals := make([]*primitive.Value, n)
		for i := range vals {
			vals[i] = primitive.NewValue([]byte{byte('a' + i%26)})
		}
		id := []byte("0123456789abcdef")
		msgs := map[string]message.Message{
			"QUERY":   &message.Query{Query: "INSERT INTO ks.t (k) VALUES (?)", Options: &message.QueryOptions{Consistency: primitive.ConsistencyLevelLocalQuorum, PositionalValues: vals}},
			"EXECUTE": &message.Execute{QueryId: id, ResultMetadataId: id, Options: &message.QueryOptions{Consistency: primitive.ConsistencyLevelLocalQuorum, PositionalValues: vals}},
			"BATCH": &message.Batch{Type: primitive.BatchTypeUnlogged, Consistency: primitive.ConsistencyLevelLocalQuorum, Children: []*message.BatchChild{
				{Query: "INSERT INTO ks.t (k) VALUES (?)", Values: vals},
				{Id: id, Values: vals[:2]},
				{Query: "DELETE FROM ks.t WHERE k = 1"}}},
		}
		for _, op := range []string{"QUERY", "EXECUTE", "BATCH"} {
			r := &row{Op: op, Ver: ver, Mal: fmt.Sprintf("value-count-%d", n), Cls: "valid"}
			h := header(r)
			ov := w.ov(r)
			var buf bytes.Buffer
			if err := ref.EncodeBody(h, &frame.Body{Message: msgs[op]}, &buf); err != nil {
				w.res.machinery(fmt.Sprintf("reference codec cannot encode %s with %d values: %v", op, n, err))
				continue
			}
			x := buf.Bytes()
			ov.Bodies++
			d := decodeReader(codecs.CustomRawCodec, h, x)
			ov.Decodes++
			stage := "full body"
			if d.panicked != "" {
				w.res.report("panic", r, "", 0, stage, x[:64], d.panicked, nil)
				continue
			}
			if d.err != nil {
				w.res.report("decode", r, "", 0, stage, x[:64], "valid body rejected: "+d.err.Error(), nil)
				continue
			}
			diff := ""
			setCons := func(c primitive.ConsistencyLevel) {}
			switch m := d.msg.(type) {
			case *codecs.PartialQuery:
				if m.Query != msgs[op].(*message.Query).Query || m.Consistency != primitive.ConsistencyLevelLocalQuorum {
					diff = fmt.Sprintf("query %q consistency %v", m.Query, m.Consistency)
				}
				setCons = func(c primitive.ConsistencyLevel) {
					m.Consistency = c
					msgs[op].(*message.Query).Options.Consistency = c
				}
			case *codecs.PartialExecute:
				if !bytes.Equal(m.QueryId, id) || m.Consistency != primitive.ConsistencyLevelLocalQuorum {
					diff = fmt.Sprintf("id %x consistency %v", m.QueryId, m.Consistency)
				}
				setCons = func(c primitive.ConsistencyLevel) {
					m.Consistency = c
					msgs[op].(*message.Execute).Options.Consistency = c
				}
			case *codecs.PartialBatch:
				rb := msgs[op].(*message.Batch)
				if m.Consistency != primitive.ConsistencyLevelLocalQuorum || m.Type != rb.Type || len(m.Queries) != len(rb.Children) {
					diff = fmt.Sprintf("consistency %v type %v children %d", m.Consistency, m.Type, len(m.Queries))
				} else {
					for i, q := range m.Queries {
						switch x := q.QueryOrId.(type) {
						case string:
							if x != rb.Children[i].Query {
								diff = fmt.Sprintf("child %d: query %q", i, x)
							}
						case []byte:
							if !bytes.Equal(x, rb.Children[i].Id) {
								diff = fmt.Sprintf("child %d: id %x", i, x)
							}
						}
					}
				}
				setCons = func(c primitive.ConsistencyLevel) { m.Consistency = c; rb.Consistency = c }
			default:
				diff = fmt.Sprintf("decoded to %T", d.msg)
			}
			ov.FieldChecks++
			if diff != "" {
				w.res.report("decode", r, "", 0, stage, x[:64], "extracted fields differ from the reference codec: "+diff, nil)
				continue
			}
			out, err, p := encodeBody(codecs.CustomRawCodec, h, d.body)
			ov.Reencodes++
			if p != "" || err != nil || !bytes.Equal(out, x) {
				w.res.report("reencode", r, "", 0, "re-encode", x[:64], fmt.Sprintf("re-encoding does not reproduce the body (panic %q, error %v, lengths %d/%d)", p, err, len(out), len(x)), nil)
				continue
			}
			// what the consistency override does: another consistency, everything else as it was
			setCons(primitive.ConsistencyLevelOne)
			out, err, p = encodeBody(codecs.CustomRawCodec, h, d.body)
			buf.Reset()
			_ = ref.EncodeBody(h, &frame.Body{Message: msgs[op]}, &buf)
			if p != "" || err != nil || !bytes.Equal(out, buf.Bytes()) {
				w.res.report("reencode", r, "", 0, "re-encode with another consistency", x[:64], fmt.Sprintf("differs from the reference encoding of the same message (panic %q, error %v, lengths %d/%d)", p, err, len(out), buf.Len()), nil)
			}
			setCons(primitive.ConsistencyLevelLocalQuorum)
			_ = v
		}
	}
}

// sizeSweep: valid BATCH bodies with thousands of children and QUERY / EXECUTE bodies with one large value whose total
// length sweeps 40 KB .. 2.7 MB in steps of about 4 KB (every residue window of a few KB modulo the small multiples of
// 64 KiB is hit): the partial codec must extract the same children / fields as the reference codec built them from and
// re-encode to the same bytes, whatever the size of the body.
func (w *worker) sizeSweep(ver string, step int) {
	ref := frame.NewRawCodec()
	id := []byte("0123456789abcdef")
	const n = 5000
	for L := 40000; L < 2700000; L += step {
		for _, op := range []string{"BATCH", "QUERY", "EXECUTE"} {
			if op != "BATCH" && (L/step)%8 != 0 {
				continue
			}
			var msg message.Message
			switch op {
			case "BATCH":
				per, extra := (L-8)/n-25, (L-8)%n
				if per < 0 {
					per, extra = 0, 0
				}
				ch := make([]*message.BatchChild, n)
				for i := range ch {
					p := per
					if i < extra {
						p++
					}
					cid := append([]byte{byte(i >> 8), byte(i)}, id[2:]...)
					ch[i] = &message.BatchChild{Id: cid, Values: []*primitive.Value{primitive.NewValue(filler(p))}}
				}
				msg = &message.Batch{Type: primitive.BatchTypeUnlogged, Consistency: primitive.ConsistencyLevelLocalQuorum, Children: ch}
			case "QUERY":
				msg = &message.Query{Query: "INSERT INTO ks.t (k) VALUES (?)", Options: &message.QueryOptions{Consistency: primitive.ConsistencyLevelLocalQuorum,
					PositionalValues: []*primitive.Value{primitive.NewValue(filler(L))}}}
			case "EXECUTE":
				msg = &message.Execute{QueryId: id, ResultMetadataId: id, Options: &message.QueryOptions{Consistency: primitive.ConsistencyLevelLocalQuorum,
					PositionalValues: []*primitive.Value{primitive.NewValue(filler(L))}}}
			}
			r := &row{Op: op, Ver: ver, Mal: "size-sweep", Cls: "valid"}
			h := header(r)
			ov := w.ov(r)
			var buf bytes.Buffer
			if err := ref.EncodeBody(h, &frame.Body{Message: msg}, &buf); err != nil {
				w.res.machinery(fmt.Sprintf("reference codec cannot encode a %s of %d bytes: %v", op, L, err))
				return
			}
			x := buf.Bytes()
			ov.Bodies++
			d := decodeReader(codecs.CustomRawCodec, h, x)
			ov.Decodes++
			stage := fmt.Sprintf("body of %d bytes", len(x))
			if d.panicked != "" {
				w.res.report("panic", r, "", 0, stage, x[:64], d.panicked, nil)
				return
			}
			if d.err != nil {
				w.res.report("decode", r, "", 0, stage, x[:64], "valid body rejected: "+d.err.Error(), nil)
				return
			}
			diff := ""
			switch m := d.msg.(type) {
			case *codecs.PartialBatch:
				rb := msg.(*message.Batch)
				if m.Consistency != rb.Consistency || m.Type != rb.Type || len(m.Queries) != len(rb.Children) {
					diff = fmt.Sprintf("consistency %v type %v children %d (of %d)", m.Consistency, m.Type, len(m.Queries), len(rb.Children))
				} else {
					for i, q := range m.Queries {
						if b, ok := q.QueryOrId.([]byte); !ok || !bytes.Equal(b, rb.Children[i].Id) {
							diff = fmt.Sprintf("child %d: %v", i, q.QueryOrId)
							break
						}
					}
				}
			case *codecs.PartialQuery:
				if m.Query != msg.(*message.Query).Query || m.Consistency != primitive.ConsistencyLevelLocalQuorum {
					diff = fmt.Sprintf("query %q consistency %v", m.Query, m.Consistency)
				}
			case *codecs.PartialExecute:
				if !bytes.Equal(m.QueryId, id) || m.Consistency != primitive.ConsistencyLevelLocalQuorum {
					diff = fmt.Sprintf("id %x consistency %v", m.QueryId, m.Consistency)
				}
			default:
				diff = fmt.Sprintf("decoded to %T", d.msg)
			}
			ov.FieldChecks++
			if diff != "" {
				w.res.report("decode", r, "", 0, stage, x[:64], "extracted fields differ from the reference codec: "+diff, nil)
				return
			}
			out, err, p := encodeBody(codecs.CustomRawCodec, h, d.body)
			ov.Reencodes++
			if p != "" || err != nil || !bytes.Equal(out, x) {
				w.res.report("reencode", r, "", 0, "re-encode", x[:64], fmt.Sprintf("re-encoding does not reproduce the body (panic %q, error %v, lengths %d/%d)", p, err, len(out), len(x)), nil)
				return
			}
		}
	}
}

func (w *worker) randomInputs(op, ver string, n int, salt int64) {
	r := &row{Op: op, Ver: ver, Mal: "random-bytes", Cls: "open"}
	h := header(r)
	rng := hutil.NewRand(salt)
	small := []byte{0, 0, 0, 1, 2, 3, 4, 8, 16, 0xff, 0xfe, 0xfd, 0x7f, 0x80}
	ov := w.ov(r)
	for i := 0; i < n; i++ {
		l := rng.Intn(64)
		b := make([]byte, l)
		for j := range b {
			if rng.Intn(3) > 0 {
				b[j] = small[rng.Intn(len(small))]
			} else {
				b[j] = byte(rng.Intn(256))
			}
		}
		if rng.Intn(10) < 7 {
			// a plausible head, so that the decoders get past their first field
			switch op {
			case "QUERY":
				if l >= 4 {
					binary.BigEndian.PutUint32(b, uint32(int32(rng.Intn(72)-2)))
				}
			case "EXECUTE":
				if l >= 2 {
					binary.BigEndian.PutUint16(b, uint16(rng.Intn(40)))
				}
			case "BATCH":
				if l >= 3 {
					b[0] = byte(rng.Intn(4))
					binary.BigEndian.PutUint16(b[1:], uint16(rng.Intn(5)))
				}
			}
		}
		if wouldAllocHuge(op, b) {
			w.skip++
			continue
		}
		w.slot.enter(r, "random bytes", b)
		w.safety(r, h, b, 0, "random bytes", i%2 == 1)
		ov.Decodes++
		ov.Random++
	}
	w.slot.leave()
}

// ------------------------------------------------------------------------------------------- main

func main() {
	in := flag.String("in", "", "rows exported by TLC (JSON lines)")
	out := flag.String("out", "-", "result file")
	seeds := flag.Int("seeds", 2, "seeded random contents per row (in addition to the filler contents)")
	nmut := flag.Int("mutants", 12, "mutants per concrete body")
	nrand := flag.Int("random", 20000, "random inputs per opcode and version")
	huge := flag.Int("huge", 3, "number of huge-length inputs to run (sequentially)")
	hang := flag.Duration("hang", 60*time.Second, "a stage that takes longer is reported as a hang")
	replay := flag.String("replay", "", "replay file written by the check: decode its example inputs and print what happens")
	flag.Parse()
	if *replay != "" {
		os.Exit(doReplay(*replay))
	}

	t0 := time.Now()
	var rows []*row
	err := hutil.ReadJSONLines(*in, func(line []byte) error {
		r := &row{}
		if err := json.Unmarshal(line, r); err != nil {
			return err
		}
		if _, ok := versions[r.Ver]; !ok {
			return fmt.Errorf("unknown version %q", r.Ver)
		}
		if _, ok := opcodes[r.Op]; !ok {
			return fmt.Errorf("unknown opcode %q", r.Op)
		}
		rows = append(rows, r)
		return nil
	})
	if err != nil {
		fmt.Fprintln(os.Stderr, "vdrv-codec:", err)
		os.Exit(3)
	}
	// stable order (TLC's workers print in any order)
	sort.Slice(rows, func(i, j int) bool { return rows[i].shape() < rows[j].shape() })

	nw := runtime.NumCPU()
	if nw > 16 {
		nw = 16
	}
	res := &result{ByOpVer: map[string]*opver{}, ByClass: map[string]int{}, ByMal: map[string]int{}, Variants: map[string]int{},
		OpenObserved: map[string]map[string]int{}, Findings: []*finding{}, Machinery: []string{}, fmap: map[string]*finding{}, shapes: map[uint64]bool{},
		ContentSeeds: *seeds, MutantsPerRow: *nmut, Workers: nw}
	res.Rows = len(rows)
	for _, r := range rows {
		res.ByClass[r.Cls]++
		res.ByMal[r.Mal]++
		hs := fnv.New64a()
		hs.Write([]byte(r.shape()))
		res.shapes[hs.Sum64()] = true
	}
	res.DistinctRows = len(res.shapes)
	seen := map[string]bool{}
	for i, r := range rows {
		k := r.Op + "/" + r.Cls
		if (i*7)%len(rows) < len(rows)/2 && !seen[k] && len(res.Samples) < 8 {
			seen[k] = true
			c := *r
			if len(c.Items) > 40 {
				c.Items = c.Items[:40]
			}
			b, _ := json.Marshal(&c)
			res.Samples = append(res.Samples, json.RawMessage(b))
		}
	}

	finish := func() {
		sort.Slice(res.Findings, func(i, j int) bool { return res.Findings[i].Key < res.Findings[j].Key })
		for _, o := range res.ByOpVer {
			res.Evaluations += o.Decodes + o.Reencodes
		}
		res.WallS = time.Since(t0).Seconds()
		if err := hutil.WriteJSON(*out, res); err != nil {
			fmt.Fprintln(os.Stderr, "vdrv-codec:", err)
			os.Exit(3)
		}
	}

	slots := make([]*slot, nw)
	workers := make([]*worker, nw)
	for i := range slots {
		slots[i] = &slot{}
		workers[i] = &worker{res: res, slot: slots[i], seeds: *seeds, nmut: *nmut, local: map[string]*opver{}, vars: map[string]int{}, open: map[string]map[string]int{}}
	}
	merge := func() {
		for _, w := range workers {
			for k, o := range w.local {
				t := res.ByOpVer[k]
				if t == nil {
					t = &opver{}
					res.ByOpVer[k] = t
				}
				t.Rows += o.Rows
				t.Valid += o.Valid
				t.Reject += o.Reject
				t.Open += o.Open
				t.Bodies += o.Bodies
				t.Decodes += o.Decodes
				t.Prefixes += o.Prefixes
				t.PrefixesErr += o.PrefixesErr
				t.Mutants += o.Mutants
				t.MutantsErr += o.MutantsErr
				t.Random += o.Random
				t.Reencodes += o.Reencodes
				t.FieldChecks += o.FieldChecks
				t.RefChecks += o.RefChecks
			}
			for k, n := range w.vars {
				res.Variants[k] += n
			}
			for k, m := range w.open {
				if res.OpenObserved[k] == nil {
					res.OpenObserved[k] = map[string]int{}
				}
				for a, n := range m {
					res.OpenObserved[k][a] += n
				}
			}
			res.SkippedHuge += w.skip
			w.local, w.vars, w.open, w.skip = map[string]*opver{}, map[string]int{}, map[string]map[string]int{}, 0
		}
	}

	// watchdog: a stage that does not return is a hang
	go func() {
		for {
			time.Sleep(time.Second)
			for _, s := range slots {
				s.mu.Lock()
				if s.busy && time.Since(s.start) > *hang {
					r, desc, inp := s.r, s.desc, s.input
					s.mu.Unlock()
					res.report("hang", r, "", 0, desc, inp, fmt.Sprintf("a decode stage did not return within %v", *hang), nil)
					res.mu.Lock()
					finish()
					os.Exit(0)
				}
				s.mu.Unlock()
			}
		}
	}()

	var wg sync.WaitGroup
	ch := make(chan int, 256)
	for i := 0; i < nw; i++ {
		wg.Add(1)
		go func(w *worker) {
			defer wg.Done()
			for idx := range ch {
				w.doRow(rows[idx], idx)
				w.slot.leave()
			}
		}(workers[i])
	}
	for i := range rows {
		ch <- i
	}
	close(ch)
	wg.Wait()

	// arbitrary bytes
	type job struct{ op, ver string }
	var jobs []job
	for op := range opcodes {
		for ver := range versions {
			jobs = append(jobs, job{op, ver})
		}
	}
	sort.Slice(jobs, func(i, j int) bool { return jobs[i].op+jobs[i].ver < jobs[j].op+jobs[j].ver })
	jc := make(chan int, len(jobs))
	for i := 0; i < nw; i++ {
		wg.Add(1)
		go func(w *worker) {
			defer wg.Done()
			for j := range jc {
				w.randomInputs(jobs[j].op, jobs[j].ver, *nrand, int64(7000+j))
			}
		}(workers[i])
	}
	for j := range jobs {
		jc <- j
	}
	close(jc)
	wg.Wait()

	// value counts at the boundaries of their 16-bit field (the specification's value lists are short; a count is an
	// unsigned [short]): instances of the valid rows with N one-byte values, judged by the reference codec
	for _, ver := range []string{"v3", "v4", "v5", "DSEv1", "DSEv2"} {
		workers[0].countBoundaries(ver)
		if step := 4093; ver == "v4" || hutil.Thorough() {
			workers[0].sizeSweep(ver, step)
		} else {
			workers[0].sizeSweep(ver, 4*step+7)
		}
	}

	// a few inputs that announce a huge [long string]: run alone, timed
	hugeInputs := []struct {
		op, ver string
		b       []byte
	}{
		{"QUERY", "v4", []byte{0x7f, 0xff, 0xff, 0xff, 'S', 'E', 'L', 'E', 'C', 'T', 0, 1, 0}},
		{"BATCH", "v4", []byte{0, 0, 1, 0, 0x40, 0, 0, 0, 'x', 0, 0, 0, 1, 0}},
		{"QUERY", "DSEv2", []byte{0x10, 0, 0, 0, 'x'}},
		{"BATCH", "v5", []byte{1, 0, 2, 1, 0, 1, 7, 0, 0, 0, 0x7f, 0xff, 0xff, 0xff}},
	}
	w0 := workers[0]
	for i := 0; i < *huge && i < len(hugeInputs); i++ {
		hi := hugeInputs[i]
		r := &row{Op: hi.op, Ver: hi.ver, Mal: "huge-length", Cls: "open"}
		w0.slot.enter(r, "huge length", hi.b)
		t := time.Now()
		acc, _ := w0.safety(r, header(r), hi.b, 0, "huge length", false)
		w0.ov(r).Decodes++
		w0.slot.leave()
		res.Huge = append(res.Huge, map[string]interface{}{"op": hi.op, "ver": hi.ver, "input_hex": hex.EncodeToString(hi.b),
			"accepted": acc, "seconds": time.Since(t).Seconds()})
		runtime.GC()
	}
	merge()
	res.mu.Lock()
	finish()
}

// doReplay re-runs the example inputs of a replay file through the partial and the reference codec.
func doReplay(path string) int {
	raw, err := os.ReadFile(path)
	if err != nil {
		fmt.Fprintln(os.Stderr, "vdrv-codec:", err)
		return 3
	}
	var doc struct {
		Key    string `json:"key"`
		Replay struct {
			Examples []example `json:"examples"`
		} `json:"replay"`
	}
	if err := json.Unmarshal(raw, &doc); err != nil {
		fmt.Fprintln(os.Stderr, "vdrv-codec:", err)
		return 3
	}
	fmt.Println("key:", doc.Key)
	for i, ex := range doc.Replay.Examples {
		r := &row{}
		if err := json.Unmarshal(ex.Shape, r); err != nil {
			fmt.Fprintln(os.Stderr, "vdrv-codec:", err)
			return 3
		}
		in, _ := hex.DecodeString(ex.Input)
		h := header(r)
		fmt.Printf("example %d: %s %s (%s), stage %q, %d bytes, LeadingLen %d\n  input     %x\n", i, r.Op, r.Ver, r.Cls, ex.Stage, len(in), r.X.Lead, in)
		d := decodeReader(codecs.CustomRawCodec, h, append([]byte{}, in...))
		switch {
		case d.panicked != "":
			fmt.Println("  partial   PANIC:", d.panicked)
		case d.err != nil:
			fmt.Println("  partial   error:", d.err)
		default:
			fmt.Printf("  partial   %T %+v\n", d.msg, d.msg)
			if r.Cls == "valid" && len(in) == r.Len {
				if diff := compareSpec(r, d.msg, in, 0); diff != "" {
					fmt.Println("  fields    DIFFER from the specification:", diff)
				} else {
					fmt.Println("  fields    as specified")
				}
			}
			out, err, p := encodeBody(codecs.CustomRawCodec, h, &frame.Body{Message: d.msg})
			switch {
			case p != "":
				fmt.Println("  re-encode PANIC:", p)
			case err != nil:
				fmt.Println("  re-encode error:", err)
			case bytes.Equal(out, in):
				fmt.Println("  re-encode identical")
			default:
				fmt.Printf("  re-encode DIFFERS: %x\n", out)
			}
		}
		if rb, err := refCodec.DecodeBody(h, bytes.NewReader(in)); err != nil {
			fmt.Println("  reference error:", err)
		} else {
			fmt.Printf("  reference %v\n", rb.Message)
			if e, ok := rb.Message.(*message.Execute); ok {
				fmt.Printf("  reference id %x result-metadata-id %x consistency %v\n", e.QueryId, e.ResultMetadataId, e.Options.Consistency)
			}
		}
	}
	return 0
}
