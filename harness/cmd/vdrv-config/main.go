// vdrv-config replays the rows of the Config.tla decision table (C20) into the real start-up
// path of the proxy: the exported proxy.Run(ctx, args) in-process and, with -bin, the real
// cql-proxy binary.  Every row is a concrete configuration (flags, environment variables, a YAML
// file) whose backend is a private one-node verif/fakecql cluster.  For a proxy that comes up the
// driver observes the EFFECT of the configuration from outside:
//
//   - the protocol version of the first STARTUP frame the fake backend receives,
//   - which client protocol versions the proxy serves (a STARTUP per version on its listener),
//   - the consistency level the backend sees for a write sent with each of the eleven levels;
//
// for a proxy that does not come up it records the return / exit code and whether anything is
// still listening on the --bind address.  The driver holds no expectations: the comparison with
// the specification's table is done by checks/c20.py.
package main

import (
	"context"
	"encoding/json"
	"flag"
	"fmt"
	"net"
	"os"
	"os/exec"
	"sort"
	"strings"
	"sync"
	"sync/atomic"
	"syscall"
	"time"

	"verif/cqlclient"
	"verif/env"
	"verif/fakecql"
	"verif/hutil"
	"verif/tracer"

	"github.com/datastax/cql-proxy/proxy"
	"github.com/datastax/go-cassandra-native-protocol/frame"
	"github.com/datastax/go-cassandra-native-protocol/message"
	"github.com/datastax/go-cassandra-native-protocol/primitive"
)

// Row is one concrete configuration. Args / Env values / YAML may contain the placeholders
// {CP} (contact point address), {PORT} (backend port), {BIND} (listen address), {CONFIG}
// (path of the YAML file), {SCRATCH}.
type Row struct {
	ID   int               `json:"id"`
	Args []string          `json:"args"`
	Env  map[string]string `json:"env"`
	YAML *string           `json:"yaml"`
}

type Result struct {
	ID           int      `json:"id"`
	Mode         string   `json:"mode"` // inproc | binary
	Served       bool     `json:"served"`
	Returned     bool     `json:"returned"`      // Run returned / the process exited on its own, before being stopped
	RC           int      `json:"rc"`            // return / exit code when Returned
	StopRC       int      `json:"stop_rc"`       // return / exit code after the driver stopped a serving proxy
	ListenerLeft bool     `json:"listener_left"` // something still accepts on --bind after Run returned
	Startup      int      `json:"startup"`       // version of the first STARTUP seen by the backend (0 = none)
	Accepted     []int    `json:"accepted"`
	Rejected     []int    `json:"rejected"`
	CL           []int    `json:"cl"` // cl[code] = consistency seen by the backend for a write sent with code (-1 = not seen)
	BackendConns int      `json:"backend_conns"`
	Panic        string   `json:"panic,omitempty"`
	Attempts     int      `json:"attempts"`
	Infra        string   `json:"infra,omitempty"` // harness problem: the row is not a verdict
	Bind         string   `json:"bind"`
	Args         []string `json:"args"`
	Stderr       string   `json:"stderr,omitempty"`
}

var probeVersions = []primitive.ProtocolVersion{primitive.ProtocolVersion3, primitive.ProtocolVersion4,
	primitive.ProtocolVersion5, primitive.ProtocolVersionDse1, primitive.ProtocolVersionDse2}

var tokSeq int64

// freeAddr picks a listen address for --bind OUTSIDE the kernel's ephemeral port range, so that no
// outgoing connection of this machine can take the port between the probe and the proxy's bind.
var portSeq int64

func freeAddr() (string, error) {
	lo, hi := 10000, 30000
	if b, err := os.ReadFile("/proc/sys/net/ipv4/ip_local_port_range"); err == nil {
		var a, z int
		if n, _ := fmt.Sscan(string(b), &a, &z); n == 2 && a > 12000 {
			hi = a - 1
		}
	}
	for try := 0; try < 2000; try++ {
		n := int(atomic.AddInt64(&portSeq, 1))
		port := lo + (os.Getpid()*131+n*7)%(hi-lo)
		a := fmt.Sprintf("127.0.0.1:%d", port)
		l, err := net.Listen("tcp", a)
		if err != nil {
			continue
		}
		l.Close()
		return a, nil
	}
	return "", fmt.Errorf("no free port for --bind")
}

func canListen(addr string) bool {
	l, err := net.Listen("tcp", addr)
	if err != nil {
		return false
	}
	l.Close()
	return true
}

func canDial(addr string) bool {
	c, err := net.DialTimeout("tcp", addr, 300*time.Millisecond)
	if err != nil {
		return false
	}
	c.Close()
	return true
}

type backend struct {
	c       *fakecql.Cluster
	ip      string
	mu      sync.Mutex
	firstID int
	firstV  int
	conns   int
}

func startBackend(slot int) (*backend, error) {
	b := &backend{ip: fakecql.IP(env.Block(), slot)}
	t := tracer.New()
	t.Stop() // no event log needed
	b.c = fakecql.New(t)
	b.c.KeepLog = true
	b.c.AddKeyspace("ks")
	b.c.OnConn = func(cn *fakecql.Conn) {
		b.mu.Lock()
		b.conns++
		if b.firstID == 0 || cn.ID < b.firstID {
			b.firstID, b.firstV = cn.ID, int(cn.Version)
		}
		b.mu.Unlock()
	}
	if err := b.c.Start(b.ip); err != nil {
		return nil, err
	}
	return b, nil
}

func subst(s string, m map[string]string) string {
	for k, v := range m {
		s = strings.ReplaceAll(s, k, v)
	}
	return s
}

// proxyRun abstracts "the proxy started with these arguments".
type proxyRun struct {
	done   chan struct{}
	rc     int
	panicS string
	stop   func()
	stderr func() string
}

func startInproc(args []string) *proxyRun {
	ctx, cancel := context.WithCancel(context.Background())
	r := &proxyRun{done: make(chan struct{}), stop: cancel, stderr: func() string { return "" }}
	go func() {
		defer close(r.done)
		defer func() {
			if p := recover(); p != nil {
				r.panicS = fmt.Sprint(p)
				r.rc = -1
			}
		}()
		r.rc = proxy.Run(ctx, args)
	}()
	return r
}

type capBuf struct {
	mu sync.Mutex
	b  []byte
}

func (c *capBuf) Write(p []byte) (int, error) {
	c.mu.Lock()
	if len(c.b) < 1<<16 {
		c.b = append(c.b, p...)
	}
	c.mu.Unlock()
	return len(p), nil
}

func startBinary(bin string, args []string, envm map[string]string, dir string) (*proxyRun, error) {
	cmd := exec.Command(bin, args...)
	cmd.Dir = dir
	cmd.Env = []string{"PATH=/usr/bin:/bin", "HOME=" + dir}
	for k, v := range envm {
		cmd.Env = append(cmd.Env, k+"="+v)
	}
	eb := &capBuf{}
	cmd.Stderr = eb
	cmd.Stdout = eb
	if err := cmd.Start(); err != nil {
		return nil, err
	}
	r := &proxyRun{done: make(chan struct{})}
	r.stop = func() { _ = cmd.Process.Signal(os.Interrupt) }
	r.stderr = func() string { eb.mu.Lock(); defer eb.mu.Unlock(); return string(eb.b) }
	go func() {
		defer close(r.done)
		err := cmd.Wait()
		if err == nil {
			r.rc = 0
			return
		}
		if ee, ok := err.(*exec.ExitError); ok {
			if ws, ok := ee.Sys().(syscall.WaitStatus); ok && ws.Signaled() {
				r.rc = 128 + int(ws.Signal())
				return
			}
			r.rc = ee.ExitCode()
			return
		}
		r.rc = -2
	}()
	return r, nil
}

func probeGate(addr string, id int) (acc, rej []int, infra string) {
	for _, v := range probeVersions {
		t := tracer.New()
		t.Stop()
		c, err := cqlclient.Dial(addr, id, t)
		if err != nil {
			return acc, rej, "gate probe: dial: " + err.Error()
		}
		c.Quiet = true
		from := c.Count()
		frm := frame.NewFrame(v, 0, message.NewStartup())
		if err := c.Send(frm, "", "startup"); err != nil {
			c.Close()
			return acc, rej, "gate probe: send: " + err.Error()
		}
		r := c.WaitStream(0, from, 5*time.Second)
		switch {
		case r == nil:
			infra = fmt.Sprintf("gate probe: no reply to STARTUP v%d", int(v))
		case r.Kind == "ready":
			acc = append(acc, int(v))
		case r.Kind == "protoerr":
			rej = append(rej, int(v))
		default:
			infra = fmt.Sprintf("gate probe: STARTUP v%d answered %s %s", int(v), r.Kind, r.ErrMsg)
		}
		c.Close()
	}
	return
}

func probeCL(addr string, b *backend, id int, version primitive.ProtocolVersion) ([]int, string) {
	out := make([]int, 11)
	for i := range out {
		out[i] = -1
	}
	t := tracer.New()
	t.Stop()
	c, err := cqlclient.Dial(addr, id, t)
	if err != nil {
		return out, "cl probe: dial: " + err.Error()
	}
	defer c.Close()
	c.Quiet = true
	if err := c.Startup(version, ""); err != nil {
		return out, "cl probe: startup: " + err.Error()
	}
	toks := make([]string, 11)
	for code := 0; code <= 10; code++ {
		tok := fmt.Sprintf("tokcl%dx%d;", atomic.AddInt64(&tokSeq, 1), code)
		toks[code] = tok
		q := fmt.Sprintf("INSERT INTO ks.t (k, v) VALUES ('%s', %d)", tok, code)
		frm := frame.NewFrame(version, int16(code+1), &message.Query{Query: q,
			Options: &message.QueryOptions{Consistency: primitive.ConsistencyLevel(code)}})
		r, err := c.Roundtrip(frm, tok, "write", 5*time.Second)
		if err != nil {
			return out, "cl probe: " + err.Error()
		}
		if r.Kind != "ok" {
			return out, fmt.Sprintf("cl probe: write with consistency %d answered %s %s", code, r.Kind, r.ErrMsg)
		}
	}
	for _, a := range b.c.Log() {
		q, ok := a.Frame.Body.Message.(*message.Query)
		if !ok || a.Token == "" {
			continue
		}
		for code, tok := range toks {
			if a.Token == tok && q.Options != nil {
				out[code] = int(q.Options.Consistency)
			}
		}
	}
	return out, ""
}

func runRow(row Row, slot int, bin, scratch string) Result {
	res := Result{ID: row.ID, Mode: "inproc"}
	if bin != "" {
		res.Mode = "binary"
	}
	for attempt := 1; attempt <= 3; attempt++ {
		res = runRowOnce(row, slot, bin, scratch, res.Mode)
		res.Attempts = attempt
		// a bind race with another socket of this machine is the only harness-made reason for a
		// start-up failure: retry a non-serving row only when the message says so
		if res.Infra == "" && !(res.Returned && !res.Served &&
			(strings.Contains(res.Stderr, "address already in use") || (!res.ListenerLeft && !canListen(res.Bind)))) {
			break
		}
	}
	return res
}

func runRowOnce(row Row, slot int, bin, scratch, mode string) Result {
	res := Result{ID: row.ID, Mode: mode, RC: -100, StopRC: -100}
	b, err := startBackend(slot)
	if err != nil {
		res.Infra = "backend: " + err.Error()
		return res
	}
	defer b.c.Shutdown()
	bind, err := freeAddr()
	if err != nil {
		res.Infra = "bind: " + err.Error()
		return res
	}
	res.Bind = bind
	cfgPath := fmt.Sprintf("%s/c20-%s-%d-%d.yaml", scratch, mode, row.ID, slot)
	m := map[string]string{"{CP}": b.ip, "{PORT}": fmt.Sprint(b.c.Port), "{BIND}": bind, "{CONFIG}": cfgPath, "{SCRATCH}": scratch}
	if row.YAML != nil {
		if err := os.WriteFile(cfgPath, []byte(subst(*row.YAML, m)), 0o644); err != nil {
			res.Infra = "yaml: " + err.Error()
			return res
		}
		defer os.Remove(cfgPath)
	}
	args := make([]string, len(row.Args))
	for i, a := range row.Args {
		args[i] = subst(a, m)
	}
	res.Args = args
	envm := map[string]string{}
	for k, v := range row.Env {
		envm[k] = subst(v, m)
	}
	var pr *proxyRun
	if bin != "" {
		pr, err = startBinary(bin, args, envm, scratch)
		if err != nil {
			res.Infra = "exec: " + err.Error()
			return res
		}
	} else {
		for k, v := range envm {
			os.Setenv(k, v)
		}
		defer func() {
			for k := range envm {
				os.Unsetenv(k)
			}
		}()
		pr = startInproc(args)
	}
	// wait until the proxy serves on --bind or gives up
	deadline := time.Now().Add(20 * time.Second)
	serving := false
wait:
	for time.Now().Before(deadline) {
		select {
		case <-pr.done:
			break wait
		default:
		}
		if canDial(bind) {
			serving = true
			break
		}
		time.Sleep(3 * time.Millisecond)
	}
	select {
	case <-pr.done:
		// returned on its own (possibly right after a successful dial: treat as returned)
		res.Returned = true
		res.RC = pr.rc
		res.Panic = pr.panicS
		res.Stderr = tail(pr.stderr(), 600)
		res.ListenerLeft = canDial(bind)
		pr.stop()
		return res
	default:
	}
	if !serving {
		pr.stop()
		res.Infra = "proxy neither served nor returned within 20s"
		return res
	}
	res.Served = true
	acc, rej, infra := probeGate(bind, row.ID)
	res.Accepted, res.Rejected = acc, rej
	if infra != "" {
		res.Infra = infra
	}
	ver := primitive.ProtocolVersion3
	for _, v := range acc {
		if v == 4 {
			ver = primitive.ProtocolVersion4
		}
	}
	if len(acc) > 0 {
		cl, infra := probeCL(bind, b, row.ID, ver)
		res.CL = cl
		if infra != "" && res.Infra == "" {
			res.Infra = infra
		}
	}
	b.mu.Lock()
	res.Startup, res.BackendConns = b.firstV, b.conns
	b.mu.Unlock()
	select {
	case <-pr.done: // died while serving
		res.Returned = true
		res.RC = pr.rc
		res.Panic = pr.panicS
	default:
	}
	pr.stop()
	select {
	case <-pr.done:
		res.StopRC = pr.rc
	case <-time.After(15 * time.Second):
		res.Infra = "proxy did not stop within 15s of cancellation"
	}
	res.Stderr = tail(pr.stderr(), 300)
	res.ListenerLeft = canDial(bind)
	return res
}

func tail(s string, n int) string {
	if len(s) > n {
		return s[len(s)-n:]
	}
	return s
}

func main() {
	in := flag.String("in", "", "rows (JSON lines)")
	out := flag.String("out", "-", "result file")
	bin := flag.String("bin", "", "path of the cql-proxy binary (empty: in-process proxy.Run)")
	workers := flag.Int("workers", 8, "parallel rows (rows with environment variables run alone in-process)")
	flag.Parse()
	scratch := os.Getenv("VERIF_SCRATCH")
	if scratch == "" {
		scratch = os.TempDir()
	}
	var rows []Row
	if err := hutil.ReadJSONLines(*in, func(line []byte) error {
		var r Row
		if err := json.Unmarshal(line, &r); err != nil {
			return err
		}
		rows = append(rows, r)
		return nil
	}); err != nil {
		fmt.Fprintln(os.Stderr, "vdrv-config:", err)
		os.Exit(3)
	}
	if *bin == "" {
		// the in-process proxy logs through zap to the process's stderr: keep it out of the way
		if f, err := os.OpenFile(os.DevNull, os.O_WRONLY, 0); err == nil {
			os.Stderr = f
		}
	}
	results := make([]Result, len(rows))
	var parallel, serial []int
	for i, r := range rows {
		if *bin == "" && len(r.Env) > 0 {
			serial = append(serial, i)
		} else {
			parallel = append(parallel, i)
		}
	}
	t0 := time.Now()
	var wg sync.WaitGroup
	ch := make(chan int)
	for w := 0; w < *workers; w++ {
		wg.Add(1)
		go func(slot int) {
			defer wg.Done()
			for i := range ch {
				results[i] = runRow(rows[i], slot, *bin, scratch)
			}
		}(w + 1)
	}
	for _, i := range parallel {
		ch <- i
	}
	close(ch)
	wg.Wait()
	for _, i := range serial {
		results[i] = runRow(rows[i], 1, *bin, scratch)
	}
	sort.Slice(results, func(i, j int) bool { return results[i].ID < results[j].ID })
	served := 0
	for _, r := range results {
		if r.Served {
			served++
		}
	}
	if err := hutil.WriteJSON(*out, map[string]interface{}{
		"rows": len(rows), "served": served, "wall_s": time.Since(t0).Seconds(), "results": results,
	}); err != nil {
		fmt.Fprintln(os.Stderr, "vdrv-config:", err)
		os.Exit(3)
	}
}
