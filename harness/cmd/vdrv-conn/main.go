// Command vdrv-conn drives the real proxycore.Conn (callers of Write and Close, a scripted peer on
// the other end of the socket, a Receiver that logs) and records the history that TLC validates
// against spec/Conn.tla (TraceConn.tla).
//
// Round kinds:
//
//	normal        senders write frames of mixed sizes, the peer reads everything, Close
//	stall-resume  the peer does not read: the buffered writer and the queue fill up, the callers of
//	              Write wait (legitimately: the queue is full and the connection open); the peer
//	              resumes and everything is delivered in order
//	stall-close   the same stall, then Close: every waiting Write must return an error
//	stall-gone    the same stall, then the peer goes away: the writer fails, everybody returns
//	close-race    two goroutines call Close while the senders are at work
//	refuse        the peer sends frames, the Receiver refuses one: the connection closes itself
//	peer-sends    the peer sends frames and goes away
//
// Every event is appended to one log under one mutex: a Call before the call is made, a Ret
// after it returned, Sent at the start of a message's sender function (it runs in the writer
// goroutine), PeerRead after the peer has read a whole frame, PeerSend / PeerClose before the
// peer acts, RecvOk / RecvErr / Closing inside the Receiver.
package main

import (
	"encoding/binary"
	"encoding/json"
	"errors"
	"flag"
	"fmt"
	"io"
	"net"
	"os"
	"runtime"
	"sync"
	"sync/atomic"
	"time"

	"github.com/datastax/cql-proxy/proxycore"

	"verif/hutil"
)

type event map[string]interface{}

type tracer struct {
	mu  sync.Mutex
	out []event
	n   int64
}

func (t *tracer) log(e event) {
	t.mu.Lock()
	t.out = append(t.out, e)
	t.mu.Unlock()
	atomic.AddInt64(&t.n, 1)
}

type receiver struct {
	tr      *tracer
	refuse  uint64
	closing chan struct{}
	ncalls  int32
}

func readFrame(r io.Reader) (uint64, error) {
	var h [12]byte
	if _, err := io.ReadFull(r, h[:]); err != nil {
		return 0, err
	}
	n := binary.BigEndian.Uint32(h[:4])
	id := binary.BigEndian.Uint64(h[4:])
	if n > 8 {
		if _, err := io.CopyN(io.Discard, r, int64(n-8)); err != nil {
			return 0, err
		}
	}
	return id, nil
}

func frame(id uint64, size int) []byte {
	if size < 12 {
		size = 12
	}
	b := make([]byte, size)
	binary.BigEndian.PutUint32(b[:4], uint32(size-4))
	binary.BigEndian.PutUint64(b[4:12], id)
	for i := 12; i < size; i++ {
		b[i] = byte(id) + byte(i)
	}
	return b
}

func (r *receiver) Receive(reader io.Reader) error {
	id, err := readFrame(reader)
	if err != nil {
		r.tr.log(event{"ev": "RecvErr", "refused": false})
		return err
	}
	if id == r.refuse {
		r.tr.log(event{"ev": "RecvErr", "refused": true})
		return errors.New("frame refused")
	}
	r.tr.log(event{"ev": "RecvOk"})
	return nil
}

func (r *receiver) Closing(err error) {
	r.tr.log(event{"ev": "Closing"})
	if atomic.AddInt32(&r.ncalls, 1) == 1 {
		close(r.closing)
	}
}

var kinds = []string{"normal", "stall-resume", "stall-close", "stall-gone", "close-race", "refuse", "peer-sends", "normal-tcp"}

func pair(tcp bool) (net.Conn, net.Conn, error) {
	if !tcp {
		a, b := net.Pipe()
		return a, b, nil
	}
	l, err := net.Listen("tcp", "127.0.0.1:0")
	if err != nil {
		return nil, nil, err
	}
	defer l.Close()
	ch := make(chan net.Conn, 1)
	go func() {
		c, _ := l.Accept()
		ch <- c
	}()
	a, err := net.Dial("tcp", l.Addr().String())
	if err != nil {
		return nil, nil, err
	}
	b := <-ch
	if b == nil {
		return nil, nil, errors.New("accept failed")
	}
	return a, b, nil
}

func main() {
	rounds := flag.Int("rounds", 24, "rounds")
	out := flag.String("out", "", "history (ndjson)")
	stats := flag.String("stats", "", "statistics (json)")
	flag.Parse()
	rnd := hutil.NewRand(91)
	tr := &tracer{}
	count := map[string]int{}
	var nextID uint64
	nmsgs, nstuckLegit, leaks := 0, 0, 0
	const senders = 4
	for round := 0; round < *rounds; round++ {
		kind := kinds[round%len(kinds)]
		if round >= len(kinds) {
			kind = kinds[rnd.Intn(len(kinds))]
		}
		count[kind]++
		runtime.GC()
		time.Sleep(20 * time.Millisecond)
		base := runtime.NumGoroutine()
		a, b, err := pair(kind == "normal-tcp")
		if err != nil {
			fmt.Fprintln(os.Stderr, err)
			os.Exit(2)
		}
		tr.log(event{"ev": "Reset", "kind": kind})
		rc := &receiver{tr: tr, closing: make(chan struct{})}
		if kind == "refuse" {
			rc.refuse = 1<<40 + 2
		}
		conn := proxycore.NewConn(a, rc)
		conn.Start()

		stall := kind == "stall-resume" || kind == "stall-close" || kind == "stall-gone"
		per := 10 + rnd.Intn(30)
		sizes := []int{12, 16, 100, 1000, 20000, 40000}
		if stall {
			per = 450 // 4 x 450 frames of 64 bytes: the buffered writer holds 256, the queue 1024
			sizes = []int{64}
		}
		// ---- the peer
		var pg sync.WaitGroup
		canRead := make(chan struct{})
		peerStop := make(chan struct{})
		pg.Add(1)
		go func() {
			defer pg.Done()
			select {
			case <-canRead:
			case <-peerStop:
				return
			}
			for {
				id, err := readFrame(b)
				if err != nil {
					return
				}
				tr.log(event{"ev": "PeerRead", "m": id})
			}
		}()
		if !stall {
			close(canRead)
		}
		peerSends := 0
		if kind == "refuse" || kind == "peer-sends" || rnd.Intn(3) == 0 {
			peerSends = 3 + rnd.Intn(3)
		}
		pg.Add(1)
		go func() {
			defer pg.Done()
			for i := 1; i <= peerSends; i++ {
				tr.log(event{"ev": "PeerSend"})
				if _, err := b.Write(frame(1<<40+uint64(i), 12+rnd.Intn(40))); err != nil {
					return
				}
			}
			if kind == "peer-sends" {
				time.Sleep(30 * time.Millisecond)
				tr.log(event{"ev": "PeerClose"})
				b.Close()
			}
		}()
		// ---- the callers of Write
		var wg sync.WaitGroup
		inWrite := make([]int32, senders+3)
		for s := 1; s <= senders; s++ {
			wg.Add(1)
			go func(s int, lr int64) {
				defer wg.Done()
				r := hutil.NewRand(lr)
				for i := 0; i < per; i++ {
					id := atomic.AddUint64(&nextID, 1)
					buf := frame(id, sizes[r.Intn(len(sizes))])
					tr.log(event{"ev": "Call", "t": s, "op": "write", "m": id})
					atomic.StoreInt32(&inWrite[s], 1)
					err := conn.Write(proxycore.SenderFunc(func(w io.Writer) error {
						tr.log(event{"ev": "Sent", "m": id})
						_, err := w.Write(buf)
						return err
					}))
					atomic.StoreInt32(&inWrite[s], 0)
					tr.log(event{"ev": "Ret", "t": s, "op": "write", "ok": err == nil})
					if err != nil && r.Intn(3) > 0 {
						return
					}
				}
			}(s, int64(round)*17+int64(s))
		}
		sendersDone := make(chan struct{})
		go func() { wg.Wait(); close(sendersDone) }()
		quiet := func(d time.Duration) bool { // true when the senders finished, false when nothing moved for d
			last, since := atomic.LoadInt64(&tr.n), time.Now()
			for {
				select {
				case <-sendersDone:
					return true
				case <-time.After(25 * time.Millisecond):
				}
				if n := atomic.LoadInt64(&tr.n); n != last {
					last, since = n, time.Now()
				} else if time.Since(since) > d {
					return false
				}
			}
		}
		closeBy := func(t int) {
			tr.log(event{"ev": "Call", "t": t, "op": "close"})
			err := conn.Close()
			tr.log(event{"ev": "Ret", "t": t, "op": "close", "ok": err == nil})
		}
		switch kind {
		case "stall-resume", "stall-close", "stall-gone":
			if !quiet(1500 * time.Millisecond) {
				for s := 1; s <= senders; s++ {
					if atomic.LoadInt32(&inWrite[s]) == 1 {
						tr.log(event{"ev": "Stuck", "t": s})
						nstuckLegit++
					}
				}
			}
			switch kind {
			case "stall-resume":
				close(canRead)
			case "stall-close":
				closeBy(senders + 1)
			case "stall-gone":
				tr.log(event{"ev": "PeerClose"})
				b.Close()
			}
		case "close-race":
			time.Sleep(time.Duration(rnd.Intn(3000)) * time.Microsecond)
			var cg sync.WaitGroup
			for t := senders + 1; t <= senders+2; t++ {
				cg.Add(1)
				go func(t int) { defer cg.Done(); closeBy(t) }(t)
			}
			cg.Wait()
		}
		// ---- the end of the round
		if !quiet(5 * time.Second) {
			for s := 1; s <= senders; s++ {
				if atomic.LoadInt32(&inWrite[s]) == 1 {
					tr.log(event{"ev": "Stuck", "t": s})
				}
			}
		} else if kind == "normal" || kind == "normal-tcp" || kind == "stall-resume" {
			// let the peer read what was accepted before the connection is closed
			deadline := time.Now().Add(5 * time.Second)
			for last := int64(-1); time.Now().Before(deadline); {
				n := atomic.LoadInt64(&tr.n)
				if n == last {
					break
				}
				last = n
				time.Sleep(60 * time.Millisecond)
			}
		}
		select {
		case <-conn.IsClosed():
		default:
			closeBy(senders + 3)
		}
		select {
		case <-rc.closing:
		case <-time.After(5 * time.Second):
		}
		select {
		case <-sendersDone:
		case <-time.After(2 * time.Second):
		}
		tr.log(event{"ev": "Quiesce"})
		close(peerStop)
		b.Close()
		pg.Wait()
		// the goroutines of the connection must be gone
		rest := false
		for i := 0; i < 120; i++ {
			if runtime.NumGoroutine() <= base {
				rest = true
				break
			}
			time.Sleep(25 * time.Millisecond)
		}
		if !rest {
			select {
			case <-sendersDone:
				leaks++
			default:
			}
		}
		nmsgs += per * senders
	}
	f, err := os.Create(*out)
	if err != nil {
		fmt.Fprintln(os.Stderr, err)
		os.Exit(2)
	}
	// the order in which the writer ran the sender functions of a round is in the log (Sent events); every Call of a
	// Write is annotated with the place of its message in that order (0: its sender function never ran), which tells
	// the trace specification in which order concurrent callers were queued without it having to try every order
	start := 0
	for i := 0; i <= len(tr.out); i++ {
		if i < len(tr.out) && tr.out[i]["ev"] != "Reset" {
			continue
		}
		if i > start {
			pos := map[uint64]int{}
			for _, e := range tr.out[start:i] {
				if e["ev"] == "Sent" {
					pos[e["m"].(uint64)] = len(pos) + 1
				}
			}
			for _, e := range tr.out[start:i] {
				if e["ev"] == "Call" && e["op"] == "write" {
					e["pos"] = pos[e["m"].(uint64)]
				}
			}
			tr.out[start]["nrun"] = len(pos)
		}
		start = i
	}
	enc := json.NewEncoder(f)
	for _, e := range tr.out {
		enc.Encode(e)
	}
	f.Close()
	hutil.WriteJSON(*stats, map[string]interface{}{"rounds": *rounds, "kinds": count, "events": len(tr.out), "frames_offered": nmsgs,
		"callers_waiting_on_a_full_queue": nstuckLegit, "threads": senders + 3, "qcap": proxycore.MaxMessages,
		"rounds_with_goroutines_left": leaks})
}
