// vdrv-handshake replays the behaviours exported by TLC from spec/ClientConn.tla (C13) against
// the real proxy started in-process (verif/env) in front of the fake backend (verif/fakecql).
//
// Every behaviour is a sequence of abstract frames on (two) client connections together with the
// set of outcomes the specification allows for every frame.  The driver concretises each frame
// into wire bytes (reference codec, or hand-made headers for versions / opcodes the codec refuses
// to write), sends it on a raw client connection, reads until the expected replies arrived and the
// connection is quiet, and compares what came back - number of frames on the request's stream,
// opcode, header version, error code / message, decodability under the codec the specification
// says the connection has, connection still open - and whether the frame reached the backend
// (proxy-side hook `pending.store`, backend-side request log) with the allowed outcomes.  It never
// judges by itself: every expectation comes from the behaviour file.
package main

import (
	"bytes"
	"encoding/binary"
	"encoding/json"
	"flag"
	"fmt"
	"math/rand"
	"os"
	"sort"
	"strconv"
	"strings"
	"sync"
	"sync/atomic"
	"time"

	"verif/cqlclient"
	"verif/env"
	"verif/fakecql"
	"verif/hutil"

	"github.com/datastax/cql-proxy/proxy"
	"github.com/datastax/cql-proxy/proxycore"
	"github.com/datastax/go-cassandra-native-protocol/compression/lz4"
	"github.com/datastax/go-cassandra-native-protocol/compression/snappy"
	"github.com/datastax/go-cassandra-native-protocol/frame"
	"github.com/datastax/go-cassandra-native-protocol/message"
	"github.com/datastax/go-cassandra-native-protocol/primitive"
)

// ---------------------------------------------------------------------------- input

type stepIn struct {
	C int      `json:"c"`
	F string   `json:"f"`
	O string   `json:"o"`
	S string   `json:"s"`
	A []string `json:"a"`
	// concrete overrides (sweep only)
	VerByte *int `json:"verbyte,omitempty"`
	OpByte  *int `json:"opbyte,omitempty"`
}

type behIn struct {
	M     int      `json:"m"`
	Steps []stepIn `json:"steps"`
	Fin   []string `json:"fin"`
	P     []stepIn `json:"p"` // probe table rows carry p and s
	S     string   `json:"s"`
	id    int
	sweep bool
}

type absFrame struct {
	Op    string
	Ver   int
	Arg   string
	Extra bool
	Body  string
}

func parseFrame(s string) (absFrame, error) {
	p := strings.Split(s, "|")
	if len(p) != 5 {
		return absFrame{}, fmt.Errorf("bad frame %q", s)
	}
	v, err := strconv.Atoi(p[1])
	if err != nil {
		return absFrame{}, err
	}
	return absFrame{Op: p[0], Ver: v, Arg: p[2], Extra: p[3] == "1", Body: p[4]}, nil
}

type outcome struct {
	NMin, NMax int
	Ops        map[string]bool
	PErr       bool
	Ver        int
	Fwd        string
	Alive      string
	Codec      string
	Started    bool
	raw        string
}

func parseOutcome(s string) (outcome, error) {
	p := strings.Split(s, ",")
	if len(p) != 9 {
		return outcome{}, fmt.Errorf("bad outcome %q", s)
	}
	o := outcome{Ops: map[string]bool{}, raw: s}
	var err error
	if o.NMin, err = strconv.Atoi(p[0]); err != nil {
		return o, err
	}
	if o.NMax, err = strconv.Atoi(p[1]); err != nil {
		return o, err
	}
	for _, op := range strings.Split(p[2], "/") {
		if op != "" {
			o.Ops[op] = true
		}
	}
	o.PErr = p[3] == "1"
	if o.Ver, err = strconv.Atoi(p[4]); err != nil {
		return o, err
	}
	o.Fwd, o.Alive, o.Codec, o.Started = p[5], p[6], p[7], p[8] == "1"
	return o, nil
}

// state string "codec,started,alive"
func stateCodec(s string) string { return strings.SplitN(s, ",", 2)[0] }
func stateAlive(s string) string {
	p := strings.Split(s, ",")
	return p[len(p)-1]
}

// ---------------------------------------------------------------------------- concretisation

var known = map[int]bool{2: true, 3: true, 4: true, 5: true, 65: true, 66: true}

var requestOps = map[string]primitive.OpCode{
	"OPTIONS": primitive.OpCodeOptions, "STARTUP": primitive.OpCodeStartup, "REGISTER": primitive.OpCodeRegister,
	"QUERY": primitive.OpCodeQuery, "PREPARE": primitive.OpCodePrepare, "EXECUTE": primitive.OpCodeExecute,
	"BATCH": primitive.OpCodeBatch, "AUTH_RESPONSE": primitive.OpCodeAuthResponse,
}
var responseOps = map[string]primitive.OpCode{
	"ERROR": primitive.OpCodeError, "READY": primitive.OpCodeReady, "AUTHENTICATE": primitive.OpCodeAuthenticate,
	"SUPPORTED": primitive.OpCodeSupported, "RESULT": primitive.OpCodeResult, "EVENT": primitive.OpCodeEvent,
	"AUTH_CHALLENGE": primitive.OpCodeAuthChallenge, "AUTH_SUCCESS": primitive.OpCodeAuthSuccess,
}
var debug = os.Getenv("VERIF_DEBUG") != ""
var definedOpByte = map[int]string{}
var backendOps = map[string]bool{"QUERY": true, "PREPARE": true, "EXECUTE": true, "BATCH": true}

func init() {
	for n, o := range requestOps {
		definedOpByte[int(o)] = n
	}
	for n, o := range responseOps {
		definedOpByte[int(o)] = "RESPONSE:" + n
	}
}

var plainCodec = frame.NewRawCodec()
var compCodecs = map[string]frame.RawCodec{
	"lz4":    frame.NewRawCodecWithCompression(lz4.Compressor{}),
	"snappy": frame.NewRawCodecWithCompression(snappy.Compressor{}),
}

type concretiser struct {
	mixed map[string]string // "lz4~" -> "lZ4"
}

func mixCase(name string, r *rand.Rand) string {
	for {
		b := []byte(name)
		for i := range b {
			if r.Intn(2) == 0 {
				b[i] = byte(strings.ToUpper(string(b[i]))[0])
			}
		}
		s := string(b)
		if s != name && s != strings.ToUpper(name) {
			return s
		}
	}
}

func newConcretiser() *concretiser {
	r := hutil.NewRand(13)
	return &concretiser{mixed: map[string]string{"lz4~": mixCase("lz4", r), "snappy~": mixCase("snappy", r)}}
}

func (k *concretiser) compName(arg string) string {
	if m, ok := k.mixed[arg]; ok {
		return m
	}
	return arg
}

func unknownVersionByte(r *rand.Rand) int {
	fixed := []int{0, 1, 6, 7, 8, 16, 32, 63, 64, 67, 68, 100, 127}
	if r.Intn(2) == 0 {
		return fixed[r.Intn(len(fixed))]
	}
	for {
		v := r.Intn(128)
		if !known[v] {
			return v
		}
	}
}

func undefinedOpByte(r *rand.Rand) int {
	for {
		v := r.Intn(256)
		if _, ok := definedOpByte[v]; !ok && v != 0xFF {
			return v
		}
	}
}

type concrete struct {
	Bytes      []byte
	VerByte    int // 7-bit version
	OpByte     int
	Compressed bool
	Desc       string
}

// build turns an abstract frame into wire bytes. codec is the codec the specification says the
// connection has before this frame ("none", "lz4", "snappy", "open").
func (k *concretiser) build(f absFrame, st stepIn, codec string, stream int16, token string, r *rand.Rand) (concrete, error) {
	ver := f.Ver
	if st.VerByte != nil {
		ver = *st.VerByte
	} else if ver == 0 {
		ver = unknownVersionByte(r)
	}
	var msg message.Message
	var rawBody []byte
	op := -1
	dirBit := 0
	switch f.Op {
	case "OPTIONS":
		msg = &message.Options{}
	case "STARTUP":
		m := message.NewStartup()
		if f.Arg != "-" {
			m.Options["COMPRESSION"] = k.compName(f.Arg)
		}
		if f.Extra {
			m.Options["DRIVER_NAME"] = "verif handshake driver " + token
			m.Options["DRIVER_VERSION"] = "0.0.1"
			m.Options["NO_COMPACT"] = "true"
			m.Options["THROW_ON_OVERLOAD"] = "1"
		}
		msg = m
	case "REGISTER":
		switch f.Arg {
		case "schema":
			msg = &message.Register{EventTypes: []primitive.EventType{primitive.EventTypeSchemaChange}}
		case "all":
			msg = &message.Register{EventTypes: []primitive.EventType{primitive.EventTypeTopologyChange, primitive.EventTypeStatusChange, primitive.EventTypeSchemaChange}}
		case "topo":
			msg = &message.Register{EventTypes: []primitive.EventType{primitive.EventTypeTopologyChange}}
		default: // empty [string list]
			op = int(primitive.OpCodeRegister)
			rawBody = []byte{0, 0}
		}
	case "QUERY":
		q := "SELECT * FROM system.local"
		if f.Arg == "fwd" {
			q = "SELECT v FROM ks.t WHERE k = '" + token + "'"
		}
		msg = &message.Query{Query: q, Options: &message.QueryOptions{Consistency: primitive.ConsistencyLevelOne}}
	case "PREPARE":
		msg = &message.Prepare{Query: "SELECT v FROM ks.t WHERE k = '" + token + "'"}
	case "EXECUTE":
		id := make([]byte, 16)
		r.Read(id)
		msg = &message.Execute{QueryId: id, ResultMetadataId: id, Options: &message.QueryOptions{Consistency: primitive.ConsistencyLevelOne}}
	case "BATCH":
		msg = &message.Batch{Type: primitive.BatchTypeLogged, Consistency: primitive.ConsistencyLevelOne,
			Children: []*message.BatchChild{{Query: "INSERT INTO ks.t (k, v) VALUES ('" + token + "', 1)"}}}
	case "AUTH_RESPONSE":
		msg = &message.AuthResponse{Token: []byte(token)}
	case "RESPONSE":
		op = int(responseOps[f.Arg])
		rawBody = []byte{}
	case "BADOP":
		op = undefinedOpByte(r)
		rawBody = []byte{}
	case "RESPDIR":
		dirBit = 0x80
		if r.Intn(2) == 0 {
			op = int(primitive.OpCodeSupported)
			rawBody = []byte{0, 0}
		} else {
			op = int(primitive.OpCodeOptions)
			rawBody = []byte{}
		}
	default:
		return concrete{}, fmt.Errorf("unknown op %q", f.Op)
	}
	if f.Body == "garbage" {
		if msg != nil {
			op = int(msg.GetOpCode())
			msg = nil
		}
		rawBody = make([]byte, 5+r.Intn(24))
		r.Read(rawBody)
		rawBody[0] |= 0x80 // no length prefix of any kind decodes to something small
	}
	flags := byte(0)
	compressed := false
	var body []byte
	if msg != nil {
		op = int(msg.GetOpCode())
		bodyVer := primitive.ProtocolVersion(ver)
		if !known[ver] {
			bodyVer = primitive.ProtocolVersion4
		}
		comp := (codec == "lz4" || codec == "snappy") && f.Op != "STARTUP" && known[ver] && ver >= 3
		enc := func(v primitive.ProtocolVersion, comp bool) (*frame.RawFrame, error) {
			sid := stream
			frm := frame.NewFrame(v, sid, msg)
			c := plainCodec
			if comp {
				frm.SetCompress(true)
				c = compCodecs[codec]
			}
			return c.ConvertToRawFrame(frm)
		}
		raw, err := enc(bodyVer, comp)
		if err != nil && comp {
			raw, err = enc(bodyVer, false)
			comp = false
		}
		if err != nil && bodyVer != primitive.ProtocolVersion4 {
			raw, err = enc(primitive.ProtocolVersion4, false)
			comp = false
		}
		if err != nil {
			return concrete{}, fmt.Errorf("cannot encode %v: %w", f, err)
		}
		body = raw.Body
		flags = byte(raw.Header.Flags)
		compressed = comp && raw.Header.Flags.Contains(primitive.HeaderFlagCompressed)
	} else {
		body = rawBody
	}
	if st.OpByte != nil {
		op = *st.OpByte
	}
	var buf bytes.Buffer
	buf.WriteByte(byte(ver&0x7F) | byte(dirBit))
	buf.WriteByte(flags)
	if ver >= 3 {
		binary.Write(&buf, binary.BigEndian, uint16(stream))
	} else {
		buf.WriteByte(byte(int8(stream)))
	}
	buf.WriteByte(byte(op))
	binary.Write(&buf, binary.BigEndian, uint32(len(body)))
	buf.Write(body)
	return concrete{Bytes: buf.Bytes(), VerByte: ver & 0x7F, OpByte: op, Compressed: compressed,
		Desc: fmt.Sprintf("ver=0x%02x op=0x%02x flags=0x%02x stream=%d len=%d", (ver&0x7F)|dirBit, op, flags, stream, len(body))}, nil
}

// ---------------------------------------------------------------------------- environments

type tenv struct {
	m     int
	low   bool // cluster maximum below the proxy's maximum (negotiated < configured maximum)
	e     *env.Env
	warm  int // tracer length after warm-up
	label string
	idx   int
}

// forwarded counts client requests handed to a backend connection (proxy-side hook), keyed by
// client socket address + client stream id.
var fwdMu sync.Mutex
var forwarded = map[string]int{}
var hookEvents int64

func hook(point string, args ...interface{}) {
	if point != "pending.store" || len(args) < 3 {
		return
	}
	req, ok := args[2].(proxycore.Request)
	if !ok || proxycore.VerifIsInternalRequest(req) {
		return
	}
	ca, st, ok := proxy.VerifRequestInfo(req)
	if !ok {
		return
	}
	atomic.AddInt64(&hookEvents, 1)
	fwdMu.Lock()
	forwarded[ca+"/"+strconv.Itoa(int(st))]++
	fwdMu.Unlock()
}

func fwdCount(caddr string, stream int16) int {
	fwdMu.Lock()
	defer fwdMu.Unlock()
	return forwarded[caddr+"/"+strconv.Itoa(int(stream))]
}

// fwdForget drops the entries of one connection: only the stream range of its environment (the same
// client port may be in use towards another proxy at the same time).
func fwdForget(caddr string, envIdx int) {
	fwdMu.Lock()
	for st := envIdx*8 + 1; st <= envIdx*8+8; st++ {
		delete(forwarded, caddr+"/"+strconv.Itoa(st))
	}
	fwdMu.Unlock()
}

func startEnv(m int, low bool) (*tenv, error) {
	v := m
	if v > 4 {
		v = 4
	}
	o := env.Options{Nodes: 1, NumConns: 1, MaxVersion: primitive.ProtocolVersion(m), Version: primitive.ProtocolVersion(v), Keyspaces: []string{"ks"}}
	label := fmt.Sprintf("max=%d", m)
	if low {
		o.ClusterMaxVersion = primitive.ProtocolVersion3
		o.Version = primitive.ProtocolVersion3
		label += ",cluster-max=3"
	}
	e, err := env.Start(o)
	if err != nil {
		return nil, fmt.Errorf("env %s: %w", label, err)
	}
	e.C.KeepLog = true
	return &tenv{m: m, low: low, e: e, label: label}, nil
}

// ---------------------------------------------------------------------------- observation

type recvObs struct {
	Op      string `json:"op"`
	Ver     int    `json:"ver"`
	Stream  int    `json:"stream"`
	ErrCode int    `json:"errcode,omitempty"`
	ErrMsg  string `json:"errmsg,omitempty"`
	Decoded bool   `json:"decodable"`
	Flags   int    `json:"flags"`
}

type stepObs struct {
	Replies   []recvObs `json:"replies"`
	Closed    bool      `json:"closed"`
	Forwarded bool      `json:"forwarded"`
	SendErr   string    `json:"send_error,omitempty"`
}

func opName(o primitive.OpCode) string {
	switch o {
	case primitive.OpCodeError:
		return "ERROR"
	case primitive.OpCodeReady:
		return "READY"
	case primitive.OpCodeSupported:
		return "SUPPORTED"
	case primitive.OpCodeResult:
		return "RESULT"
	case primitive.OpCodeAuthenticate:
		return "AUTHENTICATE"
	case primitive.OpCodeEvent:
		return "EVENT"
	}
	return fmt.Sprintf("OP_%02X", int(o))
}

func observe(c *cqlclient.Client, stream int16) []recvObs {
	var out []recvObs
	for _, r := range c.Received() {
		if r.Header.StreamId != stream {
			continue
		}
		out = append(out, recvObs{Op: opName(r.Header.OpCode), Ver: int(r.Header.Version), Stream: int(r.Header.StreamId),
			ErrCode: r.ErrCode, ErrMsg: r.ErrMsg, Decoded: r.DecodeOK, Flags: int(r.Header.Flags)})
	}
	return out
}

// matches reports whether the observation is one of the behaviours the outcome allows; why names
// the first clause that fails.
func matches(o outcome, ob stepObs, verByte int, assertDecodable bool) (bool, string) {
	n := len(ob.Replies)
	if n < o.NMin || n > o.NMax {
		return false, fmt.Sprintf("count %d not in %d..%d", n, o.NMin, o.NMax)
	}
	for _, r := range ob.Replies {
		if !o.Ops["*"] && !o.Ops[r.Op] {
			return false, "opcode " + r.Op
		}
		if o.Ver != 0 && r.Ver != o.Ver {
			return false, fmt.Sprintf("reply version %d, want %d", r.Ver, o.Ver)
		}
		if o.PErr {
			if r.Op != "ERROR" || r.ErrCode != 0x000A {
				return false, fmt.Sprintf("not a protocol error (code 0x%04x)", r.ErrCode)
			}
			if !strings.Contains(r.ErrMsg, strconv.Itoa(verByte)) {
				return false, "message does not name the version"
			}
		}
		if assertDecodable && !o.Ops["*"] && !r.Decoded {
			return false, "reply not decodable under the expected codec"
		}
	}
	switch o.Alive {
	case "yes":
		if ob.Closed {
			return false, "connection closed"
		}
	case "no":
		if !ob.Closed {
			return false, "connection still open"
		}
	}
	if o.Fwd == "no" && ob.Forwarded {
		return false, "forwarded to the backend"
	}
	return true, ""
}

func signature(ob stepObs) string {
	var parts []string
	for _, r := range ob.Replies {
		s := r.Op
		if r.Op == "ERROR" {
			s += fmt.Sprintf("(0x%04x)", r.ErrCode)
		}
		if !r.Decoded {
			s += "(undecodable)"
		}
		parts = append(parts, s)
	}
	if len(parts) == 0 {
		parts = append(parts, "nothing")
	}
	s := strings.Join(parts, "+")
	if ob.Closed {
		s += "+closed"
	}
	if ob.Forwarded {
		s += "+forwarded"
	}
	return s
}

func verClass(v, m int) string {
	switch {
	case !known[v]:
		return "unknown"
	case v < 3:
		return "below3"
	case v > m:
		return "above-max"
	}
	return "ok"
}

func compClass(f absFrame) string {
	switch strings.ToLower(strings.TrimSuffix(f.Arg, "~")) {
	case "-":
		return "absent"
	case "lz4":
		return "supported"
	case "snappy":
		if f.Ver == 5 {
			return "snappy-on-v5"
		}
		return "supported"
	}
	return "unsupported"
}

// class is the abstract shape of an input (used for keys and vacuity counts).
func class(f absFrame, m int, probe bool, codec string) string {
	s := f.Op + ",ver=" + verClass(f.Ver, m)
	if f.Op == "STARTUP" && f.Body == "ok" {
		s += ",comp=" + compClass(f)
	}
	if f.Op == "RESPONSE" {
		s = "RESPONSE-OPCODE,ver=" + verClass(f.Ver, m)
	}
	if f.Body != "ok" {
		s += ",body=" + f.Body
	}
	if f.Op == "QUERY" || probe {
		s += ",codec=" + codec
	}
	if probe {
		s = "probe:" + s
	}
	return s
}

// ---------------------------------------------------------------------------- replay

type mismatch struct {
	Key      string      `json:"key"`
	Why      string      `json:"why"`
	Env      string      `json:"env"`
	M        int         `json:"max_version"`
	Beh      int         `json:"behaviour"`
	Step     int         `json:"step"`
	Probe    bool        `json:"probe"`
	Conn     int         `json:"conn"`
	Frame    string      `json:"frame"`
	Concrete string      `json:"concrete"`
	State    string      `json:"state_before"`
	Allowed  []string    `json:"allowed_outcomes"`
	Observed stepObs     `json:"observed"`
	Sequence []string    `json:"sequence"`
	Hex      string      `json:"bytes_hex,omitempty"`
	Extra    interface{} `json:"extra,omitempty"`
	After    bool        `json:"after_earlier_mismatch"`
}

type result struct {
	mu             sync.Mutex
	Behaviours     int                 `json:"behaviours"`
	Replays        int                 `json:"replays"`
	Full           int                 `json:"replayed_to_the_end"`
	Diverged       int                 `json:"left_on_an_allowed_alternative"`
	Stopped        int                 `json:"stopped_at_mismatch"`
	Continued      int                 `json:"continued_after_mismatch"`
	Steps          int                 `json:"steps"`
	ProbeSteps     int                 `json:"probe_steps"`
	SweepRuns      int                 `json:"sweep_runs"`
	Classes        map[string]int      `json:"classes"`
	OutcomeKinds   map[string]int      `json:"outcome_kinds"`
	OpenObs        map[string]int      `json:"open_observations"`
	Compressed     int                 `json:"frames_sent_compressed"`
	CompressedRecv int                 `json:"frames_received_compressed"`
	Pipelined      int                 `json:"behaviours_sent_in_one_write"`
	Mismatches     []mismatch          `json:"mismatches"`
	MismatchCounts map[string]int      `json:"mismatch_counts"`
	Forward        map[string]int      `json:"forward_checks"`
	Samples        []interface{}       `json:"samples"`
	Envs           []string            `json:"envs"`
	Notes          []string            `json:"notes"`
	Infra          []string            `json:"infrastructure_errors"`
	WarmSessions   int                 `json:"warm_sessions"`
	Mixed          map[string]string   `json:"mixed_case_names"`
	NoFwdTokens    map[string]mismatch `json:"-"`
	WallReplayS    float64             `json:"wall_replay_s"`
	hookSaw        map[string]bool
}

func (r *result) addMismatch(mm mismatch) {
	r.mu.Lock()
	defer r.mu.Unlock()
	r.MismatchCounts[mm.Key]++
	if r.MismatchCounts[mm.Key] <= 5 {
		r.Mismatches = append(r.Mismatches, mm)
	}
}

type runner struct {
	k      *concretiser
	res    *result
	probes map[string][]stepIn // "m|state" -> probe steps
	settle time.Duration
	window time.Duration
	wait   time.Duration
	sample int32
	// pipelined: every second behaviour whose steps all have one allowed outcome that keeps the connection is sent in
	// ONE write per connection (the proxy's reader finds STARTUP and the frames behind it back to back)
	pipelined bool
}

type sent struct {
	step    stepIn
	f       absFrame
	conn    int
	stream  int16
	probe   bool
	chosen  outcome
	alts    []outcome
	conc    concrete
	token   string
	state   string
	index   int
	sendErr string
	after   bool // an earlier frame of this behaviour already disagreed with the specification
}

func (rn *runner) replay(te *tenv, b *behIn) {
	res := rn.res
	r := hutil.NewRand(int64(b.id)*7919 + int64(te.m)*31 + 7)
	nconn := len(b.Fin)
	if nconn == 0 {
		nconn = 1
	}
	conns := make([]*cqlclient.Client, nconn)
	for i := range conns {
		c, err := te.e.Client()
		if err != nil {
			res.mu.Lock()
			res.Infra = append(res.Infra, "dial: "+err.Error())
			res.mu.Unlock()
			return
		}
		c.Quiet = true
		fwdForget(c.LocalAddr, te.idx)
		conns[i] = c
	}
	defer func() {
		for _, c := range conns {
			fwdForget(c.LocalAddr, te.idx)
			c.Close()
		}
	}()
	var log []*sent
	pipe := rn.pipelined && len(b.Steps) > 1 && b.id%2 == 0
	if pipe {
		// (the client decodes every answer with the compression it ends up with, so a behaviour that switches between
		// two compressions is not pipelined)
		comps := map[string]bool{}
		for _, st := range b.Steps {
			o, err := parseOutcome(st.O)
			if err != nil || len(st.A) > 0 || o.Alive != "yes" || o.Ops["*"] {
				pipe = false
				break
			}
			if o.Codec == "lz4" || o.Codec == "snappy" {
				comps[o.Codec] = true
			}
			if c0 := stateCodec(st.S); c0 == "lz4" || c0 == "snappy" {
				comps[c0] = true
			}
		}
		if len(comps) > 1 {
			pipe = false
		}
	}
	pend := make([][]byte, nconn)
	nextStream := make([]int16, nconn)
	diverged, stopped, after := false, false, false
	deadConn := make([]bool, nconn)

	exec := func(st stepIn, probe bool, idx int) (ok bool) {
		f, err := parseFrame(st.F)
		if err != nil {
			panic(err)
		}
		chosen, err := parseOutcome(st.O)
		if err != nil {
			panic(err)
		}
		var alts []outcome
		for _, a := range st.A {
			o, err := parseOutcome(a)
			if err != nil {
				panic(err)
			}
			alts = append(alts, o)
		}
		ci := st.C - 1
		c := conns[ci]
		// stream ids are unique per frame of a connection and disjoint between environments (the same
		// client port can be in use towards two proxies at once; the forward hook only sees address and
		// stream); they stay below 128 because v2 frames carry one byte
		nextStream[ci]++
		stream := int16(te.idx*8) + nextStream[ci]
		token := fmt.Sprintf("tokM%dL%vB%dC%dS%d;", te.m, b2i(te.low), b.id, st.C, stream)
		codec := stateCodec(st.S)
		conc, err := rn.k.build(f, st, codec, stream, token, r)
		if err != nil {
			panic(err)
		}
		s := &sent{step: st, f: f, conn: st.C, stream: stream, probe: probe, chosen: chosen, alts: alts, conc: conc, token: token, state: st.S, index: idx, after: after}
		log = append(log, s)
		if pipe && !probe {
			// sent with the others in one write; the specification's outcome decides how the next frame is built
			pend[ci] = append(pend[ci], conc.Bytes...)
			if conc.Compressed {
				res.mu.Lock()
				res.Compressed++
				res.mu.Unlock()
			}
			if chosen.Codec == "lz4" || chosen.Codec == "snappy" {
				c.SetCompression(chosen.Codec)
			}
			return true
		}
		from := c.Count()
		if debug {
			fmt.Fprintf(os.Stderr, "DBG %s beh=%d c%d %s state=%s %s\n", te.label, b.id, st.C, st.F, st.S, conc.Desc)
		}
		if err := c.SendBytes(conc.Bytes, int(stream), f.Op, token, "c13"); err != nil {
			s.sendErr = err.Error()
		}
		if conc.Compressed {
			res.mu.Lock()
			res.Compressed++
			res.mu.Unlock()
		}
		// wait for what the chosen outcome (or an alternative) announces
		wantReply := chosen.NMin >= 1
		mayClose := chosen.Alive != "yes"
		for _, a := range alts {
			if a.Alive != "yes" {
				mayClose = true
			}
		}
		switch {
		case wantReply:
			c.WaitStream(stream, from, rn.wait) // returns early when the connection closes
		case mayClose:
			// anything may happen: wait for a reply or a close, whichever comes first
			deadline := time.Now().Add(150 * time.Millisecond)
			for time.Now().Before(deadline) && !c.IsClosed() && c.Count() == from {
				time.Sleep(300 * time.Microsecond)
			}
		}
		time.Sleep(rn.settle)
		ob := stepObs{Replies: observe(c, stream), Closed: c.IsClosed(), Forwarded: fwdCount(c.LocalAddr, stream) > 0}
		if chosen.Alive == "no" && !ob.Closed {
			waitClosed(c, rn.wait/4)
			ob.Closed = c.IsClosed()
		}
		assertDec := codec != "open"
		if okc, _ := matches(chosen, ob, conc.VerByte, assertDec); okc {
			if chosen.Codec == "lz4" || chosen.Codec == "snappy" {
				c.SetCompression(chosen.Codec)
			}
			if chosen.Alive != "yes" {
				deadConn[ci] = true
			}
			return true
		}
		for _, a := range alts {
			if oka, _ := matches(a, ob, conc.VerByte, assertDec); oka {
				diverged = true
				return false
			}
		}
		// neither: a mismatch (reported by the final evaluation). When the connection is still there
		// and the specification says it stays usable, go on in the specification's state so that one
		// defect does not hide the rest of the behaviour.
		after = true
		if ob.Closed || chosen.Alive != "yes" {
			stopped = true
			return false
		}
		if ro := ob.Replies; len(ro) > 0 && ro[0].Op == "READY" && (chosen.Codec == "lz4" || chosen.Codec == "snappy") {
			c.SetCompression(chosen.Codec)
		}
		return true
	}

	for i, st := range b.Steps {
		if !exec(st, false, i) {
			break
		}
	}
	if pipe {
		for ci, c := range conns {
			if len(pend[ci]) > 0 {
				if err := c.SendBytes(pend[ci], 0, "PIPELINE", "", "c13"); err != nil {
					for _, s := range log {
						if s.conn == ci+1 {
							s.sendErr = err.Error()
						}
					}
				}
			}
		}
		for _, s := range log {
			if s.chosen.NMin >= 1 {
				conns[s.conn-1].WaitStream(s.stream, 0, rn.wait)
			}
		}
		time.Sleep(rn.settle)
		res.mu.Lock()
		res.Pipelined++
		res.mu.Unlock()
	}
	if !diverged && !stopped {
		for ci := 0; ci < nconn; ci++ {
			if ci >= len(b.Fin) || stateAlive(b.Fin[ci]) != "yes" || deadConn[ci] {
				continue
			}
			for j, p := range rn.probes[strconv.Itoa(b.M)+"|"+b.Fin[ci]] {
				if te.low && strings.HasPrefix(p.F, "QUERY") {
					continue
				}
				p.C = ci + 1
				p.S = b.Fin[ci]
				if !exec(p, true, j) {
					break
				}
			}
		}
	}
	// quiescence: no frame on any connection for `window`
	quiet := func() {
		last := -1
		deadline := time.Now().Add(20 * rn.window)
		for time.Now().Before(deadline) {
			n := 0
			for _, c := range conns {
				n += c.Count()
			}
			if n == last {
				return
			}
			last = n
			time.Sleep(rn.window)
		}
	}
	quiet()

	// final evaluation of every frame sent
	var seq []string
	for _, s := range log {
		seq = append(seq, fmt.Sprintf("c%d:%s", s.conn, s.step.F))
	}
	streams := make([]map[int16]bool, nconn)
	for i := range streams {
		streams[i] = map[int16]bool{}
	}
	var sampleSteps []interface{}
	for li, s := range log {
		c := conns[s.conn-1]
		streams[s.conn-1][s.stream] = true
		ob := stepObs{Replies: observe(c, s.stream), Forwarded: fwdCount(c.LocalAddr, s.stream) > 0, SendErr: s.sendErr}
		// a close is attributed to the last frame sent on the connection
		lastOnConn := true
		for _, t := range log[li+1:] {
			if t.conn == s.conn {
				lastOnConn = false
			}
		}
		if lastOnConn {
			ob.Closed = c.IsClosed()
		}
		for _, rr := range ob.Replies {
			if rr.Flags&int(primitive.HeaderFlagCompressed) != 0 {
				res.mu.Lock()
				res.CompressedRecv++
				res.mu.Unlock()
			}
		}
		codec := stateCodec(s.state)
		cls := class(s.f, te.m, s.probe, codec)
		all := append([]outcome{s.chosen}, s.alts...)
		ok, why := false, ""
		matched := ""
		for i, o := range all {
			if okx, w := matches(o, ob, s.conc.VerByte, codec != "open"); okx {
				ok = true
				matched = o.raw
				break
			} else if i == 0 {
				why = w
			}
		}
		res.mu.Lock()
		res.Steps++
		if s.probe {
			res.ProbeSteps++
		}
		res.Classes[cls]++
		kind := "exactly-one:" + strings.Join(sortedKeys(s.chosen.Ops), "/")
		if s.chosen.Ops["*"] {
			kind = "open"
			res.OpenObs[cls+" -> "+signature(ob)]++
		} else if s.chosen.PErr {
			kind = "version-error"
		}
		if len(s.alts) > 0 {
			kind += "|or-alternative"
			res.OpenObs[cls+" -> "+signature(ob)]++
		}
		res.OutcomeKinds[kind]++
		res.mu.Unlock()
		if s.f.Op == "QUERY" && s.f.Arg == "fwd" && s.f.Body == "ok" {
			res.mu.Lock()
			res.hookSaw[s.token] = ob.Forwarded
			res.mu.Unlock()
		}
		if s.chosen.Fwd == "no" && s.f.Op != "OPTIONS" && s.f.Op != "REGISTER" {
			// remembered for the backend-side check at the end of the run
			res.mu.Lock()
			res.NoFwdTokens[s.token] = mismatch{Env: te.label, M: te.m, Beh: b.id, Step: s.index, Probe: s.probe, Conn: s.conn, Frame: s.step.F,
				Concrete: s.conc.Desc, State: s.state, Sequence: seq, Key: "c13:" + cls + ":got=seen-by-backend"}
			res.mu.Unlock()
		}
		if !ok {
			var allowed []string
			for _, o := range all {
				allowed = append(allowed, o.raw)
			}
			mm := mismatch{Key: "c13:" + cls + ":got=" + signature(ob), Why: why, Env: te.label, M: te.m, Beh: b.id, Step: s.index, Probe: s.probe,
				Conn: s.conn, Frame: s.step.F, Concrete: s.conc.Desc, State: s.state, Allowed: allowed, Observed: ob, Sequence: seq, After: s.after}
			if len(s.conc.Bytes) <= 96 {
				mm.Hex = fmt.Sprintf("%x", s.conc.Bytes)
			}
			res.addMismatch(mm)
		}
		sampleSteps = append(sampleSteps, map[string]interface{}{"conn": s.conn, "frame": s.step.F, "wire": s.conc.Desc, "state_before": s.state,
			"allowed": append([]string{s.step.O}, s.step.A...), "observed": signature(ob), "matched": matched, "probe": s.probe})
	}
	// frames nobody asked for
	for ci, c := range conns {
		for _, rcv := range c.Received() {
			if !streams[ci][rcv.Header.StreamId] {
				res.addMismatch(mismatch{Key: "c13:unsolicited-frame:" + opName(rcv.Header.OpCode), Why: "frame on a stream no request used",
					Env: te.label, M: te.m, Beh: b.id, Conn: ci + 1, Sequence: seq,
					Observed: stepObs{Replies: []recvObs{{Op: opName(rcv.Header.OpCode), Ver: int(rcv.Header.Version), Stream: int(rcv.Header.StreamId)}}}})
			}
		}
	}
	res.mu.Lock()
	res.Replays++
	if b.sweep {
		res.SweepRuns++
	}
	switch {
	case stopped:
		res.Stopped++
	case diverged:
		res.Diverged++
	case after:
		res.Continued++
	default:
		res.Full++
	}
	res.mu.Unlock()
	if n := atomic.AddInt32(&rn.sample, 1); n <= 400 && (n%97 == 1 || (len(b.Steps) > 1 && n%61 == 1)) {
		res.mu.Lock()
		if len(res.Samples) < 8 {
			res.Samples = append(res.Samples, map[string]interface{}{"env": te.label, "behaviour": b.id, "steps": sampleSteps})
		}
		res.mu.Unlock()
	}
}

func b2i(b bool) int {
	if b {
		return 1
	}
	return 0
}

func sortedKeys(m map[string]bool) []string {
	var out []string
	for k := range m {
		out = append(out, k)
	}
	sort.Strings(out)
	return out
}

func waitClosed(c *cqlclient.Client, d time.Duration) {
	deadline := time.Now().Add(d)
	for time.Now().Before(deadline) && !c.IsClosed() {
		time.Sleep(500 * time.Microsecond)
	}
}

// warmUp creates, one after the other, every backend session the replay can need (one per
// protocol version x compression name as the client spelled it), so that the replay never makes
// the proxy create sessions concurrently.
func warmUp(te *tenv, names []string, res *result) error {
	n := 0
	for _, v := range []int{3, 4, 5, 65, 66} {
		if v > te.m || (te.low && v > 3) {
			continue
		}
		for _, name := range names {
			c, err := te.e.Client()
			if err != nil {
				return err
			}
			c.Quiet = true
			st := message.NewStartup()
			if name != "-" {
				st.Options["COMPRESSION"] = name
			}
			from := c.Count()
			if err := c.Send(frame.NewFrame(primitive.ProtocolVersion(v), 1, st), "", "warmup"); err != nil {
				c.Close()
				return err
			}
			r := c.WaitStream(1, from, 10*time.Second)
			if r == nil {
				c.Close()
				return fmt.Errorf("warm-up: no reply to STARTUP(%s) v%d", name, v)
			}
			time.Sleep(2 * time.Millisecond)
			ready := false
			for _, x := range c.Received() {
				if x.Kind == "ready" {
					ready = true
				}
			}
			errd := false
			for _, x := range c.Received() {
				if x.Header.OpCode == primitive.OpCodeError {
					errd = true
				}
			}
			if ready && !errd {
				if name != "-" {
					c.SetCompression(name)
				}
				c.Version = primitive.ProtocolVersion(v)
				frm := frame.NewFrame(primitive.ProtocolVersion(v), 2, &message.Query{Query: "SELECT v FROM ks.warmup WHERE k = 'tokWarm;'",
					Options: &message.QueryOptions{Consistency: primitive.ConsistencyLevelOne}})
				if _, err := c.Roundtrip(frm, "", "warmup", 15*time.Second); err != nil {
					// snappy on v5 and similar: not every combination has to work
					res.mu.Lock()
					res.Notes = append(res.Notes, fmt.Sprintf("warm-up %s: query after STARTUP(%s) v%d: %v", te.label, name, v, err))
					res.mu.Unlock()
				} else {
					n++
				}
			}
			c.Close()
		}
	}
	res.mu.Lock()
	res.WarmSessions += n
	res.mu.Unlock()
	return nil
}

func main() {
	in := flag.String("in", "", "behaviours + probe table (JSON lines)")
	out := flag.String("out", "-", "result file")
	workers := flag.Int("workers", 96, "concurrent replays")
	sweep := flag.Bool("sweep", false, "concrete sweep of all 128 version bytes x 256 opcode bytes")
	sweepStride := flag.Int("sweep-stride", 1, "take every n-th point of the sweep")
	lowEnvs := flag.Bool("low", true, "also replay single-frame behaviours with the cluster maximum below the proxy maximum")
	settleUs := flag.Int("settle-us", 1500, "pause after a reply before looking at the connection")
	windowMs := flag.Int("window-ms", 25, "quiescence window at the end of a behaviour")
	pipelined := flag.Bool("pipelined", true, "send every second deterministic multi-frame behaviour in one write per connection")
	corrupt := flag.String("corrupt", "", "binding self-test: replace the expected opcode OLD=NEW in every outcome (e.g. SUPPORTED=READY)")
	flag.Parse()

	res := &result{Classes: map[string]int{}, OutcomeKinds: map[string]int{}, OpenObs: map[string]int{}, MismatchCounts: map[string]int{},
		Forward: map[string]int{}, NoFwdTokens: map[string]mismatch{}, hookSaw: map[string]bool{}}
	rn := &runner{k: newConcretiser(), res: res, probes: map[string][]stepIn{}, settle: time.Duration(*settleUs) * time.Microsecond,
		window: time.Duration(*windowMs) * time.Millisecond, wait: 10 * time.Second, pipelined: *pipelined}
	res.Mixed = rn.k.mixed

	var behs []*behIn
	byM := map[int][]*behIn{}
	initRows := map[string]stepIn{} // "m|frame" -> first step in the initial state (chosen + alternatives)
	id := 0
	err := hutil.ReadJSONLines(*in, func(line []byte) error {
		if *corrupt != "" {
			p := strings.SplitN(*corrupt, "=", 2)
			line = bytes.ReplaceAll(line, []byte(","+p[0]+"/,"), []byte(","+p[1]+"/,"))
		}
		var b behIn
		if err := json.Unmarshal(line, &b); err != nil {
			return err
		}
		if len(b.P) > 0 {
			rn.probes[strconv.Itoa(b.M)+"|"+b.S] = b.P
			return nil
		}
		id++
		b.id = id
		behs = append(behs, &b)
		byM[b.M] = append(byM[b.M], &b)
		if len(b.Steps) > 0 && b.Steps[0].S == "none,0,yes" {
			k := strconv.Itoa(b.M) + "|" + b.Steps[0].F
			if _, ok := initRows[k]; !ok {
				initRows[k] = b.Steps[0]
			}
		}
		return nil
	})
	if err != nil {
		fmt.Fprintln(os.Stderr, "vdrv-handshake:", err)
		os.Exit(3)
	}
	res.Behaviours = len(behs)

	// compression names the replay will use
	nameSet := map[string]bool{"-": true}
	for _, b := range behs {
		for _, s := range b.Steps {
			if f, err := parseFrame(s.F); err == nil && f.Op == "STARTUP" && f.Arg != "-" {
				nameSet[rn.k.compName(f.Arg)] = true
			}
		}
	}
	var names []string
	for n := range nameSet {
		names = append(names, n)
	}
	sort.Strings(names)

	var ms []int
	for m := range byM {
		ms = append(ms, m)
	}
	sort.Ints(ms)
	var envs []*tenv
	for _, m := range ms {
		te, err := startEnv(m, false)
		if err != nil {
			fmt.Fprintln(os.Stderr, "vdrv-handshake:", err)
			os.Exit(3)
		}
		envs = append(envs, te)
		if *lowEnvs && m > 3 {
			tl, err := startEnv(m, true)
			if err != nil {
				fmt.Fprintln(os.Stderr, "vdrv-handshake:", err)
				os.Exit(3)
			}
			envs = append(envs, tl)
		}
	}
	for i, te := range envs {
		te.idx = i
	}
	if len(envs) > 15 {
		fmt.Fprintln(os.Stderr, "vdrv-handshake: too many environments for the stream id layout")
		os.Exit(3)
	}
	proxycore.SetVerifHook(hook) // after every env.Start (each of them resets the hook)
	var wg sync.WaitGroup
	errs := make(chan error, len(envs))
	for _, te := range envs {
		wg.Add(1)
		go func(te *tenv) {
			defer wg.Done()
			if err := warmUp(te, names, res); err != nil {
				errs <- fmt.Errorf("%s: %w", te.label, err)
			}
			te.warm = te.e.T.Len()
		}(te)
		res.Envs = append(res.Envs, te.label)
	}
	wg.Wait()
	select {
	case err := <-errs:
		fmt.Fprintln(os.Stderr, "vdrv-handshake: warm-up:", err)
		os.Exit(3)
	default:
	}

	type job struct {
		te *tenv
		b  *behIn
	}
	jobs := make(chan job, 1024)
	t0 := time.Now()
	for i := 0; i < *workers; i++ {
		wg.Add(1)
		go func() {
			defer wg.Done()
			for j := range jobs {
				rn.replay(j.te, j.b)
			}
		}()
	}
	// behaviours that never need a backend session: replayed in the "low" environments too (there a
	// session above v3 cannot be created)
	singleOnly := func(b *behIn) bool {
		if len(b.Steps) > 2 {
			return false
		}
		for _, s := range b.Steps {
			if f, err := parseFrame(s.F); err != nil || backendOps[f.Op] {
				return false
			}
		}
		return true
	}
	for _, te := range envs {
		for _, b := range byM[te.m] {
			if te.low && !singleOnly(b) {
				continue
			}
			jobs <- job{te, b}
		}
	}
	if *sweep {
		sid := 1000000
		sweepOff := int(hutil.Seed() % int64(*sweepStride))
		if sweepOff < 0 {
			sweepOff = -sweepOff
		}
		for _, te := range envs {
			if te.low {
				continue
			}
			n := 0
			for vb := 0; vb < 128; vb++ {
				for ob := 0; ob < 256; ob++ {
					n++
					if (n+sweepOff)%*sweepStride != 0 {
						continue
					}
					f := absFrame{Op: "BADOP", Ver: vb, Body: "ok"}
					if !known[vb] {
						f.Ver = 0
					}
					if name, ok := definedOpByte[ob]; ok {
						if strings.HasPrefix(name, "RESPONSE:") {
							f.Op, f.Arg = "RESPONSE", strings.TrimPrefix(name, "RESPONSE:")
						} else {
							f.Op = name
							switch name {
							case "STARTUP":
								f.Arg = "-"
							case "REGISTER":
								f.Arg = "schema"
							case "QUERY":
								f.Arg = "local"
							}
						}
					}
					fs := fmt.Sprintf("%s|%d|%s|0|ok", f.Op, f.Ver, f.Arg)
					row, ok := initRows[strconv.Itoa(te.m)+"|"+fs]
					if !ok {
						res.mu.Lock()
						res.Infra = append(res.Infra, "sweep: no row for "+fs)
						res.mu.Unlock()
						continue
					}
					st := row
					vbc, obc := vb, ob
					st.VerByte, st.OpByte = &vbc, &obc
					st.C = 1
					ch, _ := parseOutcome(st.O)
					sid++
					b := &behIn{M: te.m, Steps: []stepIn{st}, Fin: []string{ch.Codec + "," + strconv.Itoa(b2i(ch.Started)) + "," + ch.Alive}, id: sid, sweep: true}
					jobs <- job{te, b}
				}
			}
		}
	}
	close(jobs)
	wg.Wait()
	res.WallReplayS = time.Since(t0).Seconds()

	// backend-side checks
	time.Sleep(100 * time.Millisecond)
	backendSaw := map[string]bool{}
	for _, te := range envs {
		seen := 0
		for _, a := range te.e.C.Log() {
			if a.Token == "" {
				continue
			}
			seen++
			backendSaw[a.Token] = true
			if mm, bad := res.NoFwdTokens[a.Token]; bad {
				mm.Why = fmt.Sprintf("the backend received this frame (opcode %s, version %d)", a.Header.OpCode, a.Header.Version)
				mm.Observed.Forwarded = true
				res.addMismatch(mm)
			}
		}
		res.Forward["backend_requests_with_token"] += seen
		perConn := map[interface{}]int{}
		for i, ev := range te.e.T.Events() {
			switch ev["ev"] {
			case "BackendConn":
				perConn[ev["b"]]++
			case "BackendRegister":
				if i >= te.warm {
					res.Forward["backend_register_after_warmup"]++
					res.addMismatch(mismatch{Key: "c13:REGISTER:got=seen-by-backend", Why: "the backend received a REGISTER after warm-up", Env: te.label, M: te.m, Extra: ev})
				}
			}
		}
		for bid, n := range perConn {
			if n > 1 {
				res.Forward["backend_second_startup_on_a_connection"]++
				res.addMismatch(mismatch{Key: "c13:STARTUP:got=seen-by-backend", Why: "a backend connection received more than one STARTUP", Env: te.label, M: te.m, Extra: bid})
			}
		}
		res.Forward["backend_connections"] += len(perConn)
	}
	// the two views of "forwarded" (proxy-side hook, backend-side log) must agree on every forwardable query
	for tok, h := range res.hookSaw {
		if h != backendSaw[tok] {
			res.Forward["hook_and_backend_disagree"]++
		}
		if h {
			res.Forward["forwardable_queries_forwarded"]++
		}
	}
	res.Forward["forwardable_queries"] = len(res.hookSaw)
	res.Forward["hook_forwarded_requests"] = int(atomic.LoadInt64(&hookEvents))
	res.Forward["frames_that_must_not_reach_the_backend_with_token"] = len(res.NoFwdTokens)
	for _, te := range envs {
		te.e.Close()
	}
	if err := hutil.WriteJSON(*out, res); err != nil {
		fmt.Fprintln(os.Stderr, "vdrv-handshake:", err)
		os.Exit(3)
	}
	_ = fakecql.OK
}
