package main

// Totality, deep nesting: a stack overflow of the Go runtime is fatal (it cannot be recovered),
// so the deepest probes run in a child process.  Like the mutants this part has no TLA+ oracle:
// the only assertions are "returns, does not crash, parse error => not idempotent".

import (
	"bytes"
	"context"
	"encoding/json"
	"flag"
	"fmt"
	"os"
	"os/exec"
	"strings"
	"time"

	"verif/hutil"
)

type deepProbe struct {
	Form     string `json:"form"`
	Template string `json:"template"`
	Depth    int    `json:"depth"`
	Bytes    int    `json:"query_bytes"`
	Returned bool   `json:"returned"`
	Idem     bool   `json:"idempotent"`
	Err      string `json:"error,omitempty"`
	Panic    string `json:"panic,omitempty"`
	Fatal    string `json:"fatal,omitempty"`
	Millis   int64  `json:"millis"`
}

var deepTemplates = map[string][2]string{
	"insert-values": {"INSERT INTO t (a) VALUES (", ")"},
	"delete-where":  {"DELETE FROM t WHERE k = ", ""},
	"update-set":    {"UPDATE t SET c = ", " WHERE k = 1"},
}

func deepQuery(template, form string, depth int) string {
	t := deepTemplates[template]
	if form == "(a<" {
		// one cast whose type is nested `depth` levels deep: (a<a<a<...
		return t[0] + "(" + strings.Repeat("a<", depth) + t[1]
	}
	return t[0] + strings.Repeat(form, depth) + t[1]
}

func cmdDeep(args []string) error {
	fs := flag.NewFlagSet("deep", flag.ExitOnError)
	out := fs.String("out", "-", "result JSON")
	maxDepth := fs.Int("depth", 1<<24, "deepest nesting probed")
	forms := fs.String("forms", "[,(,{", "comma separated opening forms")
	fs.Parse(args)
	self, err := os.Executable()
	if err != nil {
		return err
	}
	var probes []deepProbe
	tmpls := []string{"insert-values", "delete-where", "update-set"}
	for fi, form := range strings.Split(*forms, ",") {
		if form == "cast" {
			form = "(int)"
		}
		if form == "call" {
			form = "f("
		}
		if form == "udt" {
			form = "{a:"
		}
		depths := []int{1 << 10, 1 << 16, 1 << 20, *maxDepth}
		if form == "casttype" {
			// two bytes per level: a statement of 64 MiB is still a legal frame
			form, depths = "(a<", []int{1 << 10, 1 << 20, *maxDepth, 2 * *maxDepth}
		}
		for _, depth := range depths {
			p := deepProbe{Form: form, Template: tmpls[fi%len(tmpls)], Depth: depth}
			p.Bytes = len(deepQuery(p.Template, form, depth))
			ctx, cancel := context.WithTimeout(context.Background(), 180*time.Second)
			cmd := exec.CommandContext(ctx, self, "deepchild", "-template", p.Template, "-form", form, "-depth", fmt.Sprint(depth))
			var so, se bytes.Buffer
			cmd.Stdout, cmd.Stderr = &so, &se
			t0 := time.Now()
			err := cmd.Run()
			p.Millis = time.Since(t0).Milliseconds()
			timedOut := ctx.Err() == context.DeadlineExceeded
			cancel()
			if err != nil {
				msg := se.String()
				if i := strings.Index(msg, "\n\n"); i > 0 {
					msg = msg[:i]
				}
				if i := strings.Index(msg, "fatal error:"); i >= 0 {
					msg = msg[i:]
				}
				if len(msg) > 300 {
					msg = msg[:300]
				}
				if timedOut {
					msg = "did not return within 180 s"
				}
				p.Fatal = strings.TrimSpace(err.Error() + ": " + msg)
			} else {
				var v verdict
				if e := json.Unmarshal(so.Bytes(), &v); e != nil {
					return fmt.Errorf("deepchild output: %v: %q", e, so.String())
				}
				p.Returned, p.Idem, p.Err, p.Panic = true, v.Idem, v.Err, v.Panic
			}
			probes = append(probes, p)
			if p.Fatal != "" {
				break // deeper ones die the same way
			}
		}
	}
	return hutil.WriteJSON(*out, map[string]interface{}{"probes": probes})
}

func cmdDeepChild(args []string) error {
	fs := flag.NewFlagSet("deepchild", flag.ExitOnError)
	template := fs.String("template", "insert-values", "")
	form := fs.String("form", "[", "")
	depth := fs.Int("depth", 1000, "")
	fs.Parse(args)
	q := deepQuery(*template, *form, *depth)
	v := classify(0, q)
	if p := handled(0, q); p != "" && v.Panic == "" {
		v.Panic = "IsQueryHandled: " + p
	}
	b, _ := json.Marshal(v)
	_, err := os.Stdout.Write(b)
	return err
}
