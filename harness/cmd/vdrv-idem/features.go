package main

// Grouping of failing rows under stable keys.  A key names the smallest structural feature
// (an edge parent>child of the abstract tree, at four levels of detail, or a single node)
// that was never seen in a row of the same expected class that the classifier got right.
// This is presentation only: which rows fail is decided by comparing the classifier's answer
// with the class computed by TLC.

import (
	"fmt"
	"sort"
	"strings"
)

func exact(n *Node) string {
	switch n.K {
	case "int":
		return "int"
	case "prim":
		return "prim:" + n.A
	case "bind":
		return "bind-" + n.A
	case "fn":
		if len(n.C) > 0 {
			return n.A + "(..)"
		}
		return n.A + "()"
	case "list", "set", "map", "udt", "tuple":
		if len(n.C) == 0 {
			return n.K + ":empty"
		}
		return n.K
	}
	if n.A != "" {
		return n.K + ":" + n.A
	}
	return n.K
}

func class(n *Node) string {
	switch n.K {
	case "int", "prim":
		return "lit"
	case "bind":
		return "bind"
	case "fn":
		switch n.A {
		case "now", "uuid":
			return "nonidem-call"
		case "system.now", "system.uuid":
			return "system.nonidem-call"
		case "user.now", "user.uuid":
			return "user.samename-call"
		}
		return "call"
	case "set", "map":
		return "setmap"
	case "op", "rel", "if", "delop", "json", "using", "batch", "garbage", "truncated", "select", "ddl", "other":
		return n.K + ":" + n.A
	}
	return n.K
}

func slot(parent *Node, i int) string {
	if parent.K == "map" {
		if i%2 == 0 {
			return fmt.Sprintf("#%d", i/2+1)
		}
		return fmt.Sprintf("#%d.val", i/2+1)
	}
	return fmt.Sprintf("#%d", i+1)
}

// feature levels, coarsest first: 0 node only, 1 class>class, 2 class>exact, 3 class#slot>class, 4 exact#slot>exact
type feature struct{ levels [5]string }

func edge(parent *Node, i int) feature {
	c := parent.C[i]
	return feature{[5]string{
		"has:" + exact(c),
		class(parent) + ">" + class(c),
		class(parent) + ">" + exact(c),
		class(parent) + slot(parent, i) + ">" + class(c),
		exact(parent) + slot(parent, i) + ">" + exact(c),
	}}
}

func rootFeature(n *Node) feature {
	s := "root:" + exact(n)
	return feature{[5]string{s, s, s, s, s}}
}

func allEdges(n *Node) []feature {
	var out []feature
	var walk func(*Node)
	walk = func(p *Node) {
		for i, c := range p.C {
			if c.K != "none" {
				out = append(out, edge(p, i))
			}
			walk(c)
		}
	}
	walk(n)
	return out
}

// features around the nodes TLC named as the reason why the row must be `not idempotent`
func witnessFeatures(r *Row) []feature {
	var out []feature
	for _, w := range r.Wit {
		if len(w.Path) == 0 {
			out = append(out, rootFeature(r.Ast))
			continue
		}
		p := r.Ast
		for _, i := range w.Path[:len(w.Path)-1] {
			p = p.C[i-1]
		}
		last := w.Path[len(w.Path)-1] - 1
		out = append(out, edge(p, last))
		n := p.C[last]
		if n.K == "op" || n.K == "delop" { // the reason depends on the operand
			out = append(out, edge(n, 0))
		}
	}
	return out
}

type featStats struct {
	pass map[string]int // dir|feature -> rows the classifier got right
	fail map[string]int
}

func newFeatStats() *featStats { return &featStats{map[string]int{}, map[string]int{}} }

func (s *featStats) candidates(r *Row, dir string) []feature {
	switch {
	case r.Cls == "F":
		return witnessFeatures(r)
	default:
		return append(allEdges(r.Ast), rootFeature(r.Ast))
	}
}

func (s *featStats) account(r *Row, dir string, cleanReject bool) {
	if r.Cls == "O" && dir == "" {
		return
	}
	// a row rejected with a parse error says nothing about the reason TLC named
	if r.Cls == "F" && dir == "" && !cleanReject && !(len(r.Wit) == 1 && len(r.Wit[0].Path) == 0) {
		return
	}
	// a correctly rejected row with several reasons says nothing about each single reason
	if r.Cls == "F" && dir == "" && len(r.Wit) != 1 {
		return
	}
	seen := map[string]bool{}
	for _, f := range s.candidates(r, dir) {
		for _, l := range f.levels {
			k := r.Cls + "|" + l
			if seen[k] {
				continue
			}
			seen[k] = true
			if dir == "" {
				s.pass[k]++
			} else {
				s.fail[k]++
			}
		}
	}
}

func (s *featStats) key(r *Row, o *rowOutcome) (key, feat string, failc, passc int) {
	if o.dir == "unstable" {
		// which spelling dimensions does the answer depend on (is a function of)?
		var dims []string
		for name := range o.sps[0].dims() {
			byVal := map[int]bool{}
			fn := true
			for i, v := range o.verdicts {
				d := o.sps[i].dims()[name]
				if prev, ok := byVal[d]; ok && prev != v.Idem {
					fn = false
					break
				}
				byVal[d] = v.Idem
			}
			if fn && len(byVal) > 1 {
				dims = append(dims, name)
			}
		}
		sort.Strings(dims)
		if len(dims) == 0 {
			dims = []string{"unexplained"}
		}
		return "unstable:" + r.Ast.K + ":" + strings.Join(dims, "+"), "", 0, 0
	}
	cands := s.candidates(r, o.dir)
	// among the features that (nearly) always fail: the one seen failing most often, then the coarsest;
	// "nearly": a row with the feature may have been rejected for an unrelated reason
	best, bestLvl, bestFail, bestPass := "", 0, 0, 0
	reliable := func(f, p int) bool { return f > 0 && f*10 >= 9*(f+p) }
	better := func(f, p, lvl int, name string) bool {
		if best == "" {
			return true
		}
		if reliable(f, p) != reliable(bestFail, bestPass) {
			return reliable(f, p)
		}
		if !reliable(f, p) { // compare f/(f+p) with bestFail/(bestFail+bestPass)
			if l, r := f*(bestFail+bestPass), bestFail*(f+p); l != r {
				return l > r
			}
		}
		switch {
		case f != bestFail:
			return f > bestFail
		case lvl != bestLvl:
			return lvl < bestLvl
		}
		return name < best
	}
	for _, f := range cands {
		for lvl, name := range f.levels {
			k := r.Cls + "|" + name
			if fc, pc := s.fail[k], s.pass[k]; fc > 0 && better(fc, pc, lvl, name) {
				best, bestLvl, bestFail, bestPass = name, lvl, fc, pc
			}
		}
	}
	if reliable(bestFail, bestPass) {
		return o.dir + ":" + best, best, bestFail, bestPass
	}
	// no feature fails reliably: name the row by its kind and its most suspicious feature
	return o.dir + ":" + exact(r.Ast) + ":" + best + "(sometimes)", best, bestFail, bestPass
}
