package main

import (
	"bufio"
	"fmt"
	"os"

	"github.com/datastax/cql-proxy/parser"
)

func main() {
	sc := bufio.NewScanner(os.Stdin)
	for sc.Scan() {
		q := sc.Text()
		id, err := parser.IsQueryIdempotent(q)
		fmt.Printf("%-6v %-60q err=%v\n", id, q, err)
	}
}
