// vdrv-idem is the Go side of check C06 (idempotency classifier).
//
//	vdrv-idem table -in rows.ndjson -out result.json [-mutants N]
//	    renders every abstract sentence exported by TLC from spec/Idempotency.tla into CQL text in
//	    several spellings, calls the real parser.IsQueryIdempotent on each and compares with the
//	    expected class of the row (F = must be false, T = must be true, O = open: stability only);
//	    then feeds byte-level mutants of the rendered texts to IsQueryIdempotent / IsQueryHandled
//	    (totality: returns, no panic, parse error => not idempotent).
//	vdrv-idem classify -in texts.json -out verdicts.json
//	    classifies the given texts (replay of a recorded violation).
//	vdrv-idem deep -out result.json [-depth N] [-forms "[,(,{,cast,call,udt"]
//	    totality on deeply nested input; every probe runs in a child process because a stack
//	    overflow of the Go runtime cannot be recovered.
//
// The expected verdicts come from TLC; nothing in this file decides what is idempotent.
package main

import (
	"encoding/json"
	"flag"
	"fmt"
	"os"
	"runtime"
	"sort"
	"strings"
	"sync"
	"sync/atomic"
	"time"

	"github.com/datastax/cql-proxy/parser"

	"verif/hutil"
)

func main() {
	if len(os.Args) < 2 {
		fmt.Fprintln(os.Stderr, "usage: vdrv-idem table|classify ...")
		os.Exit(2)
	}
	var err error
	switch os.Args[1] {
	case "table":
		err = cmdTable(os.Args[2:])
	case "classify":
		err = cmdClassify(os.Args[2:])
	case "deep":
		err = cmdDeep(os.Args[2:])
	case "deepchild":
		err = cmdDeepChild(os.Args[2:])
	case "wide":
		err = cmdWide(os.Args[2:])
	default:
		err = fmt.Errorf("unknown command %q", os.Args[1])
	}
	if err != nil {
		fmt.Fprintln(os.Stderr, "vdrv-idem:", err)
		os.Exit(3)
	}
}

// ---------------------------------------------------------------------------------- rows

type Node struct {
	K string  `json:"k"`
	A string  `json:"a"`
	C []*Node `json:"c"`
}

type Witness struct {
	Path []int  `json:"path"`
	Why  string `json:"why"`
}

type Row struct {
	Ast  *Node     `json:"ast"`
	Cls  string    `json:"cls"`
	Wit  []Witness `json:"wit"`
	Cost int       `json:"cost"`
}

// compact one-line form of an abstract sentence (for reports)
func (n *Node) String() string {
	var b strings.Builder
	n.write(&b)
	return b.String()
}

func (n *Node) write(b *strings.Builder) {
	b.WriteString(n.K)
	if n.A != "" {
		b.WriteString(":" + n.A)
	}
	if len(n.C) > 0 {
		b.WriteByte('(')
		for i, c := range n.C {
			if i > 0 {
				b.WriteByte(' ')
			}
			c.write(b)
		}
		b.WriteByte(')')
	}
}

// ---------------------------------------------------------------------------------- the call under test

type verdict struct {
	Idem   bool
	Err    string
	Panic  string
	Millis int64
}

var (
	inflight [64]atomic.Int64
	inText   [64]atomic.Value
)

func classify(slot int, q string) (v verdict) {
	inText[slot].Store(q)
	inflight[slot].Store(time.Now().UnixNano())
	defer func() {
		inflight[slot].Store(0)
		if r := recover(); r != nil {
			v.Panic = fmt.Sprint(r)
		}
	}()
	idem, err := parser.IsQueryIdempotent(q)
	v.Idem = idem
	if err != nil {
		v.Err = err.Error()
	}
	return
}

func handled(slot int, q string) (pan string) {
	inText[slot].Store(q)
	inflight[slot].Store(time.Now().UnixNano())
	defer func() {
		inflight[slot].Store(0)
		if r := recover(); r != nil {
			pan = fmt.Sprint(r)
		}
	}()
	_, _, _ = parser.IsQueryHandled(parser.IdentifierFromString("ks1"), q)
	_, _, _ = parser.IsQueryHandled(parser.IdentifierFromString("system"), q)
	return
}

// ---------------------------------------------------------------------------------- table replay

type sample struct {
	Row      string   `json:"row"`
	Cls      string   `json:"expected"`
	Why      []string `json:"why,omitempty"`
	Texts    []string `json:"texts"`
	Verdicts []bool   `json:"verdicts"`
	Errs     []string `json:"errors,omitempty"`
}

type group struct {
	Key      string   `json:"key"`
	Dir      string   `json:"dir"`
	Rows     int      `json:"rows"`
	Texts    int      `json:"texts"`
	Feature  string   `json:"feature"`
	Samples  []sample `json:"samples"`
	FailSeen int      `json:"feature_fail_rows"`
	PassSeen int      `json:"feature_pass_rows"`
}

type mutStats struct {
	Mutants       int            `json:"mutants"`
	Distinct      int            `json:"distinct"`
	ByOp          map[string]int `json:"by_op"`
	ParseErrors   int            `json:"parse_errors"`
	AcceptedTrue  int            `json:"accepted_idempotent"`
	AcceptedFalse int            `json:"accepted_not_idempotent"`
	NonUTF8       int            `json:"non_utf8"`
	HandledCalls  int            `json:"is_query_handled_calls"`
	Samples       []string       `json:"samples"`
}

type result struct {
	Rows          int                       `json:"rows"`
	RowsDistinct  int                       `json:"rows_distinct"`
	Spellings     []string                  `json:"spellings"`
	Texts         int                       `json:"texts"`
	TextsDistinct int                       `json:"texts_distinct"`
	Nontrivial    int                       `json:"rows_nontrivial_distinct"`
	ByClass       map[string]int            `json:"by_class"`
	ByKindClass   map[string]map[string]int `json:"by_kind_class"`
	ByWhy         map[string]int            `json:"by_reason"`
	ByCost        map[string]int            `json:"by_cost"`
	ClassVerdict  map[string]int            `json:"class_verdict_texts"`
	NodeKinds     map[string]int            `json:"node_kinds_rendered"`
	EdgeFeatures  int                       `json:"distinct_edge_features"`
	MaxDepth      int                       `json:"max_term_depth"`
	OpenTrue      int                       `json:"open_rows_reported_idempotent"`
	OpenFalse     int                       `json:"open_rows_reported_not_idempotent"`
	Groups        []*group                  `json:"groups"`
	Totality      []*group                  `json:"totality_groups"`
	Mut           mutStats                  `json:"mutants"`
	Samples       []sample                  `json:"samples"`
	Hang          string                    `json:"hang,omitempty"`
	WallMs        int64                     `json:"wall_ms"`
}

type rowOutcome struct {
	idx      int
	texts    []string
	sps      []spelling
	verdicts []verdict
	dir      string // "", unsound, incomplete, unstable, panic, err-but-true
}

func cmdTable(args []string) error {
	fs := flag.NewFlagSet("table", flag.ExitOnError)
	in := fs.String("in", "", "NDJSON rows exported by TLC")
	out := fs.String("out", "-", "result JSON")
	nmut := fs.Int("mutants", 100000, "total number of byte-level mutants")
	fs.Parse(args)
	t0 := time.Now()

	var rows []*Row
	seen := map[string]bool{}
	total := 0
	err := hutil.ReadJSONLines(*in, func(line []byte) error {
		var r Row
		if err := json.Unmarshal(line, &r); err != nil {
			return fmt.Errorf("bad row %q: %v", string(line[:min(len(line), 200)]), err)
		}
		total++
		k := r.Ast.String()
		if seen[k] {
			return nil
		}
		seen[k] = true
		rows = append(rows, &r)
		return nil
	})
	if err != nil {
		return err
	}
	if len(rows) == 0 {
		return fmt.Errorf("no rows in %s", *in)
	}

	res := &result{Rows: total, RowsDistinct: len(rows), ByClass: map[string]int{}, ByKindClass: map[string]map[string]int{},
		ByWhy: map[string]int{}, ByCost: map[string]int{}, ClassVerdict: map[string]int{}, NodeKinds: map[string]int{}}
	for _, s := range spellings {
		res.Spellings = append(res.Spellings, s.name)
	}

	nw := runtime.NumCPU()
	if nw > 32 {
		nw = 32
	}
	// watchdog: a call that does not return within 20 s is a hang
	hang := make(chan string, 1)
	go func() {
		for {
			time.Sleep(500 * time.Millisecond)
			now := time.Now().UnixNano()
			for i := 0; i < nw; i++ {
				if st := inflight[i].Load(); st != 0 && now-st > int64(20*time.Second) {
					q, _ := inText[i].Load().(string)
					select {
					case hang <- q:
					default:
					}
					return
				}
			}
		}
	}()

	outcomes := make([]rowOutcome, len(rows))
	var wg sync.WaitGroup
	var next atomic.Int64
	done := make(chan struct{})
	for wk := 0; wk < nw; wk++ {
		wg.Add(1)
		go func(slot int) {
			defer wg.Done()
			for {
				i := int(next.Add(1)) - 1
				if i >= len(rows) {
					return
				}
				r := rows[i]
				o := rowOutcome{idx: i}
				for si := range spellings {
					t, sp := render(r.Ast, si, int64(i))
					o.texts = append(o.texts, t)
					o.sps = append(o.sps, sp)
				}
				for _, t := range o.texts {
					o.verdicts = append(o.verdicts, classify(slot, t))
				}
				outcomes[i] = o
			}
		}(wk)
	}
	go func() { wg.Wait(); close(done) }()
	select {
	case <-done:
	case q := <-hang:
		res.Hang = q
		res.Totality = append(res.Totality, &group{Key: "total:hang:IsQueryIdempotent", Dir: "hang", Rows: 1,
			Samples: []sample{{Texts: []string{q}}}})
		res.WallMs = time.Since(t0).Milliseconds()
		return hutil.WriteJSON(*out, res)
	}

	// ---- compare with the expected class
	textSeen := map[string]bool{}
	nontrivial := map[string]bool{}
	stats := newFeatStats()
	var failing []*rowOutcome
	edgeSeen := map[string]bool{}
	for i := range outcomes {
		o := &outcomes[i]
		r := rows[i]
		res.ByClass[r.Cls]++
		kc := res.ByKindClass[r.Ast.K]
		if kc == nil {
			kc = map[string]int{}
			res.ByKindClass[r.Ast.K] = kc
		}
		kc[r.Cls]++
		res.ByCost[fmt.Sprint(r.Cost)]++
		for _, w := range r.Wit {
			res.ByWhy[w.Why]++
		}
		countKinds(r.Ast, res.NodeKinds)
		if d := termDepth(r.Ast); d > res.MaxDepth {
			res.MaxDepth = d
		}
		for _, f := range allEdges(r.Ast) {
			edgeSeen[f.levels[4]] = true
		}
		for _, t := range o.texts {
			res.Texts++
			textSeen[t] = true
		}
		if r.Cost >= 1 {
			nontrivial[o.texts[0]] = true
		}
		anyTrue, anyFalse, anyPanic, errTrue, anyErr := false, false, false, false, false
		commentTrue := false
		for si, v := range o.verdicts {
			if o.sps[si].comments {
				// only soundness is demanded of the spelling with comments
				if v.Panic != "" {
					anyPanic = true
				}
				if v.Idem {
					commentTrue = true
				}
				continue
			}
			res.ClassVerdict[r.Cls+"->"+fmt.Sprint(v.Idem)]++
			if v.Panic != "" {
				anyPanic = true
			}
			if v.Err != "" && v.Idem {
				errTrue = true
			}
			if v.Err != "" {
				anyErr = true
			}
			if v.Idem {
				anyTrue = true
			} else {
				anyFalse = true
			}
		}
		switch {
		case anyPanic:
			o.dir = "panic"
		case errTrue:
			o.dir = "err-but-true"
		case r.Cls == "F" && (anyTrue || commentTrue):
			o.dir = "unsound"
		case r.Cls == "T" && anyFalse:
			o.dir = "incomplete"
		case anyTrue && anyFalse:
			o.dir = "unstable"
		}
		if r.Cls == "O" {
			if anyTrue {
				res.OpenTrue++
			} else {
				res.OpenFalse++
			}
		}
		stats.account(r, o.dir, !anyErr)
		if o.dir != "" {
			failing = append(failing, o)
		}
	}
	res.TextsDistinct = len(textSeen)
	res.Nontrivial = len(nontrivial)
	res.EdgeFeatures = len(edgeSeen)

	// ---- group the failing rows under stable keys
	groups := map[string]*group{}
	for _, o := range failing {
		r := rows[o.idx]
		key, feat, fc, pc := stats.key(r, o)
		g := groups[key]
		if g == nil {
			g = &group{Key: key, Dir: o.dir, Feature: feat, FailSeen: fc, PassSeen: pc}
			groups[key] = g
		}
		g.Rows++
		for _, v := range o.verdicts {
			if (o.dir == "unsound" && v.Idem) || (o.dir == "incomplete" && !v.Idem) || o.dir == "unstable" || v.Panic != "" || (v.Err != "" && v.Idem) {
				g.Texts++
			}
		}
		if len(g.Samples) < 4 {
			g.Samples = append(g.Samples, mkSample(r, o))
		}
	}
	for _, g := range groups {
		if g.Dir == "panic" || g.Dir == "err-but-true" {
			res.Totality = append(res.Totality, g)
		} else {
			res.Groups = append(res.Groups, g)
		}
	}
	sort.Slice(res.Groups, func(i, j int) bool { return res.Groups[i].Key < res.Groups[j].Key })

	// ---- samples of what was explored (one per class, spread over the table)
	for _, cls := range []string{"F", "T", "O"} {
		n := 0
		for i := len(rows) / 3; i < len(rows) && n < 2; i += 1 + len(rows)/97 {
			if rows[i].Cls == cls && outcomes[i].dir == "" {
				res.Samples = append(res.Samples, mkSample(rows[i], &outcomes[i]))
				n++
			}
		}
	}

	// ---- totality on arbitrary bytes
	if *nmut > 0 {
		tg := runMutants(rows, outcomes, *nmut, nw, &res.Mut, hang)
		res.Totality = append(res.Totality, tg...)
	}
	sort.Slice(res.Totality, func(i, j int) bool { return res.Totality[i].Key < res.Totality[j].Key })
	res.WallMs = time.Since(t0).Milliseconds()
	return hutil.WriteJSON(*out, res)
}

func mkSample(r *Row, o *rowOutcome) sample {
	s := sample{Row: r.Ast.String(), Cls: r.Cls, Texts: o.texts}
	for _, w := range r.Wit {
		s.Why = append(s.Why, w.Why)
	}
	anyErr := false
	for _, v := range o.verdicts {
		s.Verdicts = append(s.Verdicts, v.Idem)
		e := v.Err
		if v.Panic != "" {
			e = "PANIC " + v.Panic
		}
		if e != "" {
			anyErr = true
		}
		s.Errs = append(s.Errs, e)
	}
	if !anyErr {
		s.Errs = nil
	}
	return s
}

func countKinds(n *Node, m map[string]int) {
	k := n.K
	switch n.K {
	case "op", "rel", "if", "delop", "batch", "using", "json", "garbage", "truncated", "prim", "bind", "cast", "select", "ddl", "other":
		k += ":" + n.A
	case "fn":
		k += ":" + n.A
		if len(n.C) > 0 {
			k += "/args"
		}
	}
	m[k]++
	for _, c := range n.C {
		countKinds(c, m)
	}
}

func isTerm(n *Node) bool {
	switch n.K {
	case "int", "prim", "bind", "fn", "list", "set", "map", "udt", "tuple", "cast", "colref":
		return true
	}
	return false
}

func termDepth(n *Node) int {
	d := 0
	for _, c := range n.C {
		if x := termDepth(c); x > d {
			d = x
		}
	}
	if isTerm(n) {
		d++
	}
	return d
}

// ---------------------------------------------------------------------------------- classify (replay)

func cmdClassify(args []string) error {
	fs := flag.NewFlagSet("classify", flag.ExitOnError)
	in := fs.String("in", "", "JSON array of strings")
	out := fs.String("out", "-", "result JSON")
	fs.Parse(args)
	b, err := os.ReadFile(*in)
	if err != nil {
		return err
	}
	var texts []string
	if err := json.Unmarshal(b, &texts); err != nil {
		return err
	}
	type one struct {
		Text  string `json:"text"`
		Idem  bool   `json:"idempotent"`
		Err   string `json:"error,omitempty"`
		Panic string `json:"panic,omitempty"`
	}
	var res []one
	for _, t := range texts {
		v := classify(0, t)
		res = append(res, one{t, v.Idem, v.Err, v.Panic})
	}
	return hutil.WriteJSON(*out, res)
}
