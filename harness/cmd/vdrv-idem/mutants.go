package main

// Totality on arbitrary bytes.  There is no TLA+ oracle for a mutant beyond
// `Garbage => not idempotent`: the assertions are (1) the call returns, (2) it does not panic,
// (3) a parse error is never accompanied by `idempotent`.  Both IsQueryIdempotent and
// IsQueryHandled are called.

import (
	"strings"
	"sync"
	"sync/atomic"
	"unicode/utf8"

	"verif/hutil"
)

var inject = []string{"'", "\"", "$", "$$", "(", ")", "[", "]", "{", "}", ":", ";", ".", ",", "?", "-", "+", "=", "<", ">",
	"\x00", "\xff", "\x80", "\xc3", "\xe2\x82", "--", "/*", "*/", "\\", "now()", " IF ", "system.", "0x", "1e", "-", "µs", "P1", "\r", "\n"}

var mutOps = []string{"truncate", "delete-byte", "flip-bit", "random-byte", "inject", "duplicate-slice", "swap", "non-utf8", "nest", "splice", "drop-token"}

func mutate(rnd interface{ Intn(int) int }, s string, other string) (string, string) {
	b := []byte(s)
	op := mutOps[rnd.Intn(len(mutOps))]
	if len(b) == 0 {
		op = "inject"
	}
	switch op {
	case "truncate":
		b = b[:rnd.Intn(len(b))]
	case "delete-byte":
		i := rnd.Intn(len(b))
		b = append(b[:i:i], b[i+1:]...)
	case "flip-bit":
		i := rnd.Intn(len(b))
		b[i] ^= 1 << uint(rnd.Intn(8))
	case "random-byte":
		b[rnd.Intn(len(b))] = byte(rnd.Intn(256))
	case "inject":
		i := rnd.Intn(len(b) + 1)
		x := inject[rnd.Intn(len(inject))]
		b = append(b[:i:i], append([]byte(x), b[i:]...)...)
	case "duplicate-slice":
		i := rnd.Intn(len(b))
		j := i + rnd.Intn(len(b)-i)
		b = append(b[:j:j], append(append([]byte{}, b[i:j]...), b[j:]...)...)
	case "swap":
		i, j := rnd.Intn(len(b)), rnd.Intn(len(b))
		b[i], b[j] = b[j], b[i]
	case "non-utf8":
		i := rnd.Intn(len(b) + 1)
		x := []string{"\xc0\xaf", "\xed\xa0\x80", "\xf8\x88\x80\x80\x80", "\xfe", "\xff\xff", "\xe0\x80"}[rnd.Intn(6)]
		b = append(b[:i:i], append([]byte(x), b[i:]...)...)
	case "nest":
		i := rnd.Intn(len(b) + 1)
		br := []string{"(", "[", "{", "((int)", "f(", "{a:"}[rnd.Intn(6)]
		n := 1 << uint(rnd.Intn(11))
		b = append(b[:i:i], append([]byte(strings.Repeat(br, n)), b[i:]...)...)
	case "splice":
		i := rnd.Intn(len(b) + 1)
		if len(other) > 0 {
			j := rnd.Intn(len(other))
			b = append(b[:i:i], []byte(other[j:])...)
		}
	case "drop-token":
		f := strings.Fields(s)
		if len(f) > 1 {
			i := rnd.Intn(len(f))
			f = append(f[:i:i], f[i+1:]...)
			b = []byte(strings.Join(f, " "))
		}
	}
	return string(b), op
}

func runMutants(rows []*Row, outcomes []rowOutcome, total, nw int, st *mutStats, hang chan string) []*group {
	st.ByOp = map[string]int{}
	per := (total + len(rows) - 1) / len(rows)
	var mu sync.Mutex
	groups := map[string]*group{}
	distinct := map[uint64]struct{}{}
	report := func(key, dir, text, detail string) {
		mu.Lock()
		defer mu.Unlock()
		g := groups[key]
		if g == nil {
			g = &group{Key: key, Dir: dir}
			groups[key] = g
		}
		g.Texts++
		if len(g.Samples) < 4 {
			g.Samples = append(g.Samples, sample{Texts: []string{text}, Errs: []string{detail}})
		}
	}
	var next atomic.Int64
	var wg sync.WaitGroup
	done := make(chan struct{})
	for wk := 0; wk < nw; wk++ {
		wg.Add(1)
		go func(slot int) {
			defer wg.Done()
			local := mutStats{ByOp: map[string]int{}}
			ldist := map[uint64]struct{}{}
			for {
				i := int(next.Add(1)) - 1
				if i >= len(rows) {
					break
				}
				rnd := hutil.NewRand(int64(i)*104729 + 11)
				o := &outcomes[i]
				for m := 0; m < per; m++ {
					base := o.texts[rnd.Intn(len(o.texts))]
					other := outcomes[rnd.Intn(len(outcomes))].texts[0]
					q, op := mutate(rnd, base, other)
					if rnd.Intn(4) == 0 { // second-order mutant
						q, _ = mutate(rnd, q, other)
					}
					local.Mutants++
					local.ByOp[op]++
					ldist[fnv(q)] = struct{}{}
					if !utf8.ValidString(q) {
						local.NonUTF8++
					}
					v := classify(slot, q)
					switch {
					case v.Panic != "":
						report("total:panic:IsQueryIdempotent", "panic", q, v.Panic)
					case v.Err != "" && v.Idem:
						report("total:parse-error-but-idempotent", "err-but-true", q, v.Err)
					case v.Err != "":
						local.ParseErrors++
					case v.Idem:
						local.AcceptedTrue++
					default:
						local.AcceptedFalse++
					}
					if p := handled(slot, q); p != "" {
						report("total:panic:IsQueryHandled", "panic", q, p)
					}
					local.HandledCalls += 2
					if len(local.Samples) < 1 && m == per/2 {
						local.Samples = append(local.Samples, q)
					}
				}
			}
			mu.Lock()
			st.Mutants += local.Mutants
			st.ParseErrors += local.ParseErrors
			st.AcceptedTrue += local.AcceptedTrue
			st.AcceptedFalse += local.AcceptedFalse
			st.NonUTF8 += local.NonUTF8
			st.HandledCalls += local.HandledCalls
			for k, v := range local.ByOp {
				st.ByOp[k] += v
			}
			for k := range ldist {
				distinct[k] = struct{}{}
			}
			if len(st.Samples) < 6 {
				st.Samples = append(st.Samples, local.Samples...)
			}
			mu.Unlock()
		}(wk)
	}
	go func() { wg.Wait(); close(done) }()
	select {
	case <-done:
	case q := <-hang:
		report("total:hang", "hang", q, "call did not return within 20 s")
	}
	st.Distinct = len(distinct)
	var out []*group
	for _, g := range groups {
		out = append(out, g)
	}
	return out
}

func fnv(s string) uint64 {
	h := uint64(14695981039346656037)
	for i := 0; i < len(s); i++ {
		h ^= uint64(s[i])
		h *= 1099511628211
	}
	return h
}
