package main

// Concretiser: abstract sentence -> CQL text.  A spelling fixes keyword / identifier case,
// white space, the terminator, identifier quoting and table qualification; the literals,
// names and operators are drawn from a generator seeded by (VERIF_SEED, row index) so that
// all spellings of one row show the same statement.

import (
	"math/rand"
	"strings"

	"verif/hutil"
)

type spelling struct {
	name      string
	kwcase    int  // 0 upper, 1 lower, 2 mixed
	wild      bool // tabs, newlines, runs of blanks instead of single blanks
	tight     bool // no blanks around punctuation
	semi      int  // 0 none, 1 ";" appended, 2 " ;" plus trailing white space
	quoted    bool // identifiers in double quotes
	qualified bool // keyspace-qualified table
	lead      bool // leading white space
	random    bool // every dimension drawn per row
	comments  bool // CQL comments between tokens (at least two block comments, a line comment at the end)
}

// the dimensions of a spelling, by name (used to say which dimension an unstable answer depends on)
func (sp spelling) dims() map[string]int {
	b := func(x bool) int {
		if x {
			return 1
		}
		return 0
	}
	return map[string]int{"case": sp.kwcase, "whitespace": b(sp.wild), "tight": b(sp.tight), "semicolon": sp.semi,
		"quoted-identifiers": b(sp.quoted), "qualified-table": b(sp.qualified), "leading-blank": b(sp.lead)}
}

// the six fixed spellings vary every dimension, and no two dimensions vary together
var spellings = []spelling{
	{name: "S0:UPPER single-blank", kwcase: 0},
	{name: "S1:lower leading-blank ; qualified", kwcase: 1, semi: 1, qualified: true, lead: true},
	{name: "S2:MiXeD tabs/newlines quoted-identifiers qualified", kwcase: 2, wild: true, quoted: true, qualified: true},
	{name: "S3:UPPER tight ;", kwcase: 0, tight: true, semi: 1},
	{name: "S4:lower tabs/newlines blank-; quoted-identifiers qualified", kwcase: 1, wild: true, semi: 2, quoted: true, qualified: true},
	{name: "S5:MiXeD leading-blank tight quoted-identifiers", kwcase: 2, tight: true, lead: true, quoted: true},
	{name: "S6:random", random: true},
	{name: "S7:random", random: true},
	// comments are white space to a CQL lexer; only soundness is demanded of this spelling (a statement the classifier
	// cannot read with comments in it is merely reported not idempotent)
	{name: "S8:UPPER comments", kwcase: 0, comments: true},
}

type tokKind int

const (
	tWord      tokKind = iota // keyword, identifier, literal: needs a separator from a neighbouring word
	tPunct                    // ( ) [ ] { } , : ; < > ?   may be written tight
	tOp                       // = + - += -= >= ... written with blanks unless tight; always a blank after a binary + or -
	tGlue                     // "." in qualified names: never any blank
	tBindColon                // ":" of a named bind marker: the name follows directly
	tCallParen                // "(" of a function call
)

type tok struct {
	s string
	k tokKind
}

type emitter struct {
	sp     spelling
	toks   []tok
	lit    *rand.Rand // literal / name choices: identical for all spellings of a row
	srnd   *rand.Rand // spelling-only randomness (white space, mixed case)
	blocks int        // block comments written so far (comments spelling)
}

func (e *emitter) cased(w string) string {
	switch e.sp.kwcase {
	case 0:
		return strings.ToUpper(w)
	case 1:
		return strings.ToLower(w)
	}
	b := []byte(strings.ToLower(w))
	for i := range b {
		if e.srnd.Intn(2) == 0 && b[i] >= 'a' && b[i] <= 'z' {
			b[i] -= 32
		}
	}
	return string(b)
}

// keyword(s), blank separated
func (e *emitter) kw(words string) {
	for _, w := range strings.Fields(words) {
		e.toks = append(e.toks, tok{e.cased(w), tWord})
	}
}

// identifier (lower-case name): bare identifiers are case-insensitive, quoted ones are not
func (e *emitter) id(name string) {
	if e.sp.quoted {
		e.toks = append(e.toks, tok{`"` + name + `"`, tWord})
	} else {
		e.toks = append(e.toks, tok{e.cased(name), tWord})
	}
}

func (e *emitter) raw(s string)  { e.toks = append(e.toks, tok{s, tWord}) }
func (e *emitter) p(s string)    { e.toks = append(e.toks, tok{s, tPunct}) }
func (e *emitter) op(s string)   { e.toks = append(e.toks, tok{s, tOp}) }
func (e *emitter) glue(s string) { e.toks = append(e.toks, tok{s, tGlue}) }

func (e *emitter) ws() string {
	if e.sp.comments {
		// (a block comment ends at the first "*/": it does not nest; comment introducers inside another comment mean nothing)
		opts := []string{" ", " ", " /* c */ ", "/**/", " /* a * b / c */ ", " -- note\n", " // note\n", " /* x\n y */ ",
			" /* see /* ticket 12 */ ", " /* -- no */ ", " /* // no */ ", " -- /* open\n", " // */ close\n", " /*/ x */ ", " /* x **/ "}
		o := opts[e.srnd.Intn(len(opts))]
		if strings.HasPrefix(strings.TrimSpace(o), "/*") {
			e.blocks++
		}
		return o
	}
	if !e.sp.wild {
		return " "
	}
	opts := []string{" ", "  ", "\t", "\n", "\r\n", " \n  ", "\t \t", "\n\n"}
	return opts[e.srnd.Intn(len(opts))]
}

func (e *emitter) needSep(prev, t tok) bool {
	switch {
	case t.k == tGlue || prev.k == tGlue || prev.k == tBindColon:
		return false
	case prev.k == tOp && (prev.s == "+" || prev.s == "-"):
		return true // "c -1" would be lexed as the integer -1 by every CQL lexer
	case (t.k == tWord || t.k == tBindColon) && prev.k == tWord:
		return t.k == tWord || !e.sp.tight
	case e.sp.tight:
		return false
	case e.sp.wild:
		return true
	case t.k == tCallParen:
		return false
	case t.k == tPunct && strings.Contains(",)]};:<>", t.s):
		return false
	case (prev.k == tPunct || prev.k == tCallParen) && strings.Contains("([{<", prev.s):
		return false
	}
	return true
}

func (e *emitter) text() string {
	var b strings.Builder
	if e.sp.lead {
		b.WriteString(" \n\t")
	}
	for i, t := range e.toks {
		if i > 0 && e.needSep(e.toks[i-1], t) {
			b.WriteString(e.ws())
		}
		b.WriteString(t.s)
	}
	if e.sp.comments {
		for ; e.blocks < 2; e.blocks++ {
			b.WriteString(" /* tail */")
		}
		b.WriteString(" -- end")
	}
	switch e.sp.semi {
	case 1:
		b.WriteString(";")
	case 2:
		b.WriteString(" ;\n ")
	}
	return b.String()
}

func render(ast *Node, si int, rowIdx int64) (string, spelling) {
	sp := spellings[si]
	srnd := hutil.NewRand(rowIdx*131 + int64(si) + 7)
	if sp.random {
		sp.kwcase = srnd.Intn(3)
		sp.wild = srnd.Intn(2) == 0
		sp.tight = srnd.Intn(2) == 0
		sp.semi = srnd.Intn(3)
		sp.quoted = srnd.Intn(2) == 0
		sp.qualified = srnd.Intn(2) == 0
		sp.lead = srnd.Intn(2) == 0
	}
	e := &emitter{sp: sp, lit: hutil.NewRand(rowIdx*7919 + 3), srnd: srnd}
	if ast.K == "garbage" && (ast.A == "empty" || ast.A == "blank" || ast.A == "semicolon" || ast.A == "binary") {
		switch ast.A {
		case "empty":
			return "", sp
		case "blank":
			return []string{" ", "\t\n", "  \r\n  ", "\n"}[si%4], sp
		case "semicolon":
			return []string{";", " ;", ";;", "\n;\n"}[si%4], sp
		default:
			return []string{"\x00\x01\x02", "\xff\xfe\xfd", "\x80INSERT", "\xc3\x28 UPDATE", "\x00", "\x1b[0m", "\xef\xbb\xbfINSERT INTO t (a) VALUES (1)", " DELETE FROM t"}[si%8], sp
		}
	}
	e.stmt(ast)
	return e.text(), sp
}

func pick(r *rand.Rand, xs ...string) string { return xs[r.Intn(len(xs))] }

func (e *emitter) table() {
	if e.sp.qualified {
		e.id("ks1")
		e.glue(".")
	}
	// (mostly "tbl"; sometimes a name that is also an unreserved keyword of a statement's own grammar)
	e.id(pick(e.lit, "tbl", "tbl", "tbl", "json", "events", "tbl", "json"))
}

func (e *emitter) col() { e.id(pick(e.lit, "k", "v", "c1", "col_a", "data", "x9")) }

func (e *emitter) commaList(n int, f func(i int)) {
	for i := 0; i < n; i++ {
		if i > 0 {
			e.p(",")
		}
		f(i)
	}
}

func (e *emitter) stmt(n *Node) {
	switch n.K {
	case "select":
		switch n.A {
		case "star":
			e.kw("select")
			e.p("*")
			e.kw("from")
			e.table()
		case "where":
			e.kw("select")
			e.col()
			e.p(",")
			e.col()
			e.kw("from")
			e.table()
			e.kw("where")
			e.col()
			e.op("=")
			e.p("?")
			e.kw("and")
			e.col()
			e.kw("in")
			e.p("(")
			e.raw("1")
			e.p(",")
			e.raw("2")
			e.p(")")
			e.kw("limit")
			e.raw("10")
		default:
			e.kw("select")
			e.kw("now")
			e.p("(")
			e.p(")")
			e.kw("from")
			e.id("system")
			e.glue(".")
			e.id("local")
		}
	case "use":
		e.kw("use")
		e.id("ks1")
	case "ddl":
		switch n.A {
		case "create":
			e.kw("create table")
			e.table()
			e.p("(")
			e.id("k")
			e.kw("int primary key")
			e.p(",")
			e.id("v")
			e.kw("text")
			e.p(")")
		case "alter":
			e.kw("alter table")
			e.table()
			e.kw("add")
			e.id("c2")
			e.kw("int")
		default:
			e.kw("drop table")
			e.table()
		}
	case "other":
		switch n.A {
		case "truncate":
			e.kw("truncate")
			e.table()
		case "grant":
			e.kw("grant select on")
			e.table()
			e.kw("to")
			e.id("role1")
		default:
			e.kw("list roles")
		}
	case "garbage":
		e.garbage(n.A)
	case "truncated":
		switch n.A {
		case "update-no-ops":
			e.kw("update")
			e.table()
			e.kw("set")
		case "update-no-where":
			e.kw("update")
			e.table()
			e.kw("set")
			e.col()
			e.op("=")
			e.raw("1")
		case "delete-where-no-relation":
			e.kw("delete from")
			e.table()
			e.kw("where")
		default:
			e.insertHead(1)
			e.raw("1")
			e.p(")")
			e.kw("foo bar")
		}
	case "insert":
		e.insert(n)
	case "update":
		e.update(n)
	case "delete":
		e.delete(n)
	case "batch":
		e.kw("begin")
		switch n.A {
		case "unlogged":
			e.kw("unlogged")
		case "counter":
			e.kw("counter")
		}
		e.kw("batch")
		e.using(n.C[0])
		sep := e.lit.Intn(2) == 0
		for _, c := range n.C[1:] {
			e.stmt(c)
			if sep {
				e.p(";")
			}
		}
		e.kw("apply batch")
	default:
		panic("render: unknown statement kind " + n.K)
	}
}

func (e *emitter) insertHead(ncols int) {
	e.kw("insert into")
	e.table()
	e.p("(")
	e.commaList(ncols, func(int) { e.col() })
	e.p(")")
	e.kw("values")
	e.p("(")
}

func (e *emitter) insert(n *Node) {
	body, ine, using := n.C[0], n.C[1], n.C[2]
	if body.K == "json" {
		e.kw("insert into")
		e.table()
		e.kw("json")
		e.raw(pick(e.lit, `'{"k": 1, "v": "x"}'`, `'{"k": 1, "v": "it''s; now() IF EXISTS"}'`, `'{}'`))
		switch body.A {
		case "default-null":
			e.kw("default null")
		case "default-unset":
			e.kw("default unset")
		}
	} else {
		e.insertHead(len(body.C))
		e.commaList(len(body.C), func(i int) { e.term(body.C[i], false) })
		e.p(")")
	}
	if ine.K == "if" {
		e.kw("if not exists")
	}
	e.using(using)
}

func (e *emitter) using(n *Node) {
	if n.K != "using" {
		return
	}
	e.kw("using")
	switch n.A {
	case "ttl-int":
		e.kw("ttl")
		e.raw(pick(e.lit, "86400", "0", "5"))
	case "ts-int":
		e.kw("timestamp")
		e.raw(pick(e.lit, "1696430000000000", "1"))
	case "ts-bind":
		e.kw("timestamp")
		e.bind(pick(e.lit, "pos", "named"))
	case "ttl-bind-ts-int":
		e.kw("ttl")
		e.bind(pick(e.lit, "pos", "named"))
		e.kw("and timestamp")
		e.raw("1696430000000000")
	default:
		panic("render: using " + n.A)
	}
}

func (e *emitter) bind(a string) {
	if a == "pos" {
		e.p("?")
	} else {
		e.toks = append(e.toks, tok{":", tBindColon})
		e.id(pick(e.lit, "v1", "val", "p_2"))
	}
}

func (e *emitter) update(n *Node) {
	using, ops, where, cond := n.C[0], n.C[1], n.C[2], n.C[3]
	e.kw("update")
	e.table()
	e.using(using)
	e.kw("set")
	e.commaList(len(ops.C), func(i int) { e.updateOp(ops.C[i]) })
	e.where(where)
	e.ifClause(cond)
}

func (e *emitter) updateOp(o *Node) {
	col := pick(e.lit, "v", "c1", "data")
	switch o.A {
	case "assign":
		e.id(col)
		e.op("=")
		e.term(o.C[0], false)
	case "colplus", "colminus":
		e.id(col)
		e.op("=")
		e.id(col)
		if o.A == "colplus" {
			e.op("+")
		} else {
			e.op("-")
		}
		e.term(o.C[0], true)
	case "termpluscol":
		e.id(col)
		e.op("=")
		e.term(o.C[0], true)
		e.op("+")
		e.id(col)
	case "pluseq":
		e.id(col)
		e.op("+=")
		e.term(o.C[0], true)
	case "minuseq":
		e.id(col)
		e.op("-=")
		e.term(o.C[0], true)
	case "idx":
		e.id(col)
		e.p("[")
		e.term(o.C[0], true)
		e.p("]")
		e.op("=")
		e.term(o.C[1], false)
	case "field":
		e.id(col)
		e.glue(".")
		e.id(pick(e.lit, "f1", "street"))
		e.op("=")
		e.term(o.C[0], false)
	default:
		panic("render: op " + o.A)
	}
}

func (e *emitter) where(w *Node) {
	e.kw("where")
	for i, r := range w.C {
		if i > 0 {
			e.kw("and")
		}
		e.rel(r)
	}
}

func (e *emitter) rel(r *Node) {
	cmp := func() { e.op(pick(e.lit, "<", "<=", ">", ">=", "!=")) }
	terms := func(cs []*Node) {
		e.p("(")
		e.commaList(len(cs), func(i int) { e.term(cs[i], false) })
		e.p(")")
	}
	cols2 := func() {
		e.p("(")
		e.id("k")
		e.p(",")
		e.id("c1")
		e.p(")")
	}
	switch r.A {
	case "eq":
		e.col()
		e.op("=")
		e.term(r.C[0], false)
	case "cmp":
		e.col()
		cmp()
		e.term(r.C[0], false)
	case "token":
		e.kw("token")
		e.p("(")
		e.id("k")
		e.p(")")
		cmp()
		e.term(r.C[0], false)
	case "contains":
		e.col()
		e.kw("contains")
		e.term(r.C[0], false)
	case "contains-key":
		e.col()
		e.kw("contains key")
		e.term(r.C[0], false)
	case "like":
		e.col()
		e.kw("like")
		e.term(r.C[0], false)
	case "in":
		e.col()
		e.kw("in")
		terms(r.C)
	case "in-bind-pos":
		e.col()
		e.kw("in")
		e.bind("pos")
	case "in-bind-named":
		e.col()
		e.kw("in")
		e.bind("named")
	case "idx":
		e.col()
		e.p("[")
		e.term(r.C[0], true)
		e.p("]")
		e.op("=")
		e.term(r.C[1], false)
	case "tuple-in":
		cols2()
		e.kw("in")
		terms(r.C)
	case "tuple-in-bind":
		cols2()
		e.kw("in")
		e.bind(pick(e.lit, "pos", "named"))
	case "tuple-cmp":
		cols2()
		cmp()
		terms(r.C)
	case "paren":
		e.p("(")
		e.rel(r.C[0])
		e.p(")")
	default:
		panic("render: rel " + r.A)
	}
}

func (e *emitter) ifClause(c *Node) {
	if c.K != "if" {
		return
	}
	e.kw("if")
	switch c.A {
	case "exists":
		e.kw("exists")
	case "not-exists":
		e.kw("not exists")
	case "cond":
		e.col()
		e.op(pick(e.lit, "=", "!=", ">"))
		e.term(c.C[0], false)
	}
}

func (e *emitter) delete(n *Node) {
	ops, using, where, cond := n.C[0], n.C[1], n.C[2], n.C[3]
	e.kw("delete")
	e.commaList(len(ops.C), func(i int) {
		o := ops.C[i]
		e.id(pick(e.lit, "v", "c1", "data"))
		switch o.A {
		case "idx":
			e.p("[")
			e.term(o.C[0], true)
			e.p("]")
		case "field":
			e.glue(".")
			e.id(pick(e.lit, "f1", "street"))
		}
	})
	e.kw("from")
	e.table()
	e.using(using)
	e.where(where)
	e.ifClause(cond)
}

var prims = map[string][]string{
	"string":   {`'abc'`, `'it''s'`, `''`, `'x; DELETE -- now() IF'`, `'sel"ect'`, `'ünï'`},
	"pgstring": {`$$abc$$`, `$$it's$$`, `$$x y; z$$`},
	"float":    {`1.5`, `-0.25`, `1e10`, `6.02E+23`, `1.0e-3`},
	"bool":     {`true`, `FALSE`, `True`},
	"null":     {`null`, `NULL`},
	"hex":      {`0xCAFE`, `0x00ff`, `0X1a`},
	"uuid":     {`123e4567-e89b-12d3-a456-426614174000`, `00000000-0000-0000-0000-000000000000`, `FFFFFFFF-ABCD-4bcd-89ab-0123456789AB`},
	"duration": {`1h30m`, `12h`, `2mo`, `P1Y2M`, `PT5S`, `-1d`, `1y2mo3w4d5h6m7s8ms9us10ns`},
	"nan":      {`NaN`, `Infinity`, `-Infinity`, `-NaN`, `nan`},
}

// term renders a term; nonneg asks for a non-negative integer filler (index / operand positions)
func (e *emitter) term(n *Node, nonneg bool) {
	switch n.K {
	case "int":
		if nonneg {
			e.raw(pick(e.lit, "1", "0", "42", "2147483648"))
		} else {
			e.raw(pick(e.lit, "1", "0", "42", "-7", "2147483648"))
		}
	case "prim":
		e.raw(pick(e.lit, prims[n.A]...))
	case "bind":
		e.bind(n.A)
	case "colref":
		e.col()
	case "fn":
		q, name := "", n.A
		if i := strings.IndexByte(n.A, '.'); i >= 0 {
			q, name = n.A[:i], n.A[i+1:]
		}
		if name == "other" {
			name = pick(e.lit, "totimestamp", "f", "mintimeuuid", "currenttimestamp", "blobasint")
		}
		switch q {
		case "system":
			e.fnword("system")
			e.glue(".")
		case "user":
			e.fnword("ks1")
			e.glue(".")
		}
		e.fnword(name)
		e.toks = append(e.toks, tok{"(", tCallParen})
		e.commaList(len(n.C), func(i int) { e.term(n.C[i], false) })
		e.p(")")
	case "list":
		e.p("[")
		e.commaList(len(n.C), func(i int) { e.term(n.C[i], false) })
		e.p("]")
	case "set":
		e.p("{")
		e.commaList(len(n.C), func(i int) { e.term(n.C[i], false) })
		e.p("}")
	case "map":
		e.p("{")
		e.commaList(len(n.C)/2, func(i int) {
			e.term(n.C[2*i], false)
			e.p(":")
			e.term(n.C[2*i+1], false)
		})
		e.p("}")
	case "udt":
		e.p("{")
		fields := []string{"f1", "street", "zip", "a"}
		off := e.lit.Intn(len(fields))
		e.commaList(len(n.C), func(i int) {
			e.id(fields[(off+i)%len(fields)])
			e.p(":")
			e.term(n.C[i], false)
		})
		e.p("}")
	case "tuple":
		e.p("(")
		e.commaList(len(n.C), func(i int) { e.term(n.C[i], false) })
		e.p(")")
	case "cast":
		e.p("(")
		if n.A == "simple" {
			e.fnword(pick(e.lit, "int", "text", "timeuuid", "bigint"))
		} else {
			switch e.lit.Intn(3) {
			case 0:
				e.fnword("list")
				e.p("<")
				e.fnword("int")
				e.p(">")
			case 1:
				e.fnword("map")
				e.p("<")
				e.fnword("text")
				e.p(",")
				e.fnword("int")
				e.p(">")
			default:
				e.fnword("frozen")
				e.p("<")
				e.fnword("addr")
				e.p(">")
			}
		}
		e.p(")")
		e.term(n.C[0], false)
	default:
		panic("render: term " + n.K)
	}
}

// function and keyspace names of calls are never quoted here (a quoted name is a different
// spelling of the same function only if it is lower case; we keep them bare and vary the case)
func (e *emitter) fnword(w string) { e.toks = append(e.toks, tok{e.cased(w), tWord}) }

func (e *emitter) garbage(kind string) {
	switch kind {
	case "unknown-verb":
		e.kw(pick(e.lit, "selec", "upsert", "merge", "inser", "deleted", "updat", "begins", "explain"))
		e.p("*")
		e.kw("from")
		e.table()
	case "insert-no-into":
		e.kw("insert")
		e.table()
		e.p("(")
		e.col()
		e.p(")")
		e.kw("values")
		e.p("(")
		e.raw("1")
		e.p(")")
	case "insert-no-table":
		e.kw("insert into")
		e.p("(")
		e.col()
		e.p(")")
		e.kw("values")
		e.p("(")
		e.raw("1")
		e.p(")")
	case "insert-no-values-kw":
		e.kw("insert into")
		e.table()
		e.p("(")
		e.col()
		e.p(")")
		e.p("(")
		e.raw("1")
		e.p(")")
	case "insert-unclosed-values":
		e.insertHead(2)
		e.raw("1")
		e.p(",")
		e.raw("2")
	case "update-no-table":
		e.kw("update set")
		e.col()
		e.op("=")
		e.raw("1")
		e.kw("where")
		e.col()
		e.op("=")
		e.raw("1")
	case "update-no-set-kw":
		e.kw("update")
		e.table()
		e.col()
		e.op("=")
		e.raw("1")
		e.kw("where")
		e.col()
		e.op("=")
		e.raw("1")
	case "update-op-without-operator":
		e.kw("update")
		e.table()
		e.kw("set")
		e.col()
		e.raw("1")
		e.kw("where")
		e.col()
		e.op("=")
		e.raw("1")
	case "delete-no-from":
		e.kw("delete")
		e.col()
		e.table()
		e.kw("where")
		e.col()
		e.op("=")
		e.raw("1")
	case "delete-no-table":
		e.kw("delete from where")
		e.col()
		e.op("=")
		e.raw("1")
	case "batch-no-apply":
		e.kw("begin batch")
		e.insertHead(1)
		e.raw("1")
		e.p(")")
	case "batch-select-child":
		e.kw("begin batch select")
		e.p("*")
		e.kw("from")
		e.table()
		e.kw("apply batch")
	case "unclosed-list":
		e.insertHead(1)
		e.p("[")
		e.raw("1")
		e.p(",")
		e.raw("2")
		e.p(")")
	case "unclosed-set":
		e.kw("update")
		e.table()
		e.kw("set")
		e.col()
		e.op("=")
		e.p("{")
		e.raw("1")
		e.p(",")
		e.raw("2")
		e.kw("where")
		e.col()
		e.op("=")
		e.raw("1")
	case "unclosed-call":
		e.insertHead(1)
		e.fnword("f")
		e.p("(")
		e.raw("1")
		e.p(")") // closes the call; the VALUES list stays open
	case "invalid-token-term":
		e.insertHead(1)
		e.raw(pick(e.lit, "@", "#", "%", "^", "\x01", "`"))
		e.p(")")
	case "unterminated-string":
		e.insertHead(1)
		e.raw("'abc")
		e.p(")")
	default:
		panic("render: garbage " + kind)
	}
}
