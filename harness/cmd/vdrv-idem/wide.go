package main

// Width: Idempotency.tla's verdict of a list of sibling terms is the combination of the verdicts of the terms
// (Compositional), whatever their number.  `wide` renders plain mutations with many sibling terms - literals or bind
// markers in IN lists, column lists, collection literals, tuples, function arguments, batch children - which must be
// idempotent, and the same statements with one now() among the siblings, which must not.

import (
	"flag"
	"fmt"
	"strings"

	"github.com/datastax/cql-proxy/parser"

	"verif/hutil"
)

type wideProbe struct {
	Shape   string `json:"shape"`
	N       int    `json:"n"`
	NonIdem bool   `json:"nonidem_sibling"`
	Bytes   int    `json:"query_bytes"`
	Want    bool   `json:"want"`
	Got     bool   `json:"got"`
	Err     string `json:"err,omitempty"`
	Panic   string `json:"panic,omitempty"`
}

func wideTerms(n int, marker bool, nonIdemAt int) []string {
	out := make([]string, n)
	for i := range out {
		switch {
		case i == nonIdemAt:
			out[i] = "now()"
		case marker:
			out[i] = "?"
		default:
			out[i] = fmt.Sprint(i)
		}
	}
	return out
}

func wideQuery(shape string, n int, nonIdemAt int) string {
	lits := strings.Join(wideTerms(n, false, nonIdemAt), ", ")
	marks := strings.Join(wideTerms(n, true, nonIdemAt), ", ")
	switch shape {
	case "in-literals":
		return "DELETE FROM ks.t WHERE k IN (" + lits + ")"
	case "in-markers":
		return "UPDATE ks.t SET v = 1 WHERE k IN (" + marks + ")"
	case "insert-columns":
		cols := make([]string, n)
		for i := range cols {
			cols[i] = fmt.Sprintf("c%d", i)
		}
		return "INSERT INTO ks.t (" + strings.Join(cols, ", ") + ") VALUES (" + marks + ")"
	case "list-literal":
		return "INSERT INTO ks.t (k, l) VALUES (1, [" + lits + "])"
	case "set-literal":
		return "INSERT INTO ks.t (k, s) VALUES (1, {" + lits + "})"
	case "tuple-literal":
		return "INSERT INTO ks.t (k, t) VALUES (1, (" + lits + "))"
	case "call-args":
		return "INSERT INTO ks.t (k, v) VALUES (1, ks.f(" + lits + "))"
	case "batch-children":
		var b strings.Builder
		b.WriteString("BEGIN BATCH ")
		terms := wideTerms(n, false, nonIdemAt)
		for i := 0; i+5 <= n; i += 5 {
			fmt.Fprintf(&b, "INSERT INTO ks.t (a, b, c, d, e) VALUES (%s); ", strings.Join(terms[i:i+5], ", "))
		}
		b.WriteString("APPLY BATCH")
		return b.String()
	}
	panic("unknown shape " + shape)
}

func cmdWide(args []string) error {
	fs := flag.NewFlagSet("wide", flag.ExitOnError)
	out := fs.String("out", "-", "result")
	_ = fs.Parse(args)
	var probes []wideProbe
	for _, shape := range []string{"in-literals", "in-markers", "insert-columns", "list-literal", "set-literal", "tuple-literal", "call-args", "batch-children"} {
		for _, n := range []int{10, 200, 511, 512, 513, 600, 2000, 20000} {
			if shape == "batch-children" {
				n -= n % 5 // whole children only
			}
			for _, at := range []int{-1, 0, n / 2, n - 1} {
				p := wideProbe{Shape: shape, N: n, NonIdem: at >= 0, Want: at < 0}
				q := wideQuery(shape, n, at)
				p.Bytes = len(q)
				func() {
					defer func() {
						if r := recover(); r != nil {
							p.Panic = fmt.Sprint(r)
						}
					}()
					idem, err := parser.IsQueryIdempotent(q)
					p.Got = idem
					if err != nil {
						p.Err = err.Error()
					}
				}()
				probes = append(probes, p)
			}
		}
	}
	return hutil.WriteJSON(*out, map[string]interface{}{"probes": probes})
}
