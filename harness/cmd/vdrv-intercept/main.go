// vdrv-intercept replays the behaviours exported by TLC from spec/Intercept.tla (C09) into the
// real code:
//
//	(a) function level: every QUERY/PREPARE step, rendered in several spellings, into
//	    parser.IsQueryHandled(parser.IdentifierFromString(ks), text);
//	(b) end to end: the whole behaviour on one client connection of the in-process proxy
//	    (verif/env) in front of the fake backend (verif/fakecql). A step was forwarded iff a
//	    backend frame was received between the client's send and the client's receive (steps of
//	    one proxy run strictly one after the other), answered locally iff the client was answered
//	    without any backend frame. Every frame carries a token in its custom payload; a token of
//	    a step judged local must never show up at the backend, not even later.
//
// The driver does not know the expected verdicts' rule: it compares with the `disp` field of
// the exported steps and reports groups of mismatches.
package main

import (
	"encoding/json"
	"flag"
	"fmt"
	"math/rand"
	"os"
	"sort"
	"strings"
	"sync"
	"time"

	"verif/cqlclient"
	"verif/env"
	"verif/fakecql"
	"verif/hutil"
	"verif/tracer"

	"github.com/datastax/cql-proxy/parser"
	"github.com/datastax/go-cassandra-native-protocol/frame"
	"github.com/datastax/go-cassandra-native-protocol/message"
	"github.com/datastax/go-cassandra-native-protocol/primitive"
)

type Step struct {
	Op    string `json:"op"`
	Role  string `json:"role"`
	Kind  string `json:"kind"`
	Shape string `json:"shape"`
	Pre   string `json:"pre"`
	Qual  string `json:"qual"`
	Table string `json:"table"`
	Post  string `json:"post"`
	Text  string `json:"text"`
	Ks    string `json:"ks"`
	Disp  string `json:"disp"`
	Cc    string `json:"cc"`
	Qc    string `json:"qc"`
	Tc    string `json:"tc"`
	ReqKs string `json:"reqks"` // keyspace carried by the PREPARE itself (protocol DSEv2 / v5), "" = none
}

type Beh struct {
	Cur   string `json:"cur"`
	Via   string `json:"via"`
	Steps []Step `json:"steps"`
}

type Example struct {
	Ks      string `json:"ks"`
	Text    string `json:"text"`
	Variant string `json:"variant,omitempty"`
	Via     string `json:"via,omitempty"`
	Step    int    `json:"step,omitempty"`
	Detail  string `json:"detail,omitempty"`
	Beh     *Beh   `json:"behaviour,omitempty"`
}

type Group struct {
	Stage    string         `json:"stage"` // fn | e2e
	Op       string         `json:"op"`
	Kind     string         `json:"kind"`
	Cc       string         `json:"cc"`
	Qc       string         `json:"qc"`
	Tc       string         `json:"tc"`
	Want     string         `json:"want"`
	Got      string         `json:"got"`
	Count    int            `json:"count"`
	Shapes   map[string]int `json:"shapes"`
	Variants map[string]int `json:"variants"`
	Vias     map[string]int `json:"vias"`
	Examples []Example      `json:"examples"`
}

type groups struct {
	mu sync.Mutex
	m  map[string]*Group
}

func (g *groups) add(stage, op, kind, cc, qc, tc, want, got, shape, variant string, ex Example) {
	k := strings.Join([]string{stage, op, kind, cc, qc, tc, want, got}, "|")
	g.mu.Lock()
	defer g.mu.Unlock()
	if g.m == nil {
		g.m = map[string]*Group{}
	}
	gr := g.m[k]
	if gr == nil {
		gr = &Group{Stage: stage, Op: op, Kind: kind, Cc: cc, Qc: qc, Tc: tc, Want: want, Got: got,
			Shapes: map[string]int{}, Variants: map[string]int{}, Vias: map[string]int{}}
		g.m[k] = gr
	}
	gr.Count++
	gr.Shapes[shape]++
	if variant != "" {
		gr.Variants[variant]++
	}
	if ex.Via != "" {
		gr.Vias[ex.Via]++
	}
	// keep the three most readable examples (fewest quotes, shortest)
	if len(gr.Examples) < 3 {
		gr.Examples = append(gr.Examples, ex)
	} else if worst := len(gr.Examples) - 1; complexity(ex) < complexity(gr.Examples[worst]) {
		gr.Examples[worst] = ex
	}
	sort.SliceStable(gr.Examples, func(i, j int) bool { return complexity(gr.Examples[i]) < complexity(gr.Examples[j]) })
}

func complexity(ex Example) int {
	return 100*strings.Count(ex.Ks+ex.Text, "\"") + 10*strings.Count(ex.Text, "\n") + len(ex.Ks) + len(ex.Text)
}

func (g *groups) list() []*Group {
	g.mu.Lock()
	defer g.mu.Unlock()
	var ks []string
	for k := range g.m {
		ks = append(ks, k)
	}
	sort.Strings(ks)
	out := []*Group{}
	for _, k := range ks {
		out = append(out, g.m[k])
	}
	return out
}

// ---------------------------------------------------------------------------- spellings

// mapOutsideQuotes applies f to every byte outside "..." and '...' sections.
func mapOutsideQuotes(s string, f func(c byte) string) string {
	var b strings.Builder
	var q byte
	for i := 0; i < len(s); i++ {
		c := s[i]
		if q != 0 {
			b.WriteByte(c)
			if c == q {
				q = 0
			}
			continue
		}
		if c == '"' || c == '\'' {
			q = c
			b.WriteByte(c)
			continue
		}
		b.WriteString(f(c))
	}
	return b.String()
}

func ref(st *Step, dot string) string {
	if st.Qual == "" {
		return st.Table
	}
	return st.Qual + dot + st.Table
}

type variant struct{ name, text string }

var spaces = []string{"  ", "\t", "\n", " \r\n ", " \n\t"}

// variants renders a step in spellings that denote the same statement under CQL's lexical
// rules: keyword case, white space between tokens (also around the dot of a qualified name),
// a trailing semicolon. The identifiers of the table reference are never altered.
func variants(st *Step, rnd *rand.Rand) []variant {
	out := []variant{{"canonical", st.Text}}
	lower := func(s string) string {
		return mapOutsideQuotes(s, func(c byte) string { return strings.ToLower(string(c)) })
	}
	upper := func(s string) string {
		return mapOutsideQuotes(s, func(c byte) string { return strings.ToUpper(string(c)) })
	}
	mixed := func(s string) string {
		return mapOutsideQuotes(s, func(c byte) string {
			if rnd.Intn(2) == 0 {
				return strings.ToLower(string(c))
			}
			return strings.ToUpper(string(c))
		})
	}
	space := func(s string) string {
		return mapOutsideQuotes(s, func(c byte) string {
			if c == ' ' {
				return spaces[rnd.Intn(len(spaces))]
			}
			return string(c)
		})
	}
	out = append(out,
		variant{"lowercase", lower(st.Pre) + ref(st, ".") + lower(st.Post)},
		variant{"uppercase", upper(st.Pre) + ref(st, ".") + upper(st.Post)},
		variant{"mixedcase", mixed(st.Pre) + ref(st, ".") + mixed(st.Post)},
		variant{"semicolon", st.Text + ";"},
		variant{"whitespace", " \n" + space(st.Pre) + ref(st, " . ") + space(st.Post) + " ;\n"},
		variant{"whitespace2", "\t" + space(lower(st.Pre)) + ref(st, "\n.\t") + "\n" + space(st.Post)},
	)
	return out
}

// lexical forms that CQL accepts but that are outside the enumerated quantifier of C09
// (comments, a lone carriage return as white space): exercised and reported as observations.
func offStatementVariants(st *Step) []variant {
	return []variant{
		{"block_comment", st.Pre + "/* c */ " + ref(st, ".") + st.Post},
		{"line_comment", st.Pre + "-- c\n" + ref(st, ".") + st.Post},
		{"leading_comment", "/* c */ " + st.Text},
		{"lone_cr", strings.Replace(st.Pre, " ", "\r", 1) + ref(st, ".") + st.Post},
		// comment introducers inside quoted identifiers and string literals are not comments
		{"quoted_alias_dashes", strings.Replace(st.Pre, "*", `count(*) AS "k--v"`, 1) + ref(st, ".") + st.Post},
		{"quoted_alias_slashes", strings.Replace(st.Pre, "*", `count(*) AS "k//v"`, 1) + ref(st, ".") + st.Post},
		{"quoted_alias_block_open", strings.Replace(st.Pre, "*", `count(*) AS "k/*v"`, 1) + ref(st, ".") + st.Post},
		{"quoted_alias_dash_then_comment", strings.Replace(st.Pre, "*", `count(*) AS "dc-1"`, 1) + "/* c */ " + ref(st, ".") + st.Post},
		{"string_literal_dashes", st.Text + " WHERE key = 'a--b'"},
		{"string_literal_block_open", st.Text + " WHERE key = 'x/*y' AND key = '*/'"},
	}
}

func safeHandled(ks, text string) (handled bool, errs string, panicked string) {
	defer func() {
		if r := recover(); r != nil {
			panicked = fmt.Sprint(r)
		}
	}()
	h, _, err := parser.IsQueryHandled(parser.IdentifierFromString(ks), text)
	if err != nil {
		errs = err.Error()
	}
	return h, errs, ""
}

func dispOf(handled bool) string {
	if handled {
		return "local"
	}
	return "forward"
}

// ---------------------------------------------------------------------------- end to end

type worker struct {
	id           int
	e            *env.Env
	t            *tracer.Tracer
	conns        map[int]bool      // backend connection id -> established (its session's own USE, if any, is behind it)
	seenBk       map[string]string // token -> op seen at the backend
	local        map[string]Example
	seq          int
	keyspaces    []string
	failedUses   int
	nbeh         int
	graphPayload bool
	startup      bool // scanning the events of the proxy's start-up
	res          *result
	mis          *groups
}

type result struct {
	mu            sync.Mutex
	Behaviours    int            `json:"behaviours"`
	Ops           int            `json:"ops"`
	Local         int            `json:"local"`
	Forward       int            `json:"forward"`
	NoReply       int            `json:"noreply"`
	Aborted       bool           `json:"aborted"` // too many steps without reply: the run was cut short
	PrepNoID      int            `json:"prepare_answered_with_error_no_execute"`
	MismatchTotal int            `json:"mismatch_total"`
	ViaCounts     map[string]int `json:"via_counts"`
	ReplyKinds    map[string]int `json:"reply_kinds"`  // disposition/op/replykind -> n
	ClassCounts   map[string]int `json:"class_counts"` // op|kind|cc|qc|tc|want -> n
	DoesntExist   int            `json:"doesnt_exist"` // D5b observation: intercepted, answered "Doesn't exist"
	DoesntExistEx []string       `json:"doesnt_exist_examples"`
	NoReplyEx     []Example      `json:"noreply_examples"`
	TokenAnomaly  []Example      `json:"token_anomalies"`
	LateForward   []Example      `json:"late_forward"`
	Samples       []interface{}  `json:"samples"`
}

func keyspacesOf(behs []*Beh) []string {
	set := map[string]bool{}
	for _, b := range behs {
		for i := range b.Steps {
			if b.Steps[i].Kind == "USE" && b.Steps[i].Role != "faileduse" {
				set[fakecql.FoldKeyspace(b.Steps[i].Table)] = true
			}
		}
	}
	var out []string
	for k := range set {
		out = append(out, k)
	}
	sort.Strings(out)
	return out
}

func newWorker(id int, keyspaces []string, res *result, mis *groups) (*worker, error) {
	w := &worker{id: id, keyspaces: keyspaces, res: res, mis: mis}
	if err := w.start(); err != nil {
		return nil, err
	}
	return w, nil
}

// start brings up a fresh fake cluster and proxy for this worker.
func (w *worker) start() error {
	t := tracer.New()
	// clients may speak every version up to DSEv2 (a PREPARE can name its keyspace from DSEv2 / v5 on); the backend too
	e, err := env.Start(env.Options{Nodes: 1, NumConns: 1, Keyspaces: w.keyspaces, Tracer: t,
		MaxVersion: primitive.ProtocolVersionDse2, ClusterMaxVersion: primitive.ProtocolVersionDse2,
		HeartBeat: 30 * time.Minute, Idle: 60 * time.Minute})
	if err != nil {
		return err
	}
	w.e, w.t, w.conns, w.seenBk, w.local, w.failedUses = e, t, map[int]bool{}, map[string]string{}, map[string]Example{}, 0
	// the connections of start-up (control connection, keyspace-less session) never send a USE of their own
	w.startup = true
	w.scan(t.Events(), "")
	w.startup = false
	return nil
}

// recycle replaces the proxy and the backend. Every failed USE leaves a backend connection of
// the proxy open for the life of the process (the session that could not be created does not
// close it), so a long run would exhaust the file descriptors; shutting the fake cluster down
// releases them.
func (w *worker) recycle() error {
	w.finish()
	return w.start()
}

func num(v interface{}) int {
	switch x := v.(type) {
	case int:
		return x
	case int64:
		return int(x)
	case float64:
		return int(x)
	}
	return -1
}

// scan looks at backend events; returns whether a client frame reached the backend among them.
// A session that the proxy creates for a keyspace sends its own USE as the first frame of every
// connection it opens: the first USE on a connection opened after start-up is therefore the
// proxy's own; a USE on an established connection is a forwarded client USE.
func (w *worker) scan(evs []tracer.Event, tok string) (forwarded bool, detail string) {
	for _, ev := range evs {
		switch ev["ev"] {
		case "BackendConn":
			if _, ok := w.conns[num(ev["b"])]; !ok {
				w.conns[num(ev["b"])] = w.startup
			}
		case "BackendRecv":
			t, _ := ev["t"].(string)
			op, _ := ev["op"].(string)
			if t != "" {
				w.seenBk[t] = op
			}
			forwarded = true
			w.conns[num(ev["b"])] = true
			detail = fmt.Sprintf("backend received %s token=%q", op, t)
			if tok != "" && t != tok {
				detail += " (token differs from " + tok + ")"
			}
		case "BackendUse":
			b := num(ev["b"])
			if w.conns[b] {
				forwarded = true
				detail = fmt.Sprintf("backend received USE %v on established connection %d", ev["ks"], b)
			}
			w.conns[b] = true
		}
	}
	return
}

func (w *worker) token() string {
	w.seq++
	return fmt.Sprintf("tok%dw%dn%d;", hutil.Seed()%100000, w.id, w.seq)
}

type opResult struct {
	got    string // local | forward | noreply
	reply  *cqlclient.Recv
	detail string
	tok    string
}

func (w *worker) roundtrip(c *cqlclient.Client, stream int16, msg message.Message) opResult {
	tok := w.token()
	frm := frame.NewFrame(c.Version, stream, msg)
	pl := map[string][]byte{"verif-token": []byte(tok)}
	if w.graphPayload {
		// what DSE graph requests carry; it says nothing about who answers a CQL statement
		pl["graph-source"] = []byte("g")
		pl["graph-language"] = []byte("gremlin-groovy")
	}
	frm.SetCustomPayload(pl)
	n0 := w.t.Len()
	r, err := c.Roundtrip(frm, tok, "c09", 8*time.Second)
	evs := w.t.Events()
	if n0 > len(evs) {
		n0 = len(evs)
	}
	fwd, detail := w.scan(evs[n0:], tok)
	if (err != nil || r == nil) && !fwd && c.IsClosed() {
		// nothing reached the backend and the proxy hung up instead of answering
		return opResult{got: "dropped", detail: fmt.Sprint(err, "; the proxy closed the client's connection; ", detail), tok: tok}
	}
	if err != nil || r == nil {
		return opResult{got: "noreply", detail: fmt.Sprint(err, " ", detail), tok: tok}
	}
	if fwd {
		return opResult{got: "forward", reply: r, detail: detail, tok: tok}
	}
	return opResult{got: "local", reply: r, detail: "answered " + r.Kind + " " + r.ErrMsg + " by the proxy, no client frame reached the backend", tok: tok}
}

func (w *worker) runBehaviour(b *Beh, sample bool) {
	// ingest stray events and start from an empty log
	w.scan(w.t.Events(), "")
	w.t.Reset()
	// every fifth behaviour is sent with the custom payload of a graph request
	w.nbeh++
	w.graphPayload = w.nbeh%5 == 0
	version := primitive.ProtocolVersion4
	for i := range b.Steps {
		if b.Steps[i].ReqKs != "" {
			version = primitive.ProtocolVersionDse2
		}
	}
	if b.Via == "prepare" && w.seq%4 == 0 {
		// every fourth plain PREPARE / EXECUTE behaviour is spoken in DSEv2 too (PREPARED results differ between versions)
		version = primitive.ProtocolVersionDse2
	}
	c, err := w.e.StartedClient(version, "")
	if err != nil {
		w.res.mu.Lock()
		w.res.NoReply++
		w.res.NoReplyEx = append(w.res.NoReplyEx, Example{Detail: "client start: " + err.Error(), Beh: b})
		w.res.mu.Unlock()
		return
	}
	c.Quiet = true
	defer c.Close()
	var prepID, prepMeta []byte
	havePrep := false
	var prepStep *Step
	var trace []map[string]string
	for i := range b.Steps {
		st := &b.Steps[i]
		var msg message.Message
		switch st.Op {
		case "QUERY":
			msg = &message.Query{Query: st.Text, Options: &message.QueryOptions{Consistency: primitive.ConsistencyLevelOne}}
		case "PREPARE":
			msg = &message.Prepare{Query: st.Text, Keyspace: st.ReqKs}
			prepStep = st
		case "EXECUTE":
			if !havePrep {
				w.res.mu.Lock()
				w.res.PrepNoID++
				w.res.mu.Unlock()
				continue
			}
			msg = &message.Execute{QueryId: prepID, ResultMetadataId: prepMeta, Options: &message.QueryOptions{Consistency: primitive.ConsistencyLevelOne}}
		default:
			continue
		}
		r := w.roundtrip(c, int16(i+1), msg)
		if st.Role == "faileduse" {
			w.failedUses++
		}
		cls := st
		if st.Op == "EXECUTE" && prepStep != nil {
			cls = prepStep // the statement was bound to the keyspace at PREPARE time
		}
		rk := ""
		if r.reply != nil {
			rk = r.reply.Kind
			if st.Op == "PREPARE" && r.reply.Frame != nil {
				if p, ok := r.reply.Frame.Body.Message.(*message.PreparedResult); ok {
					prepID, prepMeta, havePrep = p.PreparedQueryId, p.ResultMetadataId, true
				}
			}
		}
		ex := Example{Ks: st.Ks, Text: st.Text, Via: b.Via, Step: i + 1, Detail: r.detail, Beh: b}
		w.res.mu.Lock()
		w.res.Ops++
		switch r.got {
		case "local":
			w.res.Local++
		case "forward":
			w.res.Forward++
		default:
			w.res.NoReply++
			if len(w.res.NoReplyEx) < 5 {
				w.res.NoReplyEx = append(w.res.NoReplyEx, ex)
			}
		}
		w.res.ReplyKinds[r.got+"/"+st.Op+"/"+st.Kind+"/"+rk]++
		w.res.ClassCounts[strings.Join([]string{st.Op, st.Kind, cls.Cc, cls.Qc, cls.Tc, st.Disp}, "|")]++
		if r.got == "local" && r.reply != nil && strings.Contains(r.reply.ErrMsg, "Doesn't exist") {
			w.res.DoesntExist++
			if len(w.res.DoesntExistEx) < 6 {
				w.res.DoesntExistEx = append(w.res.DoesntExistEx, st.Op+" "+st.Text)
			}
		}
		if r.got == "forward" && r.reply != nil && (st.Op == "QUERY" || st.Op == "EXECUTE") && r.reply.Token != r.tok && len(w.res.TokenAnomaly) < 5 {
			w.res.TokenAnomaly = append(w.res.TokenAnomaly, ex)
		}
		w.res.mu.Unlock()
		if r.got == "local" {
			w.local[r.tok] = ex
		}
		if r.got == "dropped" {
			// the statement is the proxy's to answer (or to forward) and it did neither
			w.res.mu.Lock()
			w.res.MismatchTotal++
			w.res.mu.Unlock()
			w.mis.add("e2e", st.Op, st.Kind, cls.Cc, cls.Qc, cls.Tc, st.Disp, r.got, st.Shape, fmt.Sprintf("protocol=%v", c.Version), ex)
			break
		}
		if r.got != "noreply" && r.got != st.Disp {
			w.res.mu.Lock()
			w.res.MismatchTotal++
			w.res.mu.Unlock()
			w.mis.add("e2e", st.Op, st.Kind, cls.Cc, cls.Qc, cls.Tc, st.Disp, r.got, st.Shape, "", ex)
		}
		if sample {
			trace = append(trace, map[string]string{"op": st.Op, "ks": st.Ks, "text": st.Text, "want": st.Disp, "got": r.got, "reply": rk, "seen": r.detail})
		}
		if r.got == "noreply" {
			break
		}
	}
	w.res.mu.Lock()
	w.res.Behaviours++
	w.res.ViaCounts[b.Via]++
	if sample {
		w.res.Samples = append(w.res.Samples, map[string]interface{}{"cur": b.Cur, "via": b.Via, "steps": trace})
	}
	w.res.mu.Unlock()
}

func (w *worker) finish() {
	w.t.Quiesce(50*time.Millisecond, 2*time.Second)
	w.scan(w.t.Events(), "")
	for tok, ex := range w.local {
		if op, ok := w.seenBk[tok]; ok {
			w.res.mu.Lock()
			ex.Detail = "token of a step answered locally was later received by the backend as " + op
			w.res.LateForward = append(w.res.LateForward, ex)
			w.res.mu.Unlock()
		}
	}
	w.e.Close()
}

// ---------------------------------------------------------------------------- main

func sig(b *Beh) string {
	st := &b.Steps[len(b.Steps)-1]
	for i := range b.Steps {
		if b.Steps[i].Role == "stmt" {
			st = &b.Steps[i]
			break
		}
	}
	return strings.Join([]string{b.Via, st.Kind, st.Cc, st.Qc, st.Tc}, "|")
}

func main() {
	in := flag.String("in", "", "behaviours (JSON lines exported by TLC)")
	out := flag.String("out", "-", "result file")
	frac := flag.Float64("e2e", 0.1, "fraction of behaviours replayed end to end")
	nw := flag.Int("workers", 8, "number of proxies run in parallel")
	probe := flag.String("probe", "", "diagnostics: '|'-separated statements sent as QUERY on one connection; prints the event log")
	flag.Parse()
	if *probe != "" {
		runProbe(strings.Split(*probe, "|"))
		return
	}

	var behs []*Beh
	pool := map[string]string{} // the steps repeat a few hundred distinct strings
	intern := func(p *string) {
		if v, ok := pool[*p]; ok {
			*p = v
		} else {
			pool[*p] = *p
		}
	}
	if err := hutil.ReadJSONLines(*in, func(line []byte) error {
		b := &Beh{}
		if err := json.Unmarshal(line, b); err != nil {
			return err
		}
		intern(&b.Cur)
		intern(&b.Via)
		for i := range b.Steps {
			st := &b.Steps[i]
			for _, p := range []*string{&st.Op, &st.Role, &st.Kind, &st.Shape, &st.Pre, &st.Qual, &st.Table, &st.Post, &st.Text, &st.Ks, &st.Disp, &st.Cc, &st.Qc, &st.Tc} {
				intern(p)
			}
		}
		behs = append(behs, b)
		return nil
	}); err != nil {
		fmt.Fprintln(os.Stderr, "vdrv-intercept:", err)
		os.Exit(3)
	}
	if len(behs) == 0 {
		fmt.Fprintln(os.Stderr, "vdrv-intercept: no behaviours")
		os.Exit(3)
	}
	rnd := hutil.NewRand(9)

	// ---- (a) function level
	mis := &groups{}
	obs := &groups{}
	seen := map[string]bool{}
	fnEvals, fnSteps, fnPanics, renderBad := 0, 0, 0, 0
	fnTotals := map[string]map[string]int{} // kind|cc|qc|tc|want -> shape -> evaluations
	fnVariants := map[string]int{}          // variant -> evaluations
	obsTotals := map[string]int{}
	fnSamples := []interface{}{}
	fnNontrivial := 0
	for _, b := range behs {
		for i := range b.Steps {
			st := &b.Steps[i]
			if st.Op != "QUERY" && st.Op != "PREPARE" {
				continue
			}
			if st.Pre+ref(st, ".")+st.Post != st.Text {
				renderBad++
				continue
			}
			if seen[st.Ks+"\x00"+st.Text] {
				continue
			}
			seen[st.Ks+"\x00"+st.Text] = true
			fnSteps++
			if st.Kind == "USE" || st.Tc != "user" || st.Qc == "system" || st.Cc == "system" {
				fnNontrivial++
			}
			ck := strings.Join([]string{st.Kind, st.Cc, st.Qc, st.Tc, st.Disp}, "|")
			if fnTotals[ck] == nil {
				fnTotals[ck] = map[string]int{}
			}
			for _, v := range variants(st, rnd) {
				h, errs, pan := safeHandled(st.Ks, v.text)
				fnEvals++
				fnTotals[ck][st.Shape]++
				fnVariants[v.name]++
				got := dispOf(h)
				if pan != "" {
					fnPanics++
					got = "panic"
				}
				if len(fnSamples) < 6 && fnSteps%997 == 1 && v.name == []string{"whitespace", "mixedcase", "whitespace2", "semicolon", "uppercase", "lowercase"}[(fnSteps/997)%6] {
					fnSamples = append(fnSamples, map[string]string{"ks": st.Ks, "text": v.text, "spelling": v.name, "want": st.Disp, "got": got})
				}
				if got != st.Disp {
					mis.add("fn", "IsQueryHandled", st.Kind, st.Cc, st.Qc, st.Tc, st.Disp, got, st.Shape, v.name,
						Example{Ks: st.Ks, Text: v.text, Variant: v.name, Detail: "IsQueryHandled returned handled=" + fmt.Sprint(h) + " err=" + errs + " " + pan})
				}
			}
			// off-statement lexical forms: only where the expected verdict is "local" or the row
			// is a plain SELECT (observation only)
			if st.Kind == "SELECT" && st.Shape == "star" {
				for _, v := range offStatementVariants(st) {
					h, errs, pan := safeHandled(st.Ks, v.text)
					got := dispOf(h)
					if pan != "" {
						got = "panic"
					}
					obsTotals[v.name]++
					if got != st.Disp {
						obs.add("fn-observation", v.name, st.Kind, st.Cc, st.Qc, st.Tc, st.Disp, got, st.Shape, v.name,
							Example{Ks: st.Ks, Text: v.text, Variant: v.name, Detail: "handled=" + fmt.Sprint(h) + " err=" + errs + " " + pan})
					}
				}
			}
		}
	}

	// ---- (b) end to end
	res := &result{ReplyKinds: map[string]int{}, ViaCounts: map[string]int{}, ClassCounts: map[string]int{}, NoReplyEx: []Example{}, TokenAnomaly: []Example{},
		LateForward: []Example{}, Samples: []interface{}{}, DoesntExistEx: []string{}}
	var chosen []*Beh
	if *frac >= 1 {
		chosen = behs
	} else if *frac > 0 {
		// stratified: at least two behaviours of every (via, kind, classes) signature, then a seeded sample
		bySig := map[string][]*Beh{}
		var sigs []string
		for _, b := range behs {
			s := sig(b)
			if bySig[s] == nil {
				sigs = append(sigs, s)
			}
			bySig[s] = append(bySig[s], b)
		}
		sort.Strings(sigs)
		picked := map[*Beh]bool{}
		for _, s := range sigs {
			l := bySig[s]
			for k := 0; k < 2 && k < len(l); k++ {
				picked[l[rnd.Intn(len(l))]] = true
			}
		}
		for _, b := range behs {
			if rnd.Float64() < *frac || b.Via == "faileduse_query" { // the failed-USE behaviours are few: all of them
				picked[b] = true
			}
		}
		for _, b := range behs {
			if picked[b] {
				chosen = append(chosen, b)
			}
		}
	}
	obsE2E := []interface{}{}
	if len(chosen) > 0 {
		kss := keyspacesOf(behs)
		if *nw < 1 {
			*nw = 1
		}
		var wg sync.WaitGroup
		var startErr error
		var emu sync.Mutex
		for wi := 0; wi < *nw; wi++ {
			w, err := newWorker(wi, kss, res, mis)
			if err != nil {
				fmt.Fprintln(os.Stderr, "vdrv-intercept: start proxy:", err)
				os.Exit(3)
			}
			wg.Add(1)
			go func(wi int, w *worker) {
				defer wg.Done()
				defer func() {
					if r := recover(); r != nil {
						emu.Lock()
						startErr = fmt.Errorf("worker %d: %v", wi, r)
						emu.Unlock()
					}
				}()
				n := 0
				for k := wi; k < len(chosen); k += *nw {
					res.mu.Lock()
					stop := res.NoReply > 12
					if stop {
						res.Aborted = true
					}
					res.mu.Unlock()
					if stop {
						break
					}
					w.runBehaviour(chosen[k], n < 1 && wi < 4)
					n++
					if w.failedUses >= 250 {
						if err := w.recycle(); err != nil {
							panic(err)
						}
					}
				}
				if wi == 0 {
					// observation only: comment spellings of a topology read, end to end
					for _, q := range []string{"SELECT * FROM /* c */ system.peers", "SELECT * FROM -- c\nsystem.local", "/* c */ SELECT * FROM system.peers", "SELECT\r* FROM system.local"} {
						w.scan(w.t.Events(), "")
						w.t.Reset()
						c, err := w.e.StartedClient(primitive.ProtocolVersion4, "")
						if err != nil {
							break
						}
						c.Quiet = true
						r := w.roundtrip(c, 1, &message.Query{Query: q, Options: &message.QueryOptions{Consistency: primitive.ConsistencyLevelOne}})
						c.Close()
						emu.Lock()
						obsE2E = append(obsE2E, map[string]string{"text": q, "got": r.got, "seen": r.detail})
						emu.Unlock()
					}
				}
				w.finish()
			}(wi, w)
		}
		wg.Wait()
		if startErr != nil {
			fmt.Fprintln(os.Stderr, "vdrv-intercept:", startErr)
			os.Exit(3)
		}
	}

	outv := map[string]interface{}{
		"behaviours": len(behs),
		"fn": map[string]interface{}{
			"steps_distinct": fnSteps, "steps_nontrivial": fnNontrivial, "evaluations": fnEvals, "panics": fnPanics, "render_mismatch": renderBad,
			"class_totals": fnTotals, "variant_totals": fnVariants, "samples": fnSamples,
		},
		"e2e":        res,
		"mismatches": mis.list(),
		"observations": map[string]interface{}{
			"totals": obsTotals, "groups": obs.list(), "e2e": obsE2E,
		},
	}
	if err := hutil.WriteJSON(*out, outv); err != nil {
		fmt.Fprintln(os.Stderr, "vdrv-intercept:", err)
		os.Exit(3)
	}
}

// runProbe is a diagnostic aid: it sends the statements one after the other and prints what the
// harness saw.
func runProbe(stmts []string) {
	res := &result{ReplyKinds: map[string]int{}, ViaCounts: map[string]int{}, ClassCounts: map[string]int{}}
	w, err := newWorker(0, []string{"system", "ks1", "Ks1", "System"}, res, &groups{})
	if err != nil {
		fmt.Fprintln(os.Stderr, err)
		os.Exit(3)
	}
	c, err := w.e.StartedClient(primitive.ProtocolVersion4, "")
	if err != nil {
		fmt.Fprintln(os.Stderr, err)
		os.Exit(3)
	}
	for i, q := range stmts {
		t0 := time.Now()
		r := w.roundtrip(c, int16(i+1), &message.Query{Query: q, Options: &message.QueryOptions{Consistency: primitive.ConsistencyLevelOne}})
		fmt.Printf("%q -> %s (%s) in %v\n", q, r.got, r.detail, time.Since(t0))
	}
	time.Sleep(300 * time.Millisecond)
	for _, ev := range w.t.Events() {
		b, _ := json.Marshal(ev)
		fmt.Println(string(b))
	}
	w.e.Close()
}
