// Command vdrv-pending drives the real pending-request table of a backend connection
// (proxycore.pendingRequests, reached through the verif-tagged export VerifPending) from
// concurrent goroutines and records the call / return history that TLC validates against
// spec/Pending.tla (TracePending.tla).
//
// One round: a fresh table with m stream ids; sender goroutines store fresh requests (spinning
// while no id is free, like requests competing for a saturated connection) and hand the id
// they obtained to reader goroutines, which call loadAndDelete for it - the way the reader
// of a backend connection does for every response frame.  Some ids are looked up twice (a
// duplicate frame) or without ever having been handed out (an unsolicited frame).  A round
// ends with a few requests left in the table, a closing() call that must notify exactly
// those, and their removal.
//
// Every event carries a ticket from one atomic counter: the ticket of a Call is taken
// before the call is made, that of a Ret after it has returned, so the order of the tickets
// is consistent with real time.  A store that finds no free id has no effect on the table;
// only a sample of those calls is kept in the history (dropping a call without effect
// cannot make a history acceptable that was not).
package main

import (
	"bufio"
	"encoding/json"
	"flag"
	"fmt"
	"os"
	"runtime"
	"sort"
	"sync"
	"sync/atomic"
	"time"

	"github.com/datastax/cql-proxy/proxycore"
	"github.com/datastax/go-cassandra-native-protocol/frame"

	"verif/hutil"
)

type req struct {
	id     int
	closed *closeLog
}

type closeLog struct {
	mu   sync.Mutex
	seen []int
}

func (r *req) Frame() interface{}       { return nil }
func (r *req) IsPrepareRequest() bool   { return false }
func (r *req) Execute(bool)             {}
func (r *req) OnResult(*frame.RawFrame) {}
func (r *req) OnClose(error) {
	r.closed.mu.Lock()
	r.closed.seen = append(r.closed.seen, r.id)
	r.closed.mu.Unlock()
}

type event struct {
	K    int64  `json:"-"`
	Ev   string `json:"ev"`
	T    int    `json:"t,omitempty"`
	Op   string `json:"op,omitempty"`
	R    *int   `json:"r,omitempty"`
	S    *int   `json:"s,omitempty"`
	M    int    `json:"m,omitempty"`
	Seen []int  `json:"seen,omitempty"`
}

func ip(v int) *int { return &v }

func main() {
	rounds := flag.Int("rounds", 200, "rounds")
	senders := flag.Int("senders", 6, "sender goroutines")
	readers := flag.Int("readers", 2, "reader goroutines")
	per := flag.Int("per", 12, "successful stores per sender and round")
	maxm := flag.Int("maxm", 3, "rounds use 1..maxm stream ids")
	keepFail := flag.Int("keepfail", 4000, "keep one failed store out of this many in the history")
	out := flag.String("out", "", "history (ndjson)")
	stats := flag.String("stats", "", "statistics (json)")
	flag.Parse()
	rnd := hutil.NewRand(77)
	runtime.GOMAXPROCS(runtime.NumCPU())

	f, err := os.Create(*out)
	if err != nil {
		fmt.Fprintln(os.Stderr, err)
		os.Exit(2)
	}
	w := bufio.NewWriterSize(f, 1<<20)
	enc := json.NewEncoder(w)
	var nreq int64
	var total, stores, failed, lads, strays, stalled int
	nthreads := *senders + *readers + 1
	for round := 0; round < *rounds; round++ {
		m := 1 + rnd.Intn(*maxm)
		tab := proxycore.VerifNewPending(int16(m))
		cl := &closeLog{}
		var ticket int64
		logs := make([][]event, nthreads+1)
		handoff := make(chan int, 4*m+8)
		dupEvery := 5 + rnd.Intn(20)
		var wg, rg sync.WaitGroup
		var progress int64
		var stop int32
		start := make(chan struct{})
		for t := 1; t <= *senders; t++ {
			wg.Add(1)
			go func(t int) {
				defer wg.Done()
				<-start
				fails := 0
				for n := 0; n < *per && atomic.LoadInt32(&stop) == 0; {
					r := &req{id: int(atomic.AddInt64(&nreq, 1)), closed: cl}
					k0 := atomic.AddInt64(&ticket, 1)
					s := tab.Store(r)
					k1 := atomic.AddInt64(&ticket, 1)
					if s < 0 {
						fails++
						if fails%*keepFail != 1 {
							continue
						}
					} else {
						n++
						atomic.AddInt64(&progress, 1)
					}
					logs[t] = append(logs[t], event{K: k0, Ev: "Call", T: t, Op: "store", R: ip(r.id)}, event{K: k1, Ev: "Ret", T: t, Op: "store", S: ip(int(s))})
					if s >= 0 {
						handoff <- int(s)
					}
				}
			}(t)
		}
		for i := 0; i < *readers; i++ {
			t := *senders + 1 + i
			rg.Add(1)
			go func(t int, salt int64) {
				defer rg.Done()
				lr := hutil.NewRand(salt)
				n := 0
				for s := range handoff {
					n++
					todo := []int{s}
					if n%dupEvery == 0 {
						// a second frame on the same stream id, or a frame on an id nobody asked about
						if lr.Intn(2) == 0 {
							todo = append(todo, s)
						} else {
							todo = append([]int{lr.Intn(m)}, todo...)
						}
					}
					for _, x := range todo {
						k0 := atomic.AddInt64(&ticket, 1)
						got := tab.LoadAndDelete(int16(x))
						k1 := atomic.AddInt64(&ticket, 1)
						id := 0
						if got != nil {
							id = got.(*req).id
						}
						logs[t] = append(logs[t], event{K: k0, Ev: "Call", T: t, Op: "lad", S: ip(x)}, event{K: k1, Ev: "Ret", T: t, Op: "lad", R: ip(id)})
					}
				}
			}(t, int64(round)*131+int64(i))
		}
		close(start)
		// a table that loses ids makes the senders spin for ever: a round that makes no progress for two seconds is cut
		// short (what was recorded up to then is still a history of the table)
		doneCh := make(chan struct{})
		go func() { wg.Wait(); close(doneCh) }()
		last, idle := int64(-1), 0
	wait:
		for {
			select {
			case <-doneCh:
				break wait
			case <-time.After(100 * time.Millisecond):
				if p := atomic.LoadInt64(&progress); p == last {
					if idle++; idle == 20 {
						atomic.StoreInt32(&stop, 1)
						stalled++
					}
				} else {
					last, idle = p, 0
				}
			}
		}
		close(handoff)
		rg.Wait()
		// the end of the connection: some requests are still in the table, closing() notifies them
		t := nthreads
		var left []int
		for i := 0; i < rnd.Intn(m+1); i++ {
			r := &req{id: int(atomic.AddInt64(&nreq, 1)), closed: cl}
			k0 := atomic.AddInt64(&ticket, 1)
			s := tab.Store(r)
			k1 := atomic.AddInt64(&ticket, 1)
			logs[t] = append(logs[t], event{K: k0, Ev: "Call", T: t, Op: "store", R: ip(r.id)}, event{K: k1, Ev: "Ret", T: t, Op: "store", S: ip(int(s))})
			if s >= 0 {
				left = append(left, int(s))
			}
		}
		k0 := atomic.AddInt64(&ticket, 1)
		tab.Closing(proxycore.Closed)
		k1 := atomic.AddInt64(&ticket, 1)
		seen := append([]int{}, cl.seen...)
		sort.Ints(seen)
		logs[t] = append(logs[t], event{K: k0, Ev: "Call", T: t, Op: "closing"}, event{K: k1, Ev: "Ret", T: t, Op: "closing", Seen: seen})
		for _, s := range left {
			k0 := atomic.AddInt64(&ticket, 1)
			got := tab.LoadAndDelete(int16(s))
			k1 := atomic.AddInt64(&ticket, 1)
			id := 0
			if got != nil {
				id = got.(*req).id
			}
			logs[t] = append(logs[t], event{K: k0, Ev: "Call", T: t, Op: "lad", S: ip(s)}, event{K: k1, Ev: "Ret", T: t, Op: "lad", R: ip(id)})
		}
		var all []event
		for _, l := range logs {
			all = append(all, l...)
		}
		sort.Slice(all, func(i, j int) bool { return all[i].K < all[j].K })
		enc.Encode(event{Ev: "Reset", M: m})
		for _, e := range all {
			if e.Ev == "Ret" && e.Op == "closing" && e.Seen == nil {
				e.Seen = []int{}
			}
			if e.Ev == "Ret" && e.Op == "closing" {
				// omitempty would drop an empty list
				b, _ := json.Marshal(map[string]interface{}{"ev": "Ret", "t": e.T, "op": "closing", "seen": e.Seen})
				w.Write(append(b, '\n'))
			} else {
				enc.Encode(e)
			}
			total++
			switch {
			case e.Ev == "Ret" && e.Op == "store" && *e.S >= 0:
				stores++
			case e.Ev == "Ret" && e.Op == "store":
				failed++
			case e.Ev == "Ret" && e.Op == "lad" && *e.R == 0:
				strays++
			case e.Ev == "Ret" && e.Op == "lad":
				lads++
			}
		}
		total++
		if stalled > 0 {
			// one stalled round is enough: its history goes to TLC
			break
		}
	}
	w.Flush()
	f.Close()
	hutil.WriteJSON(*stats, map[string]interface{}{"rounds": *rounds, "events": total, "stores": stores, "failed_stores_kept": failed,
		"rounds_cut_short": stalled, "loads_found": lads, "loads_empty": strays, "threads": nthreads, "maxid": *maxm - 1})
}
