// vdrv-systables replays the tables exported by TLC from spec/SystemTables.tla (C10) against real
// proxies: for every abstract configuration it starts one in-process proxy per proxy of the
// configuration (all in front of one fake backend), sends the SELECTs of the select table as QUERY
// and as PREPARE+EXECUTE, decodes the rows with the reference datacodec under the advertised column
// types and compares them with the rows the specification demands.
package main

import (
	"bytes"
	"crypto/md5"
	"encoding/hex"
	"encoding/json"
	"flag"
	"fmt"
	"math/big"
	"math/rand"
	"net"
	"net/netip"
	"os"
	"runtime"
	"sort"
	"strconv"
	"strings"
	"sync"
	"time"

	"verif/cqlclient"
	"verif/env"
	"verif/fakecql"
	"verif/hutil"
	"verif/tracer"

	"github.com/datastax/cql-proxy/proxy"
	"github.com/datastax/go-cassandra-native-protocol/datacodec"
	"github.com/datastax/go-cassandra-native-protocol/datatype"
	"github.com/datastax/go-cassandra-native-protocol/frame"
	"github.com/datastax/go-cassandra-native-protocol/message"
	"github.com/datastax/go-cassandra-native-protocol/primitive"
)

// ---------------------------------------------------------------------------- TLC rows

type tokSpec struct {
	Explicit []string `json:"explicit"`
	Rank     int      `json:"rank"`
}

type nodeSpec struct {
	Addr int     `json:"addr"`
	DC   string  `json:"dc"`
	Tok  tokSpec `json:"tok"`
	Hid  int     `json:"hid"`
}

type peerCfg struct {
	RPC    int      `json:"rpc"`
	DC     string   `json:"dc"`
	Tokens []string `json:"tokens"`
}

type proxyCfg struct {
	RPC    int       `json:"rpc"`
	DC     string    `json:"dc"`
	Tokens []string  `json:"tokens"`
	Peers  []peerCfg `json:"peers"`
}

type proxySpec struct {
	Addr   int        `json:"addr"`
	Config proxyCfg   `json:"config"`
	Local  []nodeSpec `json:"local"`
	Peers  []nodeSpec `json:"peers"`
}

type cfgRow struct {
	ID      int         `json:"id"`
	List    []int       `json:"list"`
	Self    int         `json:"self"`
	Dcm     string      `json:"dcm"`
	Tokm    string      `json:"tokm"`
	DSE     bool        `json:"dse"`
	Agree   bool        `json:"agree"`
	Proxies []proxySpec `json:"proxies"`
}

type selector struct {
	K string `json:"k"`
	C string `json:"c"`
}

type outCol struct {
	Name string `json:"name"`
	Src  string `json:"src"`
	Type string `json:"type"`
	Fn   string `json:"fn"`
}

type spelling struct {
	KS string `json:"ks"`
	TS string `json:"ts"`
	CS string `json:"cs"`
	AS string `json:"as"`
	FS string `json:"fs"`
}

type selRow struct {
	ID      int        `json:"id"`
	Table   string     `json:"table"`
	DSE     bool       `json:"dse"`
	Sels    []selector `json:"sels"`
	Sp      spelling   `json:"sp"`
	Out     []outCol   `json:"out"`
	Agg     bool       `json:"agg"`
	Star    bool       `json:"star"`
	Sources []string   `json:"sources"`

	text  string
	feats []string
}

// ---------------------------------------------------------------------------- results

type sample struct {
	CQL    string      `json:"cql,omitempty"`
	Mode   string      `json:"mode,omitempty"`
	Detail string      `json:"detail"`
	Got    interface{} `json:"got,omitempty"`
	Want   interface{} `json:"want,omitempty"`
	Cfg    interface{} `json:"cfg,omitempty"`
	Proxy  string      `json:"proxy,omitempty"`
	SelID  int         `json:"sel_id"`
	CfgID  int         `json:"cfg_id"`
}

type cell struct {
	Pass   int     `json:"pass"`
	Fail   int     `json:"fail"`
	Sample *sample `json:"sample,omitempty"`
	Passed *sample `json:"passed,omitempty"`
}

type results struct {
	mu     sync.Mutex
	Checks map[string]map[string]*cell `json:"checks"`
	Counts map[string]int              `json:"counts"`
	Stars  map[string]map[string]int   `json:"star_orders"`
	Infra  []string                    `json:"infra_errors"`
	Notes  map[string]interface{}      `json:"notes"`
	Sample []interface{}               `json:"samples"`
}

func (r *results) note(check, sig string, ok bool, s func() *sample) {
	r.mu.Lock()
	defer r.mu.Unlock()
	m := r.Checks[check]
	if m == nil {
		m = map[string]*cell{}
		r.Checks[check] = m
	}
	c := m[sig]
	if c == nil {
		c = &cell{}
		m[sig] = c
	}
	if ok {
		c.Pass++
	} else {
		c.Fail++
		if c.Sample == nil && s != nil {
			c.Sample = s()
		}
	}
}

func (r *results) count(k string, n int) {
	r.mu.Lock()
	r.Counts[k] += n
	r.mu.Unlock()
}

func (r *results) infra(s string) {
	r.mu.Lock()
	if len(r.Infra) < 50 {
		r.Infra = append(r.Infra, s)
	}
	r.mu.Unlock()
}

// ---------------------------------------------------------------------------- CQL text

func ident(base, sp string) string {
	switch sp {
	case "upper":
		return strings.ToUpper(base)
	case "quoted":
		return `"` + base + `"`
	}
	return base
}

func fname(base, sp string) string {
	if sp == "upper" {
		return strings.ToUpper(base)
	}
	return base
}

func (s *selRow) render() {
	var parts []string
	kinds := map[string]bool{}
	cols := map[string]bool{}
	for j, sel := range s.Sels {
		alias := fmt.Sprintf("al%d", j+1)
		kinds[sel.K] = true
		if sel.C != "" {
			if sel.K == "count_col" {
				cols["ccol:"+sel.C] = true // argument of count(): not projected
			} else {
				cols["col:"+sel.C] = true
			}
		}
		switch sel.K {
		case "id":
			parts = append(parts, ident(sel.C, s.Sp.CS))
		case "alias":
			parts = append(parts, ident(sel.C, s.Sp.CS)+" AS "+ident(alias, s.Sp.AS))
		case "star":
			parts = append(parts, "*")
		case "count_star":
			parts = append(parts, fname("count", s.Sp.FS)+"(*)")
		case "count_col":
			parts = append(parts, fname("count", s.Sp.FS)+"("+ident(sel.C, s.Sp.CS)+")")
		case "now":
			parts = append(parts, fname("now", s.Sp.FS)+"()")
		case "alias_count_star":
			parts = append(parts, fname("count", s.Sp.FS)+"(*) AS "+ident(alias, s.Sp.AS))
		case "alias_now":
			parts = append(parts, fname("now", s.Sp.FS)+"() AS "+ident(alias, s.Sp.AS))
		default:
			panic("unknown selector kind " + sel.K)
		}
	}
	s.text = "SELECT " + strings.Join(parts, ", ") + " FROM " + ident("system", s.Sp.KS) + "." + ident(s.Table, s.Sp.TS)
	f := []string{"table=" + s.Table, "dse=" + b01(s.DSE), fmt.Sprintf("len=%d", len(s.Sels))}
	if s.Sp.KS != "lower" {
		f = append(f, "kspell="+s.Sp.KS)
	}
	if s.Sp.TS != "lower" {
		f = append(f, "tspell="+s.Sp.TS)
	}
	if s.Sp.CS != "lower" {
		if kinds["id"] || kinds["alias"] {
			f = append(f, "colspell="+s.Sp.CS) // a projected column is written in this spelling
		}
		if kinds["count_col"] {
			f = append(f, "countargspell="+s.Sp.CS)
		}
	}
	if s.Sp.AS != "lower" && (kinds["alias"] || kinds["alias_count_star"] || kinds["alias_now"]) {
		f = append(f, "aliasspell="+s.Sp.AS)
	}
	if s.Sp.FS != "lower" && (kinds["count_star"] || kinds["count_col"] || kinds["now"] || kinds["alias_count_star"] || kinds["alias_now"]) {
		f = append(f, "fspell="+s.Sp.FS)
	}
	for k := range kinds {
		f = append(f, "sel:"+k)
	}
	for c := range cols {
		f = append(f, c)
	}
	sort.Strings(f)
	s.feats = f
}

func b01(b bool) string {
	if b {
		return "1"
	}
	return "0"
}

func sig(feats []string, extra ...string) string {
	f := append(append([]string{}, feats...), extra...)
	sort.Strings(f)
	return strings.Join(f, ",")
}

// ---------------------------------------------------------------------------- concretisation

const backendDC = "backend-dc"

// contact point of the proxies started against a fake backend
var contact = map[*fakecql.Cluster]string{}

const dseVersion = "6.8.9-fake"

// backend-derived facts (what the fake backend's system.local says, see fakecql.localRows)
var backendFacts = map[string]string{
	"backend:release_version": "4.0.0-fake",
	"backend:partitioner":     "org.apache.cassandra.dht.Murmur3Partitioner",
	"backend:cql_version":     "3.4.5",
	"backend:dse_version":     dseVersion,
	// the proxy negotiates protocol version 4 with the fake backend (env default); Cassandra stores
	// the version number as text
	"backend:native_protocol_version": "4",
}

func less16(a, b netip.Addr) bool {
	x, y := a.As16(), b.As16()
	return bytes.Compare(x[:], y[:]) < 0
}

func randV4(r *rand.Rand, prev *netip.Addr) netip.Addr {
	var b [4]byte
	if prev != nil && prev.Is4() && r.Intn(2) == 0 {
		b = prev.As4()
		b[3] = byte(r.Intn(256)) // same /24: 9 vs 10 vs 100 (text order differs from numeric order)
		return netip.AddrFrom4(b)
	}
	b = [4]byte{byte(1 + r.Intn(223)), byte(r.Intn(256)), byte(r.Intn(256)), byte(r.Intn(256))}
	return netip.AddrFrom4(b)
}

func randV6(r *rand.Rand, prev *netip.Addr) netip.Addr {
	var b [16]byte
	switch r.Intn(5) {
	case 0: // low addresses (sort below every IPv4-mapped address)
		b[15] = byte(1 + r.Intn(255))
		b[13] = byte(r.Intn(3))
	case 1: // documentation prefix with zero runs
		b[0], b[1], b[2], b[3] = 0x20, 0x01, 0x0d, 0xb8
		b[15] = byte(1 + r.Intn(255))
		b[7] = byte(r.Intn(4))
	case 2: // unique local
		r.Read(b[:])
		b[0] = 0xfd
	case 3: // neighbour of the previous IPv6 address
		if prev != nil && prev.Is6() {
			b = prev.As16()
			b[15] = byte(r.Intn(256))
			b[14] = byte(r.Intn(2))
			break
		}
		fallthrough
	default:
		r.Read(b[:])
		b[0] = 0x20 | byte(r.Intn(16))
	}
	a := netip.AddrFrom16(b)
	if a.Is4In6() || a.IsUnspecified() {
		b[0] = 0x2a
		a = netip.AddrFrom16(b)
	}
	return a
}

// concretise returns U distinct addresses in increasing 16-byte order (index 1..U).
func concretise(r *rand.Rand, u int, fam string) []netip.Addr {
	seen := map[netip.Addr]bool{}
	var out []netip.Addr
	var prev *netip.Addr
	for len(out) < u {
		var a netip.Addr
		switch fam {
		case "v4":
			a = randV4(r, prev)
		case "v6":
			a = randV6(r, prev)
		default:
			if r.Intn(2) == 0 {
				a = randV4(r, prev)
			} else {
				a = randV6(r, prev)
			}
		}
		if seen[a] {
			continue
		}
		seen[a] = true
		out = append(out, a)
		p := a
		prev = &p
	}
	sort.Slice(out, func(i, j int) bool { return less16(out[i], out[j]) })
	return append([]netip.Addr{{}}, out...)
}

// another spelling of the same address (rpc-address flag vs. list entry)
func respell(a netip.Addr) string {
	if a.Is4() {
		return "::ffff:" + a.String() // the IPv4-mapped IPv6 literal of an IPv4 address
	}
	b := a.As16()
	var parts []string
	for i := 0; i < 16; i += 2 {
		parts = append(parts, fmt.Sprintf("%04X", int(b[i])<<8|int(b[i+1])))
	}
	return strings.Join(parts, ":")
}

// hostID is the version-3 (MD5, name-based) UUID of the address text.
func hostID(text string) string {
	h := md5.Sum([]byte(text))
	h[6] = (h[6] & 0x0f) | 0x30
	h[8] = (h[8] & 0x3f) | 0x80
	return hex.EncodeToString(h[:])
}

type cnode struct {
	addr   netip.Addr
	dc     string // "ANY" = not asserted
	tokens []string
	rank   int // > 0: computed tokens, position in address order
	hid    string
}

type ccfg struct {
	row    *cfgRow
	addrs  []netip.Addr // index = abstract address
	tokens map[string]string
	fam    string
	respl  bool
	feats  []string
}

func (c *ccfg) tok(name string) string { return c.tokens[name] }

func (c *ccfg) toks(names []string) []string {
	var out []string
	for _, n := range names {
		out = append(out, c.tok(n))
	}
	return out
}

func (c *ccfg) dc(s string) string {
	if s == "BACKEND_DC" {
		return backendDC
	}
	return s
}

func (c *ccfg) node(n nodeSpec, listen netip.Addr) cnode {
	a := listen
	if n.Addr != 0 {
		a = c.addrs[n.Addr]
	}
	out := cnode{addr: a, dc: c.dc(n.DC), rank: n.Tok.Rank, hid: hostID(a.String())}
	if n.Tok.Rank == 0 {
		out.tokens = c.toks(n.Tok.Explicit)
		sort.Strings(out.tokens)
	}
	return out
}

func newCcfg(row *cfgRow, r *rand.Rand) *ccfg {
	u := row.Self
	for _, a := range row.List {
		if a > u {
			u = a
		}
	}
	fam := []string{"v4", "v6", "mixed", "mixed"}[r.Intn(4)]
	c := &ccfg{row: row, fam: fam, tokens: map[string]string{}}
	c.addrs = concretise(r, u, fam)
	c.respl = r.Intn(4) == 0
	names := map[string]bool{}
	for _, p := range row.Proxies {
		for _, t := range p.Config.Tokens {
			names[t] = true
		}
		for _, pe := range p.Config.Peers {
			for _, t := range pe.Tokens {
				names[t] = true
			}
		}
	}
	var sorted []string
	for n := range names {
		sorted = append(sorted, n)
	}
	sort.Strings(sorted)
	used := map[string]bool{}
	for _, n := range sorted {
		for {
			v := strconv.FormatInt(int64(r.Uint64()), 10)
			if !used[v] {
				used[v] = true
				c.tokens[n] = v
				break
			}
		}
	}
	role := "selfin"
	if row.Self != 0 {
		role = "outsider"
	} else if len(row.List) == 0 {
		role = "norpc"
	}
	n := len(row.List)
	ncls := strconv.Itoa(n)
	if n > 5 {
		ncls = "big"
	}
	order := "sorted"
	for i := 1; i < n; i++ {
		if row.List[i] < row.List[i-1] {
			order = "unsorted"
		}
	}
	c.feats = []string{"role=" + role, "dcm=" + row.Dcm, "tokm=" + row.Tokm, "n=" + ncls, "order=" + order,
		"fam=" + fam, "dse=" + b01(row.DSE)}
	if c.respl {
		c.feats = append(c.feats, "rpcspell=other") // rpc-address flag spelled differently from the list entry
	}
	return c
}

// proxyFeats describes the position of proxy ps in its configuration: the sequence "own address,
// then the list entries other than itself" and where the own address lies in address order.
func proxyFeats(row *cfgRow, ps *proxySpec) []string {
	seq := []int{ps.Addr}
	for _, a := range row.List {
		if a != ps.Addr {
			seq = append(seq, a)
		}
	}
	order := "sorted"
	pos := "first"
	for i := 1; i < len(seq); i++ {
		if seq[i] < seq[i-1] {
			order = "unsorted"
		}
		if seq[i] < ps.Addr {
			pos = "notfirst"
		}
	}
	m := len(seq)
	nodes := strconv.Itoa(m)
	if m > 6 {
		nodes = "big"
	}
	multi := "0"
	if m > 1 {
		multi = "1"
	}
	return []string{"nodeorder=" + order, "selfpos=" + pos, "nodes=" + nodes, "multi=" + multi}
}

func (c *ccfg) describe() map[string]interface{} {
	var list []string
	for _, a := range c.row.List {
		list = append(list, c.addrs[a].String())
	}
	self := ""
	if c.row.Self != 0 {
		self = c.addrs[c.row.Self].String()
	}
	return map[string]interface{}{"abstract_list": c.row.List, "abstract_self": c.row.Self, "dcm": c.row.Dcm, "tokm": c.row.Tokm,
		"dse": c.row.DSE, "list": list, "outsider": self, "features": c.feats}
}

// ---------------------------------------------------------------------------- decoding

func typeName(dt datatype.DataType) string {
	if dt == nil {
		return "nil"
	}
	return strings.ReplaceAll(dt.AsCql(), " ", "")
}

// decode returns a canonical text of the value decoded by the reference codec under dt.
func decode(dt datatype.DataType, b []byte, v primitive.ProtocolVersion) (text string, err error) {
	if b == nil {
		return "null", nil
	}
	defer func() {
		// the reference codec panics on some malformed values (a negative collection length): a value that does not
		// decode, not a fault of the driver
		if r := recover(); r != nil {
			text, err = "", fmt.Errorf("reference codec panicked on %d bytes under %s: %v", len(b), typeName(dt), r)
		}
	}()
	codec, err := datacodec.NewCodec(dt)
	if err != nil {
		return "", err
	}
	switch dt.Code() {
	case primitive.DataTypeCodeVarchar, primitive.DataTypeCodeAscii:
		var s string
		if _, err := codec.Decode(b, &s, v); err != nil {
			return "", err
		}
		return s, nil
	case primitive.DataTypeCodeInet:
		var ip net.IP
		if _, err := codec.Decode(b, &ip, v); err != nil {
			return "", err
		}
		a, ok := netip.AddrFromSlice(ip)
		if !ok {
			return "", fmt.Errorf("inet of %d bytes", len(ip))
		}
		return a.Unmap().String(), nil
	case primitive.DataTypeCodeUuid, primitive.DataTypeCodeTimeuuid:
		var u primitive.UUID
		if _, err := codec.Decode(b, &u, v); err != nil {
			return "", err
		}
		return hex.EncodeToString(u[:]), nil
	case primitive.DataTypeCodeInt:
		var i int32
		if _, err := codec.Decode(b, &i, v); err != nil {
			return "", err
		}
		return strconv.Itoa(int(i)), nil
	case primitive.DataTypeCodeBigint, primitive.DataTypeCodeCounter:
		var i int64
		if _, err := codec.Decode(b, &i, v); err != nil {
			return "", err
		}
		return strconv.FormatInt(i, 10), nil
	case primitive.DataTypeCodeSet, primitive.DataTypeCodeList:
		// every element costs at least its 4-byte length: a count beyond that is no collection (and the reference codec
		// would allocate it before noticing)
		if len(b) < 4 {
			return "", fmt.Errorf("collection of %d bytes", len(b))
		}
		if n := int32(uint32(b[0])<<24 | uint32(b[1])<<16 | uint32(b[2])<<8 | uint32(b[3])); n < 0 || int(n) > (len(b)-4)/4 {
			return "", fmt.Errorf("collection announces %d elements in %d bytes", n, len(b))
		}
		var l []*string
		if _, err := codec.Decode(b, &l, v); err != nil {
			return "", err
		}
		var out []string
		for _, s := range l {
			if s == nil {
				out = append(out, "null")
			} else {
				out = append(out, *s)
			}
		}
		if dt.Code() == primitive.DataTypeCodeSet {
			sort.Strings(out)
		}
		return "{" + strings.Join(out, ",") + "}", nil
	}
	if len(b) > 1<<20 {
		return "", fmt.Errorf("value of %d bytes under %s", len(b), typeName(dt))
	}
	var dest interface{}
	if _, err := codec.Decode(b, &dest, v); err != nil {
		return "", err
	}
	return fmt.Sprint(dest), nil
}

func tokensText(t []string) string {
	s := append([]string{}, t...)
	sort.Strings(s)
	return "{" + strings.Join(s, ",") + "}"
}

// ---------------------------------------------------------------------------- one proxy

type obsRows struct {
	cols  []*message.ColumnMetadata
	vals  [][]string // decoded canonical texts
	derr  string     // first decode error
	nrows int
}

type runner struct {
	res      *results
	cc       *ccfg
	ps       *proxySpec
	e        *env.Env
	cl       *cqlclient.Client
	listen   netip.Addr
	stream   int16
	local    cnode
	peers    []cnode
	tokOf    map[netip.Addr]string // tokens text from this proxy's star views
	starOK   bool
	ringView map[string]string // addr -> "dc|tokens|hid"
	feats    []string          // configuration features + features of this proxy's position
}

func (r *runner) next() int16 {
	r.stream = (r.stream + 1) % 30000
	return r.stream
}

func (r *runner) roundtrip(msg message.Message) (*cqlclient.Recv, error) {
	frm := frame.NewFrame(primitive.ProtocolVersion4, r.next(), msg)
	return r.cl.Roundtrip(frm, "", "c10", 20*time.Second)
}

// dropped: a read of a virtual table was not answered and the proxy has closed the client's connection - that is an
// observation about the proxy (the read must be answered with its rows), not a failure of the harness.  The runner
// goes on with a new connection.
func (r *runner) dropped(s *selRow, mode, ssig string) bool {
	if !r.cl.IsClosed() {
		return false
	}
	r.res.note("reply", ssig, false, r.sample(s, mode, "no answer: the proxy closed the client's connection", "connection closed", "rows"))
	if cl, err := r.e.StartedClient(primitive.ProtocolVersion4, ""); err == nil {
		cl.Quiet = true
		r.cl = cl
	}
	return true
}

func (r *runner) sample(s *selRow, mode, detail string, got, want interface{}) func() *sample {
	return func() *sample {
		return &sample{CQL: s.text, Mode: mode, Detail: detail, Got: got, Want: want, Cfg: r.cc.describe(),
			Proxy: r.proxyName(), SelID: s.ID, CfgID: r.cc.row.ID}
	}
}

func (r *runner) proxyName() string {
	if r.ps.Addr == 0 {
		return "(no rpc-address) " + r.listen.String()
	}
	return r.cc.addrs[r.ps.Addr].String()
}

func colsOf(cols []*message.ColumnMetadata) []string {
	var out []string
	for _, c := range cols {
		out = append(out, c.Name+":"+typeName(c.Type))
	}
	return out
}

// checkColumns compares advertised column metadata with the specification's projection.
func (r *runner) checkColumns(s *selRow, mode, check string, cols []*message.ColumnMetadata) bool {
	ssig := sig(s.feats, "mode="+mode)
	ok := true
	var why string
	if s.Star {
		want := map[string]string{}
		for _, o := range s.Out {
			want[o.Name] = o.Type
		}
		seen := map[string]bool{}
		for _, c := range cols {
			if _, in := want[c.Name]; !in || seen[c.Name] {
				ok, why = false, "unexpected or repeated column "+c.Name
			}
			seen[c.Name] = true
		}
		for n := range want {
			if !seen[n] {
				ok, why = false, "column "+n+" missing from *"
			}
		}
	} else {
		if len(cols) != len(s.Out) {
			ok, why = false, fmt.Sprintf("%d columns for %d selectors", len(cols), len(s.Out))
		} else {
			for j, o := range s.Out {
				if o.Name != "" && cols[j].Name != o.Name {
					ok, why = false, fmt.Sprintf("column %d is named %q, expected %q", j+1, cols[j].Name, o.Name)
					break
				}
			}
		}
	}
	var wantNames []string
	for _, o := range s.Out {
		n := o.Name
		if n == "" {
			n = "<" + o.Fn + ">"
		}
		wantNames = append(wantNames, n+":"+o.Type)
	}
	r.res.note(check, ssig, ok, r.sample(s, mode, why, colsOf(cols), wantNames))
	if !ok {
		return false
	}
	// types
	tok := true
	if s.Star {
		want := map[string]string{}
		for _, o := range s.Out {
			want[o.Name] = o.Type
		}
		for _, c := range cols {
			if typeName(c.Type) != want[c.Name] {
				tok, why = false, fmt.Sprintf("column %s advertised as %s, expected %s", c.Name, typeName(c.Type), want[c.Name])
			}
		}
	} else {
		for j, o := range s.Out {
			if o.Type != "" && typeName(cols[j].Type) != o.Type {
				tok, why = false, fmt.Sprintf("column %s advertised as %s, expected %s", cols[j].Name, typeName(cols[j].Type), o.Type)
			}
		}
	}
	r.res.note("types", ssig, tok, r.sample(s, mode, why, colsOf(cols), wantNames))
	return tok
}

func (r *runner) decodeRows(rr *message.RowsResult) *obsRows {
	o := &obsRows{cols: rr.Metadata.Columns, nrows: len(rr.Data)}
	for _, row := range rr.Data {
		var vals []string
		if len(row) != len(o.cols) {
			o.derr = fmt.Sprintf("row with %d values for %d columns", len(row), len(o.cols))
			return o
		}
		for j, b := range row {
			t, err := decode(o.cols[j].Type, b, primitive.ProtocolVersion4)
			if err != nil {
				o.derr = fmt.Sprintf("column %s (%s): %v (bytes %x)", o.cols[j].Name, typeName(o.cols[j].Type), err, b)
				return o
			}
			vals = append(vals, t)
		}
		o.vals = append(o.vals, vals)
	}
	return o
}

// expected value of source src for node n; ok=false: nothing asserted beyond non-null
func (r *runner) expected(table, src string, n cnode) (string, bool) {
	switch src {
	case "const:local":
		return "local", true
	case "node:addr":
		return n.addr.String(), true
	case "node:dc":
		if n.dc == "ANY" {
			return "", false
		}
		return n.dc, true
	case "node:hostid":
		return n.hid, true
	case "node:tokens":
		if n.rank == 0 {
			return tokensText(n.tokens), true
		}
		if t, ok := r.tokOf[n.addr]; ok && r.starOK {
			return t, true
		}
		return "", false
	case "any":
		return "", false
	}
	if v, ok := backendFacts[src]; ok {
		return v, true
	}
	panic("unknown source " + src)
}

func (r *runner) table(table string) []cnode {
	if table == "local" {
		return []cnode{r.local}
	}
	return r.peers
}

// checkValues compares decoded rows with the specification's rows.
func (r *runner) checkValues(s *selRow, mode string, o *obsRows) {
	csig := sig(r.feats, "table="+s.Table, "mode="+mode)
	nodes := r.table(s.Table)
	// map output position -> (src column name, source)
	type pos struct{ col, source, fn string }
	var ps []pos
	if s.Star {
		byName := map[string]int{}
		for i, oc := range s.Out {
			byName[oc.Name] = i
		}
		for _, c := range o.cols {
			i := byName[c.Name]
			ps = append(ps, pos{s.Out[i].Src, s.Sources[i], ""})
		}
	} else {
		for i, oc := range s.Out {
			ps = append(ps, pos{oc.Src, s.Sources[i], oc.Fn})
		}
	}
	if s.Agg {
		// only the value of the aggregate is asserted
		if o.nrows == 0 {
			r.res.count("aggregate_selects_answered_with_zero_rows", 1)
		}
		for _, vals := range o.vals {
			for j, p := range ps {
				if p.fn == "count" {
					want := strconv.Itoa(len(nodes))
					ok := vals[j] == want
					r.res.note("count", csig, ok, r.sample(s, mode, "count(...) differs from the number of rows of the table", vals[j], want))
					r.res.count("count_values_compared", 1)
				}
			}
		}
	} else {
		ok := o.nrows == len(nodes)
		r.res.note("rowcount", csig, ok, r.sample(s, mode, "number of rows", o.nrows, len(nodes)))
		r.res.count("rowcounts_compared", 1)
		if ok {
			r.compareRows(s, mode, o, nodes, func(j int) (string, string) { return ps[j].col, ps[j].source }, len(ps))
		}
	}
	// now(): a version-1 UUID, not null
	for _, vals := range o.vals {
		for j, p := range ps {
			if p.fn == "now" {
				v := vals[j]
				ok := len(v) == 32 && v[12] == '1' && strings.ContainsRune("89ab", rune(v[16]))
				r.res.note("now", sig(s.feats, "mode="+mode), ok, r.sample(s, mode, "now() is not a version-1 (time-based) UUID", v, "xxxxxxxx-xxxx-1xxx-[89ab]xxx-..."))
				r.res.count("now_values_checked", 1)
			}
		}
	}
}

func (r *runner) compareRows(s *selRow, mode string, o *obsRows, nodes []cnode, at func(j int) (string, string), ncols int) {
	csig := sig(r.feats, "table="+s.Table, "mode="+mode)
	// identifying column?
	idcol := -1
	for j := 0; j < ncols; j++ {
		_, src := at(j)
		if src == "node:addr" || src == "node:hostid" {
			idcol = j
			break
		}
	}
	cmp := func(col, src string, got string, n cnode) {
		if src == "" {
			return
		}
		want, asserted := r.expected(s.Table, src, n)
		name := "value:" + s.Table + "." + col
		if !asserted {
			ok := got != "null"
			r.res.note("notnull:"+s.Table+"."+col, csig, ok, r.sample(s, mode, "null value", got, "a non-null value"))
			r.res.count("values_checked_not_null", 1)
			return
		}
		r.res.note(name, csig, got == want, r.sample(s, mode, "row of "+n.addr.String(), got, want))
		r.res.count("values_compared", 1)
	}
	if len(nodes) == 1 {
		for j := 0; j < ncols; j++ {
			col, src := at(j)
			cmp(col, src, o.vals[0][j], nodes[0])
		}
		return
	}
	if idcol >= 0 {
		_, src := at(idcol)
		by := map[string]cnode{}
		for _, n := range nodes {
			k, _ := r.expected(s.Table, src, n)
			by[k] = n
		}
		seen := map[string]bool{}
		okSet := true
		var gotKeys, wantKeys []string
		for k := range by {
			wantKeys = append(wantKeys, k)
		}
		sort.Strings(wantKeys)
		for _, vals := range o.vals {
			k := vals[idcol]
			gotKeys = append(gotKeys, k)
			if _, in := by[k]; !in || seen[k] {
				okSet = false
			}
			seen[k] = true
		}
		r.res.note("rowset:"+s.Table, csig, okSet, r.sample(s, mode, "rows do not identify exactly the expected nodes", gotKeys, wantKeys))
		if !okSet {
			return
		}
		for _, vals := range o.vals {
			n := by[vals[idcol]]
			for j := 0; j < ncols; j++ {
				col, src := at(j)
				cmp(col, src, vals[j], n)
			}
		}
		return
	}
	// no identifying column: compare every column as a multiset
	for j := 0; j < ncols; j++ {
		col, src := at(j)
		if src == "" {
			continue
		}
		var got, want []string
		free := 0
		for _, n := range nodes {
			w, asserted := r.expected(s.Table, src, n)
			if asserted {
				want = append(want, w)
			} else {
				free++
			}
		}
		for _, vals := range o.vals {
			got = append(got, vals[j])
		}
		sort.Strings(got)
		sort.Strings(want)
		// every asserted value must be matched by a distinct observed value; `free` observed values may be anything non-null
		rest := append([]string{}, got...)
		ok := true
		for _, w := range want {
			i := sort.SearchStrings(rest, w)
			if i < len(rest) && rest[i] == w {
				rest = append(rest[:i], rest[i+1:]...)
			} else {
				ok = false
			}
		}
		if len(rest) != free {
			ok = false
		}
		for _, v := range rest {
			if v == "null" {
				ok = false
			}
		}
		name := "value:" + s.Table + "." + col
		if len(want) == 0 {
			name = "notnull:" + s.Table + "." + col
			r.res.count("values_checked_not_null", len(got))
		} else {
			r.res.count("values_compared", len(got))
		}
		r.res.note(name, csig, ok, r.sample(s, mode, "column values as a multiset", got, want))
	}
}

// rows runs the common part of QUERY and EXECUTE result checking.
func (r *runner) rows(s *selRow, mode string, rv *cqlclient.Recv, err error) *obsRows {
	ssig := sig(s.feats, "mode="+mode)
	if err != nil {
		if r.dropped(s, mode, ssig) {
			return nil
		}
		r.res.infra(fmt.Sprintf("%s %q on %s: %v", mode, s.text, r.proxyName(), err))
		return nil
	}
	var rr *message.RowsResult
	if rv.Frame != nil {
		rr, _ = rv.Frame.Body.Message.(*message.RowsResult)
	}
	detail := ""
	if rr == nil {
		detail = fmt.Sprintf("answered with %s %q", rv.Kind, rv.ErrMsg)
		if !rv.DecodeOK {
			detail = "reply frame cannot be decoded by the reference codec (opcode " + rv.Header.OpCode.String() + ")"
		}
	}
	r.res.note("reply", ssig, rr != nil, r.sample(s, mode, detail, rv.Kind, "rows"))
	if rr == nil || rr.Metadata == nil {
		return nil
	}
	if !r.checkColumns(s, mode, "columns", rr.Metadata.Columns) {
		return nil
	}
	o := r.decodeRows(rr)
	r.res.note("decode", ssig, o.derr == "", r.sample(s, mode, o.derr, nil, "every value decodes under the advertised type"))
	if o.derr != "" {
		return nil
	}
	r.res.count("rows_decoded", o.nrows)
	if s.Star {
		var names []string
		for _, c := range o.cols {
			names = append(names, c.Name)
		}
		k := s.Table + "/dse=" + b01(s.DSE)
		r.res.mu.Lock()
		if r.res.Stars[k] == nil {
			r.res.Stars[k] = map[string]int{}
		}
		r.res.Stars[k][strings.Join(names, ",")]++
		r.res.mu.Unlock()
	}
	return o
}

func (r *runner) runSelect(s *selRow, valueChecks bool) (q *obsRows) {
	// QUERY
	rv, err := r.roundtrip(&message.Query{Query: s.text, Options: &message.QueryOptions{Consistency: primitive.ConsistencyLevelOne}})
	q = r.rows(s, "query", rv, err)
	r.res.count("selects_query", 1)
	if q != nil && valueChecks {
		r.checkValues(s, "query", q)
	}
	// PREPARE + EXECUTE
	rv, err = r.roundtrip(&message.Prepare{Query: s.text})
	r.res.count("selects_prepare", 1)
	if err != nil {
		if r.dropped(s, "prepare", sig(s.feats, "mode=prepare")) {
			return
		}
		r.res.infra(fmt.Sprintf("prepare %q on %s: %v", s.text, r.proxyName(), err))
		return
	}
	psig := sig(s.feats, "mode=prepare")
	var pr *message.PreparedResult
	if rv.Frame != nil {
		pr, _ = rv.Frame.Body.Message.(*message.PreparedResult)
	}
	detail := ""
	if pr == nil {
		detail = fmt.Sprintf("answered with %s %q", rv.Kind, rv.ErrMsg)
		if !rv.DecodeOK {
			detail = "reply frame cannot be decoded by the reference codec (opcode " + rv.Header.OpCode.String() + ")"
		}
	}
	r.res.note("reply", psig, pr != nil, r.sample(s, "prepare", detail, rv.Kind, "prepared"))
	if pr == nil {
		return
	}
	var pcols []*message.ColumnMetadata
	if pr.ResultMetadata != nil {
		pcols = pr.ResultMetadata.Columns
	}
	pmOK := r.checkColumns(s, "prepare", "columns", pcols)
	rv, err = r.roundtrip(&message.Execute{QueryId: pr.PreparedQueryId, Options: &message.QueryOptions{Consistency: primitive.ConsistencyLevelOne}})
	r.res.count("selects_execute", 1)
	x := r.rows(s, "execute", rv, err)
	if x != nil {
		// the metadata announced by PREPARE is what a client uses to decode EXECUTE results
		same := strings.Join(colsOf(pcols), ",") == strings.Join(colsOf(x.cols), ",")
		if pmOK {
			r.res.note("prepmeta-vs-rows", sig(s.feats), same, r.sample(s, "execute", "result metadata of PREPARE differs from the metadata of the rows EXECUTE returns", colsOf(pcols), colsOf(x.cols)))
		}
		if valueChecks {
			r.checkValues(s, "execute", x)
		}
	}
	return
}

func (r *runner) runPipelined(sels []*selRow) {
	if len(sels) < 2 {
		return
	}
	var frms []*frame.Frame
	var toks, classes []string
	var streams []int16
	for _, s := range sels {
		st := r.next()
		streams = append(streams, st)
		frms = append(frms, frame.NewFrame(primitive.ProtocolVersion4, st, &message.Query{Query: s.text, Options: &message.QueryOptions{Consistency: primitive.ConsistencyLevelOne}}))
		toks = append(toks, "")
		classes = append(classes, "c10")
	}
	from := r.cl.Count()
	if err := r.cl.SendMany(frms, toks, classes); err != nil {
		r.res.infra("pipelined selects: " + err.Error())
		return
	}
	wait := 20 * time.Second
	for i, s := range sels {
		rv := r.cl.WaitStream(streams[i], from, wait)
		if rv == nil {
			// (after a first missing answer the connection has probably lost its framing: do not wait long for the rest)
			wait = 500 * time.Millisecond
			r.res.note("reply", sig(s.feats, "mode=query-pipelined"), false,
				r.sample(s, "query-pipelined", fmt.Sprintf("no answer on stream %d to a select sent together with %d others in one write", streams[i], len(sels)-1), "nothing", "rows"))
			continue
		}
		q := r.rows(s, "query-pipelined", rv, nil)
		r.res.count("selects_query_pipelined", 1)
		if q != nil {
			r.checkValues(s, "query-pipelined", q)
		}
	}
}

// starView builds this proxy's view of the ring from SELECT * on both tables.
func (r *runner) starView(local, peers *selRow) {
	r.tokOf = map[netip.Addr]string{}
	r.ringView = map[string]string{}
	r.starOK = false
	ql := r.runSelect(local, false)
	qp := r.runSelect(peers, false)
	if ql == nil || qp == nil {
		return
	}
	idx := func(o *obsRows, name string) int {
		for i, c := range o.cols {
			if c.Name == name {
				return i
			}
		}
		return -1
	}
	ok := true
	add := func(o *obsRows) {
		ia, id, it, ih := idx(o, "rpc_address"), idx(o, "data_center"), idx(o, "tokens"), idx(o, "host_id")
		if ia < 0 || id < 0 || it < 0 || ih < 0 {
			ok = false
			return
		}
		for _, v := range o.vals {
			a, err := netip.ParseAddr(v[ia])
			if err != nil {
				ok = false
				return
			}
			r.tokOf[a] = v[it]
			r.ringView[v[ia]] = v[id] + "|" + v[it] + "|" + v[ih]
		}
	}
	add(ql)
	add(qp)
	r.starOK = ok
	if !ok {
		return
	}
	// computed tokens: one token per node, minimum token first, strictly increasing with the address
	if r.cc.row.Tokm == "none" {
		csig := sig(r.feats)
		all := append([]cnode{r.local}, r.peers...)
		// the specification's rank = position in address order (the concretisation preserves the order)
		sort.Slice(all, func(i, j int) bool { return all[i].rank < all[j].rank })
		good := true
		why := ""
		var seq []string
		var prev *big.Int
		min := big.NewInt(-1 << 63)
		max := new(big.Int).SetUint64(1<<63 - 1)
		for i, n := range all {
			t, have := r.tokOf[n.addr]
			seq = append(seq, n.addr.String()+"="+t)
			if !have {
				good, why = false, "node "+n.addr.String()+" missing from the ring"
				break
			}
			inner := strings.Trim(t, "{}")
			v, isnum := new(big.Int).SetString(inner, 10)
			switch {
			case strings.Contains(inner, ",") || inner == "":
				good, why = false, "not exactly one token for "+n.addr.String()
			case !isnum || v.Cmp(min) < 0 || v.Cmp(max) > 0:
				good, why = false, "token of "+n.addr.String()+" is not a 64-bit integer"
			case i == 0 && v.Cmp(min) != 0:
				good, why = false, "the node with the smallest address does not own the minimum token"
			case i > 0 && prev != nil && v.Cmp(prev) <= 0:
				good, why = false, "tokens do not increase strictly with the address"
			}
			if !good {
				break
			}
			prev = v
		}
		if good && len(all) > 1 {
			// informational only (not part of the statement): is the ring divided evenly?
			var ts []*big.Int
			for _, n := range all {
				v, _ := new(big.Int).SetString(strings.Trim(r.tokOf[n.addr], "{}"), 10)
				ts = append(ts, v)
			}
			step := new(big.Int).Sub(ts[1], ts[0])
			even := true
			for i := 2; i < len(ts); i++ {
				if new(big.Int).Sub(ts[i], ts[i-1]).Cmp(step) != 0 {
					even = false
				}
			}
			wrap := new(big.Int).Sub(new(big.Int).Lsh(big.NewInt(1), 64), new(big.Int).Sub(ts[len(ts)-1], ts[0]))
			if d := new(big.Int).Sub(wrap, step); d.CmpAbs(big.NewInt(int64(len(ts)))) > 0 {
				even = false
			}
			r.res.count("computed_rings_with_several_nodes", 1)
			if even {
				r.res.count("computed_rings_evenly_spaced", 1)
			}
		}
		r.res.note("tokens-computed", csig, good, func() *sample {
			return &sample{Detail: why, Got: seq, Want: "minimum token first, strictly increasing in address order", Cfg: r.cc.describe(), Proxy: r.proxyName(), CfgID: r.cc.row.ID}
		})
		if !good {
			r.starOK = false
		}
	}
}

// ---------------------------------------------------------------------------- one configuration

type job struct {
	row  *cfgRow
	sels map[int][]*selRow // abstract proxy address -> selects
}

func runCfg(res *results, cluster *fakecql.Cluster, j *job, starLocal, starPeers *selRow, salt int64) {
	rnd := hutil.NewRand(salt)
	cc := newCcfg(j.row, rnd)
	views := map[string]map[string]string{}
	var order []string
	for pi := range j.row.Proxies {
		ps := &j.row.Proxies[pi]
		o := env.Options{Cluster: cluster, Contact: contact[cluster], Hooks: false, DC: ps.Config.DC, Tokens: cc.toks(ps.Config.Tokens), Tracer: nullTracer}
		if ps.Config.RPC == 0 {
			// without rpc-address the local node's address is the address the client connected to: the proxy listens
			// on every local address and is asked through two of them, one after the other
			o.ListenIP = "0.0.0.0"
		}
		if ps.Config.RPC != 0 {
			o.RPCAddr = cc.addrs[ps.Config.RPC].String()
			if cc.respl {
				o.RPCAddr = respell(cc.addrs[ps.Config.RPC])
			}
		}
		for _, pe := range ps.Config.Peers {
			o.Peers = append(o.Peers, proxy.PeerConfig{RPCAddr: cc.addrs[pe.RPC].String(), DC: pe.DC, Tokens: cc.toks(pe.Tokens)})
		}
		e, err := env.Start(o)
		if err != nil {
			if strings.Contains(err.Error(), "unable to build node information") {
				res.note("start", sig(cc.feats), false, func() *sample {
					return &sample{Detail: "proxy refuses a valid configuration: " + err.Error(), Cfg: cc.describe(), CfgID: j.row.ID, Want: "proxy starts"}
				})
				continue
			}
			res.infra("start: " + err.Error())
			continue
		}
		res.note("start", sig(cc.feats), true, nil)
		res.count("proxies_started", 1)
		via := []string{e.Addr}
		if ps.Config.RPC == 0 {
			port := netip.MustParseAddrPort(e.Addr).Port()
			via = []string{fmt.Sprintf("127.0.0.1:%d", port), fmt.Sprintf("127.0.0.3:%d", port)}
		}
		for vi, addr := range via {
			e.Addr = addr
			last := vi == len(via)-1
			func() {
				if last {
					defer e.Close()
				}
				cl, err := e.StartedClient(primitive.ProtocolVersion4, "")
				if err != nil {
					res.infra("client: " + err.Error())
					return
				}
				cl.Quiet = true
				defer cl.Close()
				listen := netip.MustParseAddrPort(e.Addr).Addr()
				r := &runner{res: res, cc: cc, ps: ps, e: e, cl: cl, listen: listen}
				if len(ps.Local) != 1 {
					panic("specification row without exactly one local node")
				}
				r.local = cc.node(ps.Local[0], listen)
				for _, n := range ps.Peers {
					r.peers = append(r.peers, cc.node(n, listen))
				}
				r.feats = append(append([]string{}, cc.feats...), proxyFeats(j.row, ps)...)
				r.starView(starLocal, starPeers)
				if r.starOK && last {
					views[r.proxyName()] = r.ringView
					order = append(order, r.proxyName())
					// the local row of the star view is this proxy
					res.count("ring_views", 1)
				}
				// value checks for the star rows themselves and the assigned selects
				r.runSelect(starLocal, true)
				r.runSelect(starPeers, true)
				for _, s := range j.sels[ps.Addr] {
					r.runSelect(s, true)
				}
				// the same selects once more, all in ONE write on this connection: the answer to each must be its own
				// (columns, rows and values), whatever the proxy still has queued for the others
				r.runPipelined(append([]*selRow{starLocal, starPeers}, j.sels[ps.Addr]...))
			}()
		}
	}
	res.count("configurations", 1)
	// (a proxy without ring view has already been reported by the check that failed for it)
	if j.row.Agree && len(j.row.Proxies) > 1 && len(order) == len(j.row.Proxies) {
		ok := true
		why := ""
		var ref string
		dump := map[string][]string{}
		for _, p := range order {
			var lines []string
			for a, v := range views[p] {
				lines = append(lines, a+"|"+v)
			}
			sort.Strings(lines)
			dump[p] = lines
			t := strings.Join(lines, ";")
			if ref == "" {
				ref = t
			} else if t != ref {
				ok, why = false, "proxies sharing the list present different rings"
			}
		}
		res.note("agree", sig(cc.feats), ok, func() *sample {
			return &sample{Detail: why, Got: dump, Want: "identical sets of (address, data center, tokens, host id)", Cfg: cc.describe(), CfgID: j.row.ID}
		})
		res.count("agreement_groups", 1)
		res.count("agreement_views_compared", len(order))
	}
}

var nullTracer = func() *tracer.Tracer { t := tracer.New(); t.Stop(); return t }()

// ---------------------------------------------------------------------------- main

func main() {
	cfgPath := flag.String("cfg", "", "NDJSON of configuration rows")
	selPath := flag.String("sel", "", "NDJSON of select rows")
	outPath := flag.String("out", "-", "result JSON")
	workers := flag.Int("workers", runtime.NumCPU(), "parallel configurations")
	reps := flag.Int("reps", 1, "placements per select row")
	flag.Parse()

	var cfgs []*cfgRow
	var sels []*selRow
	must(hutil.ReadJSONLines(*cfgPath, func(b []byte) error {
		var c cfgRow
		if err := json.Unmarshal(b, &c); err != nil {
			return err
		}
		cfgs = append(cfgs, &c)
		return nil
	}))
	must(hutil.ReadJSONLines(*selPath, func(b []byte) error {
		var s selRow
		if err := json.Unmarshal(b, &s); err != nil {
			return err
		}
		s.render()
		sels = append(sels, &s)
		return nil
	}))
	res := &results{Checks: map[string]map[string]*cell{}, Counts: map[string]int{}, Stars: map[string]map[string]int{}, Notes: map[string]interface{}{}}
	rnd := hutil.NewRand(10)

	for _, dse := range []bool{false, true} {
		// one fake backend per kind
		cl := fakecql.New(nullTracer)
		if dse {
			cl.DSEVersion = dseVersion
		}
		ip := fakecql.IP(env.Block(), 201)
		if dse {
			ip = fakecql.IP(env.Block(), 202)
		}
		// a second node, in another data center and with a lower address than the contact point: what the proxy derives
		// from the backend (data center, versions, partitioner) is what the node it is connected to says about itself
		other := fakecql.IP(env.Block(), 101)
		if dse {
			other = fakecql.IP(env.Block(), 102)
		}
		if err := cl.Start(ip, other); err != nil {
			fmt.Fprintln(os.Stderr, "cannot start fake backend:", err)
			os.Exit(4)
		}
		for _, n := range cl.Nodes() {
			n.DC = backendDC
			if n.IP == other {
				n.DC = "elsewhere-dc"
			}
		}
		contact[cl] = ip
		var starLocal, starPeers *selRow
		var mine []*selRow
		for _, s := range sels {
			if s.DSE != dse {
				continue
			}
			if s.Star && s.Sp.KS == "lower" && s.Sp.TS == "lower" && s.Sp.CS == "lower" && s.Sp.AS == "lower" && s.Sp.FS == "lower" {
				if s.Table == "local" {
					starLocal = s
				} else {
					starPeers = s
				}
			}
			mine = append(mine, s)
		}
		if starLocal == nil || starPeers == nil {
			fmt.Fprintln(os.Stderr, "select table lacks the plain SELECT * rows")
			os.Exit(4)
		}
		// placements
		type place struct {
			j    *job
			addr int
		}
		var jobs []*job
		var places []place
		for _, c := range cfgs {
			if c.DSE != dse {
				continue
			}
			j := &job{row: c, sels: map[int][]*selRow{}}
			jobs = append(jobs, j)
			for _, p := range c.Proxies {
				places = append(places, place{j, p.Addr})
			}
		}
		if len(places) > 0 {
			rnd.Shuffle(len(places), func(i, k int) { places[i], places[k] = places[k], places[i] })
			k := 0
			for rep := 0; rep < *reps; rep++ {
				for _, s := range mine {
					p := places[k%len(places)]
					k++
					p.j.sels[p.addr] = append(p.j.sels[p.addr], s)
				}
			}
		}
		var wg sync.WaitGroup
		ch := make(chan *job)
		for w := 0; w < *workers; w++ {
			wg.Add(1)
			go func() {
				defer wg.Done()
				for j := range ch {
					runCfg(res, cl, j, starLocal, starPeers, int64(1000+j.row.ID))
				}
			}()
		}
		for _, j := range jobs {
			ch <- j
		}
		close(ch)
		wg.Wait()
		cl.Shutdown()
	}
	res.Notes["workers"] = *workers
	res.Notes["select_rows"] = len(sels)
	res.Notes["configuration_rows"] = len(cfgs)
	// a few passing samples for the evidence
	for i, s := range sels {
		if i%(len(sels)/3+1) == 0 {
			res.Sample = append(res.Sample, map[string]interface{}{"select": s.text, "expects": s.Out})
		}
	}
	must(hutil.WriteJSON(*outPath, res))
}

func must(err error) {
	if err != nil {
		fmt.Fprintln(os.Stderr, "vdrv-systables:", err)
		os.Exit(3)
	}
}
