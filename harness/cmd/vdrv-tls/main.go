// vdrv-tls replays the rows of the AstraTLS.tla table (C19) into the real Astra connection code:
// astra.NewResolver(bundle, timeout).Resolve (HTTPS to the metadata service), the endpoints it
// returns and resolver.NewEndpoint(peers row), and proxycore.ConnectClient / proxycore.Connect on
// those endpoints.
//
// Everything is local and offline.  Per run the driver mints with crypto/x509: the bundle's CA, an
// intermediate under it, another private CA, the bundle's client certificate, and per row a server
// leaf of the abstract shape (signer, extra certificate sent, SAN, validity); one intermediate is expired.  Per row it starts
//   - a metadata HTTPS service on 127.0.0.1 answering /metadata with contact_info JSON, and
//   - a TLS "node" that requests client certificates, records the SNI of the ClientHello, the
//     client certificate, and every application byte it receives (it answers OPTIONS / STARTUP),
//
// builds an astra.Bundle value (exported fields TLSConfig, Host, Port; as LoadBundleZip fills them:
// RootCAs holding the bundle CA, Certificates holding the client pair, ServerName = Host) and drives
// the real code.  The bundle host is "localhost" (rows with host = dns; resolved through /etc/hosts
// to 127.0.0.1) or the IP literal "127.0.0.1" (host = ip).  The sni_proxy_address handed out by the
// metadata service is "<bundle host>:<node port>", which the real LookupEndpoint resolves locally.
//
// The driver holds no expectations; checks/c19.py compares the observations with the table.
package main

import (
	"archive/zip"
	"bytes"
	"context"
	"crypto/ecdsa"
	"crypto/elliptic"
	"crypto/rand"
	"crypto/tls"
	"crypto/x509"
	"crypto/x509/pkix"
	"encoding/json"
	"encoding/pem"
	"flag"
	"fmt"
	"io"
	"log"
	"math/big"
	"net"
	"net/http"
	"os"
	"sort"
	"sync"
	"sync/atomic"
	"time"

	"verif/hutil"

	"github.com/datastax/cql-proxy/astra"
	"github.com/datastax/cql-proxy/proxycore"
	"github.com/datastax/go-cassandra-native-protocol/datatype"
	"github.com/datastax/go-cassandra-native-protocol/frame"
	"github.com/datastax/go-cassandra-native-protocol/message"
	"github.com/datastax/go-cassandra-native-protocol/primitive"
)

type Chain struct {
	Signer   string `json:"signer"`
	Extra    bool   `json:"extra"`
	SAN      string `json:"san"`
	Validity string `json:"validity"`
}

type Row struct {
	ID     int    `json:"id"`
	Target string `json:"target"`
	Chain  Chain  `json:"chain"`
	Host   string `json:"host"`
	TLS    string `json:"tls"`
	Draw   int    `json:"draw"`
	Prior  string `json:"prior"` // cold | warm: a genuine server was accepted through the same resolver before
}

// ServerObs is what one TLS server saw.
type ServerObs struct {
	Hellos        int      `json:"hellos"`         // ClientHellos received
	SNIs          []string `json:"snis"`           // SNI of each ClientHello
	Handshakes    int      `json:"handshakes"`     // handshakes the server completed
	ClientCertOK  int      `json:"client_cert_ok"` // completed handshakes in which the client presented exactly the bundle's certificate
	ClientCertNo  int      `json:"client_cert_none"`
	ClientCertBad int      `json:"client_cert_other"`
	AppBytes      int64    `json:"app_bytes"` // application bytes received after the handshake
	Requests      int      `json:"requests"`  // HTTP requests / CQL frames understood
}

type Result struct {
	ID         int        `json:"id"`
	BundleHost string     `json:"bundle_host"`
	Contacts   []string   `json:"contact_points"` // the contact points the metadata service hands out (node ids)
	HostID     string     `json:"host_id"`        // host_id of the system.peers row
	Attempts   int        `json:"attempts"`       // connections the row makes to the server carrying the row's chain
	ResolveOK  bool       `json:"resolve_ok"`
	ResolveErr string     `json:"resolve_err,omitempty"`
	Endpoints  []string   `json:"endpoints,omitempty"`
	Connects   int        `json:"connects"`   // connection attempts on the row's node
	ConnectOK  int        `json:"connect_ok"` // attempts for which Connect/ConnectClient returned no error
	CQLOK      int        `json:"cql_ok"`     // attempts that got a CQL answer (READY / SUPPORTED) from the node
	ConnectErr string     `json:"connect_err,omitempty"`
	Server     ServerObs  `json:"server"`          // the server carrying the row's chain
	Other      *ServerObs `json:"other,omitempty"` // the (always valid) metadata service of node rows
	Infra      string     `json:"infra,omitempty"`
	ChainLen   int        `json:"chain_len"`
	// rows with prior "concurrent": the node presents the row's chain to every second connection and a genuine one to the
	// others while several goroutines connect through the same endpoint
	Conc *ConcObs `json:"concurrent,omitempty"`
}

type ConcObs struct {
	Dials           int   `json:"dials"`
	RowPresented    int   `json:"row_chain_presented"`
	RowHandshakes   int   `json:"row_chain_handshakes_completed"`
	RowAppBytes     int64 `json:"row_chain_app_bytes"`
	GenuineAccepted int   `json:"genuine_chain_handshakes_completed"`
	ClientOK        int   `json:"client_side_connects_ok"`
}

// ------------------------------------------------------------------------------------ PKI

type keyCert struct {
	cert *x509.Certificate
	der  []byte
	key  *ecdsa.PrivateKey
}

type pki struct {
	bundleCA, bundleInt, bundleIntExpired, otherCA, client keyCert
	serial                                                 int64
	mu                                                     sync.Mutex
	genuineOf                                              map[string]tls.Certificate // lookalike leaf serial -> the genuine chain it copies
}

func (p *pki) nextSerial() *big.Int {
	return big.NewInt(atomic.AddInt64(&p.serial, 1))
}

func (p *pki) mint(tpl *x509.Certificate, parent *keyCert) (keyCert, error) {
	key, err := ecdsa.GenerateKey(elliptic.P256(), rand.Reader)
	if err != nil {
		return keyCert{}, err
	}
	if tpl.SerialNumber == nil {
		tpl.SerialNumber = p.nextSerial()
	}
	signer, signKey := tpl, key
	if parent != nil {
		signer, signKey = parent.cert, parent.key
	}
	der, err := x509.CreateCertificate(rand.Reader, tpl, signer, &key.PublicKey, signKey)
	if err != nil {
		return keyCert{}, err
	}
	cert, err := x509.ParseCertificate(der)
	if err != nil {
		return keyCert{}, err
	}
	return keyCert{cert: cert, der: der, key: key}, nil
}

func caTemplate(cn string) *x509.Certificate {
	now := time.Now()
	return &x509.Certificate{
		Subject:               pkix.Name{CommonName: cn, Organization: []string{"verif"}},
		NotBefore:             now.Add(-24 * time.Hour),
		NotAfter:              now.Add(24 * time.Hour * 365),
		IsCA:                  true,
		BasicConstraintsValid: true,
		KeyUsage:              x509.KeyUsageCertSign | x509.KeyUsageCRLSign | x509.KeyUsageDigitalSignature,
	}
}

func newPKI() (*pki, error) {
	p := &pki{serial: 1000, genuineOf: map[string]tls.Certificate{}}
	var err error
	if p.bundleCA, err = p.mint(caTemplate("verif bundle CA"), nil); err != nil {
		return nil, err
	}
	if p.bundleInt, err = p.mint(caTemplate("verif bundle intermediate"), &p.bundleCA); err != nil {
		return nil, err
	}
	expired := caTemplate("verif bundle intermediate (expired)")
	expired.NotBefore, expired.NotAfter = time.Now().Add(-72*time.Hour), time.Now().Add(-24*time.Hour)
	if p.bundleIntExpired, err = p.mint(expired, &p.bundleCA); err != nil {
		return nil, err
	}
	if p.otherCA, err = p.mint(caTemplate("verif other CA"), nil); err != nil {
		return nil, err
	}
	now := time.Now()
	cl := &x509.Certificate{
		Subject:     pkix.Name{CommonName: "verif bundle client"},
		NotBefore:   now.Add(-time.Hour),
		NotAfter:    now.Add(24 * time.Hour * 30),
		KeyUsage:    x509.KeyUsageDigitalSignature,
		ExtKeyUsage: []x509.ExtKeyUsage{x509.ExtKeyUsageClientAuth},
	}
	if p.client, err = p.mint(cl, &p.bundleCA); err != nil {
		return nil, err
	}
	return p, nil
}

// serverCert mints the leaf of an abstract chain and returns what the server presents.
func (p *pki) serverCert(c Chain, hostKind string, sniNames []string) (tls.Certificate, error) {
	if c.Signer == "none" { // the empty chain: a key but no certificate at all
		key, err := ecdsa.GenerateKey(elliptic.P256(), rand.Reader)
		if err != nil {
			return tls.Certificate{}, err
		}
		return tls.Certificate{Certificate: [][]byte{}, PrivateKey: key}, nil
	}
	now := time.Now()
	tpl := &x509.Certificate{
		Subject:     pkix.Name{CommonName: "verif server leaf"},
		KeyUsage:    x509.KeyUsageDigitalSignature,
		ExtKeyUsage: []x509.ExtKeyUsage{x509.ExtKeyUsageServerAuth},
	}
	switch c.Validity {
	case "current":
		tpl.NotBefore, tpl.NotAfter = now.Add(-time.Hour), now.Add(24*time.Hour)
	case "expired":
		tpl.NotBefore, tpl.NotAfter = now.Add(-48*time.Hour), now.Add(-24*time.Hour)
	case "notyet":
		tpl.NotBefore, tpl.NotAfter = now.Add(24*time.Hour), now.Add(48*time.Hour)
	case "expired_since_config":
		// valid while the endpoint is created, expired when the handshake is made (runRow waits for the boundary)
		tpl.NotBefore, tpl.NotAfter = now.Add(-time.Hour), shiftBoundary(now)
	case "valid_since_config":
		tpl.NotBefore, tpl.NotAfter = shiftBoundary(now), now.Add(24*time.Hour)
	default:
		return tls.Certificate{}, fmt.Errorf("validity %q", c.Validity)
	}
	switch c.SAN {
	case "bundleHost":
		if hostKind == "ip" {
			tpl.IPAddresses = []net.IP{net.ParseIP("127.0.0.1")}
		} else {
			tpl.DNSNames = []string{"localhost"}
		}
	case "otherName":
		if hostKind == "ip" {
			tpl.IPAddresses = []net.IP{net.ParseIP("127.0.0.9")}
			tpl.DNSNames = []string{"other.example.test"}
		} else {
			tpl.DNSNames = []string{"other.example.test", "localhost.example.test"}
		}
	case "sniName":
		tpl.DNSNames = append([]string{}, sniNames...)
	default:
		return tls.Certificate{}, fmt.Errorf("san %q", c.SAN)
	}
	if c.Signer == "lookalike" {
		return p.lookalike(tpl, c.Extra)
	}
	if c.Signer == "borrowed" {
		// the server's own certificate: self-signed and flagged as a CA; behind it the public certificate of a genuine
		// server (the key of which this server does not have)
		gen := *tpl
		genuine, err := p.mint(&gen, &p.bundleCA)
		if err != nil {
			return tls.Certificate{}, err
		}
		own := *tpl
		own.Subject = pkix.Name{CommonName: "verif borrowed front"}
		own.IsCA, own.BasicConstraintsValid = true, true
		own.KeyUsage = x509.KeyUsageDigitalSignature | x509.KeyUsageCertSign
		front, err := p.mint(&own, nil)
		if err != nil {
			return tls.Certificate{}, err
		}
		out := tls.Certificate{Certificate: [][]byte{front.der}, PrivateKey: front.key, Leaf: front.cert}
		if c.Extra {
			out.Certificate = append(out.Certificate, genuine.der)
		}
		return out, nil
	}
	var parent *keyCert
	var extra []byte
	switch c.Signer {
	case "int":
		parent, extra = &p.bundleInt, p.bundleInt.der
	case "intexp":
		parent, extra = &p.bundleIntExpired, p.bundleIntExpired.der
	case "direct":
		parent, extra = &p.bundleCA, p.bundleInt.der // an unrelated intermediate
	case "other":
		parent, extra = &p.otherCA, p.otherCA.der // the other CA's own root, presented by the server
	case "self":
		parent, extra = nil, p.bundleInt.der
	default:
		return tls.Certificate{}, fmt.Errorf("signer %q", c.Signer)
	}
	leaf, err := p.mint(tpl, parent)
	if err != nil {
		return tls.Certificate{}, err
	}
	out := tls.Certificate{Certificate: [][]byte{leaf.der}, PrivateKey: leaf.key, Leaf: leaf.cert}
	if c.Extra {
		out.Certificate = append(out.Certificate, extra)
	}
	return out, nil
}

// shiftBoundary is the instant at which a time-shifted leaf changes its validity (certificate times have a
// resolution of one second)
func shiftBoundary(now time.Time) time.Time { return now.Truncate(time.Second).Add(4 * time.Second) }

// lookalike: a genuine leaf is minted from the template (and thrown away, or served during the warm-up by the caller
// through lastGenuine); the returned chain copies its subject, issuer name, serial number, names and validity, with a
// key of its own, issued by a private CA that carries the bundle CA's name.
func (p *pki) lookalike(tpl *x509.Certificate, extra bool) (tls.Certificate, error) {
	gen := *tpl
	genuine, err := p.mint(&gen, &p.bundleCA)
	if err != nil {
		return tls.Certificate{}, err
	}
	fakeCA, err := p.mint(&x509.Certificate{Subject: p.bundleCA.cert.Subject, NotBefore: p.bundleCA.cert.NotBefore, NotAfter: p.bundleCA.cert.NotAfter,
		IsCA: true, BasicConstraintsValid: true, KeyUsage: p.bundleCA.cert.KeyUsage, SerialNumber: p.bundleCA.cert.SerialNumber}, nil)
	if err != nil {
		return tls.Certificate{}, err
	}
	cp := *tpl
	cp.SerialNumber = genuine.cert.SerialNumber
	leaf, err := p.mint(&cp, &fakeCA)
	if err != nil {
		return tls.Certificate{}, err
	}
	out := tls.Certificate{Certificate: [][]byte{leaf.der}, PrivateKey: leaf.key, Leaf: leaf.cert}
	if extra {
		out.Certificate = append(out.Certificate, fakeCA.der)
	}
	p.mu.Lock()
	p.genuineOf[leaf.cert.SerialNumber.String()] = tls.Certificate{Certificate: [][]byte{genuine.der}, PrivateKey: genuine.key, Leaf: genuine.cert}
	p.mu.Unlock()
	return out, nil
}

// loadBundle builds a secure-connect bundle zip (config.json, ca.crt, cert, key) in memory and loads it with the real
// astra.LoadBundleZip.
func (p *pki) loadBundle(ca keyCert, host string, port int) (*astra.Bundle, error) {
	var buf bytes.Buffer
	zw := zip.NewWriter(&buf)
	keyDER, err := x509.MarshalECPrivateKey(p.client.key)
	if err != nil {
		return nil, err
	}
	cfg, _ := json.Marshal(map[string]interface{}{"host": host, "port": port})
	for name, content := range map[string][]byte{
		"config.json": cfg,
		"ca.crt":      pem.EncodeToMemory(&pem.Block{Type: "CERTIFICATE", Bytes: ca.der}),
		"cert":        pem.EncodeToMemory(&pem.Block{Type: "CERTIFICATE", Bytes: p.client.der}),
		"key":         pem.EncodeToMemory(&pem.Block{Type: "EC PRIVATE KEY", Bytes: keyDER}),
	} {
		w, err := zw.Create(name)
		if err != nil {
			return nil, err
		}
		if _, err := w.Write(content); err != nil {
			return nil, err
		}
	}
	if err := zw.Close(); err != nil {
		return nil, err
	}
	zr, err := zip.NewReader(bytes.NewReader(buf.Bytes()), int64(buf.Len()))
	if err != nil {
		return nil, err
	}
	return astra.LoadBundleZip(zr)
}

var goodChain = Chain{Signer: "direct", Extra: false, SAN: "bundleHost", Validity: "current"}

// ------------------------------------------------------------------------------------ servers

type observer struct {
	mu        sync.Mutex
	obs       ServerObs
	clientDER []byte
	wg        sync.WaitGroup
	swap      func(tls.Certificate) // replaces the certificate the server presents from now on
	// alternate: when set, every second connection is presented this certificate (kind "alt") instead of the current one
	alternate func(tls.Certificate)
	kinds     map[string]string // remote address -> "alt" | "main" (connections since alternate was set)
	conc      ConcObs
}

func (o *observer) reset() {
	o.mu.Lock()
	o.obs = ServerObs{}
	o.mu.Unlock()
}

func (o *observer) hello(sni string) {
	o.mu.Lock()
	o.obs.Hellos++
	o.obs.SNIs = append(o.obs.SNIs, sni)
	o.mu.Unlock()
}

func (o *observer) handshook(cs tls.ConnectionState) {
	o.mu.Lock()
	o.obs.Handshakes++
	switch {
	case len(cs.PeerCertificates) == 0:
		o.obs.ClientCertNo++
	case bytes.Equal(cs.PeerCertificates[0].Raw, o.clientDER):
		o.obs.ClientCertOK++
	default:
		o.obs.ClientCertBad++
	}
	o.mu.Unlock()
}

func (o *observer) snapshot() ServerObs {
	o.mu.Lock()
	defer o.mu.Unlock()
	s := o.obs
	s.SNIs = append([]string{}, s.SNIs...)
	sort.Strings(s.SNIs)
	return s
}

func serverTLSConfig(cert tls.Certificate, ver string, o *observer) *tls.Config {
	mk := func(cert tls.Certificate) *tls.Config {
		cfg := &tls.Config{
			Certificates: []tls.Certificate{cert},
			ClientAuth:   tls.RequestClientCert,
		}
		if ver == "1.2" {
			cfg.MinVersion, cfg.MaxVersion = tls.VersionTLS12, tls.VersionTLS12
		} else {
			cfg.MinVersion, cfg.MaxVersion = tls.VersionTLS13, tls.VersionTLS13
		}
		return cfg
	}
	cfg := mk(cert)
	o.swap = func(c tls.Certificate) {
		o.mu.Lock()
		cfg = mk(c)
		o.mu.Unlock()
	}
	var alt *tls.Config
	nconn := 0
	o.alternate = func(c tls.Certificate) {
		o.mu.Lock()
		alt = mk(c)
		o.kinds = map[string]string{}
		o.mu.Unlock()
	}
	outer := &tls.Config{GetConfigForClient: func(h *tls.ClientHelloInfo) (*tls.Config, error) {
		o.hello(h.ServerName)
		o.mu.Lock()
		defer o.mu.Unlock()
		if alt != nil {
			nconn++
			if nconn%2 == 0 {
				o.kinds[h.Conn.RemoteAddr().String()] = "alt"
				o.conc.RowPresented++
				return alt, nil
			}
			o.kinds[h.Conn.RemoteAddr().String()] = "main"
		}
		return cfg, nil
	}}
	return outer
}

// countingConn counts the application bytes a TLS server reads.
type node struct {
	ln  net.Listener
	o   *observer
	cfg *tls.Config
}

func startNode(cert tls.Certificate, ver string, clientDER []byte) (*node, error) {
	ln, err := net.Listen("tcp", "127.0.0.1:0")
	if err != nil {
		return nil, err
	}
	n := &node{ln: ln, o: &observer{clientDER: clientDER}}
	n.cfg = serverTLSConfig(cert, ver, n.o)
	go func() {
		for {
			c, err := ln.Accept()
			if err != nil {
				return
			}
			n.o.wg.Add(1)
			go n.serve(c)
		}
	}()
	return n, nil
}

type countReader struct {
	r io.Reader
	n *int64
}

func (c countReader) Read(p []byte) (int, error) {
	k, err := c.r.Read(p)
	atomic.AddInt64(c.n, int64(k))
	return k, err
}

func (n *node) serve(c net.Conn) {
	defer n.o.wg.Done()
	defer c.Close()
	tc := tls.Server(c, n.cfg)
	_ = tc.SetDeadline(time.Now().Add(10 * time.Second))
	if err := tc.Handshake(); err != nil {
		return
	}
	n.o.handshook(tc.ConnectionState())
	n.o.mu.Lock()
	kind := n.o.kinds[c.RemoteAddr().String()]
	switch kind {
	case "alt":
		n.o.conc.RowHandshakes++
	case "main":
		n.o.conc.GenuineAccepted++
	}
	n.o.mu.Unlock()
	var got int64
	defer func() {
		n.o.mu.Lock()
		n.o.obs.AppBytes += atomic.LoadInt64(&got)
		if kind == "alt" {
			n.o.conc.RowAppBytes += atomic.LoadInt64(&got)
		}
		n.o.mu.Unlock()
	}()
	codec := frame.NewRawCodec()
	rd := countReader{r: tc, n: &got}
	for {
		raw, err := codec.DecodeRawFrame(rd)
		if err != nil {
			return
		}
		var reply message.Message
		switch raw.Header.OpCode {
		case primitive.OpCodeOptions:
			reply = &message.Supported{Options: map[string][]string{"CQL_VERSION": {"3.4.5"}}}
		case primitive.OpCodeStartup:
			reply = &message.Ready{}
		default:
			reply = &message.ProtocolError{ErrorMessage: "verif node: unexpected opcode"}
		}
		n.o.mu.Lock()
		n.o.obs.Requests++
		n.o.mu.Unlock()
		var buf bytes.Buffer
		if err := codec.EncodeFrame(frame.NewFrame(raw.Header.Version, raw.Header.StreamId, reply), &buf); err != nil {
			return
		}
		if _, err := tc.Write(buf.Bytes()); err != nil {
			return
		}
	}
}

func (n *node) port() int { return n.ln.Addr().(*net.TCPAddr).Port }

func (n *node) stop() ServerObs {
	n.ln.Close()
	waitTimeout(&n.o.wg, 5*time.Second)
	return n.o.snapshot()
}

func waitTimeout(wg *sync.WaitGroup, d time.Duration) bool {
	ch := make(chan struct{})
	go func() { wg.Wait(); close(ch) }()
	select {
	case <-ch:
		return true
	case <-time.After(d):
		return false
	}
}

type metaSrv struct {
	ln  net.Listener
	srv *http.Server
	o   *observer
}

func startMetadata(cert tls.Certificate, ver string, clientDER []byte, body func() []byte) (*metaSrv, error) {
	ln, err := net.Listen("tcp", "127.0.0.1:0")
	if err != nil {
		return nil, err
	}
	m := &metaSrv{ln: ln, o: &observer{clientDER: clientDER}}
	mux := http.NewServeMux()
	mux.HandleFunc("/metadata", func(w http.ResponseWriter, r *http.Request) {
		m.o.mu.Lock()
		m.o.obs.Requests++
		m.o.obs.AppBytes += int64(len(r.Method) + len(r.URL.Path)) // the request line arrived: application data
		m.o.mu.Unlock()
		if r.TLS != nil {
			m.o.handshook(*r.TLS)
		}
		w.Header().Set("Content-Type", "application/json")
		_, _ = w.Write(body())
	})
	m.srv = &http.Server{Handler: mux, TLSConfig: serverTLSConfig(cert, ver, m.o),
		ErrorLog: log.New(io.Discard, "", 0), ReadHeaderTimeout: 10 * time.Second}
	go func() { _ = m.srv.Serve(tls.NewListener(ln, m.srv.TLSConfig)) }()
	return m, nil
}

func (m *metaSrv) port() int { return m.ln.Addr().(*net.TCPAddr).Port }

func (m *metaSrv) stop() ServerObs {
	_ = m.srv.Close()
	return m.o.snapshot()
}

// ------------------------------------------------------------------------------------ rows

type rawRecv struct {
	frames chan primitive.OpCode
}

func (r *rawRecv) Receive(reader io.Reader) error {
	raw, err := frame.NewRawCodec().DecodeRawFrame(reader)
	if err != nil {
		return err
	}
	select {
	case r.frames <- raw.Header.OpCode:
	default:
	}
	return nil
}

func (r *rawRecv) Closing(err error) {}

func uuidFrom(rnd interface{ Read([]byte) (int, error) }) primitive.UUID {
	var u primitive.UUID
	_, _ = rnd.Read(u[:])
	u[6] = (u[6] & 0x0f) | 0x40
	u[8] = (u[8] & 0x3f) | 0x80
	return u
}

func runRow(p *pki, row Row) (res Result) {
	res.ID = row.ID
	defer func() {
		if r := recover(); r != nil {
			res.Infra = fmt.Sprintf("panic in the driver goroutine (real code panicked?): %v", r)
		}
	}()
	rnd := hutil.NewRand(int64(row.Draw)*7919 + 17)
	host := "localhost"
	if row.Host == "ip" {
		host = "127.0.0.1"
	}
	res.BundleHost = host
	// node ids of this draw: the contact points of the metadata and the host id of the peers row
	nContacts := 1 + row.Draw%3
	var contacts []string
	for i := 0; i < nContacts; i++ {
		u := uuidFrom(rnd)
		if (row.Draw+i)%2 == 0 {
			// a contact point is whatever string the metadata service hands out: not necessarily a UUID
			contacts = append(contacts, fmt.Sprintf("node-%d-%x.db.example.test", i, u[:3]))
			continue
		}
		contacts = append(contacts, u.String())
	}
	peerID := uuidFrom(rnd)
	var sniNames []string
	switch row.Target {
	case "contact":
		sniNames = contacts
	case "peer":
		sniNames = []string{peerID.String()}
	default:
		if row.Host == "dns" {
			sniNames = []string{host}
		}
	}
	res.Contacts, res.HostID = contacts, peerID.String()
	switch row.Target {
	case "contact":
		res.Attempts = len(contacts)
	default:
		res.Attempts = 1
	}

	metaChain, nodeChain := goodChain, goodChain
	if row.Target == "metadata" {
		metaChain = row.Chain
	} else {
		nodeChain = row.Chain
	}
	metaCert, err := p.serverCert(metaChain, row.Host, sniNames)
	if err != nil {
		res.Infra = "mint: " + err.Error()
		return
	}
	nodeCert, err := p.serverCert(nodeChain, row.Host, sniNames)
	if err != nil {
		res.Infra = "mint: " + err.Error()
		return
	}
	// time-shifted validity: the endpoints must exist before the boundary, the handshakes are made after it
	var boundary time.Time
	switch nodeChain.Validity {
	case "expired_since_config":
		boundary = nodeCert.Leaf.NotAfter
	case "valid_since_config":
		boundary = nodeCert.Leaf.NotBefore
	}
	crossBoundary := func() bool {
		if boundary.IsZero() {
			return true
		}
		if !time.Now().Before(boundary.Add(-200 * time.Millisecond)) {
			res.Infra = "endpoint was created too late for a time-shifted row"
			return false
		}
		time.Sleep(time.Until(boundary.Add(1200 * time.Millisecond)))
		return true
	}
	if row.Target == "metadata" {
		res.ChainLen = len(metaCert.Certificate)
	} else {
		res.ChainLen = len(nodeCert.Certificate)
	}
	// warm rows: the node first presents a genuine chain (for a lookalike: the very chain it copies), is accepted once
	// through every endpoint of the resolver, and only then presents the row's chain
	warm := (row.Prior == "warm" || row.Prior == "concurrent") && row.Target != "metadata"
	firstCert := nodeCert
	if warm {
		if nodeChain.Signer == "lookalike" && nodeChain.Validity == "current" && nodeChain.SAN == "bundleHost" {
			p.mu.Lock()
			firstCert = p.genuineOf[nodeCert.Leaf.SerialNumber.String()]
			p.mu.Unlock()
		} else if firstCert, err = p.serverCert(goodChain, row.Host, sniNames); err != nil {
			res.Infra = "mint: " + err.Error()
			return
		}
	}
	nd, err := startNode(firstCert, row.TLS, p.client.der)
	if err != nil {
		res.Infra = "node: " + err.Error()
		return
	}
	sniAddr := fmt.Sprintf("%s:%d", host, nd.port())
	body := func() []byte {
		b, _ := json.Marshal(map[string]interface{}{
			"version": 1,
			"region":  "dc1",
			"contact_info": map[string]interface{}{
				"type": "sni_proxy", "local_dc": "dc1", "sni_proxy_address": sniAddr, "contact_points": contacts,
			},
		})
		return b
	}
	ms, err := startMetadata(metaCert, row.TLS, p.client.der, body)
	if err != nil {
		nd.stop()
		res.Infra = "metadata: " + err.Error()
		return
	}

	// the bundle is loaded from a zip by astra.LoadBundleZip (system roots + the bundle's CA); a decoy bundle whose CA
	// is the OTHER CA was loaded in this process before (main): bundles do not share trust anchors
	bundle, err := p.loadBundle(p.bundleCA, host, ms.port())
	if err != nil {
		nd.stop()
		ms.stop()
		res.Infra = "bundle: " + err.Error()
		return
	}
	resolver := astra.NewResolver(bundle, 5*time.Second)
	ctx, cancel := context.WithTimeout(context.Background(), 20*time.Second)
	defer cancel()
	eps, rerr := resolver.Resolve(ctx)
	res.ResolveOK = rerr == nil
	if rerr != nil {
		res.ResolveErr = rerr.Error()
	}
	for _, e := range eps {
		res.Endpoints = append(res.Endpoints, e.Key())
	}

	connect := func(ep proxycore.Endpoint, client bool) {
		res.Connects++
		if client {
			cl, err := proxycore.ConnectClient(ctx, ep, proxycore.ClientConnConfig{})
			if err != nil {
				res.ConnectErr = err.Error()
				return
			}
			res.ConnectOK++
			hctx, hcancel := context.WithTimeout(ctx, 5*time.Second)
			if _, err := cl.Handshake(hctx, primitive.ProtocolVersion4, nil); err == nil {
				res.CQLOK++
			} else {
				res.ConnectErr = "cql handshake: " + err.Error()
			}
			hcancel()
			_ = cl.Close()
			return
		}
		recv := &rawRecv{frames: make(chan primitive.OpCode, 4)}
		c, err := proxycore.Connect(ctx, ep, recv)
		if err != nil {
			res.ConnectErr = err.Error()
			return
		}
		res.ConnectOK++
		var buf bytes.Buffer
		_ = frame.NewRawCodec().EncodeFrame(frame.NewFrame(primitive.ProtocolVersion4, 1, &message.Options{}), &buf)
		if err := c.WriteBytes(buf.Bytes()); err == nil {
			select {
			case op := <-recv.frames:
				if op == primitive.OpCodeSupported {
					res.CQLOK++
				}
			case <-time.After(5 * time.Second):
				res.ConnectErr = "no answer to OPTIONS"
			}
		}
		_ = c.Close()
	}

	warmUp := func(eps []proxycore.Endpoint) bool {
		if !warm {
			return true
		}
		for _, ep := range eps {
			cl, err := proxycore.ConnectClient(ctx, ep, proxycore.ClientConnConfig{})
			if err != nil {
				res.Infra = "warm-up: the genuine server was not accepted: " + err.Error()
				return false
			}
			_ = cl.Close()
		}
		// the server records a handshake when its side completes (with TLS 1.3 after the client's returned): wait for
		// every warm-up handshake to be on record before the observations are reset
		deadline := time.Now().Add(3 * time.Second)
		for time.Now().Before(deadline) && nd.o.snapshot().Handshakes < len(eps) {
			time.Sleep(2 * time.Millisecond)
		}
		if nd.o.snapshot().Handshakes < len(eps) {
			res.Infra = "warm-up: the server did not record the handshakes"
			return false
		}
		nd.o.wg.Wait()
		nd.o.swap(nodeCert)
		nd.o.reset()
		return true
	}
	switch row.Target {
	case "metadata":
		// nothing else: the row's verdict is Resolve's
	case "contact":
		if rerr != nil {
			res.Infra = "metadata service with a valid chain was not accepted: " + rerr.Error()
		}
		if rerr == nil && !warmUp(eps) {
			break
		}
		if !crossBoundary() {
			break
		}
		for _, ep := range eps {
			connect(ep, true)
		}
	case "peer":
		if rerr != nil {
			res.Infra = "metadata service with a valid chain was not accepted: " + rerr.Error()
			break
		}
		rs := proxycore.NewResultSet(&message.RowsResult{
			Metadata: &message.RowsMetadata{ColumnCount: 2, Columns: []*message.ColumnMetadata{
				{Keyspace: "system", Table: "peers", Name: "data_center", Type: datatype.Varchar},
				{Keyspace: "system", Table: "peers", Name: "host_id", Type: datatype.Uuid},
			}},
			Data: message.RowSet{{[]byte("dc1"), peerID[:]}},
		}, primitive.ProtocolVersion4)
		ep, err := resolver.NewEndpoint(rs.Row(0))
		if err != nil {
			res.Infra = "NewEndpoint: " + err.Error()
			break
		}
		res.Endpoints = []string{ep.Key()}
		if !warmUp([]proxycore.Endpoint{ep}) || !crossBoundary() {
			break
		}
		if row.Prior == "concurrent" {
			// the node goes back to the genuine chain for every other connection and presents the row's chain, padded with
			// certificates that have nothing to do with it, to the rest; six goroutines connect through the one endpoint
			padded := nodeCert
			for k := 0; k < 6; k++ {
				if junk, err := p.mint(caTemplate(fmt.Sprintf("junk-%d-%d", row.ID, k)), nil); err == nil {
					padded.Certificate = append(padded.Certificate[:len(padded.Certificate):len(padded.Certificate)], junk.der)
				}
			}
			nd.o.swap(firstCert)
			nd.o.alternate(padded)
			var cwg sync.WaitGroup
			var okc int64
			const workers, each = 6, 20
			for w := 0; w < workers; w++ {
				cwg.Add(1)
				go func() {
					defer cwg.Done()
					for k := 0; k < each; k++ {
						cl, err := proxycore.ConnectClient(ctx, ep, proxycore.ClientConnConfig{})
						if err == nil {
							atomic.AddInt64(&okc, 1)
							hctx, hcancel := context.WithTimeout(ctx, 3*time.Second)
							_, _ = cl.Handshake(hctx, primitive.ProtocolVersion4, nil)
							hcancel()
							_ = cl.Close()
						}
					}
				}()
			}
			cwg.Wait()
			time.Sleep(20 * time.Millisecond)
			nd.o.wg.Wait()
			nd.o.mu.Lock()
			co := nd.o.conc
			nd.o.mu.Unlock()
			co.Dials, co.ClientOK = workers*each, int(okc)
			res.Conc = &co
			break
		}
		connect(ep, row.Draw%2 == 0) // odd draws: raw proxycore.Connect, even draws: ConnectClient
	}
	time.Sleep(2 * time.Millisecond)
	nobs := nd.stop()
	mobs := ms.stop()
	if row.Target == "metadata" {
		res.Server = mobs
		res.Other = &nobs
	} else {
		res.Server = nobs
		res.Other = &mobs
	}
	return
}

func main() {
	in := flag.String("in", "", "rows (JSON lines)")
	out := flag.String("out", "-", "result file")
	workers := flag.Int("workers", 8, "parallel rows")
	flag.Parse()
	var rows []Row
	if err := hutil.ReadJSONLines(*in, func(line []byte) error {
		var r Row
		if err := json.Unmarshal(line, &r); err != nil {
			return err
		}
		rows = append(rows, r)
		return nil
	}); err != nil {
		fmt.Fprintln(os.Stderr, "vdrv-tls:", err)
		os.Exit(3)
	}
	p, err := newPKI()
	if err != nil {
		fmt.Fprintln(os.Stderr, "vdrv-tls: pki:", err)
		os.Exit(3)
	}
	// self-test of the PKI with the standard verifier: the good chain verifies, so rejections
	// observed later are not artefacts of a broken certificate factory
	if err := selfTest(p); err != nil {
		fmt.Fprintln(os.Stderr, "vdrv-tls: pki self-test:", err)
		os.Exit(3)
	}
	// another database's bundle, whose CA is the OTHER CA, is loaded in the same process first
	if _, err := p.loadBundle(p.otherCA, "localhost", 1); err != nil {
		fmt.Fprintln(os.Stderr, "vdrv-tls: decoy bundle:", err)
		os.Exit(3)
	}
	results := make([]Result, len(rows))
	t0 := time.Now()
	var wg sync.WaitGroup
	ch := make(chan int)
	for w := 0; w < *workers; w++ {
		wg.Add(1)
		go func() {
			defer wg.Done()
			for i := range ch {
				results[i] = runRow(p, rows[i])
			}
		}()
	}
	for i := range rows {
		ch <- i
	}
	close(ch)
	wg.Wait()
	if err := hutil.WriteJSON(*out, map[string]interface{}{
		"rows": len(rows), "wall_s": time.Since(t0).Seconds(), "results": results,
	}); err != nil {
		fmt.Fprintln(os.Stderr, "vdrv-tls:", err)
		os.Exit(3)
	}
}

func selfTest(p *pki) error {
	for _, hk := range []string{"dns", "ip"} {
		name := "localhost"
		if hk == "ip" {
			name = "127.0.0.1"
		}
		for _, c := range []Chain{goodChain, {Signer: "int", Extra: true, SAN: "bundleHost", Validity: "current"}} {
			tc, err := p.serverCert(c, hk, nil)
			if err != nil {
				return err
			}
			roots := x509.NewCertPool()
			roots.AddCert(p.bundleCA.cert)
			inter := x509.NewCertPool()
			for _, der := range tc.Certificate[1:] {
				ic, err := x509.ParseCertificate(der)
				if err != nil {
					return err
				}
				inter.AddCert(ic)
			}
			if _, err := tc.Leaf.Verify(x509.VerifyOptions{Roots: roots, Intermediates: inter, DNSName: name}); err != nil {
				return fmt.Errorf("good chain %+v (%s) does not verify with the reference verifier: %w", c, hk, err)
			}
		}
	}
	return nil
}
