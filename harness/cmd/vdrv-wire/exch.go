package main

// One job = one proxy configuration (in-process proxy + fake backend) and a list of exchanges.
// For every exchange the driver records what the backend received and what the client got back,
// in the terms of Wire.tla (header fields, consistency, "everything else" compared byte by byte
// and - for re-encoded frames - field by field with the reference codec).

import (
	"bytes"
	"encoding/binary"
	"encoding/hex"
	"fmt"
	"math/rand"
	"reflect"
	"sort"
	"strings"
	"sync"
	"time"

	"verif/cqlclient"
	"verif/env"
	"verif/fakecql"
	"verif/hutil"

	"github.com/datastax/go-cassandra-native-protocol/frame"
	"github.com/datastax/go-cassandra-native-protocol/message"
	"github.com/datastax/go-cassandra-native-protocol/primitive"
)

type envSpec struct {
	ID       int      `json:"id"`
	MaxV     string   `json:"maxv"`
	List     []string `json:"list"`
	Override string   `json:"override"`
	Nodes    int      `json:"nodes"`
}

type respShape struct {
	Kind       string   `json:"kind"`
	Flags      []string `json:"flags"`
	Compressed bool     `json:"compressed"`
	Size       string   `json:"size"`
}

type exchange struct {
	I          int        `json:"i"`
	Ver        string     `json:"ver"`
	Op         string     `json:"op"`
	Sel        string     `json:"sel"`
	Flags      []string   `json:"flags"`
	Comp       string     `json:"comp"`
	Compressed bool       `json:"compressed"`
	Size       string     `json:"size"`
	Cons       string     `json:"cons"`
	Resp       *respShape `json:"resp,omitempty"`
	Salt       int64      `json:"salt"`
	form       string
}

type job struct {
	Env envSpec     `json:"env"`
	Ex  []*exchange `json:"ex"`
}

type obs struct {
	I         int      `json:"i"`
	St        string   `json:"st"` // ok | closed | timeout | undecodable | noconn | rejected | generr
	Form      string   `json:"form,omitempty"`
	Tok       string   `json:"tok"`
	NAtt      int      `json:"natt"`
	HdrSame   bool     `json:"hdr_same"`
	BytesSame bool     `json:"bytes_same"`
	WF        bool     `json:"wf"`
	WFWhy     string   `json:"wf_why,omitempty"`
	Trail     int      `json:"trail,omitempty"` // bytes between the end of the message and the announced end of the body
	Cons      []string `json:"cons,omitempty"`
	Diff      []string `json:"diff,omitempty"`
	HdrDiff   []string `json:"hdr_diff,omitempty"`
	CompRecv  bool     `json:"comp_recv"`
	Patched   *bool    `json:"patched,omitempty"`
	RSt       string   `json:"rst"` // same | proxy_own | differs | none | unchecked
	RWhy      string   `json:"rwhy,omitempty"`
	RKind     string   `json:"rkind,omitempty"`
	NReplies  int      `json:"nreplies"`
	Err       string   `json:"err,omitempty"`
	Probed    bool     `json:"probed,omitempty"`
	Retries   int      `json:"retries,omitempty"`
	SentLen   int      `json:"sent_len"`
	ReplyLen  int      `json:"reply_len"`
	Detail    *detail  `json:"detail,omitempty"`
}

type detail struct {
	SentHex   string   `json:"sent_hex"`
	RecvHex   []string `json:"backend_recv_hex,omitempty"`
	BReplyHex string   `json:"backend_reply_hex,omitempty"`
	CReplyHex string   `json:"client_reply_hex,omitempty"`
	SentMsg   string   `json:"sent_msg,omitempty"`
}

type pending struct {
	x       *exchange
	ver     primitive.ProtocolVersion
	mu      sync.Mutex
	replies [][]byte
	generr  string
}

type jobState struct {
	mode     string
	j        *job
	e        *env.Env
	clients  map[string]*cqlclient.Client
	scripts  sync.Map // token -> *pending
	logIdx   int
	byTok    map[string][]*fakecql.Attempt
	prepID   map[string][]byte
	late     map[string][]byte            // prep_late_* statements per client connection
	ks2IDs   map[string]map[string][]byte // prep_ks2_* ids per client connection in keyspace ks2
	ks2Nodes bool
	nlate    int
	prepared bool
	thor     bool
	nstream  int
	flushSeq int
}

func hexPrefix(b []byte, n int) string {
	if len(b) > n {
		return hex.EncodeToString(b[:n]) + fmt.Sprintf("...(+%d bytes)", len(b)-n)
	}
	return hex.EncodeToString(b)
}

func (js *jobState) script(a *fakecql.Attempt) fakecql.Outcome {
	v, ok := js.scripts.Load(a.Token)
	if !ok {
		return fakecql.Outcome{Kind: fakecql.OK}
	}
	p := v.(*pending)
	if p.x.Resp == nil {
		if a.Frame.Header.OpCode == primitive.OpCodePrepare {
			return fakecql.Outcome{Kind: fakecql.OK}
		}
		return fakecql.Outcome{Kind: fakecql.OK}
	}
	g := &gen{r: rand.New(rand.NewSource(hutil.Seed()*7919 + p.x.Salt*31 + int64(a.N))), ver: a.Header.Version, thor: js.thor}
	raw, err := g.responseBytes(p.x.Resp, a.Token, a.N, a.Header.StreamId, a.Conn.Compression)
	p.mu.Lock()
	defer p.mu.Unlock()
	if err != nil {
		p.generr = err.Error()
		return fakecql.Outcome{Kind: fakecql.OK}
	}
	p.replies = append(p.replies, raw)
	return fakecql.Outcome{Kind: fakecql.RawReply, Raw: raw}
}

func startJob(mode string, j *job) (*jobState, error) {
	maxv := versions[j.Env.MaxV]
	ver := primitive.ProtocolVersion4
	if maxv < ver {
		ver = maxv
	}
	o := env.Options{Nodes: j.Env.Nodes, NumConns: 1, Version: ver, MaxVersion: maxv,
		Unsupported: j.Env.List, Override: j.Env.Override, Keyspaces: []string{"ks", "ks2"}}
	e, err := env.Start(o)
	if err != nil {
		return nil, err
	}
	js := &jobState{mode: mode, j: j, e: e, clients: map[string]*cqlclient.Client{}, byTok: map[string][]*fakecql.Attempt{},
		prepID: map[string][]byte{}, thor: hutil.Thorough()}
	e.C.KeepLog = true
	e.C.WidePrepared = true
	e.C.Script = js.script
	return js, nil
}

func (js *jobState) close() {
	for _, c := range js.clients {
		c.Close()
	}
	js.e.Close()
}

// clientKs2 is client() for a connection that has switched to the keyspace ks2.
func (js *jobState) clientKs2(ver, comp string) (*cqlclient.Client, error) {
	k := ver + "/" + comp + "/ks2"
	if c := js.clients[k]; c != nil && !c.IsClosed() {
		return c, nil
	}
	delete(js.ks2IDs, k)
	c, err := js.client(ver, comp+"\x00ks2")
	if err != nil {
		return nil, err
	}
	delete(js.clients, ver+"/"+comp+"\x00ks2")
	js.nstream++
	r, err := c.Roundtrip(frame.NewFrame(c.Version, int16(22000+js.nstream%1000), &message.Query{Query: "USE ks2",
		Options: &message.QueryOptions{Consistency: primitive.ConsistencyLevelOne}}), "", "setup", 10*time.Second)
	if err != nil || r.Kind != "setks" {
		c.Close()
		return nil, fmt.Errorf("USE ks2: %v %v", err, r)
	}
	js.clients[k] = c
	return c, nil
}

// ensureKs2 prepares, on a connection whose keyspace is ks2, the very statement texts that ensurePrepared prepared on a
// connection without keyspace: the backend gives them other ids (the id covers the keyspace), and the proxy must learn
// what THOSE ids are too.  The nodes get them directly as well, through connections in ks2.
func (js *jobState) ensureKs2(c *cqlclient.Client, key string) (map[string][]byte, error) {
	if ids := js.ks2IDs[key]; ids != nil {
		return ids, nil
	}
	ids := map[string][]byte{}
	for sel, text := range map[string]string{"prep_ks2_select": prepSelectText, "prep_ks2_write": prepWriteText} {
		id, err := js.prepareVia(c, text)
		if err != nil {
			return nil, err
		}
		ids[sel] = id
	}
	if !js.ks2Nodes {
		for i, ip := range js.e.IPs {
			d, err := cqlclient.Dial(js.e.C.ContactPoint(ip), 9200+i, js.e.T)
			if err != nil {
				return nil, err
			}
			d.Quiet = true
			if err := d.Startup(primitive.ProtocolVersion4, ""); err != nil {
				d.Close()
				return nil, err
			}
			if r, err := d.Roundtrip(frame.NewFrame(primitive.ProtocolVersion4, 5, &message.Query{Query: "USE ks2", Options: &message.QueryOptions{Consistency: primitive.ConsistencyLevelOne}}), "", "setup", 5*time.Second); err != nil || r.Kind != "setks" {
				d.Close()
				return nil, fmt.Errorf("USE ks2 on the node: %v %v", err, r)
			}
			for _, text := range []string{prepSelectText, prepWriteText} {
				if _, err := js.prepareVia(d, text); err != nil {
					d.Close()
					return nil, err
				}
			}
			d.Close()
		}
		js.ks2Nodes = true
	}
	if js.ks2IDs == nil {
		js.ks2IDs = map[string]map[string][]byte{}
	}
	js.ks2IDs[key] = ids
	return ids, nil
}

func (js *jobState) client(ver, comp string) (*cqlclient.Client, error) {
	k := ver + "/" + comp
	if c := js.clients[k]; c != nil && !c.IsClosed() {
		return c, nil
	}
	if i := strings.IndexByte(comp, 0); i >= 0 {
		comp = comp[:i]
	}
	cn := comp
	if cn == "none" {
		cn = ""
	}
	var last error
	for try := 0; try < 50; try++ {
		c, err := js.e.StartedClient(versions[ver], cn)
		if err == nil {
			c.Quiet = true
			js.clients[k] = c
			return c, nil
		}
		last = err
		time.Sleep(10 * time.Millisecond)
	}
	return nil, last
}

func (js *jobState) prepareVia(c *cqlclient.Client, text string) ([]byte, error) {
	js.nstream++
	frm := frame.NewFrame(c.Version, int16(20000+js.nstream%1000), &message.Prepare{Query: text})
	var last error
	for try := 0; try < 100; try++ {
		r, err := c.Roundtrip(frm, "", "setup", 5*time.Second)
		if err != nil {
			return nil, err
		}
		if r.Frame != nil {
			if p, ok := r.Frame.Body.Message.(*message.PreparedResult); ok {
				return p.PreparedQueryId, nil
			}
		}
		last = fmt.Errorf("setup PREPARE answered with %s %s", r.Kind, r.ErrMsg)
		time.Sleep(10 * time.Millisecond)
	}
	return nil, last
}

// ensurePrepared prepares the SELECT and the write statement through the proxy (the proxy learns
// their class from the PREPARE text) and on every node directly (so that no node answers
// UNPREPARED), and a third statement on the nodes only (an id the proxy never saw).
func (js *jobState) ensurePrepared(c *cqlclient.Client) error {
	if js.prepared {
		return nil
	}
	for sel, text := range map[string]string{"prep_select": prepSelectText, "prep_write": prepWriteText} {
		id, err := js.prepareVia(c, text)
		if err != nil {
			return err
		}
		js.prepID[sel] = id
	}
	for i, ip := range js.e.IPs {
		d, err := cqlclient.Dial(js.e.C.ContactPoint(ip), 9000+i, js.e.T)
		if err != nil {
			return err
		}
		d.Quiet = true
		if err := d.Startup(primitive.ProtocolVersion4, ""); err != nil {
			d.Close()
			return err
		}
		for _, text := range []string{prepSelectText, prepWriteText, prepUnknownText} {
			id, err := js.prepareVia(d, text)
			if err != nil {
				d.Close()
				return err
			}
			if text == prepUnknownText {
				js.prepID["prep_unknown"] = id
			}
		}
		d.Close()
	}
	js.prepared = true
	return nil
}

// ensureLate sets up a statement of class prep_late_* for one client connection: a statement the proxy has never seen
// is prepared on the nodes directly, EXECUTEd once through the proxy on that connection (the proxy cannot know what it
// is), and only then PREPAREd through the proxy on the same connection.
// executeRightAfterPrepare: a driver prepares a SELECT and executes it at once, at a consistency of the list - n times,
// each time a statement the proxy has not seen.  The backend must see the client's consistency every time (what the proxy
// learns from a PREPARED result it must know before it passes the result on).
func (js *jobState) executeRightAfterPrepare(c *cqlclient.Client, n int, cons primitive.ConsistencyLevel) (sent, altered int, err error) {
	for i := 0; i < n; i++ {
		js.nlate++
		text := fmt.Sprintf("SELECT v FROM ks.wide%d_%d WHERE k = ?", js.j.Env.ID, js.nlate)
		id, err := js.prepareVia(c, text)
		if err != nil {
			return sent, altered, err
		}
		js.nstream++
		tok := fmt.Sprintf("tokrap%dx%d;", js.j.Env.ID, js.nlate)
		ex := &message.Execute{QueryId: id, Options: &message.QueryOptions{Consistency: cons, PositionalValues: []*primitive.Value{primitive.NewValue([]byte(tok))}}}
		if c.Version.SupportsResultMetadataId() {
			ex.ResultMetadataId = id
		}
		if _, err := c.Roundtrip(frame.NewFrame(c.Version, int16(23000+js.nstream%1000), ex), tok, "wire", 5*time.Second); err != nil {
			return sent, altered, err
		}
		sent++
		for _, a := range js.attempts(tok) {
			if m, ok := a.Frame.Body.Message.(*message.Execute); ok && m.Options != nil && m.Options.Consistency != cons {
				altered++
				break
			}
		}
	}
	return sent, altered, nil
}

func (js *jobState) ensureLate(c *cqlclient.Client, conn, sel string) ([]byte, error) {
	key := conn + "|" + sel + "|" + fmt.Sprint(c.ID)
	if id := js.late[key]; id != nil {
		return id, nil
	}
	js.nlate++
	text := fmt.Sprintf("SELECT v FROM ks.late%d_%d WHERE k = ?", js.j.Env.ID, js.nlate)
	if sel == "prep_late_write" {
		text = fmt.Sprintf("INSERT INTO ks.late%d_%d (k, v) VALUES (?, ?)", js.j.Env.ID, js.nlate)
	}
	var id []byte
	for i, ip := range js.e.IPs {
		d, err := cqlclient.Dial(js.e.C.ContactPoint(ip), 9100+i, js.e.T)
		if err != nil {
			return nil, err
		}
		d.Quiet = true
		if err := d.Startup(primitive.ProtocolVersion4, ""); err != nil {
			d.Close()
			return nil, err
		}
		id, err = js.prepareVia(d, text)
		d.Close()
		if err != nil {
			return nil, err
		}
	}
	js.nstream++
	ex := &message.Execute{QueryId: id, Options: &message.QueryOptions{Consistency: primitive.ConsistencyLevelOne}}
	if c.Version.SupportsResultMetadataId() {
		ex.ResultMetadataId = make([]byte, 16)
	}
	if _, err := c.Roundtrip(frame.NewFrame(c.Version, int16(21000+js.nstream%1000), ex), "", "setup", 5*time.Second); err != nil {
		return nil, err
	}
	id2, err := js.prepareVia(c, text)
	if err != nil {
		return nil, err
	}
	if js.late == nil {
		js.late = map[string][]byte{}
	}
	js.late[key] = id2
	return id2, nil
}

func (js *jobState) attempts(tok string) []*fakecql.Attempt {
	log := js.e.C.Log()
	for ; js.logIdx < len(log); js.logIdx++ {
		a := log[js.logIdx]
		if a.Token != "" {
			js.byTok[a.Token] = append(js.byTok[a.Token], a)
		}
	}
	return js.byTok[tok]
}

func flagNames(f primitive.HeaderFlag) []string {
	var out []string
	for _, p := range []struct {
		f primitive.HeaderFlag
		n string
	}{{primitive.HeaderFlagCompressed, "COMPRESSED"}, {primitive.HeaderFlagTracing, "TRACING"}, {primitive.HeaderFlagCustomPayload, "PAYLOAD"},
		{primitive.HeaderFlagWarning, "WARNING"}, {primitive.HeaderFlagUseBeta, "BETA"}} {
		if f.Contains(p.f) {
			out = append(out, p.n)
			f = f.Remove(p.f)
		}
	}
	if f != 0 {
		out = append(out, fmt.Sprintf("0x%02x", uint8(f)))
	}
	return out
}

// decodePlain decodes an uncompressed body with the reference codec and reports trailing bytes.
func decodePlain(hdr frame.Header, plain []byte) (*frame.Body, int, error) {
	h := hdr
	h.Flags = h.Flags.Remove(primitive.HeaderFlagCompressed)
	h.BodyLength = int32(len(plain))
	buf := bytes.NewBuffer(plain)
	b, err := refCodec("").DecodeBody(&h, buf)
	return b, buf.Len(), err
}

func consOf(m message.Message) (primitive.ConsistencyLevel, bool) {
	switch q := m.(type) {
	case *message.Query:
		if q.Options != nil {
			return q.Options.Consistency, true
		}
	case *message.Execute:
		if q.Options != nil {
			return q.Options.Consistency, true
		}
	case *message.Batch:
		return q.Consistency, true
	}
	return 0, false
}

func diffOptions(pfx string, a, b *message.QueryOptions, out *[]string) {
	if a == nil || b == nil {
		if a != b {
			*out = append(*out, pfx+"options")
		}
		return
	}
	add := func(n string, x, y interface{}) {
		if !reflect.DeepEqual(x, y) {
			*out = append(*out, pfx+n)
		}
	}
	add("positional_values", a.PositionalValues, b.PositionalValues)
	add("named_values", a.NamedValues, b.NamedValues)
	add("skip_metadata", a.SkipMetadata, b.SkipMetadata)
	add("page_size", a.PageSize, b.PageSize)
	add("page_size_in_bytes", a.PageSizeInBytes, b.PageSizeInBytes)
	add("paging_state", a.PagingState, b.PagingState)
	add("serial_consistency", a.SerialConsistency, b.SerialConsistency)
	add("default_timestamp", a.DefaultTimestamp, b.DefaultTimestamp)
	add("keyspace", a.Keyspace, b.Keyspace)
	add("now_in_seconds", a.NowInSeconds, b.NowInSeconds)
	add("continuous_paging", a.ContinuousPagingOptions, b.ContinuousPagingOptions)
}

// diffBodies lists the fields (other than the consistency level) in which two decoded request
// bodies differ.
func diffBodies(a, b *frame.Body) []string {
	var out []string
	add := func(n string, x, y interface{}) {
		if !reflect.DeepEqual(x, y) {
			out = append(out, n)
		}
	}
	if len(a.CustomPayload) != 0 || len(b.CustomPayload) != 0 {
		add("custom_payload", a.CustomPayload, b.CustomPayload)
	}
	if reflect.TypeOf(a.Message) != reflect.TypeOf(b.Message) {
		return append(out, "message_type")
	}
	switch x := a.Message.(type) {
	case *message.Query:
		y := b.Message.(*message.Query)
		add("query", x.Query, y.Query)
		diffOptions("", x.Options, y.Options, &out)
	case *message.Execute:
		y := b.Message.(*message.Execute)
		add("query_id", x.QueryId, y.QueryId)
		add("result_metadata_id", x.ResultMetadataId, y.ResultMetadataId)
		diffOptions("", x.Options, y.Options, &out)
	case *message.Batch:
		y := b.Message.(*message.Batch)
		add("batch_type", x.Type, y.Type)
		add("children", x.Children, y.Children)
		add("serial_consistency", x.SerialConsistency, y.SerialConsistency)
		add("default_timestamp", x.DefaultTimestamp, y.DefaultTimestamp)
		add("keyspace", x.Keyspace, y.Keyspace)
		add("now_in_seconds", x.NowInSeconds, y.NowInSeconds)
	case *message.Prepare:
		y := b.Message.(*message.Prepare)
		add("query", x.Query, y.Query)
		add("keyspace", x.Keyspace, y.Keyspace)
	}
	return out
}

func withCons(m message.Message, c primitive.ConsistencyLevel) {
	switch q := m.(type) {
	case *message.Query:
		q.Options.Consistency = c
	case *message.Execute:
		q.Options.Consistency = c
	case *message.Batch:
		q.Consistency = c
	}
}

func waitFor(size string) (first, total time.Duration) {
	switch size {
	case "L":
		return 4 * time.Second, 20 * time.Second
	case "M":
		return 400 * time.Millisecond, 6 * time.Second
	}
	return 80 * time.Millisecond, 5 * time.Second
}

// flush sends a small uncompressed SELECT on the same client connection. If the backend
// connection is waiting for the rest of a frame whose header announced more bytes than were
// written, these bytes complete it (and the recorded frame shows the damage).
func (js *jobState) flush(c *cqlclient.Client) {
	js.flushSeq++
	q := fmt.Sprintf("select * from ks.flush where k = 'tokflush%dx%d;'", js.j.Env.ID, js.flushSeq)
	frm := frame.NewFrame(c.Version, int16(30000+js.flushSeq%2000), &message.Query{Query: q, Options: &message.QueryOptions{Consistency: primitive.ConsistencyLevelLocalOne}})
	if b, _, err := encodeFrame("", frm); err == nil {
		_ = c.SendBytes(b, int(frm.Header.StreamId), "QUERY", "", "flush")
	}
}

func (js *jobState) run(x *exchange) *obs {
	var o *obs
	for retry := 0; retry < 150; retry++ {
		o = js.runOnce(x, retry)
		o.Retries = retry
		if o.St != "noconn" {
			return o
		}
		time.Sleep(time.Duration(2+retry/10) * time.Millisecond)
	}
	return o
}

func (js *jobState) runOnce(x *exchange, retry int) *obs {
	o := &obs{I: x.I, RSt: "none"}
	fail := func(st, msg string) *obs {
		o.St, o.Err = st, msg
		return o
	}
	ks2 := strings.HasPrefix(x.Sel, "prep_ks2_")
	c, err := js.client(x.Ver, x.Comp)
	if err == nil && ks2 {
		// the unqualified statements were prepared without keyspace first
		if err = js.ensurePrepared(c); err == nil {
			c, err = js.clientKs2(x.Ver, x.Comp)
		}
	}
	if err != nil {
		return fail("generr", "client: "+err.Error())
	}
	if x.Op == "EXECUTE" || x.Op == "BATCH" {
		if err := js.ensurePrepared(c); err != nil {
			return fail("generr", "setup prepare: "+err.Error())
		}
	}
	prepID := js.prepID
	if ks2 {
		ids, err := js.ensureKs2(c, x.Ver+"/"+x.Comp+"/ks2")
		if err != nil {
			return fail("generr", "ks2 prepare: "+err.Error())
		}
		prepID = map[string][]byte{}
		for k, v := range js.prepID {
			prepID[k] = v
		}
		for k, v := range ids {
			prepID[k] = v
		}
	}
	if strings.HasPrefix(x.Sel, "prep_late_") {
		id, err := js.ensureLate(c, x.Ver+"/"+x.Comp, x.Sel)
		if err != nil {
			return fail("generr", "late prepare: "+err.Error())
		}
		prepID = map[string][]byte{x.Sel: id}
		for k, v := range js.prepID {
			prepID[k] = v
		}
	}
	tok := fmt.Sprintf("tok%dx%dr%d;", js.j.Env.ID, x.I, retry)
	o.Tok = tok
	g := &gen{r: rand.New(rand.NewSource(hutil.Seed()*1000003 + x.Salt)), ver: versions[x.Ver], thor: js.thor, prepID: prepID}
	stream := int16(g.r.Intn(16000))
	frm, err := g.requestFrame(x, tok, stream)
	if err != nil {
		return fail("generr", "request: "+err.Error())
	}
	sent, plainSent, err := encodeFrame(x.Comp, frm)
	if err != nil {
		return fail("generr", "encode: "+err.Error())
	}
	o.Form = x.form
	sentHdr := *frm.Header
	sentBody := sent[9:]
	o.SentLen = len(sent)
	// the uncompressed encoding of the body, decoded again: the normal form compared field by field
	plainHdr := sentHdr
	plainHdr.Flags = plainHdr.Flags.Remove(primitive.HeaderFlagCompressed)
	sentDec, trail, err := decodePlain(sentHdr, plainSent)
	if err != nil || trail != 0 {
		return fail("generr", fmt.Sprintf("generator produced a body the reference codec does not read back: %v trailing=%d", err, trail))
	}
	p := &pending{x: x, ver: versions[x.Ver]}
	js.scripts.Store(tok, p)
	from := c.Count()
	// every fourth frame reaches the proxy in two TCP segments, cut somewhere inside its header
	c.SplitAt = 0
	if js.nstream%4 == 3 {
		c.SplitAt = 1 + js.nstream/4%8
	}
	err = c.SendBytes(sent, int(stream), x.Op, tok, "wire")
	c.SplitAt = 0
	if err != nil {
		delete(js.clients, x.Ver+"/"+x.Comp)
		return fail("noconn", "send: "+err.Error())
	}
	first, total := waitFor(x.Size)
	if x.Resp != nil && x.Resp.Size == "L" {
		first, total = waitFor("L")
	}
	r := c.WaitStream(stream, from, first)
	if r == nil && !c.IsClosed() {
		if js.mode == "c12" {
			o.Probed = true
			js.flush(c)
		}
		r = c.WaitStream(stream, from, total)
	}
	atts := js.attempts(tok)
	o.NAtt = len(atts)
	mkDetail := func() {
		d := &detail{SentHex: hexPrefix(sent, 200), SentMsg: fmt.Sprintf("%v", frm.Body.Message)}
		for _, a := range atts {
			var hb bytes.Buffer
			h := a.Header
			_ = refCodec("").EncodeHeader(&h, &hb)
			d.RecvHex = append(d.RecvHex, hexPrefix(append(hb.Bytes(), a.WireBody...), 200))
		}
		if len(d.SentMsg) > 300 {
			d.SentMsg = d.SentMsg[:300]
		}
		p.mu.Lock()
		if n := len(p.replies); n > 0 {
			d.BReplyHex = hexPrefix(p.replies[n-1], 120)
		}
		p.mu.Unlock()
		if r != nil {
			var hb bytes.Buffer
			h := r.Header
			_ = refCodec("").EncodeHeader(&h, &hb)
			d.CReplyHex = hexPrefix(append(hb.Bytes(), r.WireBody...), 120)
		}
		o.Detail = d
	}

	// ---- what the backend received
	o.HdrSame, o.BytesSame, o.WF = true, true, true
	hdrDiff := map[string]bool{}
	fieldDiff := map[string]bool{}
	for _, a := range atts {
		if a.Header.Version != sentHdr.Version || a.Header.IsResponse {
			hdrDiff["version"] = true
		}
		if a.Header.OpCode != sentHdr.OpCode {
			hdrDiff["opcode"] = true
		}
		if a.Header.Flags != sentHdr.Flags {
			if a.Header.Flags.Remove(primitive.HeaderFlagCompressed) != sentHdr.Flags.Remove(primitive.HeaderFlagCompressed) {
				hdrDiff["flags"] = true
			} else {
				hdrDiff["compressed_flag"] = true
			}
		}
		o.CompRecv = a.Header.Flags.Contains(primitive.HeaderFlagCompressed)
		if int(a.Header.BodyLength) != len(sentBody) || !bytes.Equal(a.WireBody, sentBody) {
			o.BytesSame = false
		}
		// well-framedness: the announced length holds exactly one body the reference codec reads completely
		plainGot := a.Body
		if a.Header.Flags.Contains(primitive.HeaderFlagCompressed) {
			if cp := compressorOf(a.Conn.Compression); cp == nil {
				o.WF, o.WFWhy = false, "COMPRESSED flag on a connection without compression"
				continue
			} else {
				var buf bytes.Buffer
				if err := cp.DecompressWithLength(bytes.NewReader(a.WireBody), &buf); err != nil {
					o.WF, o.WFWhy = false, "body does not decompress: "+err.Error()
					continue
				}
				plainGot = buf.Bytes()
			}
		}
		gotDec, trail, err := decodePlain(a.Header, plainGot)
		if err != nil {
			o.WF, o.WFWhy = false, "reference codec cannot decode the body: "+err.Error()
			continue
		}
		if trail != 0 {
			o.Trail = trail
			o.WF, o.WFWhy = false, fmt.Sprintf("header announces %d body bytes, the message ends %d bytes earlier (the rest belongs to the next frame)", a.Header.BodyLength, trail)
		}
		if cl, ok := consOf(gotDec.Message); ok {
			o.Cons = append(o.Cons, levelName(cl))
		} else {
			o.Cons = append(o.Cons, "-")
		}
		for _, d := range diffBodies(sentDec, gotDec) {
			fieldDiff[d] = true
		}
		if scl, ok := consOf(sentDec.Message); ok {
			if gcl, _ := consOf(gotDec.Message); gcl != scl && trail == 0 {
				// expected plain body if only the consistency was rewritten
				withCons(frm.Body.Message, gcl)
				var exp bytes.Buffer
				if err := refCodec("").EncodeBody(&plainHdr, frm.Body, &exp); err == nil {
					eq := bytes.Equal(exp.Bytes(), plainGot)
					o.Patched = &eq
				}
				withCons(frm.Body.Message, scl)
			}
		}
	}
	for k := range hdrDiff {
		o.HdrDiff = append(o.HdrDiff, k)
	}
	sort.Strings(o.HdrDiff)
	for k := range fieldDiff {
		o.Diff = append(o.Diff, k)
	}
	sort.Strings(o.Diff)
	o.HdrSame = len(o.HdrDiff) == 0

	// ---- what the client received
	p.mu.Lock()
	replies := p.replies
	generr := p.generr
	p.mu.Unlock()
	o.NReplies = len(replies)
	if generr != "" {
		o.Err = "response generator: " + generr
	}
	if r == nil {
		if c.IsClosed() {
			delete(js.clients, x.Ver+"/"+x.Comp)
			o.St = "closed"
		} else {
			o.St = "timeout"
			// reset the backend connections so that the following exchanges start clean
			for _, ip := range js.e.IPs {
				js.e.C.RestartNode(ip)
			}
		}
		mkDetail()
		return o
	}
	o.St = "ok"
	o.RKind = r.Kind
	o.ReplyLen = 9 + len(r.WireBody)
	isErr := r.Header.OpCode == primitive.OpCodeError
	hasTok := bytes.Contains(r.Body, []byte(tok))
	if isErr && !hasTok && o.NAtt == 0 {
		switch {
		case strings.Contains(r.ErrMsg, "fakecql: cannot decode frame"):
			o.St, o.Err = "undecodable", r.ErrMsg
			mkDetail()
			return o
		case strings.Contains(r.ErrMsg, "nvalid or unsupported protocol version"):
			o.St, o.Err = "rejected", r.ErrMsg
			return o
		default:
			o.St, o.Err = "noconn", r.ErrMsg
			return o
		}
	}
	switch {
	case x.Resp == nil || generr != "":
		o.RSt = "unchecked"
	case len(replies) == 0:
		if isErr && !hasTok {
			o.RSt, o.RWhy = "proxy_own", r.ErrMsg
		} else {
			o.RSt, o.RWhy = "differs", "the client got an answer although the backend sent none"
		}
	default:
		last := replies[len(replies)-1]
		var why []string
		if last[0] != byte(r.Header.Version)|0x80 || !r.Header.IsResponse {
			why = append(why, "version")
		}
		if last[1] != byte(r.Header.Flags) {
			why = append(why, "flags")
		}
		if last[4] != byte(r.Header.OpCode) {
			why = append(why, "opcode")
		}
		if int32(binary.BigEndian.Uint32(last[5:9])) != r.Header.BodyLength {
			why = append(why, "body_length")
		}
		if !bytes.Equal(last[9:], r.WireBody) {
			why = append(why, "body")
		}
		if r.Header.StreamId != stream {
			why = append(why, "stream")
		}
		switch {
		case len(why) == 0:
			o.RSt = "same"
		case isErr && !hasTok:
			o.RSt, o.RWhy = "proxy_own", r.ErrMsg
		default:
			o.RSt, o.RWhy = "differs", strings.Join(why, ",")
		}
	}
	if !o.HdrSame || !o.BytesSame || !o.WF || o.RSt == "differs" || o.NAtt == 0 || len(o.Diff) > 0 {
		mkDetail()
	}
	return o
}
