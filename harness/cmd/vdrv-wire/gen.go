package main

// Concretiser: builds real request and response frames with the *reference* codec of
// go-cassandra-native-protocol for an abstract row of Wire.tla, with seeded contents over the whole
// option grammar the protocol version allows.

import (
	"bytes"
	"crypto/md5"
	"fmt"
	"math/rand"
	"net"
	"strings"

	"github.com/datastax/go-cassandra-native-protocol/compression/lz4"
	"github.com/datastax/go-cassandra-native-protocol/compression/snappy"
	"github.com/datastax/go-cassandra-native-protocol/datatype"
	"github.com/datastax/go-cassandra-native-protocol/frame"
	"github.com/datastax/go-cassandra-native-protocol/message"
	"github.com/datastax/go-cassandra-native-protocol/primitive"
)

var versions = map[string]primitive.ProtocolVersion{
	"v3": primitive.ProtocolVersion3, "v4": primitive.ProtocolVersion4, "v5": primitive.ProtocolVersion5,
	"dse1": primitive.ProtocolVersionDse1, "dse2": primitive.ProtocolVersionDse2,
}

var levelNames = []string{"ANY", "ONE", "TWO", "THREE", "QUORUM", "ALL", "LOCAL_QUORUM", "EACH_QUORUM", "SERIAL", "LOCAL_SERIAL", "LOCAL_ONE"}

func levelByName(n string) primitive.ConsistencyLevel {
	for i, l := range levelNames {
		if l == n {
			return primitive.ConsistencyLevel(i)
		}
	}
	panic("unknown consistency level " + n)
}

func levelName(c primitive.ConsistencyLevel) string {
	if int(c) < len(levelNames) {
		return levelNames[c]
	}
	return fmt.Sprintf("0x%04x", uint16(c))
}

func refCodec(comp string) frame.RawCodec {
	switch comp {
	case "lz4":
		return frame.NewRawCodecWithCompression(lz4.Compressor{})
	case "snappy":
		return frame.NewRawCodecWithCompression(snappy.Compressor{})
	}
	return frame.NewRawCodec()
}

func compressorOf(comp string) frame.BodyCompressor {
	switch comp {
	case "lz4":
		return lz4.Compressor{}
	case "snappy":
		return snappy.Compressor{}
	}
	return nil
}

// encodeFrame returns the wire bytes of frm (and the uncompressed body). The body is encoded
// first and the header length is taken from the encoded body. Compressed bodies are checked to
// decompress back to the plain body: the library's lz4 block compressor emits an empty block for
// input it cannot shrink (tiny or random bodies); such bodies are written as a literal-only LZ4
// block, which is what a real LZ4 encoder produces for incompressible input.
func encodeFrame(comp string, frm *frame.Frame) (wire []byte, plain []byte, err error) {
	codec := refCodec("")
	ph := *frm.Header
	ph.Flags = ph.Flags.Remove(primitive.HeaderFlagCompressed)
	var pb bytes.Buffer
	if err := codec.EncodeBody(&ph, frm.Body, &pb); err != nil {
		return nil, nil, err
	}
	plain = pb.Bytes()
	body := plain
	if frm.Header.Flags.Contains(primitive.HeaderFlagCompressed) {
		cp := compressorOf(comp)
		if cp == nil {
			return nil, nil, fmt.Errorf("COMPRESSED flag without negotiated compression")
		}
		var cb bytes.Buffer
		if err := cp.CompressWithLength(bytes.NewReader(plain), &cb); err != nil {
			return nil, nil, err
		}
		body = cb.Bytes()
		if !roundTrips(comp, body, plain) {
			if comp != "lz4" {
				return nil, nil, errNoRoundTrip
			}
			body = lz4Literal(plain)
			if !roundTrips(comp, body, plain) {
				return nil, nil, errNoRoundTrip
			}
		}
	}
	h := *frm.Header
	h.BodyLength = int32(len(body))
	var out bytes.Buffer
	if err := codec.EncodeHeader(&h, &out); err != nil {
		return nil, nil, err
	}
	out.Write(body)
	return out.Bytes(), plain, nil
}

// lz4Literal is [int length] + one LZ4 block consisting of a single literal run.
func lz4Literal(plain []byte) []byte {
	n := len(plain)
	out := make([]byte, 4, n+n/255+8)
	out[0], out[1], out[2], out[3] = byte(n>>24), byte(n>>16), byte(n>>8), byte(n)
	if n < 15 {
		out = append(out, byte(n<<4))
	} else {
		out = append(out, 0xF0)
		rest := n - 15
		for ; rest >= 255; rest -= 255 {
			out = append(out, 255)
		}
		out = append(out, byte(rest))
	}
	return append(out, plain...)
}

type gen struct {
	r      *rand.Rand
	ver    primitive.ProtocolVersion
	thor   bool
	prepID map[string][]byte // sel class -> prepared id
	// compressible: no purely random bulk data (the library's lz4 block compressor emits an empty
	// block for input it cannot shrink, which no decompressor reads back)
	compressible bool
}

// roundTrips reports whether a compressed body decompresses to plain with the reference compressor.
func roundTrips(comp string, wire, plain []byte) bool {
	cp := compressorOf(comp)
	if cp == nil {
		return false
	}
	var buf bytes.Buffer
	if err := cp.DecompressWithLength(bytes.NewReader(wire), &buf); err != nil {
		return false
	}
	return bytes.Equal(buf.Bytes(), plain)
}

func (g *gen) supportsKeyspace() bool {
	return g.ver == primitive.ProtocolVersion5 || g.ver == primitive.ProtocolVersionDse2
}

func (g *gen) bytesN(n int) []byte {
	b := make([]byte, n)
	mode := g.r.Intn(3)
	if g.compressible && mode == 0 {
		mode = 2
	}
	switch mode {
	case 0: // incompressible
		g.r.Read(b)
	case 1: // highly compressible
		p := byte(g.r.Intn(256))
		for i := range b {
			b[i] = p
		}
	default: // mixed
		g.r.Read(b)
		for i := 0; i+8 < len(b); i += 16 {
			copy(b[i:i+8], "abcdefgh")
		}
	}
	return b
}

// bulk returns the size of the one big value of a body of the given size class.
func (g *gen) bulk(size string) int {
	switch size {
	case "M":
		return 4096 + g.r.Intn(60*1024)
	case "L":
		if g.thor {
			return []int{256 << 10, 1 << 20, 3 << 20, 8<<20 - 4096}[g.r.Intn(4)]
		}
		return 200<<10 + g.r.Intn(56<<10)
	}
	return 0
}

func (g *gen) value(max int) *primitive.Value {
	switch v := g.r.Intn(10); {
	case v == 0:
		return primitive.NewNullValue()
	case v == 1 && g.ver >= primitive.ProtocolVersion4:
		return primitive.NewUnsetValue()
	case v == 2:
		return primitive.NewValue([]byte{})
	}
	return primitive.NewValue(g.bytesN(1 + g.r.Intn(max)))
}

func (g *gen) text(n int) string {
	const al = "abcdefghijklmnopqrstuvwxyzABCDEFGHIJKLMNOPQRSTUVWXYZ0123456789 _-+*/()[]{}<>=!?.,:"
	var sb strings.Builder
	sb.Grow(n)
	for i := 0; i < n; i++ {
		sb.WriteByte(al[g.r.Intn(len(al))])
	}
	return sb.String()
}

// options builds QueryOptions over the whole option space of the version. tokenValue, when not
// empty, is placed in the first bound value.
func (g *gen) options(cons primitive.ConsistencyLevel, size string, tokenValue string) *message.QueryOptions {
	o := &message.QueryOptions{Consistency: cons}
	mode := g.r.Intn(3) // 0 none, 1 positional, 2 named
	bulk := g.bulk(size)
	if tokenValue != "" || bulk > 0 {
		if mode == 0 {
			mode = 1 + g.r.Intn(2)
		}
	}
	n := g.r.Intn(5)
	switch mode {
	case 1:
		o.PositionalValues = []*primitive.Value{}
		if tokenValue != "" {
			o.PositionalValues = append(o.PositionalValues, primitive.NewValue([]byte(tokenValue)))
		}
		for i := 0; i < n; i++ {
			o.PositionalValues = append(o.PositionalValues, g.value(64))
		}
		if bulk > 0 {
			o.PositionalValues = append(o.PositionalValues, primitive.NewValue(g.bytesN(bulk)))
		}
	case 2:
		o.NamedValues = map[string]*primitive.Value{}
		if tokenValue != "" {
			o.NamedValues["a_tok"] = primitive.NewValue([]byte(tokenValue))
		}
		for i := 0; i < n; i++ {
			o.NamedValues[fmt.Sprintf("v%d_%s", i, g.text(1+g.r.Intn(6)))] = g.value(64)
		}
		if bulk > 0 {
			o.NamedValues["z_bulk"] = primitive.NewValue(g.bytesN(bulk))
		}
	}
	o.SkipMetadata = g.r.Intn(3) == 0
	if g.r.Intn(2) == 0 {
		o.PageSize = int32(1 + g.r.Intn(100000))
		if g.ver.IsDse() && g.r.Intn(2) == 0 {
			o.PageSizeInBytes = true
		}
	}
	if g.r.Intn(3) == 0 {
		o.PagingState = g.bytesN(1 + g.r.Intn(120))
	}
	if g.r.Intn(3) == 0 {
		sc := primitive.ConsistencyLevelSerial
		if g.r.Intn(2) == 0 {
			sc = primitive.ConsistencyLevelLocalSerial
		}
		o.SerialConsistency = &sc
	}
	if g.r.Intn(3) == 0 {
		ts := g.r.Int63() - (1 << 62)
		o.DefaultTimestamp = &ts
	}
	if g.supportsKeyspace() && g.r.Intn(3) == 0 {
		o.Keyspace = "ks_" + g.text(1+g.r.Intn(8))
	}
	if g.ver == primitive.ProtocolVersion5 && g.r.Intn(3) == 0 {
		now := int32(g.r.Int31())
		o.NowInSeconds = &now
	}
	if g.ver.IsDse() && g.r.Intn(3) == 0 {
		o.ContinuousPagingOptions = &message.ContinuousPagingOptions{MaxPages: g.r.Int31n(100), PagesPerSecond: g.r.Int31n(100)}
		if g.ver == primitive.ProtocolVersionDse2 {
			o.ContinuousPagingOptions.NextPages = g.r.Int31n(100)
		}
	}
	return o
}

// statement texts; %s is replaced by the token. form = index of the variant.
var selectForms = []string{
	"SELECT * FROM ks.tbl WHERE k = '%s'",
	"select v, w from ks.tbl where k = '%s' and c > ? limit 10",
	"  \n\tSeLeCt JSON v FROM ks.tbl WHERE k = '%s' ALLOW FILTERING;",
	"SELECT count(*) FROM ks.tbl WHERE k = '%s' AND v IN (?, ?)",
	"/* read path */ SELECT * FROM ks.tbl WHERE k = '%s'", // CQL allows comments before the statement
}
var writeForms = []string{
	"INSERT INTO ks.tbl (k, v) VALUES ('%s', ?)",
	"update ks.tbl set v = ? where k = '%s'",
	"DELETE FROM ks.tbl WHERE k = '%s'",
	" \n INSERT INTO ks.tbl (k, v) VALUES ('%s', now()) IF NOT EXISTS;",
	"BEGIN BATCH INSERT INTO ks.tbl (k, v) VALUES ('%s', 1); UPDATE ks.tbl SET v = 2 WHERE k = 'x' APPLY BATCH",
	"UPDATE ks.cnt SET c = c + 1 WHERE k = '%s'",
	"TRUNCATE ks.tbl_%s",
}

// fixed statements prepared once per environment
const (
	prepSelectText  = "SELECT v FROM ks.tbl WHERE k = ?"
	prepWriteText   = "INSERT INTO ks.tbl (k, v) VALUES (?, ?)"
	prepUnknownText = "UPDATE ks.tbl SET v = ? WHERE k = ?"
)

func tokenBare(tok string) string { return strings.TrimSuffix(tok, ";") }

// stmtText builds a statement of the class with the token inside; big bodies get a long literal.
func (g *gen) stmtText(sel, tok string, pad int) (string, int) {
	forms := writeForms
	if sel == "text_select" {
		forms = selectForms
	}
	fi := g.r.Intn(len(forms))
	if pad > 0 {
		if sel == "text_select" {
			return fmt.Sprintf("SELECT * FROM ks.tbl WHERE k = '%s' AND pad = '%s'", tok, g.text(pad)), 100
		}
		return fmt.Sprintf("UPDATE ks.tbl SET p = '%s' WHERE k = '%s'", g.text(pad), tok), 100
	}
	// (the token ends with ';' so that fakecql.TokenRe matches it: in TRUNCATE it doubles as the
	// statement terminator)
	return fmt.Sprintf(forms[fi], tok), fi
}

// request builds the request message of a row.
func (g *gen) request(op, sel, tok string, cons primitive.ConsistencyLevel, size string) (message.Message, string, error) {
	switch op {
	case "QUERY":
		// big bodies of QUERY travel in a bound value
		q, fi := g.stmtText(sel, tok, 0)
		return &message.Query{Query: q, Options: g.options(cons, size, "")}, fmt.Sprintf("form%d", fi), nil
	case "PREPARE":
		q, fi := g.stmtText(sel, tok, g.bulk(size))
		p := &message.Prepare{Query: q}
		if g.ver.SupportsPrepareFlags() && g.r.Intn(3) == 0 {
			p.Keyspace = "ks_" + g.text(1+g.r.Intn(8))
		}
		return p, fmt.Sprintf("form%d", fi), nil
	case "EXECUTE":
		id := g.prepID[sel]
		if id == nil {
			return nil, "", fmt.Errorf("no prepared id for %s", sel)
		}
		ex := &message.Execute{QueryId: id, Options: g.options(cons, size, tok)}
		if g.ver.SupportsResultMetadataId() {
			ex.ResultMetadataId = g.bytesN(16)
		}
		return ex, "", nil
	case "BATCH":
		b := &message.Batch{Type: []primitive.BatchType{primitive.BatchTypeLogged, primitive.BatchTypeUnlogged, primitive.BatchTypeCounter}[g.r.Intn(3)], Consistency: cons}
		n := 1 + g.r.Intn(4)
		bulk := g.bulk(size)
		for i := 0; i < n; i++ {
			ch := &message.BatchChild{}
			if i > 0 && g.r.Intn(2) == 0 && g.prepID["prep_write"] != nil {
				ch.Id = g.prepID["prep_write"]
			} else if i == 0 {
				ch.Query = fmt.Sprintf(writeForms[g.r.Intn(3)], tok)
			} else {
				ch.Query = fmt.Sprintf(writeForms[g.r.Intn(3)], "k"+g.text(4))
			}
			for j, m := 0, g.r.Intn(4); j < m; j++ {
				ch.Values = append(ch.Values, g.value(48))
			}
			if i == n-1 && bulk > 0 {
				ch.Values = append(ch.Values, primitive.NewValue(g.bytesN(bulk)))
			}
			b.Children = append(b.Children, ch)
		}
		if g.r.Intn(3) == 0 {
			sc := primitive.ConsistencyLevelSerial
			if g.r.Intn(2) == 0 {
				sc = primitive.ConsistencyLevelLocalSerial
			}
			b.SerialConsistency = &sc
		}
		if g.r.Intn(3) == 0 {
			ts := g.r.Int63() - (1 << 62)
			b.DefaultTimestamp = &ts
		}
		if g.supportsKeyspace() && g.r.Intn(3) == 0 {
			b.Keyspace = "ks_" + g.text(1+g.r.Intn(8))
		}
		if g.ver == primitive.ProtocolVersion5 && g.r.Intn(3) == 0 {
			now := int32(g.r.Int31())
			b.NowInSeconds = &now
		}
		return b, "", nil
	}
	return nil, "", fmt.Errorf("unknown op %s", op)
}

func (g *gen) payload() map[string][]byte {
	m := map[string][]byte{}
	for i, n := 0, 1+g.r.Intn(3); i < n; i++ {
		m[fmt.Sprintf("p%d-%s", i, g.text(1+g.r.Intn(5)))] = g.bytesN(g.r.Intn(40))
	}
	return m
}

func hasFlag(flags []string, f string) bool {
	for _, x := range flags {
		if x == f {
			return true
		}
	}
	return false
}

// requestFrame builds the client frame of a row.
func (g *gen) requestFrame(x *exchange, tok string, stream int16) (*frame.Frame, error) {
	msg, form, err := g.request(x.Op, x.Sel, tok, levelByName(x.Cons), x.Size)
	if err != nil {
		return nil, err
	}
	x.form = form
	frm := frame.NewFrame(g.ver, stream, msg)
	if hasFlag(x.Flags, "TRACING") {
		frm.RequestTracingId(true)
	}
	if hasFlag(x.Flags, "PAYLOAD") {
		frm.SetCustomPayload(g.payload())
	}
	if hasFlag(x.Flags, "BETA") {
		frm.Header.Flags = frm.Header.Flags.Add(primitive.HeaderFlagUseBeta)
	}
	if x.Compressed {
		frm.Header.Flags = frm.Header.Flags.Add(primitive.HeaderFlagCompressed)
	}
	return frm, nil
}

// ---------------------------------------------------------------------------- responses

func (g *gen) failureReasons() []*primitive.FailureReason {
	return []*primitive.FailureReason{{Endpoint: net.IPv4(10, 0, 0, byte(1+g.r.Intn(200))), Code: primitive.FailureCode(g.r.Intn(3))}}
}

// responseMessage builds a response of the given kind carrying the token and the attempt number.
func (g *gen) responseMessage(kind, tok string, att int, size string) (message.Message, error) {
	em := fmt.Sprintf("%s %s attempt %d %s", kind, tok, att, g.text(g.r.Intn(40)))
	cl := primitive.ConsistencyLevel(g.r.Intn(11))
	switch kind {
	case "void":
		return &message.VoidResult{}, nil
	case "rows":
		cols := []*message.ColumnMetadata{
			{Keyspace: "ks", Table: "t", Name: "tok", Type: datatype.Varchar},
			{Keyspace: "ks", Table: "t", Name: "b", Type: datatype.Blob}}
		if g.r.Intn(2) == 0 {
			cols[1].Table = "t2"
		}
		md := &message.RowsMetadata{ColumnCount: 2, Columns: cols}
		if g.r.Intn(3) == 0 {
			md.PagingState = g.bytesN(1 + g.r.Intn(60))
		}
		if g.supportsKeyspace() && g.r.Intn(3) == 0 {
			md.NewResultMetadataId = g.bytesN(16)
		}
		var rows message.RowSet
		bulk := g.bulk(size)
		for i, n := 0, 1+g.r.Intn(5); i < n; i++ {
			var b []byte
			if g.r.Intn(4) > 0 {
				b = g.bytesN(g.r.Intn(64))
			}
			if i == 0 && bulk > 0 {
				b = g.bytesN(bulk)
			}
			rows = append(rows, message.Row{[]byte(fmt.Sprintf("%s#%d", tok, att)), b})
		}
		return &message.RowsResult{Metadata: md, Data: rows}, nil
	case "schema_change":
		return &message.SchemaChangeResult{ChangeType: primitive.SchemaChangeTypeCreated, Target: primitive.SchemaChangeTargetTable,
			Keyspace: "ks", Object: "tbl_" + tokenBare(tok) + fmt.Sprintf("_%d", att)}, nil
	case "prepared":
		id := md5.Sum([]byte(fmt.Sprintf("%s#%d", tok, att)))
		p := &message.PreparedResult{PreparedQueryId: id[:],
			VariablesMetadata: &message.VariablesMetadata{Columns: []*message.ColumnMetadata{
				{Keyspace: "ks", Table: "tbl", Name: "k_" + tokenBare(tok), Type: datatype.Varchar}}},
			ResultMetadata: &message.RowsMetadata{ColumnCount: 1, Columns: []*message.ColumnMetadata{
				{Keyspace: "ks", Table: "tbl", Name: "v" + g.text(g.bulk(size)), Type: datatype.Int}}}}
		if g.ver >= primitive.ProtocolVersion4 {
			p.VariablesMetadata.PkIndices = []uint16{0}
		}
		if g.ver.SupportsResultMetadataId() {
			p.ResultMetadataId = g.bytesN(16)
		}
		return p, nil
	case "server_error":
		return &message.ServerError{ErrorMessage: em}, nil
	case "protocol_error":
		return &message.ProtocolError{ErrorMessage: em}, nil
	case "auth_error":
		return &message.AuthenticationError{ErrorMessage: em}, nil
	case "unavailable":
		return &message.Unavailable{ErrorMessage: em, Consistency: cl, Required: 3, Alive: int32(g.r.Intn(3))}, nil
	case "overloaded":
		return &message.Overloaded{ErrorMessage: em}, nil
	case "is_bootstrapping":
		return &message.IsBootstrapping{ErrorMessage: em}, nil
	case "truncate_error":
		return &message.TruncateError{ErrorMessage: em}, nil
	case "write_timeout":
		wt := []primitive.WriteType{primitive.WriteTypeSimple, primitive.WriteTypeBatch, primitive.WriteTypeUnloggedBatch,
			primitive.WriteTypeCounter, primitive.WriteTypeBatchLog, primitive.WriteTypeCas}[g.r.Intn(6)]
		return &message.WriteTimeout{ErrorMessage: em, Consistency: cl, Received: int32(g.r.Intn(3)), BlockFor: 2, WriteType: wt}, nil
	case "read_timeout":
		return &message.ReadTimeout{ErrorMessage: em, Consistency: cl, Received: int32(g.r.Intn(4)), BlockFor: 2, DataPresent: g.r.Intn(2) == 0}, nil
	case "read_failure":
		m := &message.ReadFailure{ErrorMessage: em, Consistency: cl, Received: 1, BlockFor: 2, DataPresent: g.r.Intn(2) == 0}
		if g.ver.SupportsReadWriteFailureReasonMap() {
			m.FailureReasons = g.failureReasons()
		} else {
			m.NumFailures = 1
		}
		return m, nil
	case "write_failure":
		m := &message.WriteFailure{ErrorMessage: em, Consistency: cl, Received: 1, BlockFor: 2, WriteType: primitive.WriteTypeSimple}
		if g.ver.SupportsReadWriteFailureReasonMap() {
			m.FailureReasons = g.failureReasons()
		} else {
			m.NumFailures = 1
		}
		return m, nil
	case "function_failure":
		return &message.FunctionFailure{ErrorMessage: em, Keyspace: "ks", Function: "f", Arguments: []string{"int", "text"}}, nil
	case "syntax_error":
		return &message.SyntaxError{ErrorMessage: em}, nil
	case "unauthorized":
		return &message.Unauthorized{ErrorMessage: em}, nil
	case "invalid":
		return &message.Invalid{ErrorMessage: em}, nil
	case "config_error":
		return &message.ConfigError{ErrorMessage: em}, nil
	case "already_exists":
		return &message.AlreadyExists{ErrorMessage: em, Keyspace: "ks", Table: "tbl"}, nil
	case "unprepared":
		id := md5.Sum([]byte("never-prepared " + tok))
		return &message.Unprepared{ErrorMessage: em, Id: id[:]}, nil
	}
	return nil, fmt.Errorf("unknown response kind %s", kind)
}

// responseBytes builds the wire bytes of the backend's answer.
func (g *gen) responseBytes(rs *respShape, tok string, att int, stream int16, comp string) ([]byte, error) {
	msg, err := g.responseMessage(rs.Kind, tok, att, rs.Size)
	if err != nil {
		return nil, err
	}
	frm := frame.NewFrame(g.ver, stream, msg)
	if hasFlag(rs.Flags, "TRACING") {
		var id primitive.UUID
		g.r.Read(id[:])
		frm.SetTracingId(&id)
	}
	if hasFlag(rs.Flags, "PAYLOAD") {
		frm.SetCustomPayload(g.payload())
	}
	if hasFlag(rs.Flags, "WARNING") {
		var w []string
		for i, n := 0, 1+g.r.Intn(3); i < n; i++ {
			w = append(w, "warning "+g.text(g.r.Intn(60)))
		}
		frm.SetWarnings(w)
	}
	if rs.Compressed && comp != "none" && comp != "" {
		frm.Header.Flags = frm.Header.Flags.Add(primitive.HeaderFlagCompressed)
	}
	raw, _, err := encodeFrame(comp, frm)
	return raw, err
}

var errNoRoundTrip = fmt.Errorf("compressed body does not round-trip through the reference compressor")
