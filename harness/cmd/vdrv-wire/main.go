// vdrv-wire replays the tables exported by TLC from spec/Wire.tla into the real proxy
// (C03: byte transparency of forwarded requests and responses; C12: write-consistency override).
//
//	vdrv-wire c03 -plan plan.jsonl -out obs.jsonl -summary summary.json
//	vdrv-wire c12 -plan plan.jsonl -out obs.jsonl -summary summary.json
//
// A plan line is one job: a proxy configuration (maximum protocol version, unsupported write
// consistencies, override) and the exchanges to run against it. The proxy runs in-process
// (verif/env) against the fake backend (verif/fakecql, reference codecs); the client is
// verif/cqlclient. The driver only observes; expectations come from the TLC tables and are
// compared by checks/c03.py and checks/c12.py.
package main

import (
	"bufio"
	"encoding/json"
	"flag"
	"fmt"
	"github.com/datastax/go-cassandra-native-protocol/primitive"
	"os"
	"runtime"
	"sync"
	"time"

	"verif/hutil"
)

type jobResult struct {
	Env    int    `json:"env"`
	Obs    []*obs `json:"obs"`
	WallMs int64  `json:"wall_ms"`
	Err    string `json:"err,omitempty"`
	// c12 with a list configured: SELECTs prepared and executed at once at a listed consistency
	RightAfter *rightAfter `json:"right_after_prepare,omitempty"`
}

type rightAfter struct {
	Cons    string `json:"cons"`
	Sent    int    `json:"sent"`
	Altered int    `json:"altered"`
	Err     string `json:"err,omitempty"`
}

type summary struct {
	Mode      string         `json:"mode"`
	Jobs      int            `json:"jobs"`
	Exchanges int            `json:"exchanges"`
	ByStatus  map[string]int `json:"by_status"`
	BytesSent int64          `json:"bytes_sent"`
	BytesBack int64          `json:"bytes_back"`
	MaxFrame  int            `json:"max_frame"`
	Probed    int            `json:"probed"`
	Retries   int            `json:"retries"`
	WallS     float64        `json:"wall_s"`
	JobErrors []string       `json:"job_errors,omitempty"`
}

func runJob(mode string, j *job) (res *jobResult) {
	t0 := time.Now()
	res = &jobResult{Env: j.Env.ID}
	defer func() {
		if r := recover(); r != nil {
			res.Err = fmt.Sprintf("panic in driver: %v", r)
		}
		res.WallMs = time.Since(t0).Milliseconds()
	}()
	if j.Env.Nodes == 0 {
		j.Env.Nodes = 1
	}
	js, err := startJob(mode, j)
	if err != nil {
		res.Err = "env: " + err.Error()
		return res
	}
	defer js.close()
	for _, x := range j.Ex {
		res.Obs = append(res.Obs, js.run(x))
	}
	if mode == "c12" && len(j.Env.List) > 0 {
		ra := &rightAfter{Cons: j.Env.List[0]}
		if c, err := js.client("v4", "none"); err != nil {
			ra.Err = err.Error()
		} else if versions[j.Env.MaxV] >= primitive.ProtocolVersion4 {
			n := 120
			if js.thor {
				n = 600
			}
			var e error
			ra.Sent, ra.Altered, e = js.executeRightAfterPrepare(c, n, levelByName(ra.Cons))
			if e != nil {
				ra.Err = e.Error()
			}
		}
		res.RightAfter = ra
	}
	return res
}

func main() {
	if len(os.Args) < 2 || (os.Args[1] != "c03" && os.Args[1] != "c12") {
		fmt.Fprintln(os.Stderr, "usage: vdrv-wire c03|c12 -plan plan.jsonl -out obs.jsonl -summary summary.json [-workers N]")
		os.Exit(2)
	}
	mode := os.Args[1]
	fs := flag.NewFlagSet(mode, flag.ExitOnError)
	plan := fs.String("plan", "", "plan file (JSON lines, one job per line)")
	out := fs.String("out", "", "observations (JSON lines, one job per line)")
	sum := fs.String("summary", "", "summary JSON")
	workers := fs.Int("workers", 0, "parallel jobs")
	_ = fs.Parse(os.Args[2:])
	if *workers <= 0 {
		*workers = runtime.NumCPU() / 2
		if *workers < 2 {
			*workers = 2
		}
		if *workers > 8 {
			*workers = 8
		}
	}
	var jobs []*job
	if err := hutil.ReadJSONLines(*plan, func(line []byte) error {
		j := &job{}
		if err := json.Unmarshal(line, j); err != nil {
			return err
		}
		jobs = append(jobs, j)
		return nil
	}); err != nil {
		fmt.Fprintln(os.Stderr, "vdrv-wire: plan:", err)
		os.Exit(3)
	}
	f, err := os.Create(*out)
	if err != nil {
		fmt.Fprintln(os.Stderr, "vdrv-wire:", err)
		os.Exit(3)
	}
	w := bufio.NewWriterSize(f, 1<<20)
	t0 := time.Now()
	s := &summary{Mode: mode, Jobs: len(jobs), ByStatus: map[string]int{}}
	var mu sync.Mutex
	ch := make(chan *job)
	var wg sync.WaitGroup
	for i := 0; i < *workers; i++ {
		wg.Add(1)
		go func() {
			defer wg.Done()
			for j := range ch {
				r := runJob(mode, j)
				b, _ := json.Marshal(r)
				mu.Lock()
				w.Write(b)
				w.WriteByte('\n')
				if r.Err != "" {
					s.JobErrors = append(s.JobErrors, fmt.Sprintf("env %d: %s", r.Env, r.Err))
				}
				for _, o := range r.Obs {
					s.Exchanges++
					s.ByStatus[o.St]++
					s.BytesSent += int64(o.SentLen)
					s.BytesBack += int64(o.ReplyLen)
					if o.SentLen > s.MaxFrame {
						s.MaxFrame = o.SentLen
					}
					if o.ReplyLen > s.MaxFrame {
						s.MaxFrame = o.ReplyLen
					}
					if o.Probed {
						s.Probed++
					}
					s.Retries += o.Retries
				}
				mu.Unlock()
			}
		}()
	}
	for _, j := range jobs {
		ch <- j
	}
	close(ch)
	wg.Wait()
	w.Flush()
	f.Close()
	s.WallS = time.Since(t0).Seconds()
	if err := hutil.WriteJSON(*sum, s); err != nil {
		fmt.Fprintln(os.Stderr, "vdrv-wire:", err)
		os.Exit(3)
	}
}
