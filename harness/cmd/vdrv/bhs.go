package main

import (
	"bufio"
	"context"
	"encoding/json"
	"flag"
	"fmt"
	"os"
	"reflect"
	"strings"
	"sync"
	"sync/atomic"
	"time"

	"github.com/datastax/cql-proxy/proxycore"
	"github.com/datastax/go-cassandra-native-protocol/message"
	"github.com/datastax/go-cassandra-native-protocol/primitive"

	"verif/env"
	"verif/fakecql"
	"verif/tracer"
)

// bhs replays the rows of BackendHandshake.tla: the fake backend plays the row's personality (versions it supports,
// how it refuses the others, its authentication exchange, its answer to REGISTER) and the real proxycore code connects
// to it - ConnectCluster for the first control connection, the cluster's own reconnect for a later one, ConnectSession
// for a pooled connection.  The frames the backend received on that connection and the outcome are compared with the
// row.

type bhsFrame struct {
	Op  string `json:"op"`
	Ver int    `json:"ver"`
	F   string `json:"f"`
}

type bhsRow struct {
	Row struct {
		Kind    string `json:"kind"`
		Start   int    `json:"start"`
		Supp    []int  `json:"supp"`
		Wording string `json:"wording"`
		Auth    string `json:"auth"`
		Creds   bool   `json:"creds"`
		Reg     string `json:"reg"`
		Comp    string `json:"comp"`
		Ks      string `json:"ks"`
	} `json:"row"`
	Out  string     `json:"out"`
	Ver  int        `json:"ver"`
	Sent []bhsFrame `json:"sent"`
}

type bhsMismatch struct {
	Row     json.RawMessage `json:"row"`
	What    string          `json:"what"`
	Want    string          `json:"want"`
	Got     string          `json:"got"`
	Outcome string          `json:"outcome"` // what the code did: ok | fail | none
}

type bhsResult struct {
	Rows       int            `json:"rows"`
	ByKind     map[string]int `json:"by_kind"`
	ByOutcome  map[string]int `json:"by_outcome"`
	Frames     int            `json:"frames_compared"`
	Mismatches []bhsMismatch  `json:"mismatches"`
}

const (
	bhsUser = "user"
	bhsPass = "pass"
)

// bhsBackend is one fake cluster of one node with a switchable personality.
type bhsBackend struct {
	c  *fakecql.Cluster
	ip string
	mu sync.Mutex
	// personality applied to connections accepted after `from`
	row     *bhsRow
	from    int
	conns   map[int]*bhsConnLog
	maxSeen int
}

type bhsConnLog struct {
	frames   []bhsFrame
	authStep int
	comp     string
	closed   bool
}

func (b *bhsBackend) supports(r *bhsRow, v int) bool {
	for _, s := range r.Row.Supp {
		if s == v {
			return true
		}
	}
	return false
}

func (b *bhsBackend) hook(cn *fakecql.Conn, a *fakecql.Attempt) bool {
	b.mu.Lock()
	defer b.mu.Unlock()
	if cn.ID > b.maxSeen {
		b.maxSeen = cn.ID
	}
	lg := b.conns[cn.ID]
	if lg == nil {
		lg = &bhsConnLog{}
		b.conns[cn.ID] = lg
	}
	hdr := &a.Header
	ver := int(hdr.Version)
	personal := b.row != nil && cn.ID > b.from
	r := b.row
	switch m := a.Frame.Body.Message.(type) {
	case *message.Startup:
		comp := strings.ToLower(m.Options["COMPRESSION"])
		lg.frames = append(lg.frames, bhsFrame{"STARTUP", ver, comp})
		lg.comp = comp
		if !personal {
			return false
		}
		if !b.supports(r, ver) {
			max := 0
			for _, s := range r.Row.Supp {
				if s > max && s < ver {
					max = s
				}
			}
			rv := primitive.ProtocolVersion(max)
			if max == 0 {
				rv = 0
			}
			switch r.Row.Wording {
			case "invalid":
				cn.Reply(hdr, rv, &message.ProtocolError{ErrorMessage: fmt.Sprintf("Invalid or unsupported protocol version (%d); supported versions are (3/v3, 4/v4)", ver)})
			case "beta":
				cn.Reply(hdr, rv, &message.ProtocolError{ErrorMessage: fmt.Sprintf("Beta version of the protocol used (%d/v%d-beta), but USE_BETA flag is unset", ver, ver)})
			default:
				cn.Reply(hdr, rv, &message.ServerError{ErrorMessage: "java.lang.IllegalStateException: version"})
			}
			return true
		}
		switch r.Row.Auth {
		case "none":
			cn.CompleteStartup(hdr, comp, &message.Ready{})
		case "unexpected":
			cn.Reply(hdr, 0, &message.Supported{Options: map[string][]string{"CQL_VERSION": {"3.4.5"}}})
		case "dse", "dse_badchallenge":
			cn.Reply(hdr, 0, &message.Authenticate{Authenticator: "com.datastax.bdp.cassandra.auth.DseAuthenticator"})
		case "unknown_sasl":
			cn.Reply(hdr, 0, &message.Authenticate{Authenticator: "com.example.auth.CustomAuthenticator"})
		default:
			cn.Reply(hdr, 0, &message.Authenticate{Authenticator: "org.apache.cassandra.auth.PasswordAuthenticator"})
		}
		return true
	case *message.AuthResponse:
		f := "other:" + fmt.Sprintf("%x", m.Token)
		switch string(m.Token) {
		case "PLAIN":
			f = "PLAIN"
		case "\x00" + bhsUser + "\x00" + bhsPass:
			f = "token"
		}
		lg.frames = append(lg.frames, bhsFrame{"AUTH_RESPONSE", ver, f})
		lg.authStep++
		if !personal {
			cn.Reply(hdr, 0, &message.ProtocolError{ErrorMessage: "fakecql: unexpected AUTH_RESPONSE"})
			return true
		}
		switch {
		case r.Row.Auth == "reject":
			cn.Reply(hdr, 0, &message.AuthenticationError{ErrorMessage: "Provided username user and/or password are incorrect"})
		case (r.Row.Auth == "password" || r.Row.Auth == "unknown_sasl") && lg.authStep == 1:
			if f == "token" {
				cn.CompleteStartup(hdr, lg.comp, &message.AuthSuccess{})
			} else {
				cn.Reply(hdr, 0, &message.AuthenticationError{ErrorMessage: "bad token"})
			}
		case r.Row.Auth == "dse" && lg.authStep == 1 && f != "PLAIN":
			// as DSE: the first response names the SASL mechanism
			cn.Reply(hdr, 0, &message.AuthenticationError{ErrorMessage: "Unsupported SASL mechanism"})
		case r.Row.Auth == "dse" && lg.authStep == 1, r.Row.Auth == "challenge_loop":
			cn.Reply(hdr, 0, &message.AuthChallenge{Token: []byte("PLAIN-START")})
		case r.Row.Auth == "dse" && lg.authStep == 2:
			if f == "token" {
				cn.CompleteStartup(hdr, lg.comp, &message.AuthSuccess{})
			} else {
				cn.Reply(hdr, 0, &message.AuthenticationError{ErrorMessage: "bad token"})
			}
		case r.Row.Auth == "dse_badchallenge":
			cn.Reply(hdr, 0, &message.AuthChallenge{Token: []byte("GSSAPI-START")})
		default:
			cn.Reply(hdr, 0, &message.ProtocolError{ErrorMessage: "fakecql: unexpected AUTH_RESPONSE"})
		}
		return true
	case *message.Register:
		f := "all"
		if len(m.EventTypes) != 3 {
			f = fmt.Sprint(m.EventTypes)
		}
		lg.frames = append(lg.frames, bhsFrame{"REGISTER", ver, f})
		if !personal {
			return false
		}
		switch r.Row.Reg {
		case "ready":
			return false
		case "error":
			cn.Reply(hdr, 0, &message.ServerError{ErrorMessage: "fakecql: cannot register"})
		default:
			cn.Reply(hdr, 0, &message.Supported{Options: map[string][]string{"CQL_VERSION": {"3.4.5"}}})
		}
		return true
	case *message.Query:
		q := strings.ToLower(strings.TrimSpace(m.Query))
		switch {
		case strings.HasPrefix(q, "select * from system.local"):
			lg.frames = append(lg.frames, bhsFrame{"QUERY", ver, "system.local"})
		case strings.HasPrefix(q, "select * from system.peers"):
			lg.frames = append(lg.frames, bhsFrame{"QUERY", ver, "system.peers"})
		case strings.HasPrefix(q, "use "):
			lg.frames = append(lg.frames, bhsFrame{"USE", ver, strings.Trim(strings.TrimSpace(q[4:]), `"`)})
		default:
			lg.frames = append(lg.frames, bhsFrame{"QUERY", ver, q})
		}
		return false
	case *message.Options:
		return false // heartbeat
	default:
		lg.frames = append(lg.frames, bhsFrame{a.Header.OpCode.String(), ver, ""})
		return false
	}
}

// newConnsSince returns the ids of connections first seen after id `from`, in order.
func (b *bhsBackend) connsAfter(from int) []int {
	b.mu.Lock()
	defer b.mu.Unlock()
	var ids []int
	for id := range b.conns {
		if id > from {
			ids = append(ids, id)
		}
	}
	for i := range ids {
		for j := i + 1; j < len(ids); j++ {
			if ids[j] < ids[i] {
				ids[i], ids[j] = ids[j], ids[i]
			}
		}
	}
	return ids
}

func (b *bhsBackend) framesOf(id int) []bhsFrame {
	b.mu.Lock()
	defer b.mu.Unlock()
	if lg := b.conns[id]; lg != nil {
		return append([]bhsFrame(nil), lg.frames...)
	}
	return nil
}

func (b *bhsBackend) maxConnID() int {
	m := 0
	for _, n := range b.c.Nodes() {
		for _, cn := range n.Conns() {
			if cn.ID > m {
				m = cn.ID
			}
		}
	}
	b.mu.Lock()
	if b.maxSeen > m {
		m = b.maxSeen
	}
	b.mu.Unlock()
	return m
}

// quiesce waits until no new connection has shown up for a while (a cancelled cluster may have one more reconnect
// attempt in flight).
func (b *bhsBackend) quiesce() {
	last, since := b.maxConnID(), time.Now()
	for time.Since(since) < 150*time.Millisecond {
		time.Sleep(5 * time.Millisecond)
		if m := b.maxConnID(); m != last {
			last, since = m, time.Now()
		}
	}
}

func (b *bhsBackend) setRow(r *bhsRow) int {
	from := b.maxConnID()
	b.mu.Lock()
	b.row, b.from = r, from
	b.mu.Unlock()
	return from
}

func bhsAuth(creds bool) proxycore.Authenticator {
	if creds {
		return proxycore.NewPasswordAuth(bhsUser, bhsPass)
	}
	return nil
}

func (b *bhsBackend) clusterConfig(start int, creds bool) proxycore.ClusterConfig {
	return proxycore.ClusterConfig{
		Version:           primitive.ProtocolVersion(start),
		Auth:              bhsAuth(creds),
		Resolver:          proxycore.NewResolverWithDefaultPort([]string{b.ip}, b.c.Port),
		ReconnectPolicy:   proxycore.NewReconnectPolicyWithDelays(20*time.Millisecond, 40*time.Millisecond),
		RefreshWindow:     50 * time.Millisecond,
		HeartBeatInterval: 30 * time.Second,
		ConnectTimeout:    3 * time.Second,
		RefreshTimeout:    3 * time.Second,
		IdleTimeout:       60 * time.Second,
	}
}

type bhsObs struct {
	out    string // "ok" | "fail" | "none"
	ver    int
	frames []bhsFrame
	errStr string
}

func framesString(fs []bhsFrame) string {
	var parts []string
	for _, f := range fs {
		parts = append(parts, fmt.Sprintf("%s/v%d(%s)", f.Op, f.Ver, f.F))
	}
	return strings.Join(parts, " ")
}

func (b *bhsBackend) waitFrames(id int, want int, quiet time.Duration, max time.Duration) []bhsFrame {
	deadline := time.Now().Add(max)
	last := -1
	lastChange := time.Now()
	for time.Now().Before(deadline) {
		fs := b.framesOf(id)
		if len(fs) != last {
			last = len(fs)
			lastChange = time.Now()
		}
		if len(fs) >= want && time.Since(lastChange) >= quiet {
			return fs
		}
		time.Sleep(2 * time.Millisecond)
	}
	return b.framesOf(id)
}

func (b *bhsBackend) run(r *bhsRow) (bhsObs, error) {
	good := &bhsRow{}
	good.Row.Supp = []int{2, 3, 4, 5, 65, 66}
	good.Row.Wording = "invalid"
	good.Row.Auth = "none"
	good.Row.Reg = "ready"
	switch r.Row.Kind {
	case "initial":
		from := b.setRow(r)
		ctx, cancel := context.WithCancel(context.Background())
		defer cancel()
		cl, err := proxycore.ConnectCluster(ctx, b.clusterConfig(r.Row.Start, r.Row.Creds))
		ids := b.connsAfter(from)
		o := bhsObs{}
		if len(ids) > 0 {
			o.frames = b.framesOf(ids[0])
		}
		if len(ids) > 1 {
			return o, fmt.Errorf("%d connections opened by one ConnectCluster call to one endpoint", len(ids))
		}
		if err != nil {
			o.out, o.errStr = "fail", err.Error()
		} else {
			o.out, o.ver = "ok", int(cl.NegotiatedVersion)
		}
		b.setRow(good)
		return o, nil
	case "reconnect", "pool":
		b.setRow(good)
		ctx, cancel := context.WithCancel(context.Background())
		defer cancel()
		cl, err := proxycore.ConnectCluster(ctx, b.clusterConfig(r.Row.Start, r.Row.Creds))
		if err != nil {
			return bhsObs{}, fmt.Errorf("preparing a cluster object: %v", err)
		}
		if int(cl.NegotiatedVersion) != r.Row.Start {
			return bhsObs{}, fmt.Errorf("preparing a cluster object: negotiated %d", cl.NegotiatedVersion)
		}
		from := b.setRow(r)
		defer b.setRow(good)
		if r.Row.Kind == "pool" {
			sctx, scancel := context.WithTimeout(ctx, 5*time.Second)
			defer scancel()
			ks := ""
			if r.Row.Ks != "" {
				ks = r.Row.Ks
			}
			scfg := proxycore.SessionConfig{
				ReconnectPolicy:   proxycore.NewReconnectPolicyWithDelays(20*time.Millisecond, 40*time.Millisecond),
				NumConns:          1,
				Keyspace:          ks,
				Version:           primitive.ProtocolVersion(r.Row.Start),
				Auth:              bhsAuth(r.Row.Creds),
				ConnectTimeout:    3 * time.Second,
				HeartBeatInterval: 30 * time.Second,
				IdleTimeout:       60 * time.Second,
			}
			// (set by name: this driver is shared by many checks and must keep compiling when the way a session is told
			// its compression changes)
			if f := reflect.ValueOf(&scfg).Elem().FieldByName("Compression"); f.IsValid() && f.Kind() == reflect.String {
				f.SetString(r.Row.Comp)
			}
			_, err := proxycore.ConnectSession(sctx, cl, scfg)
			ids := b.connsAfter(from)
			o := bhsObs{}
			if len(ids) > 0 {
				o.frames = b.framesOf(ids[0])
			}
			if err != nil {
				o.out, o.errStr = "fail", err.Error()
				if len(ids) > 1 {
					return o, fmt.Errorf("%d connections opened for a pool of one that failed to connect", len(ids))
				}
			} else {
				o.out, o.ver = "ok", r.Row.Start
			}
			return o, nil
		}
		// reconnect: the backend closes the control connection; the cluster's own loop opens the next one
		for _, n := range b.c.Nodes() {
			for _, cn := range n.Conns() {
				if cn.ID <= from {
					cn.Close("bhs")
				}
			}
		}
		deadline := time.Now().Add(4 * time.Second)
		var ids []int
		for time.Now().Before(deadline) {
			if ids = b.connsAfter(from); len(ids) > 0 {
				break
			}
			time.Sleep(2 * time.Millisecond)
		}
		if len(ids) == 0 {
			return bhsObs{out: "none"}, nil
		}
		fs := b.waitFrames(ids[0], len(r.Sent), 60*time.Millisecond, 3*time.Second)
		o := bhsObs{frames: fs}
		// the attempt succeeded when the connection is kept; a failed attempt is closed by the proxy (and another follows)
		time.Sleep(10 * time.Millisecond)
		kept := false
		for _, n := range b.c.Nodes() {
			for _, cn := range n.Conns() {
				if cn.ID == ids[0] && !cn.Closed() {
					kept = true
				}
			}
		}
		if kept && cl.OutageDuration() == 0 {
			o.out, o.ver = "ok", int(cl.NegotiatedVersion)
		} else if !kept {
			o.out = "fail"
		} else {
			// kept but the cluster still reports an outage: give it a moment (the connection is installed after the
			// topology queries were answered)
			time.Sleep(100 * time.Millisecond)
			if cl.OutageDuration() == 0 {
				o.out, o.ver = "ok", int(cl.NegotiatedVersion)
			} else {
				o.out = "fail"
			}
		}
		return o, nil
	}
	return bhsObs{}, fmt.Errorf("unknown kind %q", r.Row.Kind)
}

func init() {
	register("bhs", func(args []string) error {
		fs := flag.NewFlagSet("bhs", flag.ExitOnError)
		in := fs.String("in", "", "rows (JSON lines)")
		out := fs.String("out", "-", "result")
		workers := fs.Int("workers", 8, "parallel backends")
		_ = fs.Parse(args)
		f, err := os.Open(*in)
		if err != nil {
			return err
		}
		defer f.Close()
		var rows []*bhsRow
		var raws []json.RawMessage
		sc := bufio.NewScanner(f)
		sc.Buffer(make([]byte, 1<<20), 1<<24)
		for sc.Scan() {
			line := strings.TrimSpace(sc.Text())
			if line == "" {
				continue
			}
			r := &bhsRow{}
			if err := json.Unmarshal([]byte(line), r); err != nil {
				return fmt.Errorf("row: %v: %s", err, line)
			}
			rows = append(rows, r)
			raws = append(raws, json.RawMessage(line))
		}
		proxycore.SetVerifHook(nil)
		res := bhsResult{ByKind: map[string]int{}, ByOutcome: map[string]int{}}
		var mu sync.Mutex
		var next int32 = -1
		var wg sync.WaitGroup
		var firstErr atomic.Value
		for w := 0; w < *workers; w++ {
			wg.Add(1)
			go func(w int) {
				defer wg.Done()
				t := tracer.New()
				c := fakecql.New(t)
				c.AddKeyspace("ks")
				ip := fakecql.IP(env.Block(), 10+w)
				if err := c.Start(ip); err != nil {
					firstErr.Store(err)
					return
				}
				defer c.Shutdown()
				b := &bhsBackend{c: c, ip: ip, conns: map[int]*bhsConnLog{}}
				c.Handshake = b.hook
				for {
					i := int(atomic.AddInt32(&next, 1))
					if i >= len(rows) {
						return
					}
					r := rows[i]
					o, err := b.run(r)
					if r.Row.Kind == "reconnect" && (r.Out != "ok" || o.out != "ok") {
						b.quiesce()
					}
					if err != nil {
						firstErr.Store(fmt.Errorf("row %d: %v", i, err))
						return
					}
					mu.Lock()
					res.Rows++
					res.ByKind[r.Row.Kind]++
					res.ByOutcome[r.Out]++
					res.Frames += len(r.Sent)
					wantOut := "fail"
					if r.Out == "ok" {
						wantOut = "ok"
					}
					add := func(what, want, got string) {
						res.Mismatches = append(res.Mismatches, bhsMismatch{Row: raws[i], What: what, Want: want, Got: got, Outcome: o.out})
					}
					if got, want := framesString(o.frames), framesString(r.Sent); got != want {
						add("frames received by the backend differ", want, got)
					} else if o.out != wantOut {
						add("outcome differs", r.Out, o.out+" "+o.errStr)
					} else if o.out == "ok" && o.ver != r.Ver {
						add("version in use differs", fmt.Sprint(r.Ver), fmt.Sprint(o.ver))
					}
					mu.Unlock()
					// forget the connections of this row
					b.mu.Lock()
					for id := range b.conns {
						delete(b.conns, id)
					}
					b.mu.Unlock()
				}
			}(w)
		}
		wg.Wait()
		if e := firstErr.Load(); e != nil {
			return e.(error)
		}
		return writeJSON(*out, res)
	})
}
