package main

import (
	"bufio"
	"encoding/json"
	"flag"
	"fmt"
	"os"
	"sort"
	"strings"
	"sync"
	"time"

	"github.com/datastax/go-cassandra-native-protocol/message"
	"github.com/datastax/go-cassandra-native-protocol/primitive"

	"verif/cqlclient"
	"verif/env"
	"verif/fakecql"
	"verif/tracer"
)

// discovery replays the behaviours of HostDiscovery.tla: the row that the other nodes' system.peers hold about h2 has
// the shape of the behaviour when the proxy starts, becomes ordinary, and takes the shape again; after every phase the
// set of nodes that answer the proxy's forwarded requests is compared with the specification's.

type hdShape struct {
	RPC  string `json:"rpc"`
	Peer string `json:"peer"`
	DC   string `json:"dc"`
}

type hdStep struct {
	Shape  hdShape  `json:"shape"`
	Target string   `json:"target"`
	Routed []string `json:"routed"`
}

type hdBehaviour struct {
	Shape hdShape  `json:"shape"`
	Steps []hdStep `json:"steps"`
}

type hdMismatch struct {
	Behaviour hdBehaviour `json:"behaviour"`
	Step      int         `json:"step"`
	What      string      `json:"what"`
	Want      []string    `json:"want"`
	Got       []string    `json:"got"`
}

type hdResult struct {
	Behaviours int          `json:"behaviours"`
	Steps      int          `json:"steps"`
	Probes     int          `json:"probes"`
	Mismatches []hdMismatch `json:"mismatches"`
}

func (s hdShape) rowShape() fakecql.RowShape {
	sh := fakecql.RowShape{}
	if s.RPC != "addr" {
		sh.RPC = s.RPC
	}
	if s.Peer != "addr" {
		sh.Peer = s.Peer
	}
	sh.NullDC = s.DC == "null"
	return sh
}

func hdProbe(c *cqlclient.Client, name map[string]string, seq *int16, tok *int, n int) map[string]bool {
	got := map[string]bool{}
	for i := 0; i < n; i++ {
		*seq++
		*tok++
		t := fmt.Sprintf("tokd%d;", *tok)
		frm := newQueryFrame(c.Version, *seq, fmt.Sprintf("SELECT * FROM ks.t WHERE k = '%s'", t))
		r, err := c.Roundtrip(frm, t, "probe", 2*time.Second)
		if err == nil && r.Kind == "ok" && r.Node != "" {
			got[name[r.Node]] = true
		}
	}
	return got
}

func runDiscovery(b hdBehaviour, block int, res *hdResult, mu *sync.Mutex) error {
	t := tracer.New()
	c := fakecql.New(t)
	c.AddKeyspace("ks")
	var ips []string
	name := map[string]string{}
	for i := 1; i <= 3; i++ {
		ip := fakecql.IP(block, i)
		ips = append(ips, ip)
		name[ip] = fmt.Sprintf("h%d", i)
	}
	if err := c.Start(ips...); err != nil {
		return err
	}
	defer c.Shutdown()
	add := func(step int, what string, want, got []string) {
		mu.Lock()
		res.Mismatches = append(res.Mismatches, hdMismatch{Behaviour: b, Step: step, What: what, Want: want, Got: got})
		mu.Unlock()
	}
	c.SetRowShape(ips[1], b.Steps[0].Shape.rowShape())
	e, err := env.Start(env.Options{Cluster: c, NumConns: 1, Hooks: false, Tracer: t,
		RefreshWindow: 100 * time.Millisecond, ReconnectBase: 20 * time.Millisecond, ReconnectMax: 100 * time.Millisecond,
		HeartBeat: 30 * time.Second, Idle: 60 * time.Second, ConnectTimeout: 400 * time.Millisecond})
	if err != nil {
		add(0, "the proxy does not start: "+err.Error(), b.Steps[0].Routed, nil)
		return nil
	}
	defer e.Close()
	cl, err := e.StartedClient(primitive.ProtocolVersion4, "")
	if err != nil {
		return err
	}
	defer cl.Close()
	var seq int16
	var tok int
	probes := 0
	for i, st := range b.Steps {
		if i > 0 {
			c.SetRowShape(ips[1], st.Shape.rowShape())
			o := []byte{127, 0, byte(block), 2}
			c.EmitEvent("t", "topology", &message.TopologyChangeEvent{ChangeType: primitive.TopologyChangeTypeNewNode,
				Address: &primitive.Inet{Addr: o, Port: int32(c.Port)}})
		}
		want := append([]string(nil), st.Routed...)
		sort.Strings(want)
		// the refresh window (100 ms) and a connection attempt must have passed before absence means anything
		time.Sleep(450 * time.Millisecond)
		deadline := time.Now().Add(5 * time.Second)
		var got map[string]bool
		for {
			got = hdProbe(cl, name, &seq, &tok, 12)
			probes += 12
			if setEq(got, want) || time.Now().After(deadline) {
				break
			}
			time.Sleep(100 * time.Millisecond)
		}
		if !setEq(got, want) {
			add(i, "nodes answering forwarded requests differ", want, keys(got))
		}
	}
	mu.Lock()
	res.Behaviours++
	res.Steps += len(b.Steps)
	res.Probes += probes
	mu.Unlock()
	return nil
}

func init() {
	register("discovery", func(args []string) error {
		fs := flag.NewFlagSet("discovery", flag.ExitOnError)
		in := fs.String("in", "", "behaviours (JSON lines)")
		out := fs.String("out", "-", "result")
		workers := fs.Int("workers", 6, "behaviours replayed at a time")
		_ = fs.Parse(args)
		f, err := os.Open(*in)
		if err != nil {
			return err
		}
		defer f.Close()
		var behs []hdBehaviour
		sc := bufio.NewScanner(f)
		for sc.Scan() {
			line := strings.TrimSpace(sc.Text())
			if line == "" {
				continue
			}
			var b hdBehaviour
			if err := json.Unmarshal([]byte(line), &b); err != nil {
				return fmt.Errorf("behaviour: %v: %s", err, line)
			}
			behs = append(behs, b)
		}
		res := hdResult{}
		var mu sync.Mutex
		var wg sync.WaitGroup
		ch := make(chan hdBehaviour)
		errs := make(chan error, *workers)
		for w := 0; w < *workers; w++ {
			wg.Add(1)
			go func(w int) {
				defer wg.Done()
				for b := range ch {
					// one address block per worker: the clusters of concurrent behaviours use different ports, and
					// different blocks keep the unused "other" addresses apart
					if err := runDiscovery(b, env.Block(), &res, &mu); err != nil {
						select {
						case errs <- err:
						default:
						}
					}
				}
			}(w)
		}
		for _, b := range behs {
			ch <- b
		}
		close(ch)
		wg.Wait()
		select {
		case err := <-errs:
			return err
		default:
		}
		return writeJSON(*out, res)
	})
}
