package main

import (
	"flag"
	"fmt"
	"math/rand"
	"net"
	"sync/atomic"
	"time"

	"verif/cqlclient"
	"verif/env"
	"verif/tracer"

	"github.com/datastax/go-cassandra-native-protocol/frame"
	"github.com/datastax/go-cassandra-native-protocol/message"
	"github.com/datastax/go-cassandra-native-protocol/primitive"
)

// events drives histories of clients connecting, registering (any subset of event types, also twice),
// disconnecting, and backend events of all three kinds and all schema targets, with control-connection
// failover between events; the trace is validated against TraceEvents.tla.

func schemaEvent(rnd *rand.Rand, n int) *message.SchemaChangeEvent {
	ct := []primitive.SchemaChangeType{primitive.SchemaChangeTypeCreated, primitive.SchemaChangeTypeUpdated, primitive.SchemaChangeTypeDropped}[rnd.Intn(3)]
	ks := fmt.Sprintf("ks%d", n)
	switch rnd.Intn(5) {
	case 0:
		return &message.SchemaChangeEvent{ChangeType: ct, Target: primitive.SchemaChangeTargetKeyspace, Keyspace: ks}
	case 1:
		return &message.SchemaChangeEvent{ChangeType: ct, Target: primitive.SchemaChangeTargetTable, Keyspace: ks, Object: fmt.Sprintf("tbl%d", n)}
	case 2:
		return &message.SchemaChangeEvent{ChangeType: ct, Target: primitive.SchemaChangeTargetType, Keyspace: ks, Object: fmt.Sprintf("typ%d", n)}
	case 3:
		return &message.SchemaChangeEvent{ChangeType: ct, Target: primitive.SchemaChangeTargetFunction, Keyspace: ks, Object: fmt.Sprintf("fn%d", n), Arguments: []string{"int", "text"}}
	default:
		return &message.SchemaChangeEvent{ChangeType: ct, Target: primitive.SchemaChangeTargetAggregate, Keyspace: ks, Object: fmt.Sprintf("agg%d", n), Arguments: []string{"int"}}
	}
}

type evClient struct {
	c      *cqlclient.Client
	closed bool
}

func init() {
	register("events", func(args []string) error {
		fs := flag.NewFlagSet("events", flag.ExitOnError)
		out := fs.String("out", "trace.ndjson", "raw trace output")
		stats := fs.String("stats", "-", "stats")
		rounds := fs.Int("rounds", 3, "proxy instances")
		nops := fs.Int("ops", 40, "operations per round")
		burst := fs.Int("burst", 500, "schema events emitted back to back at the end of every round")
		_ = fs.Parse(args)
		type stT struct {
			Rounds, Emits, Schema, Registers, Closes, Failovers, Events int
			// control connections that completed their handshake but never sent REGISTER (the backend can then send no event
			// at all): one entry per occurrence, "round <n> auth=<personality> after <what>"
			Unregistered []string
		}
		st := &stT{}
		first := true
		typeSets := [][]primitive.EventType{
			{primitive.EventTypeSchemaChange},
			{primitive.EventTypeSchemaChange, primitive.EventTypeTopologyChange, primitive.EventTypeStatusChange},
			{primitive.EventTypeTopologyChange},
			{primitive.EventTypeStatusChange, primitive.EventTypeTopologyChange},
			{primitive.EventTypeSchemaChange, primitive.EventTypeSchemaChange},
			{primitive.EventTypeStatusChange, primitive.EventTypeSchemaChange},
		}
		for r := 0; r < *rounds; r++ {
			rnd := newRand(int64(900 + r))
			t := tracer.New()
			// every second and third round the backend demands authentication (password / the DSE authenticator with its
			// challenge round): the control connection must register for events whichever way its handshake went
			auth := []string{"", "dse", "password"}[r%3]
			e, err := env.Start(env.Options{Nodes: 2, NumConns: 1, Hooks: false, Tracer: t, Keyspaces: []string{"ks"}, BackendAuth: auth, RefreshWindow: 100 * time.Millisecond})
			if err != nil {
				return err
			}
			// the proxy's control connection must have registered for events, however its handshake went
			registered := func(after string) {
				deadline := time.Now().Add(4 * time.Second)
				for time.Now().Before(deadline) {
					if e.C.ControlConn() != nil {
						return
					}
					time.Sleep(20 * time.Millisecond)
				}
				if e.P.OutageDuration() == 0 {
					st.Unregistered = append(st.Unregistered, fmt.Sprintf("round %d auth=%q after %s", r, auth, after))
				}
			}
			registered("start-up")
			t.Emit("ScenarioStart")
			var clients []*evClient
			settle := func() {
				t.Quiesce(120*time.Millisecond, 3*time.Second)
				t.Emit("Quiet")
			}
			nev := 0
			for op := 0; op < *nops; op++ {
				switch k := rnd.Intn(10); {
				case k < 2 && len(clients) < 6: // connect
					vers := []primitive.ProtocolVersion{primitive.ProtocolVersion4, primitive.ProtocolVersion3}
					comps := []string{"", "", "lz4", "snappy"}
					c, err := e.StartedClient(vers[rnd.Intn(2)], comps[rnd.Intn(4)])
					if err != nil {
						e.Close()
						return err
					}
					t.Emit("Hello", "c", c.ID, "ver", int(c.Version))
					clients = append(clients, &evClient{c: c})
				case k < 4 && len(clients) > 0: // register
					ec := clients[rnd.Intn(len(clients))]
					if ec.closed {
						continue
					}
					ts := typeSets[rnd.Intn(len(typeSets))]
					schema := false
					for _, x := range ts {
						if x == primitive.EventTypeSchemaChange {
							schema = true
						}
					}
					t.Emit("Register", "c", ec.c.ID, "schema", schema)
					r, err := ec.c.Roundtrip(frame.NewFrame(ec.c.Version, 5, &message.Register{EventTypes: ts}), "", "register", 5*time.Second)
					if err == nil && r.Kind == "ready" {
						t.Emit("RegisterAck", "c", ec.c.ID)
					}
					st.Registers++
				case k < 5 && len(clients) > 0: // disconnect
					ec := clients[rnd.Intn(len(clients))]
					if !ec.closed {
						ec.closed = true
						ec.c.Close()
						time.Sleep(30 * time.Millisecond)
						st.Closes++
					}
				case k < 6: // control connection failover between events
					settle()
					if cc := e.C.ControlConn(); cc != nil {
						// every other time the next fail-over candidates only speak an older protocol version (a node
						// restarted on an older release): the proxy must refuse them and move on to a usable host
						downgraded := rnd.Intn(2) == 0
						if downgraded {
							for _, ip := range e.IPs {
								if ip != cc.N.IP {
									e.C.SetNodeMaxVersion(ip, primitive.ProtocolVersion3)
								}
							}
						}
						cc.Close("failover")
						// wait until exactly one registered (control) connection exists, stably
						deadline := time.Now().Add(5 * time.Second)
						stable := 0
						for time.Now().Before(deadline) && stable < 3 {
							n := 0
							for _, nd := range e.C.Nodes() {
								for _, cn := range nd.Conns() {
									if cn.Registered && !cn.Closed() && cn != cc {
										n++
									}
								}
							}
							if n == 1 {
								stable++
							} else {
								stable = 0
							}
							time.Sleep(15 * time.Millisecond)
						}
						time.Sleep(50 * time.Millisecond)
						for _, ip := range e.IPs {
							e.C.SetNodeMaxVersion(ip, 0)
						}
						st.Failovers++
						registered("fail-over")
					}
				default: // backend event
					nev++
					id := fmt.Sprintf("e%d", nev)
					var msg message.Message
					kind := "schema"
					switch rnd.Intn(6) {
					case 0:
						kind = "topology"
						msg = &message.TopologyChangeEvent{ChangeType: primitive.TopologyChangeTypeNewNode, Address: &primitive.Inet{Addr: []byte{10, 0, 0, byte(nev)}, Port: 9042}}
					case 1:
						kind = "status"
						msg = &message.StatusChangeEvent{ChangeType: primitive.StatusChangeTypeDown, Address: &primitive.Inet{Addr: []byte{10, 0, 0, byte(nev)}, Port: 9042}}
					default:
						msg = schemaEvent(rnd, nev)
						st.Schema++
					}
					if e.C.EmitEvent(id, kind, msg) > 0 {
						st.Emits++
					}
					if rnd.Intn(3) == 0 {
						settle()
					}
				}
			}
			settle()
			// a registered client whose connection dies while its reader is busy (a USE that has to create a slow session):
			// it stays registered for a while with a dead connection; events emitted meanwhile must still reach the others
			if len(clients) > 0 {
				vc, err := e.StartedClient(primitive.ProtocolVersion4, "")
				if err == nil {
					t.Emit("Hello", "c", vc.ID, "ver", int(vc.Version))
					t.Emit("Register", "c", vc.ID, "schema", true)
					if r, err := vc.Roundtrip(frame.NewFrame(vc.Version, 5, &message.Register{EventTypes: []primitive.EventType{primitive.EventTypeSchemaChange}}), "", "register", 5*time.Second); err == nil && r.Kind == "ready" {
						t.Emit("RegisterAck", "c", vc.ID)
					}
					atomic.StoreInt64((*int64)(&e.C.SlowStart), int64(400*time.Millisecond))
					_ = vc.Send(frame.NewFrame(vc.Version, 6, &message.Query{Query: fmt.Sprintf("USE ks_slow%d", r), Options: &message.QueryOptions{Consistency: primitive.ConsistencyLevelOne}}), "", "use-slow")
					time.Sleep(30 * time.Millisecond)
					vc.Close()
					st.Closes++
					for b := 0; b < 12; b++ {
						nev++
						if e.C.EmitEvent(fmt.Sprintf("e%d", nev), "schema", schemaEvent(rnd, nev)) > 0 {
							st.Emits++
						}
						st.Schema++
						time.Sleep(15 * time.Millisecond)
					}
					atomic.StoreInt64((*int64)(&e.C.SlowStart), 0)
					settle()
				}
			}
			// events that the proxy has already read are delivered even if the control connection dies right afterwards: the
			// cluster loop is busy with a host refresh (a topology read that takes 300 ms) while 8 schema changes arrive and
			// are read; 120 ms later the node drops the control connection
			if len(clients) > 0 && e.C.ControlConn() != nil {
				atomic.StoreInt64((*int64)(&e.C.PeersDelay), int64(300*time.Millisecond))
				if cc := e.C.ControlConn(); cc != nil {
					o := net.ParseIP(cc.N.IP).To4()
					nev++
					e.C.EmitEvent(fmt.Sprintf("e%d", nev), "topology", &message.TopologyChangeEvent{ChangeType: primitive.TopologyChangeTypeNewNode,
						Address: &primitive.Inet{Addr: o, Port: int32(e.C.Port)}})
				}
				time.Sleep(170 * time.Millisecond) // the refresh window (100 ms) has passed: the refresh is waiting for its answer
				for b := 0; b < 8; b++ {
					nev++
					if e.C.EmitEvent(fmt.Sprintf("e%d", nev), "schema", schemaEvent(rnd, nev)) > 0 {
						st.Emits++
					}
					st.Schema++
				}
				time.Sleep(120 * time.Millisecond)
				if cc := e.C.ControlConn(); cc != nil {
					cc.Close("dropctrl-after-events")
				}
				atomic.StoreInt64((*int64)(&e.C.PeersDelay), 0)
				deadline := time.Now().Add(5 * time.Second)
				for time.Now().Before(deadline) && e.C.ControlConn() == nil {
					time.Sleep(20 * time.Millisecond)
				}
				settle()
			}
			// burst: many schema changes back to back (a DROP KEYSPACE with many tables); each must still reach every
			// registered client exactly once
			// (one write: the proxy's reader finds the frames back to back, faster than the cluster loop fans them out)
			var bids []string
			var bmsgs []message.Message
			for b := 0; b < *burst; b++ {
				nev++
				bids = append(bids, fmt.Sprintf("e%d", nev))
				bmsgs = append(bmsgs, schemaEvent(rnd, nev))
				st.Schema++
			}
			st.Emits += e.C.EmitEventBurst(bids, "schema", bmsgs)
			settle()
			t.Stop()
			evs := t.Events()
			st.Events += len(evs)
			st.Rounds++
			if err := tracer.WriteNDJSON(*out, evs, !first); err != nil {
				e.Close()
				return err
			}
			first = false
			e.Close()
		}
		return writeJSON(*stats, st)
	})
}
