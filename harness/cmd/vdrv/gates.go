package main

import (
	"flag"
	"fmt"
	"runtime"
	"strings"
	"sync/atomic"
	"time"

	"verif/cqlclient"
	"verif/env"
	"verif/fakecql"
	"verif/tracer"

	"github.com/datastax/cql-proxy/proxycore"
	"github.com/datastax/go-cassandra-native-protocol/primitive"
)

// gates replays the two hazard schedules that TLC finds on Request.tla with the pinned tree's
// switches, using blocking hooks as scheduler gates:
//
//	d8: RequestMC_pinned_deadlock.cfg - both backend connections close while each holds an idempotent
//	    request whose next host is the other connection's host; each backend reader sits in Closing with
//	    closingMu write-locked and OnClose -> executeInternal -> addToPending needs the other's read lock.
//	d7: RequestMC_pinned_spin.cfg - a read timeout is answered (retry same host), the node goes away and
//	    the pool clears the slot before the backend reader re-sends: executeInternal(false) never advances.
//
// The recorded trace is validated against TraceRequestObs like every other trace; a request that is never
// answered although every attempt was answered or dropped is the C01 violation.

type gateStats struct {
	Scenario   string `json:"scenario"`
	Forced     bool   `json:"schedule_forced"`
	Why        string `json:"why,omitempty"`
	Answered   int    `json:"answered"`
	Requests   int    `json:"requests"`
	MaxSpin    int    `json:"max_exec_iterations"`
	Goroutines string `json:"goroutine_dump,omitempty"`
	Events     int    `json:"events"`
	Quiet      bool   `json:"quiet"`
}

func isDataConn(e *env.Env, c *proxycore.ClientConn) bool {
	_, local := proxycore.VerifConnInfo(c)
	for _, n := range e.C.Nodes() {
		for _, cn := range n.Conns() {
			if cn.Local == local {
				return !cn.Registered
			}
		}
	}
	return false
}

func gateD8(out string, st *gateStats) error {
	t := tracer.New()
	e, err := env.Start(env.Options{Nodes: 2, NumConns: 1, Hooks: true, Tracer: t, Keyspaces: []string{"ks"}, ReconnectBase: time.Second, ReconnectMax: 2 * time.Second})
	if err != nil {
		return err
	}
	defer e.Close()
	// first attempt of every request stays unanswered; later attempts succeed
	e.C.Script = func(a *fakecql.Attempt) fakecql.Outcome {
		if a.N == 1 {
			return fakecql.Outcome{Kind: fakecql.Silent}
		}
		return fakecql.Outcome{Kind: fakecql.OK}
	}
	c, err := e.StartedClient(primitive.ProtocolVersion4, "")
	if err != nil {
		return err
	}
	t.Emit("ScenarioStart")
	toks := []string{"tok8a;", "tok8b;"}
	for i, tok := range toks {
		if err := c.Query(int16(i+1), fmt.Sprintf("SELECT * FROM ks.tbl WHERE k = '%s'", tok), primitive.ConsistencyLevelOne, tok, "idem|QUERY|d8"); err != nil {
			return err
		}
	}
	// both requests must be pending on different hosts
	deadline := time.Now().Add(3 * time.Second)
	hosts := map[string]bool{}
	for time.Now().Before(deadline) && len(hosts) < 2 {
		hosts = map[string]bool{}
		for _, ev := range t.Events() {
			if ev["ev"] == "BackendRecv" {
				hosts[ev["host"].(string)] = true
			}
		}
		time.Sleep(5 * time.Millisecond)
	}
	if len(hosts) < 2 {
		st.Why = "requests did not land on two different hosts"
		return finishGate(e, t, c, out, st, len(toks))
	}
	// gates: both backend readers park inside Closing (closingMu write-locked, closing set); the pool
	// maintenance goroutines park before they clear their slots
	gClosing := e.Sink.AddGate("closing.set", func(args []interface{}) bool {
		return true
	})
	gSlot := e.Sink.AddGate("slot.clearing", nil)
	var dataConns []*fakecql.Conn
	for _, n := range e.C.Nodes() {
		for _, cn := range n.Conns() {
			if !cn.Registered {
				dataConns = append(dataConns, cn)
			}
		}
	}
	for _, cn := range dataConns {
		cn.Close("gated-d8")
	}
	deadline = time.Now().Add(3 * time.Second)
	for time.Now().Before(deadline) && atomic.LoadInt32(&gClosing.Hits) < 2 {
		time.Sleep(2 * time.Millisecond)
	}
	st.Forced = atomic.LoadInt32(&gClosing.Hits) >= 2
	if !st.Forced {
		st.Why = fmt.Sprintf("only %d backend readers reached Closing", atomic.LoadInt32(&gClosing.Hits))
	}
	gClosing.Release()
	time.Sleep(700 * time.Millisecond)
	gSlot.Release()
	return finishGate(e, t, c, out, st, len(toks))
}

func gateD7(out string, st *gateStats) error {
	t := tracer.New()
	e, err := env.Start(env.Options{Nodes: 2, NumConns: 1, Hooks: true, Tracer: t, Keyspaces: []string{"ks"},
		HeartBeat: 40 * time.Millisecond, Idle: 10 * time.Second, ReconnectBase: time.Second, ReconnectMax: 2 * time.Second, ConnectTimeout: 300 * time.Millisecond})
	if err != nil {
		return err
	}
	defer e.Close()
	e.C.Script = func(a *fakecql.Attempt) fakecql.Outcome {
		if a.N == 1 {
			return fakecql.Outcome{Kind: fakecql.RTSame}
		}
		return fakecql.Outcome{Kind: fakecql.OK}
	}
	c, err := e.StartedClient(primitive.ProtocolVersion4, "")
	if err != nil {
		return err
	}
	t.Emit("ScenarioStart")
	// the backend reader parks after the policy decided "retry same host" (decision 0), before it re-sends
	gResult := e.Sink.AddGate("result", func(args []interface{}) bool {
		d, _ := args[1].(int)
		return d == 0
	})
	tok := "tok7a;"
	if err := c.Query(1, fmt.Sprintf("SELECT * FROM ks.tbl WHERE k = '%s'", tok), primitive.ConsistencyLevelOne, tok, "idem|QUERY|d7"); err != nil {
		return err
	}
	if !gResult.Arrived(3 * time.Second) {
		st.Why = "backend reader never reached the retry-same decision"
		gResult.Release()
		return finishGate(e, t, c, out, st, 1)
	}
	host := ""
	for _, ev := range t.Events() {
		if ev["ev"] == "BackendRecv" && ev["t"] == tok {
			host = ev["host"].(string)
		}
	}
	// the node goes away; a heartbeat write fails, the connection closes and the pool clears its slot
	if cc := e.C.ControlConn(); cc != nil && cc.N.IP == host {
		// keep the control connection out of the picture: it lives on the other node after this
	}
	e.C.StopNode(host)
	cleared := false
	deadline := time.Now().Add(4 * time.Second)
	for time.Now().Before(deadline) && !cleared {
		for _, ev := range t.Events() {
			if ev["ev"] == "H.slotclear" && strings.HasPrefix(ev["host"].(string), host+":") {
				cleared = true
			}
		}
		time.Sleep(5 * time.Millisecond)
	}
	st.Forced = cleared
	if !cleared {
		st.Why = "pool slot was not cleared while the reader was parked"
	}
	gResult.Release()
	time.Sleep(700 * time.Millisecond)
	return finishGate(e, t, c, out, st, 1)
}

// gateD11: an EXECUTE is answered UNPREPARED for a cached statement; the backend reader parks before it
// re-prepares; the node goes away and the connection's writer closes it; the re-prepare send then fails
// (or is swallowed - Go's select picks at random, so the schedule is repeated a few times).
func gateD11(out string, st *gateStats) error {
	t := tracer.New()
	e, err := env.Start(env.Options{Nodes: 2, NumConns: 1, Hooks: true, Tracer: t, Keyspaces: []string{"ks"},
		HeartBeat: 40 * time.Millisecond, Idle: 10 * time.Second, ReconnectBase: 5 * time.Millisecond, ReconnectMax: 10 * time.Millisecond, ConnectTimeout: 300 * time.Millisecond})
	if err != nil {
		return err
	}
	defer e.Close()
	rr := &reqRun{e: e, rnd: newRand(11)}
	c, err := e.StartedClient(primitive.ProtocolVersion4, "")
	if err != nil {
		return err
	}
	if err := rr.prepareAll(c); err != nil {
		return err
	}
	t.Emit("ScenarioStart")
	n := 0
	forced := 0
	for iter := 0; iter < 8; iter++ {
		// every node forgets its statements, so the next EXECUTE is answered UNPREPARED wherever it lands
		for _, ip := range e.IPs {
			e.C.ForgetPrepared(ip)
		}
		g := e.Sink.AddGate("recv", func(args []interface{}) bool {
			op, _ := args[3].(primitive.OpCode)
			cc, _ := args[0].(*proxycore.ClientConn)
			return op == primitive.OpCodeError && cc != nil && isDataConn(e, cc)
		})
		tok := fmt.Sprintf("tok11x%d;", iter)
		sc := &reqScenario{ID: "d11", Idem: true, Kind: "execute"}
		frm, op, _ := rr.buildFrame(sc, tok, int16(10+iter), primitive.ProtocolVersion4)
		n++
		if err := c.Send(frm, tok, "idem+cached|"+op+"|d11"); err != nil {
			return err
		}
		if !g.Arrived(3 * time.Second) {
			g.Release()
			continue
		}
		host := ""
		for _, ev := range t.Events() {
			if ev["ev"] == "BackendRecv" && ev["t"] == tok {
				host = ev["host"].(string)
			}
		}
		before := t.Len()
		e.C.StopNode(host)
		cleared := false
		deadline := time.Now().Add(3 * time.Second)
		for time.Now().Before(deadline) && !cleared {
			for _, ev := range t.Events()[before:] {
				if ev["ev"] == "H.slotclear" && strings.HasPrefix(ev["host"].(string), host+":") {
					cleared = true
				}
			}
			time.Sleep(5 * time.Millisecond)
		}
		if cleared {
			forced++
		}
		g.Release()
		c.WaitStream(int16(10+iter), 0, 2*time.Second)
		// bring the node back for the next iteration and wait until the proxy has reconnected to it
		if err := e.C.AddNode(host); err != nil {
			return err
		}
		deadline = time.Now().Add(3 * time.Second)
		for time.Now().Before(deadline) {
			if nd := e.C.Node(host); nd != nil && len(nd.Conns()) >= 1 {
				break
			}
			time.Sleep(10 * time.Millisecond)
		}
		time.Sleep(100 * time.Millisecond)
	}
	st.Forced = forced > 0
	if forced == 0 {
		st.Why = "connection never closed while the reader was parked"
	}
	return finishGate(e, t, c, out, st, n)
}

func finishGate(e *env.Env, t *tracer.Tracer, c *cqlclient.Client, out string, st *gateStats, nreq int) error {
	st.Requests = nreq
	st.Quiet = t.Quiesce(500*time.Millisecond, 4*time.Second)
	for _, r := range c.Received() {
		if r.Header.StreamId >= 1 && r.Header.StreamId < 100 && r.Kind != "ready" {
			st.Answered++
		}
	}
	if e.Sink != nil {
		_, st.MaxSpin = e.Sink.MaxSpin()
	}
	if st.Answered < nreq {
		buf := make([]byte, 1<<20)
		n := runtime.Stack(buf, true)
		st.Goroutines = filterStacks(string(buf[:n]))
	}
	if st.Quiet {
		t.Emit("Quiet")
	} else {
		t.Emit("NotQuiet")
	}
	t.Stop()
	evs := t.Events()
	st.Events = len(evs)
	return tracer.WriteNDJSON(out, evs, false)
}

func init() {
	register("gates", func(args []string) error {
		fs := flag.NewFlagSet("gates", flag.ExitOnError)
		sc := fs.String("scenario", "d8", "d7 | d8")
		out := fs.String("out", "trace.ndjson", "raw trace output")
		stats := fs.String("stats", "-", "stats output")
		_ = fs.Parse(args)
		st := &gateStats{Scenario: *sc}
		var err error
		switch *sc {
		case "d8":
			err = gateD8(*out, st)
		case "d7":
			err = gateD7(*out, st)
		case "d11":
			err = gateD11(*out, st)
		default:
			err = fmt.Errorf("unknown scenario %s", *sc)
		}
		if err != nil {
			return err
		}
		return writeJSON(*stats, st)
	})
}
