package main

import (
	"bytes"
	"encoding/binary"
	"encoding/json"
	"flag"
	"fmt"
	"io"
	"math/rand"
	"net"
	"os"
	"os/exec"
	"strings"
	"sync"
	"sync/atomic"
	"time"

	"verif/cqlclient"
	"verif/env"
	"verif/fakecql"
	"verif/tracer"

	"github.com/datastax/go-cassandra-native-protocol/frame"
	"github.com/datastax/go-cassandra-native-protocol/message"
	"github.com/datastax/go-cassandra-native-protocol/primitive"
)

// hostile replays the sequences of hostile-peer classes enumerated by TLC from Hostile.tla against the real
// proxy binary (a subprocess): after every event the process must be alive, the offender must have observed
// one of the allowed outcomes, and a well-behaved canary client must still get correct answers.

type hostileSeq struct {
	Seq     []string   `json:"seq"`
	Allowed [][]string `json:"allowed"`
}

type hostileFinding struct {
	Class    string   `json:"class"`
	Seq      []string `json:"seq"`
	Kind     string   `json:"kind"` // process-died | canary-failed | offender-outcome
	Observed string   `json:"observed"`
	Detail   string   `json:"detail"`
	Input    string   `json:"input_hex,omitempty"`
}

type hostileResult struct {
	Sequences int              `json:"sequences"`
	Events    int              `json:"events"`
	Canaries  int              `json:"canary_checks"`
	Restarts  int              `json:"process_restarts"`
	PerClass  map[string]int   `json:"events_per_class"`
	Outcomes  map[string]int   `json:"outcomes"`
	Findings  []hostileFinding `json:"findings"`
	Samples   []hostileSeq     `json:"samples"`
	MaxVer    string           `json:"max_version"`
}

type proxyProc struct {
	cmd    *exec.Cmd
	stderr *bytes.Buffer
	mu     sync.Mutex
	done   chan struct{}
	addr   string
}

// heartbeat settings of the proxy under test: frequent heartbeats heal (and hide) a stalled backend connection within
// their interval, so one of the runs uses slow ones
var hostileHeartbeat, hostileIdle = "300ms", "3s"

// hostileDebug: the proxy under test runs with --debug (development logger)
var hostileDebug bool

func startProxy(bin string, c *fakecql.Cluster, ip string, maxVersion string, extra ...string) (*proxyProc, error) {
	l, err := net.Listen("tcp", "127.0.0.1:0")
	if err != nil {
		return nil, err
	}
	addr := l.Addr().String()
	l.Close()
	p := &proxyProc{stderr: &bytes.Buffer{}, done: make(chan struct{}), addr: addr}
	p.cmd = exec.Command(bin, "--contact-points", ip, "--port", fmt.Sprint(c.Port), "--bind", addr,
		"--max-protocol-version", maxVersion, "--heartbeat-interval", hostileHeartbeat, "--idle-timeout", hostileIdle, "--connect-timeout", "2s")
	if maxVersion == "v3" {
		// the default version to connect with (v4) must not be above the maximum
		p.cmd.Args = append(p.cmd.Args, "--protocol-version", "v3")
	}
	p.cmd.Args = append(p.cmd.Args, extra...)
	if hostileDebug {
		p.cmd.Args = append(p.cmd.Args, "--debug")
	}
	p.cmd.Stderr = &lockedWriter{w: p.stderr, mu: &p.mu}
	p.cmd.Stdout = io.Discard
	if err := p.cmd.Start(); err != nil {
		return nil, err
	}
	go func() { _ = p.cmd.Wait(); close(p.done) }()
	deadline := time.Now().Add(8 * time.Second)
	for time.Now().Before(deadline) {
		if !p.alive() {
			return nil, fmt.Errorf("proxy exited during start-up: %s", p.tail())
		}
		if nc, err := net.DialTimeout("tcp", addr, 200*time.Millisecond); err == nil {
			nc.Close()
			return p, nil
		}
		time.Sleep(50 * time.Millisecond)
	}
	p.stop()
	return nil, fmt.Errorf("proxy did not start listening: %s", p.tail())
}

type lockedWriter struct {
	w  *bytes.Buffer
	mu *sync.Mutex
}

func (l *lockedWriter) Write(b []byte) (int, error) {
	l.mu.Lock()
	defer l.mu.Unlock()
	if l.w.Len() > 4<<20 {
		l.w.Reset()
	}
	return l.w.Write(b)
}

func (p *proxyProc) alive() bool {
	select {
	case <-p.done:
		return false
	default:
		return true
	}
}

func (p *proxyProc) tail() string {
	p.mu.Lock()
	defer p.mu.Unlock()
	s := p.stderr.String()
	if i := strings.Index(s, "panic:"); i >= 0 {
		s = s[i:]
	} else if i := strings.Index(s, "fatal error:"); i >= 0 {
		s = s[i:]
	}
	if len(s) > 2500 {
		s = s[:2500]
	}
	return s
}

func (p *proxyProc) stop() {
	if p.alive() {
		_ = p.cmd.Process.Kill()
		<-p.done
	}
}

// ---------------------------------------------------------------------------- concretiser

func encodeFrame(frm *frame.Frame) []byte {
	var buf bytes.Buffer
	_ = frame.NewRawCodec().EncodeFrame(frm, &buf)
	return buf.Bytes()
}

func validQuery(v primitive.ProtocolVersion, stream int16, q string) []byte {
	return encodeFrame(frame.NewFrame(v, stream, &message.Query{Query: q, Options: &message.QueryOptions{Consistency: primitive.ConsistencyLevelOne}}))
}

func rawFrame(version byte, flags byte, stream int16, opcode byte, body []byte, declared int32) []byte {
	b := []byte{version, flags, byte(uint16(stream) >> 8), byte(stream), opcode, 0, 0, 0, 0}
	binary.BigEndian.PutUint32(b[5:], uint32(declared))
	return append(b, body...)
}

func longString(s string) []byte {
	b := make([]byte, 4+len(s))
	binary.BigEndian.PutUint32(b, uint32(len(s)))
	copy(b[4:], s)
	return b
}

// lenFieldFrame builds a well-formed request body for a class "fl_<OPCODE>_<field>" and returns the offset of the
// length (or count) field the class is about; hostileBytes overwrites it with boundary values.
func lenFieldFrame(class string, v primitive.ProtocolVersion) (op byte, body []byte, off int, short bool, pre string) {
	pre = "startup"
	v5 := v == primitive.ProtocolVersion5
	flagsField := func(f byte) []byte {
		if v5 {
			return []byte{0, 0, 0, f}
		}
		return []byte{f}
	}
	value := []byte{0, 0, 0, 4, 0, 0, 0, 7}
	id := append([]byte{0, 16}, []byte("0123456789abcdef")...)
	text := longString("INSERT INTO ks.t (k) VALUES (?)")
	// query parameters: consistency, flags, then the selected optional part; returns the offset of that part
	params := func(f byte, tail []byte) ([]byte, int) {
		b := append([]byte{0x00, 0x01}, flagsField(f)...)
		return append(b, tail...), len(b)
	}
	parts := strings.SplitN(class, "_", 3)
	opname, field := parts[1], parts[2]
	switch opname {
	case "QUERY", "EXECUTE":
		var head []byte
		if opname == "QUERY" {
			op, head = 0x07, text
		} else {
			op, head = 0x0A, append([]byte{}, id...)
			if v5 {
				head = append(head, id...) // result_metadata_id
			}
		}
		switch field {
		case "text", "id":
			p, _ := params(0, nil)
			return op, append(head, p...), 0, field == "id", pre
		case "nvalues":
			p, o := params(0x01, append([]byte{0, 1}, value...))
			return op, append(head, p...), len(head) + o, true, pre
		case "value":
			p, o := params(0x01, append([]byte{0, 1}, value...))
			return op, append(head, p...), len(head) + o + 2, false, pre
		case "paging":
			p, o := params(0x08, value)
			return op, append(head, p...), len(head) + o, false, pre
		}
	case "PREPARE":
		b := append([]byte{}, text...)
		if v5 {
			b = append(b, 0, 0, 0, 0)
		}
		return 0x09, b, 0, false, pre
	case "BATCH":
		b := []byte{0x00, 0x00, 0x02}
		c0 := len(b)
		b = append(b, 0x00)
		b = append(b, text...)
		nv0 := len(b)
		b = append(b, 0, 1)
		b = append(b, value...)
		c1 := len(b)
		b = append(b, 0x01)
		b = append(b, id...)
		b = append(b, 0, 1)
		b = append(b, value...)
		b = append(b, 0x00, 0x01)
		b = append(b, flagsField(0)...)
		switch field {
		case "count":
			return 0x0D, b, 1, true, pre
		case "text":
			return 0x0D, b, c0 + 1, false, pre
		case "nvalues":
			return 0x0D, b, nv0, true, pre
		case "value":
			return 0x0D, b, nv0 + 2, false, pre
		case "id":
			return 0x0D, b, c1 + 1, true, pre
		case "value2":
			return 0x0D, b, c1 + 1 + len(id) + 2, false, pre
		}
	case "REGISTER":
		b := []byte{0x00, 0x01, 0x00, 0x0d}
		b = append(b, []byte("SCHEMA_CHANGE")...)
		if field == "count" {
			return 0x0B, b, 0, true, pre
		}
		return 0x0B, b, 2, true, pre
	case "STARTUP":
		b := []byte{0x00, 0x01, 0x00, 0x0b}
		b = append(b, []byte("CQL_VERSION")...)
		b = append(b, 0x00, 0x05)
		b = append(b, []byte("3.0.0")...)
		switch field {
		case "count":
			return 0x01, b, 0, true, "none"
		case "key":
			return 0x01, b, 2, true, "none"
		}
		return 0x01, b, 2 + 2 + 11, true, "none"
	case "AUTH":
		return 0x0F, []byte{0, 0, 0, 4, 1, 2, 3, 4}, 0, false, pre
	}
	panic("unknown length-field class " + class)
}

// hostileBytes returns the bytes an offending client sends for a class (after a valid STARTUP unless noted),
// whether a STARTUP should precede them, and the compression to negotiate.
// variantCounter makes the choice among the listed variants of a class deterministic and exhaustive: the k-th
// event of a class uses variant k (mod the number of variants).
var variantCounter = map[string]int{}
var variantMax = map[string]int{}

func hostileBytes(class string, rnd *rand.Rand, v primitive.ProtocolVersion) (pre string, comp string, payload []byte) {
	ver := byte(v)
	k := variantCounter[class]
	variantCounter[class]++
	pick := func(n int) int {
		if n > variantMax[class] {
			variantMax[class] = n
		}
		return k % n
	}
	queryBody := append(longString("SELECT * FROM ks.t"), 0x00, 0x01, 0x00)
	if strings.HasPrefix(class, "fl_") {
		op, body, off, short, pre := lenFieldFrame(class, v)
		rem := len(body) - off
		var val int64
		if short {
			rem -= 2
			vals := []int64{0xffff, 0x8000, 0x7fff, int64(rem + 1), 0, int64(rem)}
			val = vals[pick(len(vals))]
			binary.BigEndian.PutUint16(body[off:], uint16(val))
		} else {
			rem -= 4
			pos := int64(off + 4)
			// (a declared length of 2 GiB makes the library's string / bytes readers allocate that much before they
			// notice the body is short: slow, so only two such values are used)
			vals := []int64{-1, -2, -3, 0x7fffffff, -0x80000000, -0x7ffffff8, int64(rem + 1), 0x7fffffff - pos + 1, 0x01000000, int64(rem)}
			val = vals[pick(len(vals))]
			binary.BigEndian.PutUint32(body[off:], uint32(int32(val)))
		}
		flags := byte(0)
		if v == primitive.ProtocolVersion5 {
			flags = 0x10 // USE_BETA
		}
		return pre, "", rawFrame(ver, flags, 1, op, body, int32(len(body)))
	}
	switch class {
	case "trunc_header":
		return "startup", "", rawFrame(ver, 0, 1, 0x07, nil, 0)[:1+rnd.Intn(7)]
	case "trunc_body":
		return "startup", "", rawFrame(ver, 0, 1, 0x07, queryBody[:rnd.Intn(len(queryBody))], int32(len(queryBody)))
	case "len_huge":
		return "startup", "", rawFrame(ver, 0, 1, 0x07, queryBody, int32(1<<20*(1+rnd.Intn(15))))
	case "garbage_bytes":
		b := make([]byte, 16+rnd.Intn(200))
		rnd.Read(b)
		b[0] = byte(rnd.Intn(256))
		return []string{"startup", "none"}[pick(2)], "", b
	case "len_zero_with_body":
		return "startup", "", rawFrame(ver, 0, 1, 0x07, queryBody, 0)
	case "len_short":
		return "startup", "", rawFrame(ver, 0, 1, 0x07, queryBody, int32(len(queryBody)-1-rnd.Intn(5)))
	case "len_long":
		return "startup", "", append(rawFrame(ver, 0, 1, 0x07, queryBody, int32(len(queryBody)+3)), 1, 2, 3)
	case "response_bit":
		return "startup", "", rawFrame(ver|0x80, 0, 1, []byte{0x08, 0x00, 0x02, 0x06}[pick(4)], queryBody, int32(len(queryBody)))
	case "response_opcode":
		op := []byte{0x00, 0x02, 0x03, 0x06, 0x08, 0x0C, 0x0E, 0x10}[pick(8)]
		return "startup", "", rawFrame(ver, 0, 1, op, queryBody, int32(len(queryBody)))
	case "unknown_version":
		vv := []byte{0, 1, 6, 7, 8, 9, 10, 33, 64, 67, 100, 127}[pick(12)]
		return []string{"startup", "none"}[pick(2)], "", rawFrame(vv, 0, 1, 0x05, nil, 0)
	case "bad_opcode":
		op := []byte{0x04, 0x11, 0x12, 0x20, 0x7f, 0xff}[pick(6)]
		return "startup", "", rawFrame(ver, 0, 1, op, queryBody, int32(len(queryBody)))
	case "compressed_flag_no_codec":
		return "startup", "", rawFrame(ver, 0x01, 1, 0x07, queryBody, int32(len(queryBody)))
	case "bad_compressed_block":
		b := make([]byte, 20+rnd.Intn(40))
		rnd.Read(b)
		binary.BigEndian.PutUint32(b, uint32(50+rnd.Intn(1000)))
		return "startup", []string{"lz4", "snappy"}[pick(2)], rawFrame(ver, 0x01, 1, 0x07, b, int32(len(b)))
	case "bad_string_len":
		body := []byte{0xff, 0xff, 0xff, byte(rnd.Intn(256)), 'S', 'E', 'L', 0x00, 0x01, 0x00}
		if pick(2) == 0 {
			body = []byte{0x00, 0x00, 0x10, 0x00, 'S', 'E', 'L', 'E', 'C', 'T'}
		}
		return "startup", "", rawFrame(ver, 0, 1, 0x07, body, int32(len(body)))
	case "bad_map_len":
		body := []byte{0xff, 0xff, 0x00, 0x0b, 'C', 'Q', 'L', '_', 'V', 'E', 'R', 'S', 'I', 'O', 'N'}
		if pick(2) == 0 {
			body = []byte{0x00, 0x02, 0x00, 0x0b, 'C', 'Q', 'L', '_', 'V', 'E', 'R', 'S', 'I', 'O', 'N', 0x00, 0x05, '3', '.', '0', '.', '0'}
		}
		return "none", "", rawFrame(ver, 0, 1, 0x01, body, int32(len(body)))
	case "bad_batch_count":
		body := []byte{0x00, 0xff, 0xff, 0x00}
		if pick(2) == 0 {
			body = append([]byte{0x00, 0x00, 0x02, 0x00}, longString("INSERT INTO ks.t (k) VALUES (1)")...)
			body = append(body, 0xff, 0xff)
		}
		return "startup", "", rawFrame(ver, 0, 1, 0x0D, body, int32(len(body)))
	case "empty_execute_id":
		body := []byte{0x00, 0x00, 0x00, 0x01, 0x00}
		return "startup", "", rawFrame(ver, 0, 1, 0x0A, body, int32(len(body)))
	case "bad_consistency":
		body := append(longString("SELECT * FROM ks.t WHERE k = 'tokHcons;'"), 0x7f, 0xff, 0x00)
		return "startup", "", rawFrame(ver, 0, 1, 0x07, body, int32(len(body)))
	case "hostile_use":
		ks := []string{`"`, `""`, `"""`, `"a`, `a"`, strings.Repeat("k", 70000), "\xff\xfe", `"` + strings.Repeat(`""`, 50), "ks;", "system\x00"}[pick(10)]
		return "startup", "", validQuery(v, 1, "USE "+ks)
	case "hostile_prepare_ks":
		ks := []string{`"`, `""`, `"a`, "\xff", strings.Repeat("q", 70000)}[pick(5)]
		// PREPARE with the keyspace field exists from v5 on; on older versions the bytes are the same layout with the flag ignored
		body := append(longString("SELECT * FROM tbl WHERE k = 1"), 0x00, 0x00, 0x00, 0x01)
		kb := make([]byte, 2+len(ks))
		binary.BigEndian.PutUint16(kb, uint16(len(ks)))
		copy(kb[2:], ks)
		if len(ks) > 65535 {
			kb = []byte{0xff, 0xff}
		}
		body = append(body, kb...)
		flags := byte(0)
		if v == primitive.ProtocolVersion5 {
			flags = 0x10 // USE_BETA
		}
		return "startup", "", rawFrame(ver, flags, 1, 0x09, body, int32(len(body)))
	case "hostile_query_text":
		q := []string{strings.Repeat("SELECT ", 10000), "\xff\xfe\xfd", "SELECT * FROM system.local WHERE " + strings.Repeat("(", 5000), "USE", "SELECT", "SELECT * FROM", "SELECT * FROM system.", `SELECT "`, "BEGIN BATCH", strings.Repeat("[", 100000)}[pick(10)]
		return "startup", "", validQuery(v, 1, q)
	case "hostile_register":
		body := []byte{0x00, 0x02, 0x00, 0x05, 'B', 'O', 'G', 'U', 'S', 0x00, 0x0d, 'S', 'C', 'H', 'E', 'M', 'A', '_', 'C', 'H', 'A', 'N', 'G', 'E'}
		return "startup", "", rawFrame(ver, 0, 1, 0x0B, body, int32(len(body)))
	case "hostile_startup":
		opts := map[string]string{"CQL_VERSION": "3.0.0", "COMPRESSION": strings.Repeat("z", 1+rnd.Intn(70000)%65000), "": "", "\xff": "\xfe"}
		return "none", "", encodeFrame(frame.NewFrame(v, 1, &message.Startup{Options: opts}))
	case "nonreader_flood":
		_ = pick(1)
		var b bytes.Buffer
		for q := 0; q < 2500; q++ {
			b.Write(validQuery(v, int16(1+q), fmt.Sprintf("SELECT * FROM ks.t WHERE k = 'tokflood%d;'", q)))
		}
		return "startup", "", b.Bytes()
	case "hostile_auth":
		return "startup", "", encodeFrame(frame.NewFrame(v, 1, &message.AuthResponse{Token: []byte("x")}))
	}
	if class == "b_prepare_wrong_result" {
		// a forwarded PREPARE; the backend answers it with a RESULT that is not PREPARED
		return "startup", "", encodeFrame(frame.NewFrame(v, 1, &message.Prepare{Query: "SELECT * FROM ks.t WHERE k = 'tokHb_prepare_wrong_result;'"}))
	}
	// backend classes: a tokenised idempotent query; the fake backend misbehaves when it sees the token
	return "startup", "", validQuery(v, 1, fmt.Sprintf("SELECT * FROM ks.t WHERE k = 'tokH%s;'", class))
}

// backend misbehaviour, chosen by the token of the attempt
func hostileScript(rnd *rand.Rand, mu *sync.Mutex) func(a *fakecql.Attempt) fakecql.Outcome {
	return func(a *fakecql.Attempt) fakecql.Outcome {
		if !strings.HasPrefix(a.Token, "tokHb_") || a.N > 1 {
			return fakecql.Outcome{Kind: fakecql.OK}
		}
		class := strings.TrimSuffix(strings.TrimPrefix(a.Token, "tokH"), ";")
		ver := byte(a.Header.Version) | 0x80
		st := a.Header.StreamId
		mu.Lock()
		defer mu.Unlock()
		switch class {
		case "b_unknown_stream":
			return fakecql.Outcome{Kind: fakecql.RawReply, Raw: rawFrame(ver, 0, st+1000, 0x08, []byte{0, 0, 0, 1}, 4)}
		case "b_bad_event_on_control":
			// the request is answered; meanwhile a malformed EVENT frame arrives on the control connection (the one that
			// sent REGISTER): truncated body, unknown event type, garbage after the type, empty body
			if cc := a.Node.C.ControlConn(); cc != nil {
				str := func(s string) []byte { return append([]byte{byte(len(s) >> 8), byte(len(s))}, s...) }
				bodies := [][]byte{
					append(str("STATUS_CHANGE"), str("UP")...),
					append(str("BOGUS_EVENT"), 1, 2, 3),
					append(str("SCHEMA_CHANGE"), 0xff, 0xfe, 0xfd),
					{},
					append(str("TOPOLOGY_CHANGE"), append(str("NEW_NODE"), 0x04, 127)...),
				}
				body := bodies[rnd.Intn(len(bodies))]
				cc.WriteRaw(rawFrame(byte(cc.Version)|0x80, 0, -1, 0x0C, body, int32(len(body))))
			}
			return fakecql.Outcome{Kind: fakecql.OK}
		case "b_unsolicited_result":
			// the request is answered, and a second RESULT arrives on a stream nobody is waiting on (before or after it):
			// afterwards the backend connection is idle with that frame consumed
			extra := rawFrame(ver, 0, st+1000, 0x08, []byte{0, 0, 0, 1}, 4)
			ok := rawFrame(ver, 0, st, 0x08, []byte{0, 0, 0, 1}, 4)
			if rnd.Intn(2) == 0 {
				return fakecql.Outcome{Kind: fakecql.RawReply, Raw: append(ok, extra...)}
			}
			return fakecql.Outcome{Kind: fakecql.RawReply, Raw: append(extra, ok...)}
		case "b_prepare_wrong_result":
			// RESULT kinds that do not belong to a PREPARE: Void, SetKeyspace, Rows without columns, SchemaChange, a
			// PREPARED body cut short, an unknown kind
			bodies := [][]byte{
				{0, 0, 0, 1},
				{0, 0, 0, 3, 0, 2, 'k', 's'},
				{0, 0, 0, 2, 0, 0, 0, 4, 0, 0, 0, 0, 0, 0, 0, 0},
				{0, 0, 0, 5, 0, 7, 'C', 'R', 'E', 'A', 'T', 'E', 'D', 0, 8, 'K', 'E', 'Y', 'S', 'P', 'A', 'C', 'E', 0, 2, 'k', 's'},
				{0, 0, 0, 4, 0, 16, 1, 2, 3},
				{0, 0, 0, 9},
			}
			body := bodies[rnd.Intn(len(bodies))]
			return fakecql.Outcome{Kind: fakecql.RawReply, Raw: rawFrame(ver, 0, st, 0x08, body, int32(len(body)))}
		case "b_wrong_opcode":
			op := []byte{0x02, 0x06, 0x03, 0x10, 0x0E, 0x07, 0x01}[rnd.Intn(7)]
			return fakecql.Outcome{Kind: fakecql.RawReply, Raw: rawFrame(ver, 0, st, op, nil, 0)}
		case "b_short_error":
			body := []byte{0x00, 0x00, 0x25}[:rnd.Intn(4)]
			return fakecql.Outcome{Kind: fakecql.RawReply, Raw: rawFrame(ver, 0, st, 0x00, body, int32(len(body)))}
		case "b_garbage":
			b := make([]byte, 9+rnd.Intn(64))
			rnd.Read(b)
			return fakecql.Outcome{Kind: fakecql.RawReply, Raw: b}
		case "b_unsolicited_event":
			body := []byte{0x00, 0x0d, 'S', 'C', 'H', 'E', 'M', 'A', '_', 'C', 'H', 'A', 'N', 'G', 'E', 0xff}
			raw := rawFrame(ver, 0, -1, 0x0C, body, int32(len(body)))
			ok := rawFrame(ver, 0, st, 0x08, []byte{0, 0, 0, 1}, 4)
			return fakecql.Outcome{Kind: fakecql.RawReply, Raw: append(raw, ok...)}
		case "b_truncated_result":
			body := []byte{0x00, 0x00, 0x00, 0x02, 0x00, 0x00, 0x00, 0x01, 0x00, 0x00, 0x00, 0x05}
			return fakecql.Outcome{Kind: fakecql.RawReply, Raw: rawFrame(ver, 0, st, 0x08, body, int32(len(body)))}
		case "b_unprepared_unknown_id":
			return fakecql.Outcome{Kind: fakecql.Unprepared, Msg: &message.Unprepared{ErrorMessage: "x", Id: []byte{9, 9, 9}}}
		case "b_compressed_flag":
			body := []byte{0x00, 0x00, 0x00, 0x00, 0x00, 0x01, 'x'}
			return fakecql.Outcome{Kind: fakecql.RawReply, Raw: rawFrame(ver, 0x01, st, 0x00, body, int32(len(body)))}
		}
		return fakecql.Outcome{Kind: fakecql.OK}
	}
}

func observe(nc net.Conn, wait time.Duration) (string, string) {
	_ = nc.SetReadDeadline(time.Now().Add(wait))
	hdr := make([]byte, 9)
	n, err := io.ReadFull(nc, hdr)
	if err != nil {
		if ne, ok := err.(net.Error); ok && ne.Timeout() {
			if n == 0 {
				return "nothing", ""
			}
			return "nothing", fmt.Sprintf("partial header %x", hdr[:n])
		}
		return "closed", ""
	}
	l := binary.BigEndian.Uint32(hdr[5:])
	if l < 1<<20 {
		_, _ = io.CopyN(io.Discard, nc, int64(l))
	}
	if hdr[4] == 0x00 {
		return "error", ""
	}
	return "answered", fmt.Sprintf("opcode %#x", hdr[4])
}

func canary(addr string, v primitive.ProtocolVersion, n int) error {
	c, err := cqlclient.Dial(addr, 9000+n, nil)
	if err != nil {
		return fmt.Errorf("dial: %w", err)
	}
	c.Quiet = true
	defer c.Close()
	if err := c.Startup(v, ""); err != nil {
		return fmt.Errorf("startup: %w", err)
	}
	r, err := c.Roundtrip(frame.NewFrame(v, 2, &message.Query{Query: "SELECT key, rpc_address FROM system.local", Options: &message.QueryOptions{Consistency: primitive.ConsistencyLevelOne}}), "", "canary", 3*time.Second)
	if err != nil || r.Kind != "ok" {
		return fmt.Errorf("system.local not answered: %v %v", err, r)
	}
	// two forwarded queries: the round robin sends them to different backend hosts, so the host the offender's request
	// went to is among them
	for q := 0; q < 2; q++ {
		if err := canaryForwarded(c, v, n, q); err != nil {
			return err
		}
	}
	return nil
}

func canaryForwarded(c *cqlclient.Client, v primitive.ProtocolVersion, n, q int) error {
	tok := fmt.Sprintf("tokcanary%dq%d;", n, q)
	// a backend connection that was torn down by garbage is re-established after the reconnect delay (>= 2 s with
	// the binary's default policy): the canary's forwarded query may fail until then, but must succeed again
	deadline := time.Now().Add(8 * time.Second)
	var last string
	var r *cqlclient.Recv
	var err error
	for try := 0; time.Now().Before(deadline); try++ {
		r, err = c.Roundtrip(frame.NewFrame(v, int16(3+100*q+try), &message.Query{Query: fmt.Sprintf("SELECT * FROM ks.t WHERE k = '%s'", tok), Options: &message.QueryOptions{Consistency: primitive.ConsistencyLevelOne}}), tok, "canary", 4*time.Second)
		if err == nil && r.Kind == "ok" && r.Token == tok {
			return nil
		}
		if err != nil {
			return fmt.Errorf("forwarded query: %w", err)
		}
		if r.Kind == "ok" {
			return fmt.Errorf("forwarded query answered with another request's result: token %q (want %q)", r.Token, tok)
		}
		last = r.Kind
		time.Sleep(300 * time.Millisecond)
	}
	return fmt.Errorf("forwarded query keeps failing with %s for 8 s", last)
}

func init() {
	register("hostile", func(args []string) error {
		fs := flag.NewFlagSet("hostile", flag.ExitOnError)
		bin := fs.String("bin", "", "proxy binary")
		in := fs.String("in", "", "sequences (JSON lines)")
		out := fs.String("out", "-", "result")
		maxv := fs.String("maxversion", "v4", "--max-protocol-version of the proxy")
		reps := fs.Int("reps", 2, "concrete representatives per class occurrence")
		fs.StringVar(&hostileHeartbeat, "heartbeat", "300ms", "--heartbeat-interval of the proxy")
		fs.StringVar(&hostileIdle, "idle", "3s", "--idle-timeout of the proxy")
		fs.BoolVar(&hostileDebug, "debug", false, "run the proxy with --debug")
		_ = fs.Parse(args)
		res := &hostileResult{PerClass: map[string]int{}, Outcomes: map[string]int{}, MaxVer: *maxv}
		t := tracer.New()
		t.Stop()
		c := fakecql.New(t)
		c.AddKeyspace("ks")
		ips := []string{fakecql.IP(env.Block(), 1), fakecql.IP(env.Block(), 2)}
		if err := c.Start(ips...); err != nil {
			return err
		}
		defer c.Shutdown()
		rnd := newRand(1717)
		var smu sync.Mutex
		c.Script = hostileScript(newRand(1718), &smu)
		clientV := primitive.ProtocolVersion4
		if *maxv == "v3" {
			clientV = primitive.ProtocolVersion3
		}
		if *maxv == "v5" {
			clientV = primitive.ProtocolVersion5
		}
		p, err := startProxy(*bin, c, ips[0], *maxv)
		if err != nil {
			return err
		}
		defer func() { p.stop() }()
		ncan := 0
		died := func(class string, seq []string, input []byte) {
			f := hostileFinding{Class: class, Seq: seq, Kind: "process-died", Detail: p.tail()}
			if len(input) > 0 && len(input) < 400 {
				f.Input = fmt.Sprintf("%x", input)
			}
			res.Findings = append(res.Findings, f)
		}
		err = readJSONLines(*in, func(line []byte) error {
			var hs hostileSeq
			if err := json.Unmarshal(line, &hs); err != nil {
				return err
			}
			res.Sequences++
			if len(res.Samples) < 3 {
				res.Samples = append(res.Samples, hs)
			}
			for i, class := range hs.Seq {
				nrep := *reps
				if variantCounter[class] == 0 {
					nrep = 12 // first occurrence: every listed variant of the class
				}
				for rep := 0; rep < nrep; rep++ {
					if rep >= *reps && variantMax[class] > 0 && rep >= variantMax[class] {
						break
					}
					if !p.alive() {
						res.Restarts++
						var e error
						if p, e = startProxy(*bin, c, ips[0], *maxv); e != nil {
							return e
						}
					}
					pre, comp, payload := hostileBytes(class, rnd, clientV)
					res.Events++
					res.PerClass[class]++
					nc, err := net.DialTimeout("tcp", p.addr, 2*time.Second)
					if err != nil {
						if !p.alive() {
							died(class, hs.Seq, payload)
							continue
						}
						return err
					}
					if pre == "startup" {
						st := message.NewStartup()
						if comp != "" {
							st = message.NewStartup("COMPRESSION", comp)
						}
						_, _ = nc.Write(encodeFrame(frame.NewFrame(clientV, 0, st)))
						_, _ = observe(nc, 2*time.Second)
					}
					if class == "nonreader_flood" {
						// valid frames only, from a peer that never reads: 2500 queries whose answers (about 20 KiB each) pile up
						// in the socket buffers and in the proxy's write queue for this client; then it hangs up
						atomic.StoreInt64(&c.BigEvery, 1)
						go func() { _, _ = nc.Write(payload) }()
						time.Sleep(1500 * time.Millisecond)
						if os.Getenv("VERIF_DEBUG_FLOOD") != "" {
							tot := 0
							buf := make([]byte, 1<<20)
							for {
								_ = nc.SetReadDeadline(time.Now().Add(300 * time.Millisecond))
								n, err := nc.Read(buf)
								tot += n
								if err != nil {
									break
								}
							}
							fmt.Fprintf(os.Stderr, "flood: %d bytes were waiting for the offender\n", tot)
						}
						nc.Close()
						atomic.StoreInt64(&c.BigEvery, 0)
						res.Outcomes["closed"]++
						time.Sleep(100 * time.Millisecond)
						if !p.alive() {
							died(class, hs.Seq, nil)
							continue
						}
						ncan++
						res.Canaries++
						if err := canary(p.addr, clientV, ncan); err != nil {
							if !p.alive() {
								died(class, hs.Seq, nil)
								continue
							}
							res.Findings = append(res.Findings, hostileFinding{Class: class, Seq: hs.Seq, Kind: "canary-failed", Detail: err.Error()})
							p.stop()
							res.Restarts++
							var e error
							if p, e = startProxy(*bin, c, ips[0], *maxv); e != nil {
								return e
							}
						}
						continue
					}
					_, _ = nc.Write(payload)
					// classes for which silence is an allowed outcome are given a short wait; for the others silence
					// is only concluded after a long one (a slow machine must not look like a wedged proxy)
					wait := 5 * time.Second
					for _, a := range hs.Allowed[i] {
						if a == "nothing" {
							wait = 300 * time.Millisecond
						}
					}
					if strings.HasPrefix(class, "b_") {
						wait = 1500 * time.Millisecond
					}
					if strings.HasPrefix(class, "fl_") {
						wait = 40 * time.Second // huge declared lengths are answered slowly (see hostileBytes)
					}
					obs, detail := observe(nc, wait)
					nc.Close()
					res.Outcomes[obs]++
					okOutcome := false
					for _, a := range hs.Allowed[i] {
						if a == obs {
							okOutcome = true
						}
					}
					time.Sleep(30 * time.Millisecond)
					if !p.alive() {
						died(class, hs.Seq, payload)
						continue
					}
					if !okOutcome {
						res.Findings = append(res.Findings, hostileFinding{Class: class, Seq: hs.Seq, Kind: "offender-outcome", Observed: obs, Detail: detail, Input: fmt.Sprintf("%.300x", payload)})
					}
					ncan++
					res.Canaries++
					if err := canary(p.addr, clientV, ncan); err != nil {
						if !p.alive() {
							died(class, hs.Seq, payload)
							continue
						}
						res.Findings = append(res.Findings, hostileFinding{Class: class, Seq: hs.Seq, Kind: "canary-failed", Detail: err.Error()})
						// a wedged proxy would fail every later canary too: start over with a fresh process so that the
						// following events are judged on their own
						p.stop()
						res.Restarts++
						var e error
						if p, e = startProxy(*bin, c, ips[0], *maxv); e != nil {
							return e
						}
					}
				}
			}
			return nil
		})
		if err != nil {
			return err
		}
		return writeJSON(*out, res)
	})
}
