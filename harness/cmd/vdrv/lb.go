package main

import (
	"encoding/json"
	"flag"
	"fmt"
	"sync"

	"github.com/datastax/cql-proxy/proxycore"
)

// lb replays LoadBalancer.tla behaviours (one JSON array per line) through the public API of
// proxycore.NewRoundRobinLoadBalancer and compares every yielded host with the specification.

type lbStep struct {
	A     string   `json:"a"`
	Ctr   uint64   `json:"ctr"`
	Hosts []string `json:"hosts"`
	H     string   `json:"h"`
	P     int      `json:"p"`
	Y     string   `json:"y"`
}

type lbMismatch struct {
	Behaviour []lbStep `json:"behaviour"`
	Step      int      `json:"step"`
	Preset    uint64   `json:"preset"`
	Want      string   `json:"want"`
	Got       string   `json:"got"`
	Kind      string   `json:"kind"`
}

type lbResult struct {
	Behaviours int          `json:"behaviours"`
	Replays    int          `json:"replays"`
	Steps      int          `json:"steps"`
	NextCalls  int          `json:"next_calls"`
	Presets    []uint64     `json:"presets"`
	Mismatches []lbMismatch `json:"mismatches"`
	NMismatch  int          `json:"n_mismatch"`
	Panics     int          `json:"panics"`
	Samples    [][]lbStep   `json:"samples"`
	Concurrent *lbConcStats `json:"concurrent,omitempty"`
}

var lbHostCache = map[string]*proxycore.Host{}

func lbHost(name string) *proxycore.Host {
	if h, ok := lbHostCache[name]; ok {
		return h
	}
	h := &proxycore.Host{Endpoint: proxycore.NewEndpoint(name), DC: "dc1"}
	lbHostCache[name] = h
	return h
}

func lbHostName(h *proxycore.Host) string {
	if h == nil {
		return "nil"
	}
	return h.Key()
}

// presetsFor maps the specification's initial counter c (an ideal natural number) to concrete
// initial values v of the Go counter with v = c (mod 60), 60 = lcm(1..5): for an ideal counter
// all of them yield the same hosts for clusters of up to 5 hosts.
func presetsFor(c uint64) []uint64 {
	c = c % 60
	ps := []uint64{c, 60 + c, 6000 + c}
	// 2^31 = 8 (mod 60), 2^32 = 16 (mod 60)
	ps = append(ps, (1<<31)-8-60+c, (1<<31)-8+c)
	ps = append(ps, (1<<32)-16-60+c, (1<<32)-16-60*2+c)
	if c < 16 {
		ps = append(ps, (1<<32)-16+c) // < 2^32, crosses the 32-bit boundary within 16 plans
	}
	return ps
}

func lbReplayOne(beh []lbStep, preset uint64, res *lbResult) (mm *lbMismatch) {
	defer func() {
		if r := recover(); r != nil {
			res.Panics++
			mm = &lbMismatch{Behaviour: beh, Step: -1, Preset: preset, Kind: "panic", Got: fmt.Sprint(r)}
		}
	}()
	lb := proxycore.NewRoundRobinLoadBalancer()
	if !proxycore.VerifSetRoundRobinCounter(lb, preset) {
		return &lbMismatch{Behaviour: beh, Step: 0, Preset: preset, Kind: "harness: cannot preset counter"}
	}
	plans := map[int]proxycore.QueryPlan{}
	for i, st := range beh {
		res.Steps++
		switch st.A {
		case "init":
		case "bootstrap":
			hs := make([]*proxycore.Host, 0, len(st.Hosts))
			for _, n := range st.Hosts {
				hs = append(hs, lbHost(n))
			}
			lb.OnEvent(&proxycore.BootstrapEvent{Hosts: hs})
		case "add":
			lb.OnEvent(&proxycore.AddEvent{Host: lbHost(st.H)})
		case "remove":
			lb.OnEvent(&proxycore.RemoveEvent{Host: lbHost(st.H)})
		case "newplan":
			plans[st.P] = lb.NewQueryPlan()
		case "next":
			res.NextCalls++
			got := lbHostName(plans[st.P].Next())
			if got != st.Y {
				return &lbMismatch{Behaviour: beh, Step: i, Preset: preset, Want: st.Y, Got: got, Kind: "yield"}
			}
		default:
			return &lbMismatch{Behaviour: beh, Step: i, Preset: preset, Kind: "harness: unknown action " + st.A}
		}
	}
	return nil
}

type lbConcStats struct {
	Plans      int      `json:"plans"`
	Histories  int      `json:"histories"`
	Violations []string `json:"violations"`
	// concurrent planners over a fixed membership: violations of Balance / ConsecutiveStarts
	Unbalanced  []string `json:"unbalanced"`
	BalanceRuns int      `json:"balance_runs"`
}

// lbConcurrent applies each behaviour's membership events from one goroutine while planner
// goroutines create and consume plans. Every finished plan must be a rotation of one of the
// memberships the specification's behaviour passes through, without duplicates, ending in nil.
func lbConcurrent(behs [][]lbStep, planners, plansPer int) *lbConcStats {
	st := &lbConcStats{}
	var mu sync.Mutex
	report := func(s string) {
		mu.Lock()
		if len(st.Violations) < 20 {
			st.Violations = append(st.Violations, s)
		}
		mu.Unlock()
	}
	for _, beh := range behs {
		st.Histories++
		// legal snapshots = every membership of the history (as sets, order = spec order)
		var snaps [][]string
		cur := []string{}
		snaps = append(snaps, cur)
		for _, s := range beh {
			switch s.A {
			case "bootstrap":
				cur = append([]string{}, s.Hosts...)
			case "add":
				cur = append(append([]string{}, cur...), s.H)
			case "remove":
				n := []string{}
				removed := false
				for _, h := range cur {
					if h == s.H && !removed {
						removed = true
						continue
					}
					n = append(n, h)
				}
				cur = n
			default:
				continue
			}
			snaps = append(snaps, cur)
		}
		legal := func(out []string) bool {
			for _, sn := range snaps {
				if len(sn) != len(out) {
					continue
				}
				if len(sn) == 0 {
					return true
				}
				for off := range sn {
					ok := true
					for i := range out {
						if sn[(off+i)%len(sn)] != out[i] {
							ok = false
							break
						}
					}
					if ok {
						return true
					}
				}
			}
			return false
		}
		lb := proxycore.NewRoundRobinLoadBalancer()
		var wg sync.WaitGroup
		start := make(chan struct{})
		for g := 0; g < planners; g++ {
			wg.Add(1)
			go func() {
				defer wg.Done()
				defer func() {
					if r := recover(); r != nil {
						report(fmt.Sprint("panic in planner: ", r))
					}
				}()
				<-start
				for k := 0; k < plansPer; k++ {
					qp := lb.NewQueryPlan()
					var out []string
					for i := 0; i < 64; i++ {
						h := qp.Next()
						if h == nil {
							break
						}
						out = append(out, h.Key())
					}
					if qp.Next() != nil {
						report(fmt.Sprint("plan yields a host after exhaustion: ", out))
					}
					if !legal(out) {
						report(fmt.Sprintf("plan %v is not a rotation of any membership in %v", out, snaps))
					}
					mu.Lock()
					st.Plans++
					mu.Unlock()
				}
			}()
		}
		wg.Add(1)
		go func() {
			defer wg.Done()
			<-start
			for _, s := range beh {
				switch s.A {
				case "bootstrap":
					hs := make([]*proxycore.Host, 0, len(s.Hosts))
					for _, n := range s.Hosts {
						hs = append(hs, lbHost(n))
					}
					lb.OnEvent(&proxycore.BootstrapEvent{Hosts: hs})
				case "add":
					lb.OnEvent(&proxycore.AddEvent{Host: lbHost(s.H)})
				case "remove":
					lb.OnEvent(&proxycore.RemoveEvent{Host: lbHost(s.H)})
				}
			}
		}()
		close(start)
		wg.Wait()
	}
	return st
}

// lbBalance: LoadBalancer.tla's NewPlan is one atomic step (the counter is read and advanced at once), so any number
// of plans taken concurrently over a fixed membership start at consecutive counter values: with n hosts and P plans
// the first choices are spread as evenly as P allows. Returns a description of the violation or "".
func lbBalance(hosts, planners, plansPer int) string {
	lb := proxycore.NewRoundRobinLoadBalancer()
	hs := make([]*proxycore.Host, 0, hosts)
	for i := 1; i <= hosts; i++ {
		hs = append(hs, lbHost(fmt.Sprintf("h%d", i)))
	}
	lb.OnEvent(&proxycore.BootstrapEvent{Hosts: hs})
	counts := make([]map[string]int, planners)
	var wg sync.WaitGroup
	start := make(chan struct{})
	for g := 0; g < planners; g++ {
		counts[g] = map[string]int{}
		wg.Add(1)
		go func(g int) {
			defer wg.Done()
			<-start
			for k := 0; k < plansPer; k++ {
				if h := lb.NewQueryPlan().Next(); h != nil {
					counts[g][h.Key()]++
				}
			}
		}(g)
	}
	close(start)
	wg.Wait()
	total := map[string]int{}
	for _, c := range counts {
		for k, v := range c {
			total[k] += v
		}
	}
	min, max := -1, 0
	for _, h := range hs {
		v := total[h.Key()]
		if min < 0 || v < min {
			min = v
		}
		if v > max {
			max = v
		}
	}
	if max-min > 1 {
		return fmt.Sprintf("%d plans taken concurrently by %d goroutines over %d hosts: first choices %v differ by %d (at most 1 allowed)", planners*plansPer, planners, hosts, total, max-min)
	}
	return ""
}

func init() {
	register("lb", func(args []string) error {
		fs := flag.NewFlagSet("lb", flag.ExitOnError)
		in := fs.String("in", "", "behaviours (JSON lines)")
		out := fs.String("out", "-", "result file")
		conc := fs.Int("concurrent", 0, "number of behaviours to replay concurrently (0 = none)")
		bal := fs.Bool("balance", false, "take plans concurrently over a fixed membership and check the spread of first choices")
		_ = fs.Parse(args)
		res := &lbResult{}
		presetSet := map[uint64]bool{}
		var concBehs [][]lbStep
		// pre-create hosts so the cache is read-only under concurrency
		for i := 1; i <= 8; i++ {
			lbHost(fmt.Sprintf("h%d", i))
		}
		err := readJSONLines(*in, func(line []byte) error {
			var beh []lbStep
			if err := json.Unmarshal(line, &beh); err != nil {
				return err
			}
			if len(beh) == 0 || beh[0].A != "init" {
				return fmt.Errorf("behaviour does not start with init")
			}
			res.Behaviours++
			if len(res.Samples) < 3 && res.Behaviours%97 == 1 {
				res.Samples = append(res.Samples, beh)
			}
			if len(concBehs) < *conc {
				concBehs = append(concBehs, beh)
			}
			for _, p := range presetsFor(beh[0].Ctr) {
				presetSet[p] = true
				res.Replays++
				if mm := lbReplayOne(beh, p, res); mm != nil {
					res.NMismatch++
					if len(res.Mismatches) < 25 {
						res.Mismatches = append(res.Mismatches, *mm)
					}
				}
			}
			return nil
		})
		if err != nil {
			return err
		}
		for p := range presetSet {
			res.Presets = append(res.Presets, p)
		}
		if len(concBehs) > 0 {
			res.Concurrent = lbConcurrent(concBehs, 6, 200)
		}
		if *bal {
			if res.Concurrent == nil {
				res.Concurrent = &lbConcStats{}
			}
			for _, n := range []int{2, 3, 5} {
				for rep := 0; rep < 3; rep++ {
					if v := lbBalance(n, 8, 20000); v != "" && len(res.Concurrent.Unbalanced) < 20 {
						res.Concurrent.Unbalanced = append(res.Concurrent.Unbalanced, v)
					}
				}
				res.Concurrent.BalanceRuns += 3
			}
		}
		return writeJSON(*out, res)
	})
}
