package main

import (
	"bufio"
	"context"
	"encoding/json"
	"errors"
	"flag"
	"fmt"
	"net"
	"os"
	"sort"
	"strings"
	"sync"
	"time"

	"github.com/datastax/cql-proxy/proxy"
	"github.com/datastax/cql-proxy/proxycore"
	"github.com/datastax/go-cassandra-native-protocol/primitive"

	"verif/cqlclient"
	"verif/env"
	"verif/fakecql"
	"verif/tracer"
)

// lifecycle replays the behaviours of ProxyLifecycle.tla (Connect / Serve / Dial / Close in every order up to the
// bound) against a real proxy.Proxy in front of a one-node fake backend and compares, after every step, the result of
// the call, which Serve calls are still running and which clients are still served.

type lifeStep struct {
	A        string          `json:"a"`
	Arg      json.RawMessage `json:"arg"`
	Res      string          `json:"res"`
	Serving  []string        `json:"serving"`
	Returned []string        `json:"returned"`
	Alive    []string        `json:"alive"`
}

type lifeMismatch struct {
	Behaviour []lifeStep `json:"behaviour"`
	Step      int        `json:"step"`
	What      string     `json:"what"`
	Want      string     `json:"want"`
	Got       string     `json:"got"`
}

type lifeResult struct {
	Behaviours int            `json:"behaviours"`
	Steps      int            `json:"steps"`
	Mismatches []lifeMismatch `json:"mismatches"`
}

type lifeListener struct {
	ln   net.Listener
	done chan error
	ret  *string
}

func sortedKeys(m map[string]bool) string {
	var ks []string
	for k, v := range m {
		if v {
			ks = append(ks, k)
		}
	}
	sort.Strings(ks)
	return strings.Join(ks, ",")
}

func runLifecycle(beh []lifeStep, block int, node int) ([]lifeMismatch, error) {
	t := tracer.New()
	c := fakecql.New(t)
	c.AddKeyspace("ks")
	ip := fakecql.IP(block, node)
	if err := c.Start(ip); err != nil {
		return nil, err
	}
	defer c.Shutdown()
	ctx, cancel := context.WithCancel(context.Background())
	defer cancel()
	p := proxy.NewProxy(ctx, proxy.Config{
		Version:           primitive.ProtocolVersion4,
		MaxVersion:        primitive.ProtocolVersion4,
		Resolver:          proxycore.NewResolverWithDefaultPort([]string{ip}, c.Port),
		ReconnectPolicy:   proxycore.NewReconnectPolicyWithDelays(20*time.Millisecond, 100*time.Millisecond),
		NumConns:          1,
		HeartBeatInterval: 30 * time.Second,
		ConnectTimeout:    2 * time.Second,
		IdleTimeout:       60 * time.Second,
	})
	defer p.Close()
	listeners := map[string]*lifeListener{}
	clients := map[string]*cqlclient.Client{}
	defer func() {
		for _, l := range listeners {
			l.ln.Close()
		}
		for _, cl := range clients {
			cl.Close()
		}
	}()
	var seq int16
	tok := 0
	alive := func(cl *cqlclient.Client) bool {
		seq++
		tok++
		tk := fmt.Sprintf("tokl%d;", tok)
		r, err := cl.Roundtrip(newQueryFrame(cl.Version, seq, fmt.Sprintf("SELECT * FROM ks.t WHERE k = '%s'", tk)), tk, "life", 700*time.Millisecond)
		return err == nil && r.Kind == "ok"
	}
	var mm []lifeMismatch
	add := func(i int, what, want, got string) {
		mm = append(mm, lifeMismatch{Behaviour: beh, Step: i, What: what, Want: want, Got: got})
	}
	errName := func(err error) string {
		switch {
		case err == nil:
			return "ok"
		case errors.Is(err, proxy.ErrProxyClosed):
			return "closed"
		case errors.Is(err, proxy.ErrProxyNotConnected):
			return "not_connected"
		case errors.Is(err, proxy.ErrProxyAlreadyConnected):
			return "already_connected"
		}
		return "error: " + err.Error()
	}
	nextID := 0
	for i, st := range beh {
		got := ""
		switch st.A {
		case "connect":
			got = errName(p.Connect())
		case "close":
			got = errName(p.Close())
		case "serve":
			var l string
			_ = json.Unmarshal(st.Arg, &l)
			ln, err := net.Listen("tcp", "127.0.0.1:0")
			if err != nil {
				return nil, err
			}
			ll := &lifeListener{ln: ln, done: make(chan error, 1)}
			listeners[l] = ll
			go func() { ll.done <- p.Serve(ln) }()
			select {
			case err := <-ll.done:
				s := errName(err)
				ll.ret = &s
				got = s
			case <-time.After(150 * time.Millisecond):
				got = "serving"
			}
		case "dial":
			var arg []string
			_ = json.Unmarshal(st.Arg, &arg)
			ll := listeners[arg[1]]
			nextID++
			cl, err := cqlclient.Dial(ll.ln.Addr().String(), nextID, t)
			if err == nil {
				err = cl.Startup(primitive.ProtocolVersion4, "")
			}
			if err == nil {
				clients[arg[0]] = cl
				if alive(cl) {
					got = "served"
				} else {
					got = "not served"
				}
			} else {
				got = "refused: " + err.Error()
			}
		}
		if got != st.Res {
			add(i, "result of "+st.A, st.Res, got)
		}
		// state after the step
		time.Sleep(60 * time.Millisecond)
		serving, returned := map[string]bool{}, map[string]bool{}
		for name, ll := range listeners {
			if ll.ret == nil {
				select {
				case err := <-ll.done:
					s := errName(err)
					ll.ret = &s
				default:
				}
			}
			if ll.ret == nil {
				serving[name] = true
			} else {
				returned[name] = true
			}
		}
		al := map[string]bool{}
		for name, cl := range clients {
			if alive(cl) {
				al[name] = true
			}
		}
		want := func(xs []string) string {
			ys := append([]string(nil), xs...)
			sort.Strings(ys)
			return strings.Join(ys, ",")
		}
		if g, w := sortedKeys(serving), want(st.Serving); g != w {
			add(i, "Serve calls still running after "+st.A, w, g)
		}
		if g, w := sortedKeys(returned), want(st.Returned); g != w {
			add(i, "Serve calls that returned after "+st.A, w, g)
		}
		if g, w := sortedKeys(al), want(st.Alive); g != w {
			add(i, "clients still served after "+st.A, w, g)
		}
		if len(mm) > 0 {
			break // later steps of this behaviour start from a state the specification does not have
		}
	}
	return mm, nil
}

func init() {
	register("lifecycle", func(args []string) error {
		fs := flag.NewFlagSet("lifecycle", flag.ExitOnError)
		in := fs.String("in", "", "behaviours (JSON lines)")
		out := fs.String("out", "-", "result")
		workers := fs.Int("workers", 8, "behaviours replayed at a time")
		_ = fs.Parse(args)
		f, err := os.Open(*in)
		if err != nil {
			return err
		}
		defer f.Close()
		var behs [][]lifeStep
		sc := bufio.NewScanner(f)
		sc.Buffer(make([]byte, 1<<20), 1<<24)
		for sc.Scan() {
			line := strings.TrimSpace(sc.Text())
			if line == "" {
				continue
			}
			var b []lifeStep
			if err := json.Unmarshal([]byte(line), &b); err != nil {
				return fmt.Errorf("behaviour: %v: %s", err, line)
			}
			behs = append(behs, b)
		}
		proxycore.SetVerifHook(nil)
		res := lifeResult{}
		var mu sync.Mutex
		var wg sync.WaitGroup
		ch := make(chan []lifeStep)
		var firstErr error
		for w := 0; w < *workers; w++ {
			wg.Add(1)
			go func(w int) {
				defer wg.Done()
				for b := range ch {
					mm, err := runLifecycle(b, env.Block(), 30+w)
					mu.Lock()
					if err != nil && firstErr == nil {
						firstErr = err
					}
					res.Behaviours++
					res.Steps += len(b)
					res.Mismatches = append(res.Mismatches, mm...)
					mu.Unlock()
				}
			}(w)
		}
		for _, b := range behs {
			ch <- b
		}
		close(ch)
		wg.Wait()
		if firstErr != nil {
			return firstErr
		}
		return writeJSON(*out, res)
	})
}
