// vdrv is the Go side of the cql-proxy verification harness: it replays tables and
// behaviours produced by TLC into the real code and records traces of the real code for
// validation against the TLA+ trace specifications. It is built with `-tags verif` against
// /repo's working tree by /verif/vcheck on every run.
package main

import (
	"bufio"
	"encoding/json"
	"fmt"
	"math/rand"
	"os"
	"sort"
	"strconv"
)

type command func(args []string) error

var commands = map[string]command{}

func register(name string, c command) { commands[name] = c }

func main() {
	if len(os.Args) < 2 {
		names := make([]string, 0, len(commands))
		for n := range commands {
			names = append(names, n)
		}
		sort.Strings(names)
		fmt.Fprintln(os.Stderr, "usage: vdrv <command> [args]; commands:", names)
		os.Exit(2)
	}
	c, ok := commands[os.Args[1]]
	if !ok {
		fmt.Fprintln(os.Stderr, "unknown command", os.Args[1])
		os.Exit(2)
	}
	if err := c(os.Args[2:]); err != nil {
		fmt.Fprintln(os.Stderr, "vdrv:", err)
		os.Exit(3)
	}
}

func seed() int64 {
	if s, err := strconv.ParseInt(os.Getenv("VERIF_SEED"), 10, 64); err == nil {
		return s
	}
	return 1
}

func newRand(salt int64) *rand.Rand { return rand.New(rand.NewSource(seed()*1000003 + salt)) }

func thorough() bool { return os.Getenv("VERIF_TIER") == "thorough" }

// readLines reads a file of JSON documents, one per line.
func readJSONLines(path string, each func(line []byte) error) error {
	f, err := os.Open(path)
	if err != nil {
		return err
	}
	defer f.Close()
	sc := bufio.NewScanner(f)
	sc.Buffer(make([]byte, 1<<20), 1<<28)
	for sc.Scan() {
		b := sc.Bytes()
		if len(b) == 0 {
			continue
		}
		if err := each(b); err != nil {
			return err
		}
	}
	return sc.Err()
}

func writeJSON(path string, v interface{}) error {
	b, err := json.MarshalIndent(v, "", " ")
	if err != nil {
		return err
	}
	if path == "" || path == "-" {
		_, err = os.Stdout.Write(append(b, '\n'))
		return err
	}
	return os.WriteFile(path, b, 0o644)
}
