package main

import (
	"encoding/json"
	"flag"
	"fmt"
	"io"
	"net"
	"net/http"
	"time"

	"verif/env"
	"verif/fakecql"
	"verif/tracer"
)

// readiness replays the behaviours of Readiness.tla (lose / tick / regain of the control connection) against the real
// binary started with --health-check and polls /readiness and /liveness half a tick after every step.

type rdyStep struct {
	A         string `json:"a"`
	Ctrl      string `json:"ctrl"`
	Since     int    `json:"since"`
	Readiness int    `json:"readiness"`
	Liveness  int    `json:"liveness"`
}

type rdyMismatch struct {
	Behaviour []rdyStep `json:"behaviour"`
	Step      int       `json:"step"`
	What      string    `json:"what"`
	Got       string    `json:"got"`
}

type rdyResult struct {
	Behaviours int           `json:"behaviours"`
	Samples    int           `json:"samples"`
	Mismatches []rdyMismatch `json:"mismatches"`
}

func httpGet(url string) (int, string, error) {
	cl := &http.Client{Timeout: 2 * time.Second}
	resp, err := cl.Get(url)
	if err != nil {
		return 0, "", err
	}
	defer resp.Body.Close()
	b, _ := io.ReadAll(resp.Body)
	return resp.StatusCode, string(b), nil
}

func init() {
	register("readiness", func(args []string) error {
		fs := flag.NewFlagSet("readiness", flag.ExitOnError)
		bin := fs.String("bin", "", "proxy binary")
		in := fs.String("in", "", "behaviours (JSON lines)")
		out := fs.String("out", "-", "result")
		tickMs := fs.Int("tick", 1000, "milliseconds per tick of the specification")
		timeoutTicks := fs.Int("timeout", 2, "readiness timeout in ticks")
		_ = fs.Parse(args)
		t := tracer.New()
		t.Stop()
		c := fakecql.New(t)
		c.AddKeyspace("ks")
		ips := []string{fakecql.IP(env.Block(), 1), fakecql.IP(env.Block(), 2)}
		if err := c.Start(ips...); err != nil {
			return err
		}
		defer c.Shutdown()
		l, err := net.Listen("tcp", "127.0.0.1:0")
		if err != nil {
			return err
		}
		httpAddr := l.Addr().String()
		l.Close()
		tick := time.Duration(*tickMs) * time.Millisecond
		p, err := startProxy(*bin, c, ips[0], "v4", "--health-check", "--http-bind", httpAddr,
			"--readiness-timeout", (time.Duration(*timeoutTicks) * tick).String())
		if err != nil {
			return err
		}
		defer func() { p.stop() }()
		res := &rdyResult{}
		waitUp := func() bool {
			deadline := time.Now().Add(20 * time.Second)
			for time.Now().Before(deadline) {
				if c.ControlConn() != nil {
					if code, body, err := httpGet("http://" + httpAddr + "/readiness"); err == nil && code == 200 && body == `{"OutageDuration":"0s"}` {
						return true
					}
				}
				time.Sleep(50 * time.Millisecond)
			}
			return false
		}
		err = readJSONLines(*in, func(line []byte) error {
			var beh []rdyStep
			if err := json.Unmarshal(line, &beh); err != nil {
				return err
			}
			res.Behaviours++
			for _, ip := range ips {
				_ = c.AddNode(ip)
			}
			if !waitUp() {
				return fmt.Errorf("proxy did not return to a connected state: %s", p.tail())
			}
			var lost time.Time
			for i, st := range beh {
				switch st.A {
				case "lose":
					for _, ip := range ips {
						c.StopNode(ip)
					}
					lost = time.Now()
				case "regain":
					for _, ip := range ips {
						_ = c.AddNode(ip)
					}
					if !waitUp() {
						res.Mismatches = append(res.Mismatches, rdyMismatch{Behaviour: beh, Step: i, What: "control connection not re-established / outage not cleared within 20 s after the nodes returned"})
						return nil
					}
				}
				if st.Ctrl == "down" {
					// the specification's outage age `since` means [since, since+1) ticks: sample in the middle
					time.Sleep(time.Until(lost.Add(time.Duration(st.Since)*tick + tick/2)))
				}
				code, body, err := httpGet("http://" + httpAddr + "/readiness")
				lcode, _, lerr := httpGet("http://" + httpAddr + "/liveness")
				res.Samples++
				if err != nil || lerr != nil {
					return fmt.Errorf("health endpoints unreachable: %v %v (%s)", err, lerr, p.tail())
				}
				zero := body == `{"OutageDuration":"0s"}`
				switch {
				case code != st.Readiness:
					res.Mismatches = append(res.Mismatches, rdyMismatch{Behaviour: beh, Step: i, What: fmt.Sprintf("readiness answers %d, specification %d", code, st.Readiness), Got: body})
				case lcode != st.Liveness:
					res.Mismatches = append(res.Mismatches, rdyMismatch{Behaviour: beh, Step: i, What: fmt.Sprintf("liveness answers %d, specification %d", lcode, st.Liveness)})
				case st.Ctrl == "down" && zero:
					res.Mismatches = append(res.Mismatches, rdyMismatch{Behaviour: beh, Step: i, What: "zero outage reported while there is no control connection", Got: body})
				case st.Ctrl == "up" && !zero:
					res.Mismatches = append(res.Mismatches, rdyMismatch{Behaviour: beh, Step: i, What: "non-zero outage reported while a control connection exists", Got: body})
				}
			}
			return nil
		})
		if err != nil {
			return err
		}
		return writeJSON(*out, res)
	})
}
