package main

import (
	"flag"
	"fmt"
	"sync"
	"sync/atomic"
	"time"

	"github.com/datastax/cql-proxy/proxycore"
	"github.com/datastax/go-cassandra-native-protocol/frame"
	"github.com/datastax/go-cassandra-native-protocol/message"
	"github.com/datastax/go-cassandra-native-protocol/primitive"

	"verif/env"
	"verif/tracer"
)

// reexec: the host becomes unusable between the answer to a re-PREPARE and the re-execution of the request that caused
// it (RequestObs: after a successful re-prepare the request is re-executed on that host; when that host cannot take
// it, it moves on like any other failed send - it never hangs).  The moment is reached through the proxy's own
// PreparedCache interface (Config.PreparedCache): the proxy stores the re-prepared statement there exactly between the
// two steps, on the read goroutine of the connection that re-prepared.  While that call is held, the node is stopped and
// side traffic makes the proxy notice (its write to the node fails, the pool gives the connection up).

type gateCache struct {
	mu      sync.Mutex
	m       map[string]*proxycore.PreparedEntry
	armed   int32
	onStore func()
}

func (g *gateCache) Store(id string, e *proxycore.PreparedEntry) {
	g.mu.Lock()
	g.m[id] = e
	g.mu.Unlock()
	if atomic.CompareAndSwapInt32(&g.armed, 1, 0) && g.onStore != nil {
		g.onStore()
	}
}

func (g *gateCache) Load(id string) (*proxycore.PreparedEntry, bool) {
	g.mu.Lock()
	defer g.mu.Unlock()
	e, ok := g.m[id]
	return e, ok
}

type reexecResult struct {
	Rounds       int      `json:"rounds"`
	Forced       int      `json:"rounds_in_which_the_moment_was_reached"`
	Answered     int      `json:"answered"`
	Hung         []string `json:"hung,omitempty"`
	AnswerKinds  []string `json:"answer_kinds"`
	MaxAnswerMs  int64    `json:"max_answer_ms"`
	Observations []string `json:"observations,omitempty"`
}

func init() {
	register("reexec", func(args []string) error {
		fs := flag.NewFlagSet("reexec", flag.ExitOnError)
		out := fs.String("out", "-", "result")
		rounds := fs.Int("rounds", 4, "rounds")
		_ = fs.Parse(args)
		res := reexecResult{}
		for r := 0; r < *rounds; r++ {
			if err := reexecRound(r, &res); err != nil {
				return err
			}
		}
		return writeJSON(*out, res)
	})
}

func reexecRound(r int, res *reexecResult) error {
	t := tracer.New()
	gc := &gateCache{m: map[string]*proxycore.PreparedEntry{}}
	idem := r%2 == 0
	e, err := env.Start(env.Options{Nodes: 3, NumConns: 1, Hooks: false, Tracer: t, Keyspaces: []string{"ks"}, PreparedCache: gc,
		ReconnectBase: 2 * time.Second, ReconnectMax: 4 * time.Second, HeartBeat: 30 * time.Second, Idle: 60 * time.Second, ConnectTimeout: time.Second})
	if err != nil {
		return err
	}
	defer e.Close()
	res.Rounds++
	cl, err := e.StartedClient(primitive.ProtocolVersion4, "")
	if err != nil {
		return err
	}
	defer cl.Close()
	side, err := e.StartedClient(primitive.ProtocolVersion4, "")
	if err != nil {
		return err
	}
	defer side.Close()
	text := "INSERT INTO ks.tbl (k, v) VALUES (?, 1)"
	if !idem {
		text = "INSERT INTO ks.tbl (k, v) VALUES (?, now())"
	}
	pr, err := cl.Roundtrip(frame.NewFrame(primitive.ProtocolVersion4, 1, &message.Prepare{Query: text}), "", "setup", 5*time.Second)
	if err != nil {
		return err
	}
	p, ok := pr.Frame.Body.Message.(*message.PreparedResult)
	if !ok {
		return fmt.Errorf("PREPARE answered with %s", pr.Kind)
	}
	// every node forgets the statement: whichever host the EXECUTE goes to answers UNPREPARED and is re-prepared
	for _, ip := range e.IPs {
		e.C.ForgetPrepared(ip)
	}
	var stopped string
	reached := make(chan struct{})
	gc.onStore = func() {
		// which node is re-preparing: the one that has the statement again
		for _, n := range e.C.Nodes() {
			if n.HasPrepared(p.PreparedQueryId) {
				stopped = n.IP
			}
		}
		if stopped == "" {
			return
		}
		e.C.StopNode(stopped)
		// side traffic: some of it is written to the stopped node, the write fails, the proxy gives the connection up
		for q := 0; q < 12; q++ {
			tok := fmt.Sprintf("tokside%dx%d;", r, q)
			_, _ = side.Roundtrip(newQueryFrame(primitive.ProtocolVersion4, int16(50+q), fmt.Sprintf("SELECT * FROM ks.t WHERE k = '%s'", tok)), tok, "side", 2*time.Second)
			time.Sleep(25 * time.Millisecond)
		}
		time.Sleep(200 * time.Millisecond)
		close(reached)
	}
	atomic.StoreInt32(&gc.armed, 1)
	tok := fmt.Sprintf("tokrx%d;", r)
	t0 := time.Now()
	ans, err := cl.Roundtrip(frame.NewFrame(primitive.ProtocolVersion4, 2, &message.Execute{QueryId: p.PreparedQueryId, ResultMetadataId: p.ResultMetadataId,
		Options: &message.QueryOptions{Consistency: primitive.ConsistencyLevelOne, PositionalValues: []*primitive.Value{primitive.NewValue([]byte(tok))}}}), tok, "reexec", 8*time.Second)
	ms := time.Since(t0).Milliseconds()
	select {
	case <-reached:
		res.Forced++
	default:
		res.Observations = append(res.Observations, fmt.Sprintf("round %d: the moment between re-prepare and re-execution was not reached", r))
		return nil
	}
	if err != nil || ans == nil {
		res.Hung = append(res.Hung, fmt.Sprintf("round %d (%s statement): EXECUTE not answered within 8 s after its re-prepare on %s succeeded and that node went away", r,
			map[bool]string{true: "idempotent", false: "non-idempotent"}[idem], stopped))
		return nil
	}
	res.Answered++
	res.AnswerKinds = append(res.AnswerKinds, ans.Kind)
	if ms > res.MaxAnswerMs {
		res.MaxAnswerMs = ms
	}
	return nil
}
