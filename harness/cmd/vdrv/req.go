package main

import (
	"bytes"
	"encoding/json"
	"flag"
	"fmt"
	"math/rand"
	"os"
	"runtime"
	"strings"
	"sync"
	"sync/atomic"
	"time"

	"verif/cqlclient"
	"verif/env"
	"verif/fakecql"
	"verif/tracer"

	"github.com/datastax/go-cassandra-native-protocol/frame"
	"github.com/datastax/go-cassandra-native-protocol/message"
	"github.com/datastax/go-cassandra-native-protocol/primitive"
)

// req drives request-lifecycle scenarios (outcome scripts produced by TLC from RequestObsMC, plus
// seeded random workloads with connection drops) through the real proxy and records the trace
// that TraceRequestObs.tla validates.

type reqScenario struct {
	ID       string   `json:"id"`
	Idem     bool     `json:"idem"`
	Outcomes []string `json:"outcomes"`       // per attempt; beyond the list: ok
	Kind     string   `json:"kind,omitempty"` // query | execute | batch | graph | prepare (default: chosen from the seed)
}

var idemStmts = []string{
	"SELECT * FROM ks.tbl WHERE k = '%s'",
	"INSERT INTO ks.tbl (k, v) VALUES ('%s', 1)",
	"UPDATE ks.tbl SET v = 2 WHERE k = '%s'",
	"DELETE FROM ks.tbl WHERE k = '%s'",
	"UPDATE ks.tbl SET s = s + {1} WHERE k = '%s'",
	"update ks.tbl\n set v = 3\n where k = '%s';",
	"BEGIN BATCH INSERT INTO ks.tbl (k, v) VALUES ('%s', 1); UPDATE ks.tbl SET v = 1 WHERE k = 'x' APPLY BATCH",
}

var nonIdemStmts = []string{
	"INSERT INTO ks.tbl (k, v) VALUES ('%s', now())",
	"UPDATE ks.tbl SET c = c + 1 WHERE k = '%s'",
	"UPDATE ks.tbl SET l = l + [1] WHERE k = '%s'",
	"INSERT INTO ks.tbl (k, v) VALUES ('%s', 1) IF NOT EXISTS",
	"DELETE l[0] FROM ks.tbl WHERE k = '%s'",
	"THIS IS NOT CQL '%s'",
	"BEGIN COUNTER BATCH UPDATE ks.c SET c = c + 1 WHERE k = '%s' APPLY BATCH",
	"INSERT INTO ks.tbl (k, v) VALUES ('%s', uuid())",
	"UPDATE ks.tbl SET v = 1 WHERE k = '%s' IF EXISTS",
	"BEGIN BATCH INSERT INTO ks.tbl (k, v) VALUES ('%s', 1); INSERT INTO ks.tbl (k, v) VALUES ('y', now()) APPLY BATCH",
	// other spellings of the same things (function names are case-insensitive, may be qualified, may sit inside
	// collections, tuples and nested calls; keywords in any case)
	"INSERT INTO ks.tbl (k, v) VALUES ('%s', NOW())",
	"INSERT INTO ks.tbl (k, v) VALUES ('%s', Uuid())",
	"INSERT INTO ks.tbl (k, v) VALUES ('%s', system.UUID())",
	"INSERT INTO ks.tbl (k, s) VALUES ('%s', {system.now()})",
	"INSERT INTO ks.tbl (k, t) VALUES ('%s', (1, now()))",
	"INSERT INTO ks.tbl (k, v) VALUES ('%s', toTimestamp(Now()))",
	"update ks.tbl set C = C + 1 where k = '%s'",
	"BEGIN BATCH INSERT INTO ks.tbl (k, v) VALUES ('y', UUID()); INSERT INTO ks.tbl (k, v) VALUES ('%s', 1) APPLY BATCH",
	// ... with comments around what makes them non-idempotent (comments are white space; block comments do not nest)
	"UPDATE ks.tbl SET v = 1 WHERE k = '%s' /* pk */ IF v = 0 /* only when unset */",
	"INSERT INTO ks.tbl (k, v) /* cols */ VALUES ('%s', now()) /* vals */ -- done",
	"BEGIN BATCH INSERT INTO ks.tbl (k, v) VALUES ('%s', 1); /* first */ INSERT INTO ks.tbl (k, v) VALUES ('y', now()); /* second */ APPLY BATCH",
	"UPDATE ks.tbl SET c = c + 1 -- counter\n WHERE k = '%s' // end",
}

const prepIdem = "INSERT INTO ks.tbl (k, v) VALUES (?, 1)"
const prepNonIdem = "INSERT INTO ks.tbl (k, v) VALUES (?, now())"

// valid CQL that the proxy's own parser cannot classify (a dollar-quoted string constant): prepared through the proxy and in
// its prepared cache like any other statement, but not positively idempotent
const prepOdd = "INSERT INTO ks.tbl (k, v) VALUES (?, $$it's$$)"
const prepSelect = "SELECT v FROM ks.tbl WHERE k = ?"
const prepUnknown = "INSERT INTO ks.other (k, v) VALUES (?, 2)" // prepared on the backend only: the proxy never saw its PREPARE

type reqRun struct {
	e          *env.Env
	scripts    sync.Map          // token -> *reqScenario
	prepFail   sync.Map          // node ip -> outcome of the next re-PREPARE on that node
	ids        map[string][]byte // prepared ids by statement
	tokSeq     int64
	rnd        *rand.Rand
	rmu        sync.Mutex
	unanswered int32
	sent       int32
	maxDelay   int
	holdMs     int
	noDrops    bool
	idemGraph  bool
	variant    int64
}

func (rr *reqRun) script(a *fakecql.Attempt) fakecql.Outcome {
	v, ok := rr.scripts.Load(a.Token)
	if !ok {
		return fakecql.Outcome{Kind: fakecql.OK}
	}
	sc := v.(*reqScenario)
	if a.Frame.Header.OpCode == primitive.OpCodePrepare {
		return fakecql.Outcome{Kind: fakecql.OK}
	}
	k := fakecql.OK
	if a.N-1 < len(sc.Outcomes) {
		k = sc.Outcomes[a.N-1]
	}
	switch k {
	case "idle_close":
		// the node falls silent (this request and every heartbeat stay unanswered): the proxy itself gives the
		// connection up when the idle timeout passes
		ip := a.Node.IP
		cn := a.Conn
		go func() {
			rr.e.C.Mute(ip, true)
			// silent until the proxy has given this connection up (a loaded machine may take much longer than the idle
			// timeout to notice), at most 6 s
			deadline := time.Now().Add(6 * time.Second)
			for time.Now().Before(deadline) && !cn.Closed() {
				time.Sleep(20 * time.Millisecond)
			}
			time.Sleep(100 * time.Millisecond)
			rr.e.C.Mute(ip, false)
		}()
		return fakecql.Outcome{Kind: fakecql.Silent}
	case "silent_drop":
		cn := a.Conn
		go func() { time.Sleep(30 * time.Millisecond); cn.Close("script-delayed") }()
		return fakecql.Outcome{Kind: fakecql.Silent}
	case "unprepared":
		// the node forgets its statements and answers UNPREPARED for the id of this EXECUTE; the
		// re-PREPARE that follows succeeds, fails or loses its connection (seeded choice)
		if ex, ok := a.Frame.Body.Message.(*message.Execute); ok {
			rr.e.C.ForgetPrepared(a.Node.IP)
			switch v := rr.intn(10); {
			case v < 2:
				// the node answers the re-PREPARE with an error: whatever the error, the request moves on to the next host
				rr.prepFail.Store(a.Node.IP, []string{"srverr", "invalid", "overloaded", "syntax", "unavail", "funcfail"}[rr.intn(6)])
			case v < 3 && !rr.noDrops:
				rr.prepFail.Store(a.Node.IP, "drop")
			}
			return fakecql.Outcome{Kind: fakecql.Unprepared, Msg: &message.Unprepared{ErrorMessage: "unprepared " + a.Token, Id: ex.QueryId}}
		}
		return fakecql.Outcome{Kind: fakecql.ServerErr}
	}
	out := fakecql.Outcome{Kind: k}
	// an outcome class of RequestObs stands for every concrete error of that class: rotate through its members
	vn := int(atomic.AddInt64(&rr.variant, 1))
	switch k {
	case fakecql.WTOther:
		wts := []primitive.WriteType{primitive.WriteTypeSimple, primitive.WriteTypeBatch, primitive.WriteTypeUnloggedBatch, primitive.WriteTypeCounter,
			primitive.WriteTypeCas, primitive.WriteTypeView, primitive.WriteTypeCdc}
		out.WriteType = wts[vn%len(wts)]
	case fakecql.WriteFail:
		// every third write failure is that of a conditional write: write type CAS, which the protocol library of the
		// proxy does not know (the frame cannot be decoded there); it is a write failure all the same
		if vn%3 == 0 {
			var b bytes.Buffer
			_ = primitive.WriteInt(0x1500, &b)
			_ = primitive.WriteString("wfail "+a.Token, &b)
			_ = primitive.WriteShort(uint16(primitive.ConsistencyLevelQuorum), &b)
			_ = primitive.WriteInt(1, &b)
			_ = primitive.WriteInt(2, &b)
			if a.Frame.Header.Version >= primitive.ProtocolVersion5 {
				_ = primitive.WriteInt(0, &b) // reason map
			} else {
				_ = primitive.WriteInt(1, &b) // number of failures
			}
			_ = primitive.WriteString("CAS", &b)
			out.RawErrorBody = b.Bytes()
		}
	case fakecql.FuncFail:
		// ... and every third error of the classes nobody retries carries a code the library has never heard of
		if vn%3 == 0 {
			var b bytes.Buffer
			_ = primitive.WriteInt(0x1600, &b)
			_ = primitive.WriteString("funcfail "+a.Token, &b)
			out.RawErrorBody = b.Bytes()
		}
	case fakecql.RTSame:
		rb := [][2]int32{{2, 2}, {3, 2}, {1, 1}}[vn%3]
		out.Received, out.BlockFor = rb[0], rb[1]
	case fakecql.RTOther:
		// not enough replicas answered (with or without data), or enough answered and the data was present
		rbd := []struct {
			r, b int32
			d    bool
		}{{1, 2, false}, {1, 2, true}, {2, 2, true}, {0, 1, false}, {3, 2, true}}[vn%5]
		out.Received, out.BlockFor, out.DataPresent = rbd.r, rbd.b, rbd.d
	}
	// every fourth error frame carries a warning (header flag WARNING, protocol v4 and later): how an error is dressed
	// says nothing about what it means
	if k != fakecql.OK && vn%4 == 1 && out.RawErrorBody == nil && a.Frame.Header.Version >= primitive.ProtocolVersion4 {
		out.Warnings = []string{"verif: a warning that accompanies the error"}
	}
	if rr.maxDelay > 0 {
		out.Delay = time.Duration(rr.intn(rr.maxDelay*1000)) * time.Microsecond
	}
	if rr.holdMs > 0 {
		out.Delay += time.Duration(rr.holdMs) * time.Millisecond
	}
	return out
}

func (rr *reqRun) newToken() string {
	return fmt.Sprintf("tok%dx%d;", seed()%100000, atomic.AddInt64(&rr.tokSeq, 1))
}

func (rr *reqRun) intn(n int) int {
	rr.rmu.Lock()
	defer rr.rmu.Unlock()
	return rr.rnd.Intn(n)
}

// buildFrame builds the request frame of a scenario; class describes what the proxy can know.
func (rr *reqRun) buildFrame(sc *reqScenario, tok string, stream int16, version primitive.ProtocolVersion) (*frame.Frame, string, bool) {
	kind := sc.Kind
	for _, o := range sc.Outcomes {
		if o == "unprepared" {
			kind = "execute"
		}
	}
	if kind == "" {
		kind = []string{"query", "query", "query", "execute", "batch", "graph"}[rr.intn(6)]
	}
	cl := primitive.ConsistencyLevelLocalQuorum
	switch kind {
	case "execute":
		stmt := prepIdem
		if !sc.Idem {
			stmt = prepNonIdem
			switch rr.intn(4) {
			case 1:
				stmt = prepOdd
			case 0:
				// an id the proxy has never seen prepared is not positively idempotent (and not in its cache)
				return frame.NewFrame(version, stream, &message.Execute{QueryId: rr.ids[prepUnknown], ResultMetadataId: rr.ids[prepUnknown],
					Options: &message.QueryOptions{Consistency: cl, PositionalValues: []*primitive.Value{primitive.NewValue([]byte(tok))}}}), "EXECUTE", false
			}
		}
		return frame.NewFrame(version, stream, &message.Execute{QueryId: rr.ids[stmt], ResultMetadataId: rr.ids[stmt],
			Options: &message.QueryOptions{Consistency: cl, PositionalValues: []*primitive.Value{primitive.NewValue([]byte(tok))}}}), "EXECUTE", true
	case "batch":
		var children []*message.BatchChild
		if sc.Idem {
			children = []*message.BatchChild{
				{Query: fmt.Sprintf(idemStmts[1], tok)},
				{Id: rr.ids[prepIdem], Values: []*primitive.Value{primitive.NewValue([]byte("v"))}},
			}
		} else {
			switch rr.intn(7) {
			case 0: // non-idempotent prepared child last
				children = []*message.BatchChild{
					{Query: fmt.Sprintf(idemStmts[1], tok)},
					{Id: rr.ids[prepNonIdem], Values: []*primitive.Value{primitive.NewValue([]byte("v"))}},
				}
			case 1: // non-idempotent string child last
				children = []*message.BatchChild{
					{Id: rr.ids[prepIdem], Values: []*primitive.Value{primitive.NewValue([]byte(tok))}},
					{Query: "UPDATE ks.tbl SET c = c + 1 WHERE k = 'z'"},
				}
			case 2: // non-idempotent prepared child first, idempotent children after it
				children = []*message.BatchChild{
					{Id: rr.ids[prepNonIdem], Values: []*primitive.Value{primitive.NewValue([]byte(tok))}},
					{Id: rr.ids[prepIdem], Values: []*primitive.Value{primitive.NewValue([]byte("v"))}},
					{Query: "INSERT INTO ks.tbl (k, v) VALUES ('w', 1)"},
				}
			case 3: // non-idempotent prepared child in the middle
				children = []*message.BatchChild{
					{Query: fmt.Sprintf(idemStmts[1], tok)},
					{Id: rr.ids[prepNonIdem], Values: []*primitive.Value{primitive.NewValue([]byte("v"))}},
					{Id: rr.ids[prepIdem], Values: []*primitive.Value{primitive.NewValue([]byte("v"))}},
				}
			case 4: // non-idempotent string child first
				children = []*message.BatchChild{
					{Query: fmt.Sprintf(nonIdemStmts[0], tok)},
					{Id: rr.ids[prepIdem], Values: []*primitive.Value{primitive.NewValue([]byte("v"))}},
				}
			case 5: // non-idempotent string child in the middle
				children = []*message.BatchChild{
					{Query: "INSERT INTO ks.tbl (k, v) VALUES ('w', 1)"},
					{Query: fmt.Sprintf(nonIdemStmts[3], tok)},
					{Query: "INSERT INTO ks.tbl (k, v) VALUES ('x', 2)"},
				}
			default:
				children = []*message.BatchChild{
					{Query: fmt.Sprintf(nonIdemStmts[0], tok)},
				}
			}
		}
		return frame.NewFrame(version, stream, &message.Batch{Type: primitive.BatchTypeLogged, Children: children, Consistency: cl}), "BATCH", true
	case "graph":
		if rr.idemGraph {
			// with --idempotent-graph a graph request is idempotent; everything else keeps its own verdict, also on a
			// connection that has carried graph requests
			if sc.Idem {
				frm := frame.NewFrame(version, stream, &message.Query{Query: fmt.Sprintf("g.V().has('k','%s')", tok),
					Options: &message.QueryOptions{Consistency: cl}})
				frm.SetCustomPayload(map[string][]byte{"graph-source": []byte("g")})
				return frm, "QUERY", false
			}
			return frame.NewFrame(version, stream, &message.Query{Query: fmt.Sprintf(nonIdemStmts[rr.intn(len(nonIdemStmts))], tok),
				Options: &message.QueryOptions{Consistency: cl}}), "QUERY", false
		}
		// graph requests are not idempotent unless --idempotent-graph is configured
		if sc.Idem {
			return frame.NewFrame(version, stream, &message.Query{Query: fmt.Sprintf(idemStmts[rr.intn(len(idemStmts))], tok),
				Options: &message.QueryOptions{Consistency: cl}}), "QUERY", false
		}
		// whatever carries the graph payload is a graph request: a traversal, a statement that would be idempotent as
		// plain CQL, or an EXECUTE of a prepared statement whose text the proxy knows to be idempotent
		switch rr.intn(3) {
		case 0:
			frm := frame.NewFrame(version, stream, &message.Execute{QueryId: rr.ids[prepIdem], ResultMetadataId: rr.ids[prepIdem],
				Options: &message.QueryOptions{Consistency: cl, PositionalValues: []*primitive.Value{primitive.NewValue([]byte(tok))}}})
			frm.SetCustomPayload(map[string][]byte{"graph-source": []byte("g")})
			return frm, "EXECUTE", true
		case 1:
			frm := frame.NewFrame(version, stream, &message.Query{Query: fmt.Sprintf(idemStmts[rr.intn(len(idemStmts))], tok),
				Options: &message.QueryOptions{Consistency: cl}})
			frm.SetCustomPayload(map[string][]byte{"graph-source": []byte("g")})
			return frm, "QUERY", false
		}
		frm := frame.NewFrame(version, stream, &message.Query{Query: fmt.Sprintf("g.V().has('k','%s')", tok),
			Options: &message.QueryOptions{Consistency: cl}})
		frm.SetCustomPayload(map[string][]byte{"graph-source": []byte("g")})
		return frm, "QUERY", false
	default:
		var q string
		if sc.Idem {
			q = fmt.Sprintf(idemStmts[rr.intn(len(idemStmts))], tok)
		} else {
			q = fmt.Sprintf(nonIdemStmts[rr.intn(len(nonIdemStmts))], tok)
		}
		return frame.NewFrame(version, stream, &message.Query{Query: q, Options: &message.QueryOptions{Consistency: cl}}), "QUERY", false
	}
}

func classString(idem, cached bool) string {
	s := "nonidem"
	if idem {
		s = "idem"
	}
	if cached {
		s += "+cached"
	}
	return s
}

func (rr *reqRun) prepareAll(c *cqlclient.Client) error {
	rr.ids = map[string][]byte{}
	for i, stmt := range []string{prepIdem, prepNonIdem, prepSelect, prepOdd} {
		r, err := c.Roundtrip(frame.NewFrame(c.Version, int16(100+i), &message.Prepare{Query: stmt}), "", "setup-prepare", 10*time.Second)
		if err != nil {
			return err
		}
		pr, ok := r.Frame.Body.Message.(*message.PreparedResult)
		if !ok {
			return fmt.Errorf("PREPARE answered with %s %s", r.Kind, r.ErrMsg)
		}
		rr.ids[stmt] = pr.PreparedQueryId
	}
	rr.ids[prepUnknown] = rr.e.C.PrepareDirect("", prepUnknown)
	return nil
}

type reqStats struct {
	Scenarios  int      `json:"scenarios"`
	Rounds     int      `json:"rounds"`
	Events     int      `json:"events"`
	Unanswered int      `json:"unanswered_at_timeout"`
	MaxSpin    int      `json:"max_exec_iterations"`
	SpinReq    string   `json:"spin_request,omitempty"`
	Notes      []string `json:"notes,omitempty"`
	Goroutines string   `json:"goroutine_dump,omitempty"`
}

// runRound executes the scenarios on a fresh proxy + cluster and appends the trace to `out`.
type roundOpts struct {
	compression     string
	restarts        int
	addNode         bool
	lateAddNode     bool
	evict           int    // nodes forget a prepared statement after this many executions
	bigEvery        int    // every n-th plain answer is about 20 KiB
	burstsForwarded bool   // the bursts consist of forwarded queries only (48..127 per write)
	idemGraph       bool   // the proxy runs with --idempotent-graph
	stallDrops      int    // times a node stops reading for a while and then loses its connections, with bulky requests queued for it
	slowReaders     int    // clients that pipeline thousands of queries and read late
	nonReaders      int    // ... and never read but hang up
	override        bool   // configure a write-consistency override that applies to every write of the workload
	stallMs         int    // hold back the answer to one heartbeat per data connection for this long
	holdMs          int    // hold back every scripted answer for this long (requests pile up on the connection)
	noDrops         bool   // no scripted connection drops at all (also not for re-PREPAREs)
	postCompression string // ... or prepares them again after the workload's setup client did
	preCompression  string // a client with this compression prepares the statements before the workload's own clients do
	churn           int    // short-lived clients that hang up with requests in flight
	localBursts     int    // clients that pipeline bursts of requests the proxy answers itself
	halfPool        int    // so many times a node loses ONE of its pooled connections and is slow to accept its replacement
	idleClose       bool   // short heartbeat interval / idle timeout: connections of a silent node are closed by the proxy
}

func runRound(scs []*reqScenario, nodes, numConns, nclients, workers int, out string, st *reqStats, dropRate float64, salt int64, maxDelay int, ro roundOpts) error {
	t := tracer.New()
	eo := env.Options{Nodes: nodes, NumConns: numConns, Hooks: true, Tracer: t, Keyspaces: []string{"ks"}}
	if ro.override {
		// every request of this driver uses LOCAL_QUORUM: all non-SELECT requests are re-encoded by the proxy
		eo.Unsupported, eo.Override = []string{"LOCAL_QUORUM", "EACH_QUORUM"}, "QUORUM"
	}
	eo.IdempotentGraph = ro.idemGraph
	if ro.idleClose {
		eo.HeartBeat, eo.ConnectTimeout, eo.Idle = 100*time.Millisecond, 250*time.Millisecond, 400*time.Millisecond
	}
	if ro.stallMs > 0 {
		// heartbeats every 150 ms that give up after 300 ms
		eo.HeartBeat, eo.ConnectTimeout, eo.Idle = 150*time.Millisecond, 300*time.Millisecond, 60*time.Second
	}
	e, err := env.Start(eo)
	if err != nil {
		return err
	}
	defer e.Close()
	if ro.addNode {
		// a node joins after the proxy connected: its pools are created by the AddEvent path. The proxy learns
		// about it when the control connection is re-established (queryHosts + mergeHosts).
		ip := fakecql.IP(env.Block(), nodes+1)
		if err := e.C.AddNode(ip); err != nil {
			return err
		}
		e.IPs = append(e.IPs, ip)
		if cc := e.C.ControlConn(); cc != nil {
			cc.Close("force-refresh")
		}
		deadline := time.Now().Add(8 * time.Second)
		for time.Now().Before(deadline) {
			if n := e.C.Node(ip); n != nil && len(n.Conns()) >= numConns {
				break
			}
			time.Sleep(20 * time.Millisecond)
		}
		time.Sleep(150 * time.Millisecond)
		t.Emit("Ready", "hosts", e.HostKeys(), "numconns", numConns)
	}
	rr := &reqRun{e: e, rnd: newRand(salt), maxDelay: maxDelay, holdMs: ro.holdMs, noDrops: ro.noDrops, idemGraph: ro.idemGraph}
	e.C.Script = rr.script
	e.C.PrepareScript = func(a *fakecql.Attempt) fakecql.Outcome {
		if v, ok := rr.prepFail.LoadAndDelete(a.Node.IP); ok {
			return fakecql.Outcome{Kind: v.(string)}
		}
		return fakecql.Outcome{Kind: fakecql.OK}
	}
	setup, err := e.StartedClient(primitive.ProtocolVersion4, ro.compression)
	if err != nil {
		return err
	}
	setup.Quiet = false
	if ro.preCompression != "" {
		// another client, on a session with other connection settings, has prepared the same statements before
		pre, err := e.StartedClient(primitive.ProtocolVersion4, ro.preCompression)
		if err != nil {
			return err
		}
		if err := rr.prepareAll(pre); err != nil {
			return err
		}
		pre.Close()
	}
	if err := rr.prepareAll(setup); err != nil {
		return err
	}
	if ro.postCompression != "" {
		// ... or prepares them again afterwards: the proxy's prepared cache now holds that client's frames
		// ("v3" / "v3+lz4": that client speaks protocol version 3)
		pv, pc := primitive.ProtocolVersion4, ro.postCompression
		if strings.HasPrefix(pc, "v3") {
			pv, pc = primitive.ProtocolVersion3, strings.TrimPrefix(strings.TrimPrefix(pc, "v3"), "+")
		}
		post, err := e.StartedClient(pv, pc)
		if err != nil {
			return err
		}
		if err := rr.prepareAll(post); err != nil {
			return err
		}
		post.Close()
	}
	var clients []*cqlclient.Client
	for i := 0; i < nclients; i++ {
		c, err := e.StartedClient(primitive.ProtocolVersion4, ro.compression)
		if err != nil {
			return err
		}
		clients = append(clients, c)
	}
	if ro.compression != "" {
		// the compressed session is created lazily by the first request: do that during set-up and
		// announce its connections as the initial pool
		if _, err := setup.Roundtrip(frame.NewFrame(primitive.ProtocolVersion4, 99, &message.Query{Query: "SELECT * FROM ks.warmup",
			Options: &message.QueryOptions{Consistency: primitive.ConsistencyLevelOne}}), "", "setup-warmup", 10*time.Second); err != nil {
			return err
		}
		t.Emit("Ready", "hosts", e.HostKeys(), "numconns", numConns)
	}
	if ro.lateAddNode {
		// a node joins when every session (the start-up one and, with -compression, the clients') already exists: the
		// pools of ALL of them on the new node are created by the AddEvent path
		ip := fakecql.IP(env.Block(), nodes+1)
		if err := e.C.AddNode(ip); err != nil {
			return err
		}
		e.IPs = append(e.IPs, ip)
		if cc := e.C.ControlConn(); cc != nil {
			cc.Close("force-refresh")
		}
		want := numConns
		if ro.compression != "" {
			want = 2 * numConns
		}
		deadline := time.Now().Add(8 * time.Second)
		for time.Now().Before(deadline) {
			if n := e.C.Node(ip); n != nil && len(n.Conns()) >= want {
				break
			}
			time.Sleep(20 * time.Millisecond)
		}
		time.Sleep(150 * time.Millisecond)
		t.Emit("Ready", "hosts", e.HostKeys(), "numconns", numConns)
	}
	if ro.evict > 0 {
		atomic.StoreInt64(&e.C.EvictAfter, int64(ro.evict))
	}
	if ro.bigEvery > 0 {
		atomic.StoreInt64(&e.C.BigEvery, int64(ro.bigEvery))
	}
	t.Emit("ScenarioStart")
	if ro.stallMs > 0 {
		// the next heartbeat of every data connection is answered late: the proxy gives up on it, the answer still arrives
		var smu sync.Mutex
		stalled := map[int]bool{}
		e.C.OptionsDelay = func(cn *fakecql.Conn) time.Duration {
			smu.Lock()
			defer smu.Unlock()
			if cn.Registered || stalled[cn.ID] {
				return 0
			}
			stalled[cn.ID] = true
			return time.Duration(ro.stallMs) * time.Millisecond
		}
		time.Sleep(700 * time.Millisecond) // a heartbeat has been sent and has timed out in the proxy
	}
	stopRestarts := make(chan struct{})
	if ro.halfPool > 0 {
		// a pool with one of its slots empty for a while: the host still has a usable connection, requests must keep using it
		go func() {
			rnd := newRand(salt + 5151)
			for i := 0; i < ro.halfPool; i++ {
				select {
				case <-stopRestarts:
					return
				case <-time.After(time.Duration(120+rnd.Intn(120)) * time.Millisecond):
				}
				n := e.C.Node(e.IPs[rnd.Intn(len(e.IPs))])
				var data []*fakecql.Conn
				for _, cn := range n.Conns() {
					if !cn.Registered && !cn.Closed() && cn.Started {
						data = append(data, cn)
					}
				}
				if len(data) < 2 {
					continue
				}
				atomic.StoreInt64((*int64)(&e.C.SlowStart), int64(700*time.Millisecond))
				data[i%len(data)].Close("halfpool")
				select {
				case <-stopRestarts:
				case <-time.After(550 * time.Millisecond):
				}
				atomic.StoreInt64((*int64)(&e.C.SlowStart), 0)
			}
		}()
	}
	if ro.restarts > 0 {
		go func() {
			rnd := newRand(salt + 991)
			for i := 0; i < ro.restarts; i++ {
				select {
				case <-stopRestarts:
					return
				case <-time.After(time.Duration(20+rnd.Intn(60)) * time.Millisecond):
				}
				e.C.RestartNode(e.IPs[rnd.Intn(len(e.IPs))])
			}
		}()
	}
	defer close(stopRestarts)
	var wg sync.WaitGroup
	work := make(chan *reqScenario)
	// every worker owns one (client, stream) pair: equal stream ids are used on different clients deliberately
	type slot struct {
		c      *cqlclient.Client
		stream int16
	}
	var slotList []slot
	for s := 0; s < workers; s++ {
		for _, c := range clients {
			slotList = append(slotList, slot{c, int16(1 + s)})
		}
	}
	stopDrops := make(chan struct{})
	if dropRate > 0 {
		go func() {
			rnd := newRand(salt + 77)
			for {
				select {
				case <-stopDrops:
					return
				case <-time.After(time.Duration(5+rnd.Intn(40)) * time.Millisecond):
				}
				if rnd.Float64() < dropRate {
					nodes := e.C.Nodes()
					n := nodes[rnd.Intn(len(nodes))]
					for _, cn := range n.Conns() {
						if !cn.Registered && rnd.Intn(2) == 0 {
							cn.Close("random")
						}
					}
				}
			}
		}()
	}
	// client churn: short-lived clients send a pipeline of requests and hang up without reading the answers, while
	// other clients connect; answers to a client that is gone must never surface on another connection
	stopChurn := make(chan struct{})
	var churnWg sync.WaitGroup
	for k := 0; k < ro.churn; k++ {
		churnWg.Add(1)
		go func(k int) {
			defer churnWg.Done()
			for it := 0; ; it++ {
				select {
				case <-stopChurn:
					return
				default:
				}
				cc, err := e.StartedClient(primitive.ProtocolVersion4, ro.compression)
				if err != nil {
					time.Sleep(5 * time.Millisecond)
					continue
				}
				for q := 0; q < 12; q++ {
					tok := rr.newToken()
					frm := frame.NewFrame(primitive.ProtocolVersion4, int16(1+q), &message.Query{Query: fmt.Sprintf(idemStmts[0], tok),
						Options: &message.QueryOptions{Consistency: primitive.ConsistencyLevelOne}})
					if cc.Send(frm, tok, "idem|QUERY|churn") != nil {
						break
					}
				}
				if it%2 == 0 {
					time.Sleep(time.Duration(rr.intn(3)) * time.Millisecond)
				}
				cc.Close()
			}
		}(k)
	}
	// bursts of requests the proxy answers itself (reads of system.local, each with an alias of its own), pipelined in
	// one write together with a few forwarded ones: every stream must get exactly its own answer
	stopBursts := make(chan struct{})
	var burstWg sync.WaitGroup
	for k := 0; k < ro.localBursts; k++ {
		burstWg.Add(1)
		go func(k int) {
			defer burstWg.Done()
			bc, err := e.StartedClient(primitive.ProtocolVersion4, ro.compression)
			if err != nil {
				return
			}
			defer bc.Close()
			for it := 0; ; it++ {
				select {
				case <-stopBursts:
					return
				default:
				}
				var frms []*frame.Frame
				var toks, classes []string
				n := 8 + rr.intn(24)
				if ro.burstsForwarded {
					n = 48 + rr.intn(80)
				}
				for q := 0; q < n; q++ {
					tok := rr.newToken()
					if q%7 == 6 || ro.burstsForwarded {
						frms = append(frms, frame.NewFrame(primitive.ProtocolVersion4, int16(300+q), &message.Query{Query: fmt.Sprintf(idemStmts[0], tok),
							Options: &message.QueryOptions{Consistency: primitive.ConsistencyLevelOne}}))
						classes = append(classes, "idem|QUERY|burst")
					} else {
						frms = append(frms, frame.NewFrame(primitive.ProtocolVersion4, int16(300+q), &message.Query{
							Query:   fmt.Sprintf(`SELECT key AS "%s" FROM system.local`, tok),
							Options: &message.QueryOptions{Consistency: primitive.ConsistencyLevelOne}}))
						classes = append(classes, "idem|LOCAL|burst")
					}
					toks = append(toks, tok)
				}
				from := bc.Count()
				if bc.SendMany(frms, toks, classes) != nil {
					return
				}
				if !bc.WaitCount(from+n, 5*time.Second) {
					// streams of an unanswered burst are not reused
					return
				}
			}
		}(k)
	}
	// a node stops reading (the proxy's writes to it block, requests pile up in the write queues of its connections) and
	// then loses its connections: everything queued and unwritten goes down with them and is retried elsewhere
	stopStall := make(chan struct{})
	var stallWg sync.WaitGroup
	if ro.stallDrops > 0 {
		stallWg.Add(1)
		go func() {
			defer stallWg.Done()
			rnd := newRand(salt + 4242)
			for i := 0; i < ro.stallDrops; i++ {
				select {
				case <-stopStall:
					return
				case <-time.After(time.Duration(150+rnd.Intn(200)) * time.Millisecond):
				}
				e.C.StallThenDrop(e.IPs[rnd.Intn(len(e.IPs))], 250*time.Millisecond)
			}
		}()
		// bulky requests (a 96 KiB value each) keep the sockets towards the nodes full
		for k := 0; k < 3; k++ {
			stallWg.Add(1)
			go func(k int) {
				defer stallWg.Done()
				bc, err := e.StartedClient(primitive.ProtocolVersion4, ro.compression)
				if err != nil {
					return
				}
				defer bc.Close()
				blob := make([]byte, 96<<10)
				for it := 0; ; it++ {
					select {
					case <-stopStall:
						return
					default:
					}
					var frms []*frame.Frame
					var toks, classes []string
					for q := 0; q < 24; q++ {
						tok := rr.newToken()
						frms = append(frms, frame.NewFrame(primitive.ProtocolVersion4, int16(600+q), &message.Query{Query: fmt.Sprintf(idemStmts[0], tok),
							Options: &message.QueryOptions{Consistency: primitive.ConsistencyLevelOne, PositionalValues: []*primitive.Value{primitive.NewValue(blob)}}}))
						toks = append(toks, tok)
						classes = append(classes, "idem|QUERY|bulk")
					}
					from := bc.Count()
					if bc.SendMany(frms, toks, classes) != nil {
						return
					}
					if !bc.WaitCount(from+24, 8*time.Second) {
						return
					}
				}
			}(k)
		}
	}
	// slow consumers: a client pipelines a few thousand queries (with -bigevery 1 every answer is about 20 KiB) and does
	// not read for a while: the answers pile up in the socket buffers and in the proxy's write queue for it.  A slow
	// reader reads on in the end and must get every answer exactly once; a non-reader hangs up instead, and everybody
	// else must keep being served.
	var slowWg sync.WaitGroup
	var slowMu sync.Mutex
	var slowOpen []*cqlclient.Client
	defer func() {
		for _, sc := range slowOpen {
			sc.Close()
		}
	}()
	for k := 0; k < ro.slowReaders+ro.nonReaders; k++ {
		slowWg.Add(1)
		go func(k int) {
			defer slowWg.Done()
			sc, err := e.StartedClient(primitive.ProtocolVersion4, ro.compression)
			if err != nil {
				return
			}
			non := k >= ro.slowReaders
			if non {
				defer sc.Close()
			} else {
				// a slow reader stays connected until the round has been judged: what it was never sent is owed to it
				defer func() {
					slowMu.Lock()
					slowOpen = append(slowOpen, sc)
					slowMu.Unlock()
				}()
			}
			const n = 2600
			var frms []*frame.Frame
			var toks, classes []string
			for q := 0; q < n; q++ {
				tok := rr.newToken()
				frms = append(frms, frame.NewFrame(primitive.ProtocolVersion4, int16(1000+q), &message.Query{Query: fmt.Sprintf(idemStmts[0], tok),
					Options: &message.QueryOptions{Consistency: primitive.ConsistencyLevelOne}}))
				toks = append(toks, tok)
				if non {
					classes = append(classes, "idem|QUERY|churn")
				} else {
					classes = append(classes, "idem|QUERY|slow")
				}
			}
			if non {
				sc.PauseReads(time.Hour)
			} else {
				sc.PauseReads(1800 * time.Millisecond)
			}
			// several writes: the socket towards the proxy fills up too once the proxy stops reading
			for i := 0; i < n; i += 200 {
				if sc.SendMany(frms[i:i+200], toks[i:i+200], classes[i:i+200]) != nil {
					return
				}
			}
			if non {
				time.Sleep(1500 * time.Millisecond)
				return // hangs up with everything outstanding
			}
			sc.WaitCount(n+1, 12*time.Second) // (+1: the READY of its handshake)
		}(k)
	}
	for w := 0; w < nclients*workers; w++ {
		wg.Add(1)
		go func(sl slot) {
			defer wg.Done()
			for sc := range work {
				tok := rr.newToken()
				rr.scripts.Store(tok, sc)
				frm, op, isExec := rr.buildFrame(sc, tok, sl.stream, primitive.ProtocolVersion4)
				from := sl.c.Count()
				atomic.AddInt32(&rr.sent, 1)
				if err := sl.c.Send(frm, tok, classString(sc.Idem, isExec)+"|"+op+"|"+sc.ID); err != nil {
					continue
				}
				if r := sl.c.WaitStream(sl.stream, from, 5*time.Second+3*time.Duration(rr.holdMs)*time.Millisecond); r == nil {
					atomic.AddInt32(&rr.unanswered, 1)
					// never reuse the stream of an unanswered request: a late answer must not be
					// attributed to a new request
					sl.stream += 64
				}
			}
		}(slotList[w])
	}
	for _, sc := range scs {
		work <- sc
	}
	close(work)
	wg.Wait()
	close(stopChurn)
	churnWg.Wait()
	close(stopBursts)
	burstWg.Wait()
	close(stopStall)
	stallWg.Wait()
	slowWg.Wait()
	close(stopDrops)
	// quiescence: nothing logged for the window
	quiet := t.Quiesce(700*time.Millisecond, 8*time.Second)
	if un := atomic.LoadInt32(&rr.unanswered); un > 0 || !quiet {
		if e.Sink != nil {
			k, n := e.Sink.MaxSpin()
			if n > st.MaxSpin {
				st.MaxSpin, st.SpinReq = n, k
			}
		}
		if un > 0 && st.Goroutines == "" {
			buf := make([]byte, 1<<20)
			n := runtime.Stack(buf, true)
			st.Goroutines = filterStacks(string(buf[:n]))
		}
	}
	st.Unanswered += int(atomic.LoadInt32(&rr.unanswered))
	if quiet {
		t.Emit("Quiet")
	} else {
		t.Emit("NotQuiet")
	}
	t.Stop()
	evs := t.Events()
	st.Events += len(evs)
	st.Scenarios += len(scs)
	st.Rounds++
	return tracer.WriteNDJSON(out, evs, true)
}

// filterStacks keeps goroutines that are inside the proxy's packages.
func filterStacks(dump string) string {
	var keep []string
	for _, g := range strings.Split(dump, "\n\n") {
		if strings.Contains(g, "github.com/datastax/cql-proxy/") && (strings.Contains(g, "sync.(*RWMutex)") || strings.Contains(g, "sync.(*Mutex)") || strings.Contains(g, "semacquire")) {
			keep = append(keep, g)
		}
	}
	if len(keep) > 12 {
		keep = keep[:12]
	}
	return strings.Join(keep, "\n\n")
}

func init() {
	register("req", func(args []string) error {
		fs := flag.NewFlagSet("req", flag.ExitOnError)
		in := fs.String("in", "", "scenario scripts (JSON lines)")
		out := fs.String("out", "trace.ndjson", "raw trace output (NDJSON, appended per round)")
		stats := fs.String("stats", "-", "stats output")
		nodes := fs.Int("nodes", 3, "backend nodes")
		numConns := fs.Int("numconns", 1, "connections per node")
		nclients := fs.Int("clients", 2, "client connections")
		workers := fs.Int("workers", 3, "in-flight streams per client")
		round := fs.Int("round", 60, "scenarios per proxy instance")
		random := fs.Int("random", 0, "generate this many random scenarios instead of reading -in")
		dropRate := fs.Float64("droprate", 0, "probability of a random connection drop per tick")
		maxDelay := fs.Int("delay", 0, "maximum random response delay in ms (responses are reordered)")
		okBias := fs.Int("okbias", 3, "weight of plain ok outcomes in random scenarios")
		compression := fs.String("compression", "", "clients negotiate this compression (lz4|snappy)")
		restarts := fs.Int("restarts", 0, "random node restarts per round (connections dropped, prepared statements forgotten)")
		addNode := fs.Bool("addnode", false, "a node joins after the proxy connected")
		lateAddNode := fs.Bool("lateaddnode", false, "a node joins after the clients' sessions were created")
		idemGraph := fs.Bool("idemgraph", false, "the proxy runs with the idempotent-graph option")
		stallDrops := fs.Int("stalldrops", 0, "times a node stops reading for 250 ms and then drops its connections, while clients send bulky requests")
		slowReaders := fs.Int("slowreaders", 0, "clients that pipeline 2600 queries and start reading 1.8 s later")
		nonReaders := fs.Int("nonreaders", 0, "clients that pipeline 2600 queries, never read and hang up after 1.5 s")
		burstsForwarded := fs.Bool("burstsforwarded", false, "the bursts of -localbursts consist of forwarded queries only (48..127 per write)")
		bigEvery := fs.Int("bigevery", 0, "every n-th plain OK answer carries about 20 KiB")
		evict := fs.Int("evict", 0, "nodes forget a prepared statement after this many executions (frequent, concurrent re-preparations)")
		kinds := fs.String("kinds", "", "comma separated request kinds for random scenarios (query,execute,batch,graph)")
		stallMs := fs.Int("stall", 0, "answer one heartbeat per data connection this many ms late")
		holdMs := fs.Int("hold", 0, "hold back every scripted answer this many ms")
		noDrops := fs.Bool("nodrops", false, "random scenarios never drop connections")
		preCompression := fs.String("precompression", "", "a client with this compression prepares the statements first")
		postCompression := fs.String("postcompression", "", "a client with this compression prepares the statements again after the set-up")
		churn := fs.Int("churn", 0, "short-lived clients that send a pipeline of requests and hang up without reading the answers")
		localBursts := fs.Int("localbursts", 0, "clients that send bursts of pipelined requests which the proxy answers itself (one write per burst)")
		idleClose := fs.Bool("idleclose", false, "random scenarios include nodes falling silent until the proxy closes their connections (idle timeout 400 ms)")
		halfPool := fs.Int("halfpool", 0, "so many times a node loses one of its pooled connections and is slow to accept the replacement")
		override := fs.Bool("override", false, "configure an unsupported-write-consistency override matching the workload's writes")
		_ = fs.Parse(args)
		if *churn > 0 {
			// buffers handed from a closing connection to a new one travel through per-processor caches: few processors
			// make such hand-overs (and what can go wrong with them) frequent
			runtime.GOMAXPROCS(2)
		}
		os.Remove(*out)
		var scs []*reqScenario
		if *random > 0 {
			rnd := newRand(4242)
			alpha := []string{"srverr", "overloaded", "truncate", "unavail", "boot", "rt_same", "rt_other",
				"wt_batchlog", "wt_other", "rfail", "wfail", "invalid", "syntax", "drop", "silent_drop", "unprepared"}
			for i := 0; i < *okBias*4; i++ {
				alpha = append(alpha, "ok")
			}
			if *idleClose {
				alpha = append(alpha, "idle_close", "idle_close", "idle_close")
			}
			if *noDrops {
				var a2 []string
				for _, x := range alpha {
					if x != "drop" && x != "silent_drop" {
						a2 = append(a2, x)
					}
				}
				alpha = a2
			}
			for i := 0; i < *random; i++ {
				sc := &reqScenario{ID: fmt.Sprintf("rnd%d", i), Idem: rnd.Intn(2) == 0}
				if *kinds != "" {
					ks := strings.Split(*kinds, ",")
					sc.Kind = ks[rnd.Intn(len(ks))]
				}
				n := rnd.Intn(4)
				for k := 0; k < n; k++ {
					sc.Outcomes = append(sc.Outcomes, alpha[rnd.Intn(len(alpha))])
				}
				scs = append(scs, sc)
			}
		} else {
			err := readJSONLines(*in, func(line []byte) error {
				var sc reqScenario
				if err := json.Unmarshal(line, &sc); err != nil {
					return err
				}
				scs = append(scs, &sc)
				return nil
			})
			if err != nil {
				return err
			}
		}
		st := &reqStats{}
		for i, k := 0, 0; i < len(scs); i, k = i+*round, k+1 {
			j := i + *round
			if j > len(scs) {
				j = len(scs)
			}
			if err := runRound(scs[i:j], *nodes, *numConns, *nclients, *workers, *out, st, *dropRate, int64(k), *maxDelay,
				roundOpts{compression: *compression, restarts: *restarts, addNode: *addNode, lateAddNode: *lateAddNode, evict: *evict, bigEvery: *bigEvery, burstsForwarded: *burstsForwarded, idemGraph: *idemGraph, stallDrops: *stallDrops, slowReaders: *slowReaders, nonReaders: *nonReaders, stallMs: *stallMs, holdMs: *holdMs, override: *override, noDrops: *noDrops, idleClose: *idleClose, halfPool: *halfPool, preCompression: *preCompression, postCompression: *postCompression, churn: *churn, localBursts: *localBursts}); err != nil {
				return err
			}
		}
		return writeJSON(*stats, st)
	})
}
