package main

import (
	"flag"
	"fmt"
	"math/rand"
	"sync"
	"sync/atomic"
	"time"

	"verif/cqlclient"
	"verif/env"
	"verif/fakecql"
	"verif/tracer"

	"github.com/datastax/go-cassandra-native-protocol/frame"
	"github.com/datastax/go-cassandra-native-protocol/message"
	"github.com/datastax/go-cassandra-native-protocol/primitive"
)

// session drives interleaved histories of USE (valid, quoted, mixed-case, non-existent) and data requests
// over several concurrent clients with different protocol versions / compressions, including rounds in which
// every client switches to the same new keyspace at the same instant; the trace is validated against
// TraceSession.tla.

type useSpelling struct {
	text string // as written after USE
}

// "Ks2" and "ks2" are different keyspaces (the first needs quoting), so are "Ks7" (exists) and "ks7" (does not)
var sessionKeyspaces = []string{"ks1", "Ks2", "ks2", "ks3", "ks4", "ks5", "ks6", "Ks7"}

// spellings of USE targets: folded name and validity are computed by the CQL identifier rules
// (fakecql.FoldKeyspace) and the backend's keyspace set - never by the proxy's parser.
var useTargets = []string{"ks1", "KS1", `"ks1"`, `"Ks2"`, "Ks2", `"KS2"`, "nope", `"Nope"`, "ks3", "Ks3", `"ks3"`, "kS4", `"ks5"`, "KS6", `"Ks7"`, "Ks7", `"Ks2"`, `"Ks7"`}

type sessClient struct {
	c    *cqlclient.Client
	ver  primitive.ProtocolVersion
	comp string
	rnd  *rand.Rand
	next int16
}

func (sc *sessClient) use(t *tracer.Tracer, target string, valid map[string]bool) {
	folded := fakecql.FoldKeyspace(target)
	sc.next++
	st := sc.next
	frm := frame.NewFrame(sc.ver, st, &message.Query{Query: "USE " + target, Options: &message.QueryOptions{Consistency: primitive.ConsistencyLevelOne}})
	_, _ = sc.c.Roundtrip(frm, "", fmt.Sprintf("use|%s|%v", folded, valid[folded]), 8*time.Second)
}

var sessTok int64
var sessTokMu sync.Mutex

func (sc *sessClient) data() {
	sessTokMu.Lock()
	sessTok++
	tok := fmt.Sprintf("tok%dx%d;", seed()%100000, sessTok)
	sessTokMu.Unlock()
	sc.next++
	var frm *frame.Frame
	// a data request is anything the client forwards: a QUERY, a BATCH, or the EXECUTE of a statement it prepared in its
	// current keyspace (unqualified table names everywhere: only the keyspace of the connection gives them a meaning)
	switch sc.rnd.Intn(3) {
	case 1:
		frm = frame.NewFrame(sc.ver, sc.next, &message.Batch{Type: primitive.BatchTypeUnlogged, Consistency: primitive.ConsistencyLevelOne,
			Children: []*message.BatchChild{{Query: fmt.Sprintf("INSERT INTO tbl (k, v) VALUES ('%s', 1)", tok)}}})
	case 2:
		pr, err := sc.c.Roundtrip(frame.NewFrame(sc.ver, sc.next, &message.Prepare{Query: "SELECT * FROM tbl WHERE k = ?"}), "", "prep", 8*time.Second)
		sc.next++
		if err == nil && pr.Frame != nil {
			if p, ok := pr.Frame.Body.Message.(*message.PreparedResult); ok {
				frm = frame.NewFrame(sc.ver, sc.next, &message.Execute{QueryId: p.PreparedQueryId, ResultMetadataId: p.ResultMetadataId,
					Options: &message.QueryOptions{Consistency: primitive.ConsistencyLevelOne, PositionalValues: []*primitive.Value{primitive.NewValue([]byte(tok))}}})
			}
		}
	}
	if frm == nil {
		frm = frame.NewFrame(sc.ver, sc.next, &message.Query{Query: fmt.Sprintf("SELECT * FROM tbl WHERE k = '%s'", tok),
			Options: &message.QueryOptions{Consistency: primitive.ConsistencyLevelOne}})
	}
	_, _ = sc.c.Roundtrip(frm, tok, "data", 8*time.Second)
}

func init() {
	register("session", func(args []string) error {
		fs := flag.NewFlagSet("session", flag.ExitOnError)
		out := fs.String("out", "trace.ndjson", "raw trace output")
		stats := fs.String("stats", "-", "stats")
		rounds := fs.Int("rounds", 3, "proxy instances")
		nclients := fs.Int("clients", 5, "clients per round")
		steps := fs.Int("steps", 14, "operations per client")
		nodes := fs.Int("nodes", 2, "backend nodes")
		gated := fs.Int("gated", 0, "extra round: this many USEs of non-existent keyspaces with ConnectSession held back until every pool has failed")
		_ = fs.Parse(args)
		type stT struct {
			Rounds, Clients, Uses, Data, Events, Gated int
		}
		st := &stT{}
		combos := []struct {
			v primitive.ProtocolVersion
			c string
		}{{4, ""}, {4, "lz4"}, {3, ""}, {4, "snappy"}, {4, ""}, {3, "lz4"}}
		first := true
		for r := 0; r < *rounds; r++ {
			t := tracer.New()
			e, err := env.Start(env.Options{Nodes: *nodes, NumConns: 1, Hooks: false, Tracer: t, Keyspaces: sessionKeyspaces})
			if err != nil {
				return err
			}
			valid := map[string]bool{}
			for _, k := range sessionKeyspaces {
				valid[k] = true
			}
			var clients []*sessClient
			for i := 0; i < *nclients; i++ {
				cb := combos[(i+r)%len(combos)]
				c, err := e.StartedClient(cb.v, cb.c)
				if err != nil {
					e.Close()
					return err
				}
				t.Emit("Hello", "c", c.ID, "ver", int(cb.v), "comp", cb.c)
				clients = append(clients, &sessClient{c: c, ver: cb.v, comp: cb.c, rnd: newRand(int64(r*100 + i))})
			}
			t.Emit("ScenarioStart")
			var wg sync.WaitGroup
			// phase 1: independent random histories
			for _, sc := range clients {
				wg.Add(1)
				go func(sc *sessClient) {
					defer wg.Done()
					for k := 0; k < *steps; k++ {
						if sc.rnd.Intn(3) == 0 {
							sc.use(t, useTargets[sc.rnd.Intn(len(useTargets))], valid)
							sessTokMu.Lock()
							st.Uses++
							sessTokMu.Unlock()
						} else {
							sc.data()
							sessTokMu.Lock()
							st.Data++
							sessTokMu.Unlock()
						}
					}
				}(sc)
			}
			wg.Wait()
			// phase 2: every client switches to the same new keyspace at the same instant, then sends data
			for _, target := range []string{"ks4", `"ks5"`, "KS6", "nope"} {
				start := make(chan struct{})
				for _, sc := range clients {
					wg.Add(1)
					go func(sc *sessClient) {
						defer wg.Done()
						<-start
						sc.use(t, target, valid)
						sc.data()
						sc.data()
					}(sc)
				}
				close(start)
				wg.Wait()
			}
			// phase 3: the backend connections are lost and re-opened (every node restarts, one after the other); the
			// clients' keyspaces must still be in force on the new connections
			for _, ip := range e.IPs {
				e.C.RestartNode(ip)
				time.Sleep(150 * time.Millisecond) // reconnect delays are <= 10 ms
			}
			for _, sc := range clients {
				wg.Add(1)
				go func(sc *sessClient) {
					defer wg.Done()
					for k := 0; k < 6; k++ {
						sc.data()
					}
				}(sc)
			}
			wg.Wait()
			t.Quiesce(300*time.Millisecond, 3*time.Second)
			t.Emit("Quiet")
			t.Stop()
			evs := t.Events()
			st.Events += len(evs)
			st.Rounds++
			st.Clients += len(clients)
			if err := tracer.WriteNDJSON(*out, evs, !first); err != nil {
				e.Close()
				return err
			}
			first = false
			e.Close()
		}
		if *gated > 0 {
			// Schedule from Session.tla (UseConnect with every pool failing): the goroutine creating the session is
			// descheduled between registering with the cluster and waiting for the outcome, until every pool has
			// reported its failure and the bootstrap goroutine has announced completion. Both outcomes are then
			// ready at once; the USE must still fail.
			t := tracer.New()
			e, err := env.Start(env.Options{Nodes: *nodes, NumConns: 1, Hooks: true, Tracer: t, Keyspaces: sessionKeyspaces})
			if err != nil {
				return err
			}
			c, err := e.StartedClient(primitive.ProtocolVersion4, "")
			if err != nil {
				e.Close()
				return err
			}
			t.Emit("Hello", "c", c.ID, "ver", 4, "comp", "")
			sc := &sessClient{c: c, ver: 4, rnd: newRand(77)}
			t.Emit("ScenarioStart")
			for i := 0; i < *gated; i++ {
				var stored int32
				counter := e.Sink.AddGate("pool.store", func(args []interface{}) bool {
					atomic.AddInt32(&stored, 1)
					return false
				})
				g := e.Sink.AddGate("session.listening", nil)
				done := make(chan struct{})
				go func() {
					sc.use(t, fmt.Sprintf("nosuchks%d", i), map[string]bool{})
					close(done)
				}()
				if g.Arrived(3 * time.Second) {
					deadline := time.Now().Add(3 * time.Second)
					for time.Now().Before(deadline) && int(atomic.LoadInt32(&stored)) < *nodes {
						time.Sleep(2 * time.Millisecond)
					}
					time.Sleep(30 * time.Millisecond) // the bootstrap goroutine closes `connected` right after the last pool
					st.Gated++
				}
				g.Release()
				counter.Release()
				<-done
				st.Uses++
			}
			e.Sink.ReleaseAll()
			t.Quiesce(300*time.Millisecond, 3*time.Second)
			t.Emit("Quiet")
			t.Stop()
			evs := t.Events()
			st.Events += len(evs)
			st.Rounds++
			if err := tracer.WriteNDJSON(*out, evs, !first); err != nil {
				e.Close()
				return err
			}
			e.Close()
		}
		return writeJSON(*stats, st)
	})
}
