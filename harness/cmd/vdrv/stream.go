package main

import (
	"flag"
	"fmt"
	"sync/atomic"
	"time"

	"github.com/datastax/go-cassandra-native-protocol/message"
	"github.com/datastax/go-cassandra-native-protocol/primitive"

	"verif/env"
	"verif/fakecql"
	"verif/tracer"
)

// stream: a membership change announced at the head of a steady stream of further announcements (a rolling restart:
// STATUS_CHANGE UP / NEW_NODE events of other nodes every few tens of milliseconds), with topology queries that take
// a while.  Topology.tla: an event that arrives while a refresh is pending does not move the refresh (PEvent with
// pendingRefresh is a no-op), and events never stop the refresh from completing.  The node that joined must be routed
// to, and the node that left must stop being routed to, within a bounded number of refresh windows of ITS announcement.

type streamResult struct {
	WindowMs        int64  `json:"window_ms"`
	PeersDelayMs    int64  `json:"peers_delay_ms"`
	SpacingMs       int64  `json:"spacing_ms"`
	StreamMs        int64  `json:"stream_ms"`
	EventsSent      int    `json:"events_sent"`
	AddedRoutedMs   int64  `json:"added_routed_after_ms"`     // -1: not within the stream
	RemovedGoneMs   int64  `json:"removed_unrouted_after_ms"` // -1: not within the stream
	ControlConnLost int    `json:"control_connections_lost_during_streams"`
	Note            string `json:"note,omitempty"`
}

func runStream(window, peersDelay, spacing, length time.Duration) (*streamResult, error) {
	t := tracer.New()
	e, err := env.Start(env.Options{Nodes: 3, NumConns: 1, Hooks: false, Tracer: t, Keyspaces: []string{"ks"},
		RefreshWindow: window, ReconnectBase: 20 * time.Millisecond, ReconnectMax: 100 * time.Millisecond,
		HeartBeat: 30 * time.Second, Idle: 60 * time.Second, ConnectTimeout: 2 * time.Second})
	if err != nil {
		return nil, err
	}
	defer e.Close()
	res := &streamResult{WindowMs: window.Milliseconds(), PeersDelayMs: peersDelay.Milliseconds(), SpacingMs: spacing.Milliseconds(),
		StreamMs: length.Milliseconds(), AddedRoutedMs: -1, RemovedGoneMs: -1}
	cl, err := e.StartedClient(primitive.ProtocolVersion4, "")
	if err != nil {
		return nil, err
	}
	defer cl.Close()
	name := map[string]string{}
	for i := 1; i <= 4; i++ {
		name[fakecql.IP(env.Block(), i)] = fmt.Sprintf("h%d", i)
	}
	var seq int16
	var tok int
	inet := func(i int) *primitive.Inet {
		return &primitive.Inet{Addr: []byte{127, 0, byte(env.Block()), byte(i)}, Port: int32(e.C.Port)}
	}
	atomic.StoreInt64((*int64)(&e.C.PeersDelay), int64(peersDelay))
	ctrlBefore := 0
	if cc := e.C.ControlConn(); cc != nil {
		ctrlBefore = cc.ID
	}
	// phase: fn changes the membership and announces it; then the stream; cond is polled on the side
	phase := func(change func(), cond func(got map[string]bool) bool) int64 {
		change()
		t0 := time.Now()
		stop := make(chan struct{})
		done := make(chan struct{})
		go func() {
			defer close(done)
			k := 0
			for {
				select {
				case <-stop:
					return
				case <-time.After(spacing):
				}
				k++
				e.C.EmitEvent("t", "status", &message.StatusChangeEvent{ChangeType: primitive.StatusChangeTypeUp, Address: inet(2 + k%2)})
				res.EventsSent++
			}
		}()
		at := int64(-1)
		for time.Since(t0) < length {
			got := hdProbe(cl, name, &seq, &tok, 8)
			if cond(got) {
				// stable: twice in a row
				if got2 := hdProbe(cl, name, &seq, &tok, 8); cond(got2) {
					at = time.Since(t0).Milliseconds()
					break
				}
			}
			time.Sleep(20 * time.Millisecond)
		}
		close(stop)
		<-done
		return at
	}
	ip4 := fakecql.IP(env.Block(), 4)
	res.AddedRoutedMs = phase(func() {
		_ = e.C.AddNode(ip4)
		e.C.EmitEvent("t", "topology", &message.TopologyChangeEvent{ChangeType: primitive.TopologyChangeTypeNewNode, Address: inet(4)})
	}, func(got map[string]bool) bool { return got["h4"] })
	// let the proxy settle (whatever happened) before the second phase
	atomic.StoreInt64((*int64)(&e.C.PeersDelay), 0)
	deadline := time.Now().Add(15 * time.Second)
	for time.Now().Before(deadline) {
		if got := hdProbe(cl, name, &seq, &tok, 12); got["h4"] && got["h1"] && got["h2"] && got["h3"] {
			break
		}
		time.Sleep(100 * time.Millisecond)
	}
	atomic.StoreInt64((*int64)(&e.C.PeersDelay), int64(peersDelay))
	ip3 := fakecql.IP(env.Block(), 3)
	if cc := e.C.ControlConn(); cc != nil && cc.N.IP == ip3 {
		res.Note = "control connection on the node to be removed; second phase skipped"
	} else {
		res.RemovedGoneMs = phase(func() {
			// the node stays up but is no longer listed: it must stop receiving requests
			e.C.SetListed(ip3, false)
			e.C.EmitEvent("t", "topology", &message.TopologyChangeEvent{ChangeType: primitive.TopologyChangeTypeRemovedNode, Address: inet(3)})
		}, func(got map[string]bool) bool { return !got["h3"] && len(got) > 0 })
	}
	if cc := e.C.ControlConn(); cc == nil || cc.ID != ctrlBefore {
		res.ControlConnLost = 1
	}
	return res, nil
}

// runDouble: two membership changes one refresh apart - the second is announced while the refresh caused by the first is
// waiting for its (already evaluated) answer.  Its announcement is then the only thing that can make the proxy look
// again: Topology.tla's PEvent arms a new refresh for every announcement that finds none pending.
func runDouble(window, peersDelay time.Duration) (*streamResult, error) {
	t := tracer.New()
	e, err := env.Start(env.Options{Nodes: 3, NumConns: 1, Hooks: false, Tracer: t, Keyspaces: []string{"ks"},
		RefreshWindow: window, ReconnectBase: 20 * time.Millisecond, ReconnectMax: 100 * time.Millisecond,
		HeartBeat: 30 * time.Second, Idle: 60 * time.Second, ConnectTimeout: 2 * time.Second})
	if err != nil {
		return nil, err
	}
	defer e.Close()
	res := &streamResult{WindowMs: window.Milliseconds(), PeersDelayMs: peersDelay.Milliseconds(), AddedRoutedMs: -1, RemovedGoneMs: -1, Note: "double"}
	cl, err := e.StartedClient(primitive.ProtocolVersion4, "")
	if err != nil {
		return nil, err
	}
	defer cl.Close()
	name := map[string]string{}
	for i := 1; i <= 5; i++ {
		name[fakecql.IP(env.Block(), i)] = fmt.Sprintf("h%d", i)
	}
	var seq int16
	var tok int
	inet := func(i int) *primitive.Inet {
		return &primitive.Inet{Addr: []byte{127, 0, byte(env.Block()), byte(i)}, Port: int32(e.C.Port)}
	}
	atomic.StoreInt64((*int64)(&e.C.PeersDelay), int64(peersDelay))
	_ = e.C.AddNode(fakecql.IP(env.Block(), 4))
	e.C.EmitEvent("t", "topology", &message.TopologyChangeEvent{ChangeType: primitive.TopologyChangeTypeNewNode, Address: inet(4)})
	// the refresh starts one window later and then waits peersDelay for the answer it was given at once
	time.Sleep(window + peersDelay/2)
	_ = e.C.AddNode(fakecql.IP(env.Block(), 5))
	t0 := time.Now()
	e.C.EmitEvent("t", "topology", &message.TopologyChangeEvent{ChangeType: primitive.TopologyChangeTypeNewNode, Address: inet(5)})
	res.EventsSent = 2
	for time.Since(t0) < 3*time.Second {
		got := hdProbe(cl, name, &seq, &tok, 10)
		if got["h5"] && got["h4"] {
			res.AddedRoutedMs = time.Since(t0).Milliseconds()
			break
		}
		time.Sleep(25 * time.Millisecond)
	}
	return res, nil
}

func init() {
	register("stream", func(args []string) error {
		fs := flag.NewFlagSet("stream", flag.ExitOnError)
		out := fs.String("out", "-", "result")
		window := fs.Int("window", 100, "refresh window (ms)")
		peers := fs.Int("peersdelay", 60, "delay of every system.peers answer (ms)")
		spacing := fs.Int("spacing", 25, "spacing of the announcements (ms)")
		length := fs.Int("length", 3000, "length of the stream (ms)")
		double := fs.Bool("double", false, "two changes one refresh apart instead of a stream")
		_ = fs.Parse(args)
		if *double {
			res, err := runDouble(time.Duration(*window)*time.Millisecond, time.Duration(*peers)*time.Millisecond)
			if err != nil {
				return err
			}
			return writeJSON(*out, res)
		}
		res, err := runStream(time.Duration(*window)*time.Millisecond, time.Duration(*peers)*time.Millisecond,
			time.Duration(*spacing)*time.Millisecond, time.Duration(*length)*time.Millisecond)
		if err != nil {
			return err
		}
		return writeJSON(*out, res)
	})
}
