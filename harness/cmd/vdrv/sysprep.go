package main

import (
	"flag"
	"fmt"
	"sync"
	"sync/atomic"
	"time"

	"verif/env"
	"verif/tracer"

	"github.com/datastax/go-cassandra-native-protocol/frame"
	"github.com/datastax/go-cassandra-native-protocol/message"
	"github.com/datastax/go-cassandra-native-protocol/primitive"
)

// sysprep: several clients PREPARE statements that the proxy answers itself (system-table selects in ever new
// spellings, USE) while others EXECUTE such statements - the proxy's bookkeeping of its own prepared statements is
// written and read concurrently (scenario family of C18; Intercept.tla's ExecuteFollowsPrepare under concurrency).
func init() {
	register("sysprep", func(args []string) error {
		fs := flag.NewFlagSet("sysprep", flag.ExitOnError)
		stats := fs.String("stats", "-", "stats")
		nprep := fs.Int("preparers", 6, "clients preparing new statements")
		nexec := fs.Int("executors", 6, "clients executing prepared statements")
		ms := fs.Int("ms", 3000, "duration")
		_ = fs.Parse(args)
		t := tracer.New()
		t.Stop()
		e, err := env.Start(env.Options{Nodes: 2, NumConns: 1, Hooks: false, Tracer: t, Keyspaces: []string{"ks"}})
		if err != nil {
			return err
		}
		defer e.Close()
		var prepares, executes, wrong int64
		stop := make(chan struct{})
		var wg sync.WaitGroup
		for i := 0; i < *nprep; i++ {
			c, err := e.StartedClient(primitive.ProtocolVersion4, "")
			if err != nil {
				return err
			}
			c.Quiet = true
			wg.Add(1)
			go func(i int) {
				defer wg.Done()
				for k := 0; ; k++ {
					select {
					case <-stop:
						return
					default:
					}
					q := fmt.Sprintf("SELECT key AS a%d_%d FROM system.local", i, k)
					if k%5 == 4 {
						q = fmt.Sprintf("SELECT peer AS p%d_%d FROM system.peers", i, k)
					}
					r, err := c.Roundtrip(frame.NewFrame(c.Version, int16(1+k%1000), &message.Prepare{Query: q}), "", "sysprep", 5*time.Second)
					if err != nil {
						return
					}
					atomic.AddInt64(&prepares, 1)
					if r.Kind != "prepared" {
						atomic.AddInt64(&wrong, 1)
					}
				}
			}(i)
		}
		for i := 0; i < *nexec; i++ {
			c, err := e.StartedClient(primitive.ProtocolVersion4, "")
			if err != nil {
				return err
			}
			c.Quiet = true
			r, err := c.Roundtrip(frame.NewFrame(c.Version, 1, &message.Prepare{Query: fmt.Sprintf("SELECT key AS x%d FROM system.local", i)}), "", "sysprep", 5*time.Second)
			if err != nil || r.Frame == nil {
				return fmt.Errorf("executor prepare: %v", err)
			}
			pr, ok := r.Frame.Body.Message.(*message.PreparedResult)
			if !ok {
				return fmt.Errorf("executor prepare answered %s", r.Kind)
			}
			wg.Add(1)
			go func(id []byte) {
				defer wg.Done()
				for k := 0; ; k++ {
					select {
					case <-stop:
						return
					default:
					}
					r, err := c.Roundtrip(frame.NewFrame(c.Version, int16(2+k%1000), &message.Execute{QueryId: id, Options: &message.QueryOptions{Consistency: primitive.ConsistencyLevelOne}}), "", "sysprep", 5*time.Second)
					if err != nil {
						return
					}
					atomic.AddInt64(&executes, 1)
					if r.Kind != "ok" {
						atomic.AddInt64(&wrong, 1)
					}
				}
			}(pr.PreparedQueryId)
		}
		time.Sleep(time.Duration(*ms) * time.Millisecond)
		close(stop)
		wg.Wait()
		return writeJSON(*stats, map[string]int64{"prepares": prepares, "executes": executes, "unexpected_answers": wrong})
	})
}
