package main

import (
	"bufio"
	"crypto/ecdsa"
	"crypto/elliptic"
	"crypto/rand"
	"crypto/tls"
	"crypto/x509"
	"crypto/x509/pkix"
	"encoding/json"
	"encoding/pem"
	"flag"
	"fmt"
	"math/big"
	"net"
	"os"
	"path/filepath"
	"strings"
	"time"

	"github.com/datastax/go-cassandra-native-protocol/frame"
	"github.com/datastax/go-cassandra-native-protocol/message"
	"github.com/datastax/go-cassandra-native-protocol/primitive"

	"verif/cqlclient"
	"verif/env"
	"verif/fakecql"
	"verif/tracer"
)

// tlsfront replays the sequences of HostileTLS.tla against the real binary started with a TLS listener: offenders
// misbehave inside the TLS handshake and keep their sockets open; after every step the process must be alive, the client
// connected before must still be served, and a new client must complete its handshake and be served.

type tlsStep struct {
	A       string   `json:"a"`
	Held    int      `json:"held"`
	Allowed []string `json:"allowed"`
}

type tlsFinding struct {
	Sequence []tlsStep `json:"sequence"`
	Step     int       `json:"step"`
	What     string    `json:"what"`
	Detail   string    `json:"detail"`
	Tail     string    `json:"proxy_log_tail,omitempty"`
}

type tlsResult struct {
	Sequences int            `json:"sequences"`
	Steps     int            `json:"steps"`
	Canaries  int            `json:"canaries"`
	Observed  map[string]int `json:"offender_observations"`
	Findings  []tlsFinding   `json:"findings"`
}

func writeSelfSigned(dir string) (certFile, keyFile string, pool *x509.CertPool, err error) {
	key, err := ecdsa.GenerateKey(elliptic.P256(), rand.Reader)
	if err != nil {
		return
	}
	tmpl := &x509.Certificate{SerialNumber: big.NewInt(7), Subject: pkix.Name{CommonName: "proxy.verif"}, DNSNames: []string{"proxy.verif"},
		IPAddresses: []net.IP{net.ParseIP("127.0.0.1")}, NotBefore: time.Now().Add(-time.Hour), NotAfter: time.Now().Add(24 * time.Hour),
		KeyUsage: x509.KeyUsageDigitalSignature | x509.KeyUsageCertSign, ExtKeyUsage: []x509.ExtKeyUsage{x509.ExtKeyUsageServerAuth},
		IsCA: true, BasicConstraintsValid: true}
	der, err := x509.CreateCertificate(rand.Reader, tmpl, tmpl, &key.PublicKey, key)
	if err != nil {
		return
	}
	kb, err := x509.MarshalECPrivateKey(key)
	if err != nil {
		return
	}
	certFile, keyFile = filepath.Join(dir, "proxy-cert.pem"), filepath.Join(dir, "proxy-key.pem")
	if err = os.WriteFile(certFile, pem.EncodeToMemory(&pem.Block{Type: "CERTIFICATE", Bytes: der}), 0600); err != nil {
		return
	}
	if err = os.WriteFile(keyFile, pem.EncodeToMemory(&pem.Block{Type: "EC PRIVATE KEY", Bytes: kb}), 0600); err != nil {
		return
	}
	c, _ := x509.ParseCertificate(der)
	pool = x509.NewCertPool()
	pool.AddCert(c)
	return
}

func tlsServed(c *cqlclient.Client, n int) error {
	r, err := c.Roundtrip(frame.NewFrame(primitive.ProtocolVersion4, int16(2+n%3000), &message.Query{Query: "SELECT key FROM system.local",
		Options: &message.QueryOptions{Consistency: primitive.ConsistencyLevelOne}}), "", "canary", 3*time.Second)
	if err != nil || r.Kind != "ok" {
		return fmt.Errorf("system.local not answered: %v %v", err, r)
	}
	tok := fmt.Sprintf("toktls%d;", n)
	r, err = c.Roundtrip(frame.NewFrame(primitive.ProtocolVersion4, int16(3001+n%3000), &message.Query{Query: fmt.Sprintf("SELECT * FROM ks.t WHERE k = '%s'", tok),
		Options: &message.QueryOptions{Consistency: primitive.ConsistencyLevelOne}}), tok, "canary", 4*time.Second)
	if err != nil || r.Kind != "ok" || r.Token != tok {
		return fmt.Errorf("forwarded query not answered: %v %v", err, r)
	}
	return nil
}

func init() {
	register("tlsfront", func(args []string) error {
		fs := flag.NewFlagSet("tlsfront", flag.ExitOnError)
		bin := fs.String("bin", "", "proxy binary")
		in := fs.String("in", "", "sequences (JSON lines)")
		out := fs.String("out", "-", "result")
		dir := fs.String("dir", "", "scratch directory for the certificate")
		_ = fs.Parse(args)
		f, err := os.Open(*in)
		if err != nil {
			return err
		}
		defer f.Close()
		var seqs [][]tlsStep
		sc := bufio.NewScanner(f)
		for sc.Scan() {
			line := strings.TrimSpace(sc.Text())
			if line == "" {
				continue
			}
			var s []tlsStep
			if err := json.Unmarshal([]byte(line), &s); err != nil {
				return fmt.Errorf("sequence: %v: %s", err, line)
			}
			seqs = append(seqs, s)
		}
		certFile, keyFile, pool, err := writeSelfSigned(*dir)
		if err != nil {
			return err
		}
		ccfg := &tls.Config{RootCAs: pool, ServerName: "proxy.verif"}
		t := tracer.New()
		c := fakecql.New(t)
		c.AddKeyspace("ks")
		ips := []string{fakecql.IP(env.Block(), 1), fakecql.IP(env.Block(), 2)}
		if err := c.Start(ips...); err != nil {
			return err
		}
		defer c.Shutdown()
		res := tlsResult{Observed: map[string]int{}}
		var pp *proxyProc
		var held *cqlclient.Client
		ncan := 0
		start := func() error {
			var err error
			pp, err = startProxy(*bin, c, ips[0], "v4", "--proxy-cert-file", certFile, "--proxy-key-file", keyFile)
			if err != nil {
				return err
			}
			held, err = cqlclient.DialTLS(pp.addr, 9500, nil, ccfg, 4*time.Second)
			if err != nil {
				return fmt.Errorf("first client: %w", err)
			}
			held.Quiet = true
			if err := held.Startup(primitive.ProtocolVersion4, ""); err != nil {
				return fmt.Errorf("first client: %w", err)
			}
			return tlsServed(held, 0)
		}
		if err := start(); err != nil {
			return err
		}
		defer func() {
			if pp != nil {
				pp.stop()
			}
		}()
		for _, s := range seqs {
			var open []net.Conn
			release := func() {
				for _, nc := range open {
					nc.Close()
				}
				open = nil
			}
			for i, st := range s {
				res.Steps++
				obs := ""
				offend := func(payload []byte, closeAtOnce bool) {
					nc, err := net.DialTimeout("tcp", pp.addr, 2*time.Second)
					if err != nil {
						obs = "refused"
						return
					}
					if len(payload) > 0 {
						_, _ = nc.Write(payload)
					}
					if closeAtOnce {
						nc.Close()
						obs = "closed"
						return
					}
					open = append(open, nc)
					_ = nc.SetReadDeadline(time.Now().Add(250 * time.Millisecond))
					buf := make([]byte, 64)
					n, err := nc.Read(buf)
					switch {
					case n > 0 && buf[0] == 0x15:
						obs = "alert"
					case n > 0:
						obs = "answered"
					case err != nil && strings.Contains(err.Error(), "timeout"):
						obs = "nothing"
					default:
						obs = "closed"
					}
				}
				// the beginning of a TLS 1.2 ClientHello record: header says 512 bytes follow, 4 arrive
				partial := []byte{0x16, 0x03, 0x01, 0x02, 0x00, 0x01, 0x00, 0x01, 0xfc}
				switch st.A {
				case "release":
					release()
				case "t_silent":
					offend(nil, false)
				case "t_partial_hello":
					offend(partial, false)
				case "t_plaintext_cql":
					offend(encodeFrame(frame.NewFrame(primitive.ProtocolVersion4, 1, &message.Options{})), false)
				case "t_garbage_record":
					offend([]byte{0x16, 0x03, 0x03, 0x00, 0x05, 0xde, 0xad, 0xbe, 0xef, 0x00}, false)
				case "t_many_silent":
					for k := 0; k < 3; k++ {
						offend(nil, false)
					}
				case "t_closes_at_once":
					offend(partial, true)
				default:
					return fmt.Errorf("unknown class %q", st.A)
				}
				if st.A != "release" {
					res.Observed[st.A+" -> "+obs]++
					ok := false
					for _, a := range st.Allowed {
						if a == obs {
							ok = true
						}
					}
					if !ok {
						res.Findings = append(res.Findings, tlsFinding{Sequence: s, Step: i, What: "offender observed " + obs, Detail: fmt.Sprintf("allowed: %v", st.Allowed)})
					}
				}
				wedged := false
				bad := func(what, detail string) {
					wedged = true
					res.Findings = append(res.Findings, tlsFinding{Sequence: s, Step: i, What: what, Detail: detail, Tail: pp.tail()})
				}
				if !pp.alive() {
					bad("the proxy process exited", "")
				} else {
					ncan++
					res.Canaries++
					if err := tlsServed(held, ncan); err != nil {
						bad("a client connected before the offence is no longer served", err.Error())
					}
					ncan++
					res.Canaries++
					nc, err := cqlclient.DialTLS(pp.addr, 9600+ncan, nil, ccfg, 3*time.Second)
					if err != nil {
						bad("a new client is not served while the offender's socket is open", err.Error())
					} else {
						nc.Quiet = true
						if err := nc.Startup(primitive.ProtocolVersion4, ""); err != nil {
							bad("a new client is not served while the offender's socket is open", "startup: "+err.Error())
						} else if err := tlsServed(nc, ncan); err != nil {
							bad("a new client is not served while the offender's socket is open", err.Error())
						}
						nc.Close()
					}
				}
				if wedged {
					// one wedge is one finding: start afresh
					release()
					held.Close()
					pp.stop()
					if err := start(); err != nil {
						return err
					}
					break
				}
			}
			release()
			res.Sequences++
		}
		held.Close()
		return writeJSON(*out, res)
	})
}
