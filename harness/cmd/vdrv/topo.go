package main

import (
	"encoding/json"
	"flag"
	"fmt"
	"sort"
	"strings"
	"sync"
	"time"

	"verif/cqlclient"
	"verif/env"
	"verif/fakecql"
	"verif/tracer"

	"github.com/datastax/cql-proxy/proxycore"
	"github.com/datastax/go-cassandra-native-protocol/frame"
	"github.com/datastax/go-cassandra-native-protocol/message"
	"github.com/datastax/go-cassandra-native-protocol/primitive"
)

// topo replays the fault sequences enumerated by TLC from Topology.tla against the real proxy: after every
// fault it waits (bounded) for convergence and compares the set of nodes that receive requests with the
// specification's expected routing set, samples the outage duration, and records every reconnect delay.

type topoStep struct {
	A      string   `json:"a"`
	H      string   `json:"h"`
	N      int      `json:"n"`
	Routed []string `json:"routed"`
	Listed []string `json:"listed"`
	Up     []string `json:"up"`
	// Mode is the state of the proxy's cluster loop the specification applied this fault in: "settled" (quiescent),
	// "pending" (a refresh is scheduled, the refresh window has not elapsed) or "down" (the previous fault took the
	// control connection away and the proxy has not reconnected yet)
	Mode string `json:"mode"`
}

type topoMismatch struct {
	Behaviour []topoStep `json:"behaviour"`
	Step      int        `json:"step"`
	Kind      string     `json:"kind"`
	Want      []string   `json:"want"`
	Got       []string   `json:"got"`
	Note      string     `json:"note,omitempty"`
}

type topoDelay struct {
	Who  string `json:"who"`
	Host string `json:"host"`
	Ns   int64  `json:"ns"`
	Seq  int    `json:"seq"` // position among the delays of this pool since its last successful connect
	// WaitedNs is the time that really passed between this delay being chosen and the slot's next step (its next
	// delay or its successful connect): the wait the proxy actually made plus one connection attempt; 0 = not observed
	WaitedNs int64 `json:"waited_ns"`
}

type topoResult struct {
	Behaviours int                    `json:"behaviours"`
	Steps      int                    `json:"steps"`
	Probes     int                    `json:"probes"`
	Rushed     int                    `json:"rushed_steps"`
	Mismatches []topoMismatch         `json:"mismatches"`
	Delays     []topoDelay            `json:"delays"`
	BaseNs     int64                  `json:"base_ns"`
	MaxNs      int64                  `json:"max_ns"`
	MaxConvMs  int64                  `json:"max_convergence_ms"`
	Samples    [][]topoStep           `json:"samples"`
	AllDown    map[string]interface{} `json:"all_down,omitempty"`
}

type topoRun struct {
	e    *env.Env
	c    *cqlclient.Client
	ip   map[string]string // h1 -> ip
	name map[string]string // ip -> h1
	seq  int16
	tok  int
	// connections of a muted node that the proxy still held 1.5 s after the node fell silent
	idleNotEnforced []string
}

var topoMutes int // mute faults applied in this run (all behaviours)

func (tr *topoRun) probe(n int) map[string]bool {
	got := map[string]bool{}
	for i := 0; i < n; i++ {
		tr.seq++
		tr.tok++
		tok := fmt.Sprintf("tokp%d;", tr.tok)
		frm := newQueryFrame(tr.c.Version, tr.seq, fmt.Sprintf("SELECT * FROM ks.t WHERE k = '%s'", tok))
		r, err := tr.c.Roundtrip(frm, tok, "probe", 2*time.Second)
		if err == nil && r.Kind == "ok" && r.Node != "" {
			got[tr.name[r.Node]] = true
		}
	}
	return got
}

func setEq(a map[string]bool, b []string) bool {
	if len(a) != len(b) {
		return false
	}
	for _, x := range b {
		if !a[x] {
			return false
		}
	}
	return true
}

func keys(m map[string]bool) []string {
	var out []string
	for k := range m {
		out = append(out, k)
	}
	sort.Strings(out)
	return out
}

func (tr *topoRun) apply(st topoStep) {
	c := tr.e.C
	ip := tr.ip[st.H]
	inet := func() *primitive.Inet {
		return &primitive.Inet{Addr: []byte{127, 0, byte(env.Block()), ip[len(ip)-1] - '0'}, Port: int32(c.Port)}
	}
	switch st.A {
	case "unlist":
		// A node always lists itself in its own system.local, so the removal is only visible through another
		// node: move the control connection away from the node first (the proxy fails over round-robin).
		for try := 0; try < 6; try++ {
			cc := c.ControlConn()
			if cc == nil || cc.N.IP != ip {
				if cc != nil {
					break
				}
			} else {
				cc.Close("move-control")
			}
			time.Sleep(150 * time.Millisecond)
		}
		c.SetListed(ip, false)
		c.EmitEvent("t", "topology", &message.TopologyChangeEvent{ChangeType: primitive.TopologyChangeTypeRemovedNode, Address: inet()})
	case "add":
		if n := c.Node(ip); n != nil && n.Up() {
			c.SetListed(ip, true)
		} else {
			_ = c.AddNode(ip)
		}
		c.EmitEvent("t", "topology", &message.TopologyChangeEvent{ChangeType: primitive.TopologyChangeTypeNewNode, Address: inet()})
	case "remove":
		c.RemoveNode(ip)
		c.EmitEvent("t", "topology", &message.TopologyChangeEvent{ChangeType: primitive.TopologyChangeTypeRemovedNode, Address: inet()})
	case "stop":
		c.StopNode(ip)
		c.EmitEvent("t", "status", &message.StatusChangeEvent{ChangeType: primitive.StatusChangeTypeDown, Address: inet()})
	case "start":
		_ = c.AddNode(ip)
		c.EmitEvent("t", "status", &message.StatusChangeEvent{ChangeType: primitive.StatusChangeTypeUp, Address: inet()})
	case "restart":
		c.RestartNode(ip)
	case "droppooled":
		if n := c.Node(ip); n != nil {
			for _, cn := range n.Conns() {
				if !cn.Registered {
					cn.Close("droppooled")
				}
			}
		}
	case "dropctrl":
		if cc := c.ControlConn(); cc != nil {
			cc.Close("dropctrl")
		}
	case "dropall":
		for _, n := range c.Nodes() {
			for _, cn := range n.Conns() {
				cn.Close("dropall")
			}
		}
	case "mute":
		// heartbeat silence: the node stops answering on its existing connections; the proxy must give them up once
		// the idle timeout (600 ms) has passed without an answered heartbeat (interval 150 ms) and replace them
		// every other time the node's pooled connections are dropped first, so that the silent connections are ones the
		// pool re-established (they must be watched like the initial ones)
		topoMutes++
		if topoMutes%2 == 1 {
			if n := c.Node(ip); n != nil {
				for _, cn := range n.Conns() {
					if !cn.Registered {
						cn.Close("before-mute")
					}
				}
			}
			deadline := time.Now().Add(3 * time.Second)
			for time.Now().Before(deadline) {
				if n := c.Node(ip); n != nil {
					pooled := 0
					for _, cn := range n.Conns() {
						if !cn.Registered && !cn.Closed() {
							pooled++
						}
					}
					if pooled >= 1 {
						break
					}
				}
				time.Sleep(20 * time.Millisecond)
			}
			time.Sleep(100 * time.Millisecond)
		}
		var before []*fakecql.Conn
		if n := c.Node(ip); n != nil {
			before = n.Conns()
		}
		c.Mute(ip, true)
		time.Sleep(1500 * time.Millisecond)
		for _, cn := range before {
			if !cn.Closed() {
				tr.idleNotEnforced = append(tr.idleNotEnforced, fmt.Sprintf("%s conn %d (registered=%v)", st.H, cn.ID, cn.Registered))
			}
		}
		c.Mute(ip, false)
	}
}

func newQueryFrame(v primitive.ProtocolVersion, stream int16, q string) *frameT {
	return frameNew(v, stream, &message.Query{Query: q, Options: &message.QueryOptions{Consistency: primitive.ConsistencyLevelOne}})
}

// hammer: concurrent well-behaved clients issuing requests while the faults are applied (query plans in flight during
// membership changes; used under the race detector)
var topoHammer int
var topoTrace string
var topoTraceAppend bool

// rushAllowed: the specification applies `next` before the proxy has digested `cur`.  Its fault guards speak about the
// hosts the proxy knows at that moment, which the driver cannot see (a refresh may or may not have run in between), so
// the driver only rushes when the guards hold whatever the proxy knows: the control connection is not taken away while
// an unlisted node is still running (the proxy could fail over to it and keep it), and a node is only taken away when
// another listed, running node was already confirmed to receive requests.  Otherwise it waits for convergence first.
func rushAllowed(cur, next topoStep, lastSettled []string) bool {
	in := func(xs []string, x string) bool {
		for _, y := range xs {
			if y == x {
				return true
			}
		}
		return false
	}
	switch next.A {
	case "dropctrl", "dropall", "remove", "stop", "restart", "mute":
		for _, h := range cur.Up {
			if !in(cur.Listed, h) {
				return false
			}
		}
	}
	switch next.A {
	case "remove", "unlist", "stop":
		ok := false
		for _, h := range lastSettled {
			if h != next.H && in(cur.Listed, h) && in(cur.Up, h) {
				ok = true
			}
		}
		if !ok {
			return false
		}
	}
	return true
}

func runTopoBehaviour(beh []topoStep, res *topoResult, base, max time.Duration, budget time.Duration) error {
	t := tracer.New()
	e, err := env.Start(env.Options{Nodes: beh[0].N, NumConns: 1, Hooks: true, Tracer: t, Keyspaces: []string{"ks"},
		RefreshWindow: 100 * time.Millisecond, ReconnectBase: base, ReconnectMax: max,
		HeartBeat: 150 * time.Millisecond, Idle: 600 * time.Millisecond, ConnectTimeout: 400 * time.Millisecond})
	if err != nil {
		return err
	}
	defer e.Close()
	tr := &topoRun{e: e, ip: map[string]string{}, name: map[string]string{}}
	for i := 1; i <= 4; i++ {
		h := fmt.Sprintf("h%d", i)
		ip := fakecql.IP(env.Block(), i)
		tr.ip[h] = ip
		tr.name[ip] = h
	}
	c, err := e.StartedClient(primitive.ProtocolVersion4, "")
	if err != nil {
		return err
	}
	tr.c = c
	stopHammer := make(chan struct{})
	var hwg sync.WaitGroup
	for k := 0; k < topoHammer; k++ {
		hc, err := e.StartedClient(primitive.ProtocolVersion4, "")
		if err != nil {
			return err
		}
		hc.Quiet = true
		hwg.Add(1)
		go func(k int, hc *cqlclient.Client) {
			defer hwg.Done()
			var seq int16
			for n := 0; ; n++ {
				select {
				case <-stopHammer:
					return
				default:
				}
				seq = (seq + 1) % 2000
				tok := fmt.Sprintf("tokhm%dx%d;", k, n)
				// forwarded requests, and requests the proxy answers from what it knows about the cluster (OPTIONS, reads of the
				// virtual system tables): that knowledge is refreshed by the cluster loop while these read it
				switch n % 4 {
				case 1:
					_, _ = hc.Roundtrip(frame.NewFrame(hc.Version, seq, &message.Options{}), "", "hammer", time.Second)
				case 2:
					_, _ = hc.Roundtrip(newQueryFrame(hc.Version, seq, "SELECT * FROM system.local"), "", "hammer", time.Second)
				case 3:
					_, _ = hc.Roundtrip(newQueryFrame(hc.Version, seq, "SELECT peer, data_center, release_version FROM system.peers"), "", "hammer", time.Second)
				default:
					_, _ = hc.Roundtrip(newQueryFrame(hc.Version, seq, fmt.Sprintf("SELECT * FROM ks.t WHERE k = '%s'", tok)), tok, "hammer", time.Second)
				}
			}
		}(k, hc)
	}
	defer func() { close(stopHammer); hwg.Wait() }()
	// the hosts confirmed to receive requests at the last convergence check: the proxy certainly knows them
	var lastSettled []string
	for i, st := range beh {
		if st.A != "init" {
			tr.apply(st)
			if len(tr.idleNotEnforced) > 0 {
				res.Mismatches = append(res.Mismatches, topoMismatch{Behaviour: beh, Step: i, Kind: "idle", Note: strings.Join(tr.idleNotEnforced, "; ")})
				break
			}
		} else {
			for k := 1; k <= st.N; k++ {
				st.Routed = append(st.Routed, fmt.Sprintf("h%d", k))
			}
		}
		res.Steps++
		if i+1 < len(beh) && beh[i+1].Mode != "settled" && beh[i+1].Mode != "" && rushAllowed(st, beh[i+1], lastSettled) {
			// the specification applies the next fault before the proxy has digested this one
			if beh[i+1].Mode == "pending" {
				time.Sleep(30 * time.Millisecond) // the event has been received, the refresh window (100 ms) is open
			}
			res.Rushed++
			continue
		}
		// bounded wait for convergence: routing set, control connection, outage
		start := time.Now()
		var got map[string]bool
		ok := false
		var outage time.Duration
		for time.Since(start) < budget {
			time.Sleep(120 * time.Millisecond)
			got = tr.probe(3 * (len(st.Routed) + 1))
			res.Probes++
			outage = e.P.OutageDuration()
			if setEq(got, st.Routed) && outage == 0 && e.C.ControlConn() != nil {
				// must stay converged: probe once more
				got2 := tr.probe(3 * (len(st.Routed) + 1))
				if setEq(got2, st.Routed) {
					ok = true
					lastSettled = st.Routed
					// routing can converge before a scheduled refresh has run (a stopped node drops out by itself):
					// let the refresh window pass so that the next fault really meets a settled proxy
					time.Sleep(150 * time.Millisecond)
					break
				}
			}
		}
		if ms := time.Since(start).Milliseconds(); ok && ms > res.MaxConvMs {
			res.MaxConvMs = ms
		}
		if !ok {
			kind := "routing"
			note := ""
			if setEq(got, st.Routed) {
				kind = "outage"
				note = fmt.Sprintf("outage=%v control=%v", outage, e.C.ControlConn() != nil)
			}
			res.Mismatches = append(res.Mismatches, topoMismatch{Behaviour: beh, Step: i, Kind: kind, Want: st.Routed, Got: keys(got), Note: note})
			break
		}
	}
	// reconnect delays observed through the hooks
	seq := map[string]int{}
	open := map[string]int{} // slot -> index in res.Delays of its delay still waiting for the slot's next step
	openTs := map[string]int64{}
	closeWait := func(k string, ts int64) {
		if i, ok := open[k]; ok {
			res.Delays[i].WaitedNs = ts - openTs[k]
			delete(open, k)
		}
	}
	if topoTrace != "" {
		// the reconnect events of this behaviour, for validation against Pool.tla
		var out []tracer.Event
		out = append(out, tracer.Event{"ev": "Reset"})
		for _, ev := range t.Events() {
			switch ev["ev"] {
			case "H.delay", "H.slotfill", "H.slotclear", "H.outage":
				out = append(out, ev)
			}
		}
		if err := tracer.WriteNDJSON(topoTrace, out, topoTraceAppend); err != nil {
			return err
		}
		topoTraceAppend = true
	}
	for _, ev := range t.Events() {
		ts, _ := ev["ts"].(int64)
		switch ev["ev"] {
		case "H.delay":
			k := fmt.Sprint(ev["who"], ev["host"], ev["idx"])
			closeWait(k, ts)
			res.Delays = append(res.Delays, topoDelay{Who: ev["who"].(string), Host: ev["host"].(string), Ns: ev["ns"].(int64), Seq: seq[k]})
			open[k], openTs[k] = len(res.Delays)-1, ts
			seq[k]++
		case "H.slotfill":
			closeWait(fmt.Sprint("pool", ev["host"], ev["idx"]), ts)
			for k := range seq {
				if strings.Contains(k, ev["host"].(string)) {
					seq[k] = 0
				}
			}
		case "H.outage":
			if z, _ := ev["zero"].(bool); z {
				closeWait(fmt.Sprint("ctrl", "", 0), ts)
			}
		}
	}
	return nil
}

// allDown: every node goes away: the outage duration must become non-zero and grow; when the nodes return
// the control connection is re-established and the outage returns to zero.
func runAllDown(res *topoResult) error {
	t := tracer.New()
	e, err := env.Start(env.Options{Nodes: 2, NumConns: 1, Hooks: true, Tracer: t, Keyspaces: []string{"ks"},
		RefreshWindow: 100 * time.Millisecond, ReconnectBase: time.Millisecond, ReconnectMax: 20 * time.Millisecond, ConnectTimeout: 300 * time.Millisecond})
	if err != nil {
		return err
	}
	defer e.Close()
	out := map[string]interface{}{}
	out["before"] = e.P.OutageDuration().Nanoseconds()
	for _, ip := range e.IPs {
		e.C.StopNode(ip)
	}
	time.Sleep(400 * time.Millisecond)
	d1 := e.P.OutageDuration()
	time.Sleep(300 * time.Millisecond)
	d2 := e.P.OutageDuration()
	out["down_1"], out["down_2"] = d1.Nanoseconds(), d2.Nanoseconds()
	for _, ip := range e.IPs {
		_ = e.C.AddNode(ip)
	}
	deadline := time.Now().Add(5 * time.Second)
	healed := false
	for time.Now().Before(deadline) {
		if e.C.ControlConn() != nil && e.P.OutageDuration() == 0 {
			healed = true
			break
		}
		time.Sleep(50 * time.Millisecond)
	}
	out["healed"] = healed
	out["after"] = e.P.OutageDuration().Nanoseconds()
	res.AllDown = out
	return nil
}

type backoffRow struct {
	Base, Max, Attempt, Lo, Hi, Floor int64
}

// backoff replays the rows of Backoff.tla into proxycore.NewReconnectPolicyWithDelays.
func init() {
	register("backoff", func(args []string) error {
		fs := flag.NewFlagSet("backoff", flag.ExitOnError)
		in := fs.String("in", "", "rows (JSON lines)")
		out := fs.String("out", "-", "result")
		_ = fs.Parse(args)
		type mm struct {
			Row  backoffRow `json:"row"`
			Got  int64      `json:"got_ns"`
			What string     `json:"what"`
		}
		type resT struct {
			Rows       int  `json:"rows"`
			Calls      int  `json:"calls"`
			Mismatches []mm `json:"mismatches"`
		}
		res := &resT{}
		err := readJSONLines(*in, func(line []byte) error {
			var r backoffRow
			if err := json.Unmarshal(line, &r); err != nil {
				return err
			}
			res.Rows++
			ms := int64(time.Millisecond)
			for rep := 0; rep < 20; rep++ {
				p := proxycore.NewReconnectPolicyWithDelays(time.Duration(r.Base*ms), time.Duration(r.Max*ms)).Clone()
				var d time.Duration
				for a := int64(0); a <= r.Attempt; a++ {
					d = p.NextDelay()
					res.Calls++
				}
				g := int64(d)
				what := ""
				switch {
				case g < r.Floor*ms || g > r.Max*ms:
					what = "delay outside [min(base,max), max]"
				case !(g >= r.Lo*ms && g < (r.Hi+1)*ms) && g != r.Max*ms:
					what = "delay is neither base + 2^attempt ms + jitter nor the maximum"
				}
				if what == "" {
					p.Reset()
					g0 := int64(p.NextDelay())
					lo0 := r.Base + 1 + 85
					if !(g0 >= lo0*ms && g0 < (r.Base+1+115)*ms) && g0 != r.Max*ms {
						what = "first delay after Reset is not the attempt-0 delay"
						g = g0
					}
				}
				if what != "" {
					if len(res.Mismatches) < 50 {
						res.Mismatches = append(res.Mismatches, mm{Row: r, Got: g, What: what})
					}
					break
				}
			}
			return nil
		})
		if err != nil {
			return err
		}
		return writeJSON(*out, res)
	})
}

func init() {
	register("topo", func(args []string) error {
		fs := flag.NewFlagSet("topo", flag.ExitOnError)
		in := fs.String("in", "", "behaviours (JSON lines)")
		out := fs.String("out", "-", "result")
		baseMs := fs.Int("base", 5, "reconnect base delay (ms)")
		maxMs := fs.Int("max", 60, "reconnect max delay (ms)")
		budget := fs.Int("budget", 6000, "convergence budget per step (ms)")
		fs.StringVar(&topoTrace, "trace", "", "write the reconnect events of every behaviour to this file")
		fs.IntVar(&topoHammer, "hammer", 0, "concurrent clients issuing requests while faults are applied")
		_ = fs.Parse(args)
		res := &topoResult{BaseNs: int64(*baseMs) * 1e6, MaxNs: int64(*maxMs) * 1e6}
		err := readJSONLines(*in, func(line []byte) error {
			var beh []topoStep
			if err := json.Unmarshal(line, &beh); err != nil {
				return err
			}
			res.Behaviours++
			if len(res.Samples) < 3 {
				res.Samples = append(res.Samples, beh)
			}
			return runTopoBehaviour(beh, res, time.Duration(*baseMs)*time.Millisecond, time.Duration(*maxMs)*time.Millisecond, time.Duration(*budget)*time.Millisecond)
		})
		if err != nil {
			return err
		}
		if err := runAllDown(res); err != nil {
			return err
		}
		_ = proxycore.MaxStreams
		return writeJSON(*out, res)
	})
}

type frameT = frame.Frame

func frameNew(v primitive.ProtocolVersion, stream int16, m message.Message) *frame.Frame {
	return frame.NewFrame(v, stream, m)
}
