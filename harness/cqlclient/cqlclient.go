// Package cqlclient is a raw scripted CQL client: it writes frames built with the reference
// codec (or arbitrary bytes), never stops reading, and logs every frame it receives.
package cqlclient

import (
	"bytes"
	"crypto/sha256"
	"crypto/tls"
	"encoding/binary"
	"encoding/hex"
	"errors"
	"fmt"
	"net"
	"regexp"
	"strings"
	"sync"
	"sync/atomic"
	"time"

	"verif/fakecql"
	"verif/tracer"

	"github.com/datastax/go-cassandra-native-protocol/compression/lz4"
	"github.com/datastax/go-cassandra-native-protocol/compression/snappy"
	"github.com/datastax/go-cassandra-native-protocol/frame"
	"github.com/datastax/go-cassandra-native-protocol/message"
	"github.com/datastax/go-cassandra-native-protocol/primitive"
)

// Recv is one frame received from the proxy.
type Recv struct {
	Header      frame.Header
	WireBody    []byte
	Body        []byte // decompressed
	Kind        string // ok, void, setks, prepared, schema, event, ready, supported, auth*, or an error kind
	ErrCode     int
	ErrMsg      string
	Token       string
	Node        string
	Frame       *frame.Frame // decoded with the reference codec (nil if undecodable)
	DecodeOK    bool
	At          time.Time
	SetKeyspace string
}

func truncate(s string, n int) string {
	if len(s) > n {
		return s[:n]
	}
	return s
}

type Client struct {
	ID      int
	T       *tracer.Tracer
	Version primitive.ProtocolVersion
	SplitAt int // > 0: SendBytes writes a frame in two pieces, the first SplitAt bytes long

	nc         net.Conn
	wmu        sync.Mutex
	mu         sync.Mutex
	cond       *sync.Cond
	codec      frame.RawCodec
	compressor frame.BodyCompressor
	recvd      []*Recv
	closed     bool
	closedCh   chan struct{}
	Quiet      bool // do not log to the tracer
	LocalAddr  string
	CompName   string
	resumeAt   int64
}

var rawHeaderCodec = frame.NewRawCodec()

// MaxBody is the largest frame body a client of this harness accepts (the largest any driver sends is 16 MiB).
var MaxBody int32 = 64 << 20

var nodeRe = regexp.MustCompile(`127\.0\.\d+\.\d+`)

func Dial(addr string, id int, t *tracer.Tracer) (*Client, error) {
	nc, err := net.DialTimeout("tcp", addr, 5*time.Second)
	if err != nil {
		return nil, err
	}
	if tc, ok := nc.(*net.TCPConn); ok {
		tc.SetNoDelay(true)
	}
	c := &Client{ID: id, T: t, nc: nc, codec: frame.NewRawCodec(), Version: primitive.ProtocolVersion4, closedCh: make(chan struct{}), LocalAddr: nc.LocalAddr().String()}
	c.cond = sync.NewCond(&c.mu)
	go c.read()
	return c, nil
}

// DialTLS is Dial over TLS; the handshake must complete within `handshake`.
func DialTLS(addr string, id int, t *tracer.Tracer, cfg *tls.Config, handshake time.Duration) (*Client, error) {
	raw, err := net.DialTimeout("tcp", addr, 5*time.Second)
	if err != nil {
		return nil, err
	}
	if tc, ok := raw.(*net.TCPConn); ok {
		tc.SetNoDelay(true)
	}
	nc := tls.Client(raw, cfg)
	_ = raw.SetDeadline(time.Now().Add(handshake))
	if err := nc.Handshake(); err != nil {
		raw.Close()
		return nil, fmt.Errorf("tls handshake: %w", err)
	}
	_ = raw.SetDeadline(time.Time{})
	c := &Client{ID: id, T: t, nc: nc, codec: frame.NewRawCodec(), Version: primitive.ProtocolVersion4, closedCh: make(chan struct{}), LocalAddr: raw.LocalAddr().String()}
	c.cond = sync.NewCond(&c.mu)
	go c.read()
	return c, nil
}

func (c *Client) emit(ev string, kv ...interface{}) {
	if !c.Quiet {
		c.T.Emit(ev, kv...)
	}
}

var errNames = map[int]string{
	0x0000: "srverr", 0x000A: "protoerr", 0x0100: "autherr", 0x1000: "unavail", 0x1001: "overloaded",
	0x1002: "boot", 0x1003: "truncate", 0x1100: "wt", 0x1200: "rt", 0x1300: "rfail", 0x1400: "funcfail",
	0x1500: "wfail", 0x1600: "funcfail", 0x2000: "syntax", 0x2100: "unauthorized", 0x2200: "invalid", 0x2300: "configerr",
	0x2400: "alreadyexists", 0x2500: "unprepared",
}

func (c *Client) sessTag() string {
	c.mu.Lock()
	defer c.mu.Unlock()
	return fmt.Sprintf("%d|%s", int(c.Version), c.CompName)
}

func (c *Client) setCompression(name string) {
	c.CompName = strings.ToLower(name)
	switch strings.ToLower(name) {
	case "lz4":
		c.compressor = lz4.Compressor{}
		c.codec = frame.NewRawCodecWithCompression(lz4.Compressor{})
	case "snappy":
		c.compressor = snappy.Compressor{}
		c.codec = frame.NewRawCodecWithCompression(snappy.Compressor{})
	}
}

// PauseReads makes the client stop reading from its socket for d (a slow consumer: what the peer sends piles up in
// the socket buffers and then in the peer).
func (c *Client) PauseReads(d time.Duration) {
	atomic.StoreInt64(&c.resumeAt, time.Now().Add(d).UnixNano())
}

func (c *Client) read() {
	for {
		for time.Now().UnixNano() < atomic.LoadInt64(&c.resumeAt) {
			time.Sleep(5 * time.Millisecond)
		}
		// header decoding does not depend on the compression codec
		var raw *frame.RawFrame
		hdr, err := rawHeaderCodec.DecodeHeader(c.nc)
		if err == nil && (hdr.BodyLength < 0 || hdr.BodyLength > MaxBody) {
			// not a frame any peer of this harness sends: the connection has lost its framing (reading on would allocate
			// what the bogus header announces)
			c.emit("ClientGarbage", "c", c.ID, "stream", int(hdr.StreamId), "len", int(hdr.BodyLength), "op", hdr.OpCode.String())
			c.nc.Close()
			err = fmt.Errorf("frame of %d bytes announced", hdr.BodyLength)
		}
		if err == nil {
			var body []byte
			body, err = rawHeaderCodec.DecodeRawBody(hdr, c.nc)
			raw = &frame.RawFrame{Header: hdr, Body: body}
		}
		if err != nil {
			c.mu.Lock()
			c.closed = true
			c.cond.Broadcast()
			c.mu.Unlock()
			select {
			case <-c.closedCh:
			default:
				close(c.closedCh)
			}
			c.emit("ClientClosed", "c", c.ID)
			return
		}
		r := &Recv{Header: *raw.Header, WireBody: raw.Body, Body: raw.Body, At: time.Now()}
		c.mu.Lock()
		comp := c.compressor
		codec := c.codec
		c.mu.Unlock()
		if raw.Header.Flags.Contains(primitive.HeaderFlagCompressed) && comp != nil {
			var buf bytes.Buffer
			if err := comp.DecompressWithLength(bytes.NewReader(raw.Body), &buf); err == nil {
				r.Body = buf.Bytes()
			}
		}
		if frm, err := codec.ConvertFromRawFrame(raw); err == nil {
			r.Frame = frm
			r.DecodeOK = true
		}
		classify(r)
		c.emit("ClientRecv", "c", c.ID, "stream", int(r.Header.StreamId), "op", r.Header.OpCode.String(), "kind", r.Kind,
			"t", r.Token, "node", r.Node, "ver", int(r.Header.Version), "h", Hash(r.Header.Flags, r.Header.OpCode, r.Body),
			"msg", truncate(r.ErrMsg, 160), "setks", r.SetKeyspace)
		c.mu.Lock()
		c.recvd = append(c.recvd, r)
		c.cond.Broadcast()
		c.mu.Unlock()
	}
}

// Hash identifies (flags, opcode, decompressed body) of a frame.
func Hash(flags primitive.HeaderFlag, op primitive.OpCode, body []byte) string {
	h := sha256.New()
	h.Write([]byte{byte(flags &^ primitive.HeaderFlagCompressed), byte(op)})
	h.Write(body)
	return hex.EncodeToString(h.Sum(nil))[:16]
}

func classify(r *Recv) {
	if t := fakecql.TokenRe.Find(r.Body); t != nil {
		r.Token = string(t)
	}
	switch r.Header.OpCode {
	case primitive.OpCodeError:
		r.Kind = "error"
		body := r.Body
		// skip tracing id / warnings / payload if flagged (the proxy never sets them on its own errors)
		if r.Frame != nil {
			if e, ok := r.Frame.Body.Message.(message.Error); ok {
				r.ErrCode = int(e.GetErrorCode())
				r.ErrMsg = e.GetErrorMessage()
			}
		} else if len(body) >= 4 {
			r.ErrCode = int(binary.BigEndian.Uint32(body))
		}
		if n, ok := errNames[r.ErrCode]; ok {
			r.Kind = n
		}
		if r.Kind == "srverr" {
			switch {
			case strings.Contains(r.ErrMsg, "exhausted query plan"):
				r.Kind = "nohosts"
			case strings.Contains(r.ErrMsg, "unable to retry non-idempotent"):
				r.Kind = "connclosed"
			}
		}
	case primitive.OpCodeResult:
		r.Kind = "result"
		if r.Frame != nil {
			switch r.Frame.Body.Message.(type) {
			case *message.RowsResult:
				r.Kind = "ok"
				if n := nodeRe.Find(r.Body); n != nil {
					r.Node = string(n)
				}
			case *message.VoidResult:
				r.Kind = "void"
			case *message.SetKeyspaceResult:
				r.Kind = "setks"
				r.SetKeyspace = r.Frame.Body.Message.(*message.SetKeyspaceResult).Keyspace
			case *message.PreparedResult:
				r.Kind = "prepared"
			case *message.SchemaChangeResult:
				r.Kind = "schema"
			}
		}
	case primitive.OpCodeEvent:
		r.Kind = "event"
	case primitive.OpCodeReady:
		r.Kind = "ready"
	case primitive.OpCodeSupported:
		r.Kind = "supported"
	case primitive.OpCodeAuthenticate:
		r.Kind = "authenticate"
	default:
		r.Kind = strings.ToLower(r.Header.OpCode.String())
	}
}

// Send encodes frm with the client's codec and writes it. tok/class are logged only.
func (c *Client) Send(frm *frame.Frame, tok, class string) error {
	var buf bytes.Buffer
	c.mu.Lock()
	codec := c.codec
	c.mu.Unlock()
	if err := codec.EncodeFrame(frm, &buf); err != nil {
		return err
	}
	return c.SendBytes(buf.Bytes(), int(frm.Header.StreamId), frm.Header.OpCode.String(), tok, class)
}

// SendBytes writes raw bytes; the event is logged before the write.
func (c *Client) SendBytes(b []byte, stream int, op, tok, class string) error {
	c.wmu.Lock()
	defer c.wmu.Unlock()
	c.emit("ClientSend", "c", c.ID, "caddr", c.LocalAddr, "stream", stream, "op", op, "t", tok, "class", class,
		"sess", c.sessTag())
	if k := c.SplitAt; k > 0 && k < len(b) {
		// the frame travels in two TCP segments, the cut inside its header
		if _, err := c.nc.Write(b[:k]); err != nil {
			return err
		}
		time.Sleep(3 * time.Millisecond)
		_, err := c.nc.Write(b[k:])
		return err
	}
	_, err := c.nc.Write(b)
	return err
}

// SendMany encodes the frames and hands them to the socket in ONE write (the peer's reader finds them back to back);
// one ClientSend event per frame is logged before the write.
func (c *Client) SendMany(frms []*frame.Frame, toks, classes []string) error {
	var all bytes.Buffer
	c.mu.Lock()
	codec := c.codec
	c.mu.Unlock()
	for _, frm := range frms {
		if err := codec.EncodeFrame(frm, &all); err != nil {
			return err
		}
	}
	c.wmu.Lock()
	defer c.wmu.Unlock()
	for i, frm := range frms {
		c.emit("ClientSend", "c", c.ID, "caddr", c.LocalAddr, "stream", int(frm.Header.StreamId), "op", frm.Header.OpCode.String(), "t", toks[i],
			"class", classes[i], "sess", c.sessTag())
	}
	_, err := c.nc.Write(all.Bytes())
	return err
}

// Encode returns the wire bytes of frm under the client's codec.
func (c *Client) Encode(frm *frame.Frame) ([]byte, error) {
	var buf bytes.Buffer
	c.mu.Lock()
	codec := c.codec
	c.mu.Unlock()
	err := codec.EncodeFrame(frm, &buf)
	return buf.Bytes(), err
}

// Received returns a snapshot of all frames received so far.
func (c *Client) Received() []*Recv {
	c.mu.Lock()
	defer c.mu.Unlock()
	out := make([]*Recv, len(c.recvd))
	copy(out, c.recvd)
	return out
}

func (c *Client) Count() int {
	c.mu.Lock()
	defer c.mu.Unlock()
	return len(c.recvd)
}

// WaitCount waits until at least n frames have been received (or the connection closed).
func (c *Client) WaitCount(n int, timeout time.Duration) bool {
	deadline := time.Now().Add(timeout)
	c.mu.Lock()
	defer c.mu.Unlock()
	for len(c.recvd) < n && !c.closed {
		rem := time.Until(deadline)
		if rem <= 0 {
			return false
		}
		t := time.AfterFunc(rem, func() { c.mu.Lock(); c.cond.Broadcast(); c.mu.Unlock() })
		c.cond.Wait()
		t.Stop()
	}
	return len(c.recvd) >= n
}

// WaitStream waits for the first frame on `stream` at or after index `from`.
func (c *Client) WaitStream(stream int16, from int, timeout time.Duration) *Recv {
	deadline := time.Now().Add(timeout)
	c.mu.Lock()
	defer c.mu.Unlock()
	for {
		for i := from; i < len(c.recvd); i++ {
			if c.recvd[i].Header.StreamId == stream {
				return c.recvd[i]
			}
		}
		if c.closed {
			return nil
		}
		rem := time.Until(deadline)
		if rem <= 0 {
			return nil
		}
		t := time.AfterFunc(rem, func() { c.mu.Lock(); c.cond.Broadcast(); c.mu.Unlock() })
		c.cond.Wait()
		t.Stop()
	}
}

func (c *Client) IsClosed() bool {
	c.mu.Lock()
	defer c.mu.Unlock()
	return c.closed
}

func (c *Client) Close() {
	c.emit("ClientClose", "c", c.ID)
	c.nc.Close()
}

// Startup performs OPTIONS-less STARTUP with the given version and compression ("" = none).
func (c *Client) Startup(version primitive.ProtocolVersion, compression string) error {
	c.mu.Lock()
	c.Version = version
	c.mu.Unlock()
	var st *message.Startup
	if compression != "" {
		st = message.NewStartup("COMPRESSION", compression)
	} else {
		st = message.NewStartup()
	}
	from := c.Count()
	if err := c.Send(frame.NewFrame(version, 0, st), "", "startup"); err != nil {
		return err
	}
	r := c.WaitStream(0, from, 10*time.Second)
	if r == nil {
		return errors.New("no reply to STARTUP")
	}
	if r.Kind != "ready" {
		return fmt.Errorf("STARTUP answered with %s %s", r.Kind, r.ErrMsg)
	}
	c.mu.Lock()
	c.setCompression(compression)
	c.mu.Unlock()
	return nil
}

// SetCompression switches the client codec without a handshake (for scripted sequences).
func (c *Client) SetCompression(name string) {
	c.mu.Lock()
	c.setCompression(name)
	c.mu.Unlock()
}

// Query sends a QUERY frame. If the client negotiated compression the frame is compressed.
func (c *Client) Query(stream int16, q string, cl primitive.ConsistencyLevel, tok, class string) error {
	frm := frame.NewFrame(c.Version, stream, &message.Query{Query: q, Options: &message.QueryOptions{Consistency: cl}})
	c.mu.Lock()
	if c.compressor != nil {
		frm.SetCompress(true)
	}
	c.mu.Unlock()
	return c.Send(frm, tok, class)
}

// Roundtrip sends frm and waits for the reply on its stream.
func (c *Client) Roundtrip(frm *frame.Frame, tok, class string, timeout time.Duration) (*Recv, error) {
	from := c.Count()
	c.mu.Lock()
	if c.compressor != nil {
		frm.SetCompress(true)
	}
	c.mu.Unlock()
	if err := c.Send(frm, tok, class); err != nil {
		return nil, err
	}
	r := c.WaitStream(frm.Header.StreamId, from, timeout)
	if r == nil {
		return nil, fmt.Errorf("no reply on stream %d", frm.Header.StreamId)
	}
	return r, nil
}
