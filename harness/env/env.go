// Package env starts the real proxy in-process against a fakecql cluster and wires the
// verification hooks of /repo (build tag verif) into the tracer.
package env

import (
	"context"
	"fmt"
	"net"
	"os"
	"strings"
	"sync"
	"sync/atomic"
	"time"

	"verif/cqlclient"
	"verif/fakecql"
	"verif/tracer"

	"github.com/datastax/cql-proxy/proxy"
	"github.com/datastax/cql-proxy/proxycore"
	"github.com/datastax/go-cassandra-native-protocol/primitive"
)

type Options struct {
	Nodes             int
	NumConns          int
	Version           primitive.ProtocolVersion
	MaxVersion        primitive.ProtocolVersion
	ClusterMaxVersion primitive.ProtocolVersion
	IdempotentGraph   bool
	ReconnectBase     time.Duration
	ReconnectMax      time.Duration
	HeartBeat         time.Duration
	Idle              time.Duration
	ConnectTimeout    time.Duration
	Unsupported       []string
	Override          string
	RPCAddr           string
	DC                string
	Tokens            []string
	Peers             []proxy.PeerConfig
	Keyspaces         []string
	DSE               string
	Hooks             bool
	Tracer            *tracer.Tracer
	Cluster           *fakecql.Cluster // reuse an existing cluster (several proxies, one backend)
	PreparedCache     proxycore.PreparedCache
	ListenIP          string
	RefreshWindow     time.Duration
	BackendAuth       string // "" | "password" | "dse": the backend demands authentication, the proxy is given the credentials
	Contact           string // contact point of the proxy (default: the first node of the cluster)
}

type Env struct {
	T      *tracer.Tracer
	C      *fakecql.Cluster
	P      *proxy.Proxy
	Addr   string
	IPs    []string
	Sink   *Sink
	cancel context.CancelFunc
	ln     net.Listener
	nextID int32
	ownC   bool
}

var blockOnce sync.Once
var block int

// Block returns the 127.0.<block>.x loopback block of this process.
func Block() int {
	blockOnce.Do(func() { block = 1 + os.Getpid()%250 })
	return block
}

var clusterSeq int32

func Start(o Options) (*Env, error) {
	if o.Nodes == 0 {
		o.Nodes = 3
	}
	if o.NumConns == 0 {
		o.NumConns = 1
	}
	if o.ReconnectBase == 0 {
		o.ReconnectBase = 1 * time.Millisecond
	}
	if o.ReconnectMax == 0 {
		o.ReconnectMax = 10 * time.Millisecond
	}
	if o.HeartBeat == 0 {
		o.HeartBeat = 30 * time.Second
	}
	if o.Idle == 0 {
		o.Idle = 60 * time.Second
	}
	if o.ConnectTimeout == 0 {
		o.ConnectTimeout = 5 * time.Second
	}
	t := o.Tracer
	if t == nil {
		t = tracer.New()
	}
	e := &Env{T: t}
	if o.Cluster != nil {
		e.C = o.Cluster
		for _, n := range e.C.Nodes() {
			e.IPs = append(e.IPs, n.IP)
		}
	} else {
		e.ownC = true
		e.C = fakecql.New(t)
		e.C.DSEVersion = o.DSE
		e.C.MaxVersion = o.ClusterMaxVersion
		if o.BackendAuth != "" {
			e.C.Auth, e.C.AuthUser, e.C.AuthPass = o.BackendAuth, "verif-user", "verif-pass"
		}
		e.C.AddKeyspace(o.Keyspaces...)
		// distinct third octet per cluster inside the process block is not needed: ports differ
		for i := 1; i <= o.Nodes; i++ {
			e.IPs = append(e.IPs, fakecql.IP(Block(), i))
		}
		if err := e.C.Start(e.IPs...); err != nil {
			return nil, err
		}
	}
	if os.Getenv("VERIF_NOHOOKS") == "1" {
		// race-detector runs: the hook sink serialises every hook point on one mutex, which orders all proxy
		// goroutines and hides unsynchronised accesses from the detector
		o.Hooks = false
	}
	if o.Hooks {
		e.Sink = NewSink(t)
		proxycore.SetVerifHook(e.Sink.Handle)
	} else {
		proxycore.SetVerifHook(nil)
	}
	proxycore.VerifRefreshWindow.Store(int64(o.RefreshWindow))
	ctx, cancel := context.WithCancel(context.Background())
	e.cancel = cancel
	cfg := proxy.Config{
		Version:           o.Version,
		MaxVersion:        o.MaxVersion,
		Resolver:          proxycore.NewResolverWithDefaultPort([]string{contactOf(o, e)}, e.C.Port),
		ReconnectPolicy:   proxycore.NewReconnectPolicyWithDelays(o.ReconnectBase, o.ReconnectMax),
		NumConns:          o.NumConns,
		HeartBeatInterval: o.HeartBeat,
		ConnectTimeout:    o.ConnectTimeout,
		IdleTimeout:       o.Idle,
		IdempotentGraph:   o.IdempotentGraph,
		RPCAddr:           o.RPCAddr,
		DC:                o.DC,
		Tokens:            o.Tokens,
		Peers:             o.Peers,
		PreparedCache:     o.PreparedCache,
	}
	if o.BackendAuth != "" {
		cfg.Auth = proxycore.NewPasswordAuth("verif-user", "verif-pass")
	}
	if len(o.Unsupported) > 0 || o.Override != "" {
		if err := proxy.VerifSetUnsupportedWriteConsistencies(&cfg, o.Unsupported, o.Override); err != nil {
			cancel()
			return nil, err
		}
	}
	e.P = proxy.NewProxy(ctx, cfg)
	if err := e.P.Connect(); err != nil {
		e.Close()
		return nil, fmt.Errorf("proxy connect: %w", err)
	}
	ip := o.ListenIP
	if ip == "" {
		ip = "127.0.0.1"
	}
	ln, err := net.Listen("tcp", ip+":0")
	if err != nil {
		e.Close()
		return nil, err
	}
	e.ln = ln
	e.Addr = ln.Addr().String()
	go e.P.Serve(ln)
	t.Emit("Ready", "hosts", e.HostKeys(), "numconns", o.NumConns)
	return e, nil
}

func contactOf(o Options, e *Env) string {
	if o.Contact != "" {
		return o.Contact
	}
	return e.IPs[0]
}

// HostKeys returns "ip:port" of every node the cluster was started with, sorted as the proxy sorts hosts.
func (e *Env) HostKeys() []string {
	var out []string
	for _, ip := range e.IPs {
		out = append(out, e.C.ContactPoint(ip))
	}
	return out
}

func (e *Env) Client() (*cqlclient.Client, error) {
	id := int(atomic.AddInt32(&e.nextID, 1))
	return cqlclient.Dial(e.Addr, id, e.T)
}

// StartedClient dials and performs STARTUP.
func (e *Env) StartedClient(version primitive.ProtocolVersion, compression string) (*cqlclient.Client, error) {
	c, err := e.Client()
	if err != nil {
		return nil, err
	}
	if err := c.Startup(version, compression); err != nil {
		c.Close()
		return nil, err
	}
	return c, nil
}

func (e *Env) Close() {
	if e.cancel != nil {
		e.cancel()
	}
	if e.P != nil {
		_ = e.P.Close()
	}
	if e.ln != nil {
		e.ln.Close()
	}
	if e.ownC && e.C != nil {
		e.C.Shutdown()
	}
	if e.Sink != nil {
		e.Sink.ReleaseAll()
	}
}

// ---------------------------------------------------------------------------- hook sink

// Sink receives the proxy's hook calls, turns the ones the trace specifications use into
// tracer events (identified by socket addresses, which the harness can join with its own
// events), and implements gates: a goroutine reaching a gated hook point parks until released.
type Sink struct {
	T       *tracer.Tracer
	mu      sync.Mutex
	pendMap map[interface{}]*proxycore.ClientConn // pendingRequests -> connection (from closing.set)
	repeat  map[string]int
	Spins   map[string]int // exec.iter count per request (client/stream)
	gates   []*Gate
	Counts  map[string]int
	Verbose bool
	// request objects seen so far: a (client, stream) pair is reused by later requests while an earlier request
	// on it may still be active inside the proxy, so hook events identify a request by its ordinal among the
	// requests created on that pair
	reqOrd  map[interface{}]int // keyed by the request object itself: keeps it alive, so its address is never reused
	reqSeen map[string]int
	poolOrd map[interface{}]int // pools by identity: several sessions have pools for the same host
}

type Gate struct {
	Point   string
	Pred    func(args []interface{}) bool
	ch      chan struct{}
	arrived chan struct{}
	once    sync.Once
	aonce   sync.Once
	Hits    int32
	OneShot bool
}

func NewSink(t *tracer.Tracer) *Sink {
	return &Sink{T: t, pendMap: map[interface{}]*proxycore.ClientConn{}, repeat: map[string]int{}, Spins: map[string]int{}, Counts: map[string]int{},
		reqOrd: map[interface{}]int{}, reqSeen: map[string]int{}, poolOrd: map[interface{}]int{}}
}

// AddGate parks every goroutine that reaches `point` with pred(args) true until Release.
func (s *Sink) AddGate(point string, pred func(args []interface{}) bool) *Gate {
	g := &Gate{Point: point, Pred: pred, ch: make(chan struct{}), arrived: make(chan struct{})}
	s.mu.Lock()
	s.gates = append(s.gates, g)
	s.mu.Unlock()
	return g
}

func (g *Gate) Release() { g.once.Do(func() { close(g.ch) }) }

// Arrived waits until some goroutine is parked at the gate.
func (g *Gate) Arrived(timeout time.Duration) bool {
	select {
	case <-g.arrived:
		return true
	case <-time.After(timeout):
		return false
	}
}

func (s *Sink) ReleaseAll() {
	s.mu.Lock()
	gs := s.gates
	s.gates = nil
	s.mu.Unlock()
	for _, g := range gs {
		g.Release()
	}
}

func unwrap(r interface{}) interface{} {
	if w, ok := r.(proxycore.Request); ok {
		if orig, wrapped := proxycore.VerifUnwrapRequest(w); wrapped {
			return orig
		}
	}
	return r
}

func hostOfConn(c *proxycore.ClientConn) (host, local string) {
	return proxycore.VerifConnInfo(c)
}

func (s *Sink) reqKey(r interface{}) (caddr string, stream int, ok bool) {
	ca, st, ok := proxy.VerifRequestInfo(r)
	return ca, int(st), ok
}

// reqOrdinal returns the 1-based ordinal of request object r among the requests created on its (client, stream).
func (s *Sink) poolOrdinal(p interface{}) int {
	s.mu.Lock()
	defer s.mu.Unlock()
	n, ok := s.poolOrd[p]
	if !ok {
		n = len(s.poolOrd) + 1
		s.poolOrd[p] = n
	}
	return n
}

func (s *Sink) reqOrdinal(r interface{}) int {
	r = unwrap(r)
	ca, st, ok := proxy.VerifRequestInfo(r)
	if !ok {
		return 0
	}
	s.mu.Lock()
	defer s.mu.Unlock()
	if o, ok := s.reqOrd[r]; ok {
		return o
	}
	k := fmt.Sprintf("%s|%d", ca, st)
	s.reqSeen[k]++
	s.reqOrd[r] = s.reqSeen[k]
	return s.reqSeen[k]
}

// limited rate-limits identical send-failure events of one request object: a request that
// spins in executeInternal(false) would otherwise flood the log. The counters of a request are
// reset whenever it starts an iteration that advances its query plan.
func (s *Sink) limited(req interface{}, key string) (int, bool) {
	k := fmt.Sprintf("%p|%s", req, key)
	s.mu.Lock()
	defer s.mu.Unlock()
	s.repeat[k]++
	n := s.repeat[k]
	return n, n <= 3
}

func (s *Sink) resetLimits(req interface{}) {
	p := fmt.Sprintf("%p|", req)
	s.mu.Lock()
	for k := range s.repeat {
		if strings.HasPrefix(k, p) {
			delete(s.repeat, k)
		}
	}
	s.mu.Unlock()
}

func (s *Sink) Handle(point string, args ...interface{}) {
	s.mu.Lock()
	s.Counts[point]++
	gates := s.gates
	s.mu.Unlock()
	switch point {
	case "closing.set":
		s.mu.Lock()
		s.pendMap[args[1]] = args[0].(*proxycore.ClientConn)
		s.mu.Unlock()
		host, local := hostOfConn(args[0].(*proxycore.ClientConn))
		s.T.Emit("H.closing", "host", host, "local", local)
	case "closing.notify":
		s.mu.Lock()
		c := s.pendMap[args[0]]
		s.mu.Unlock()
		if ca, st, ok := s.reqKey(args[1]); ok && c != nil {
			host, local := hostOfConn(c)
			s.T.Emit("H.onclose", "caddr", ca, "stream", st, "ord", s.reqOrdinal(args[1]), "host", host, "local", local)
		}
	case "send.noconn":
		if ca, st, ok := s.reqKey(args[2]); ok {
			host := args[1].(*proxycore.Host).Key()
			if n, emit := s.limited(unwrap(args[2]), "noconn|"+host); emit {
				s.T.Emit("H.sendfail", "caddr", ca, "stream", st, "ord", s.reqOrdinal(args[2]), "host", host, "why", "noconn", "n", n)
			}
		}
	case "pending.refuse":
		if ca, st, ok := s.reqKey(args[1]); ok {
			host, local := hostOfConn(args[0].(*proxycore.ClientConn))
			why := "closed"
			if err, _ := args[2].(error); err != nil && strings.Contains(err.Error(), "stream") {
				why = "streams"
			}
			if n, emit := s.limited(unwrap(args[1]), why+"|"+host); emit {
				s.T.Emit("H.sendfail", "caddr", ca, "stream", st, "ord", s.reqOrdinal(args[1]), "host", host, "local", local, "why", why, "n", n)
			}
		}
	case "send.wrote":
		if err, _ := args[3].(error); err != nil {
			if ca, st, ok := s.reqKey(args[2]); ok {
				host, local := hostOfConn(args[0].(*proxycore.ClientConn))
				if n, emit := s.limited(unwrap(args[2]), "write|"+host); emit {
					s.T.Emit("H.sendfail", "caddr", ca, "stream", st, "ord", s.reqOrdinal(args[2]), "host", host, "local", local, "why", "write", "n", n)
				}
			}
		}
	case "pending.store":
		if req, ok := args[2].(proxycore.Request); ok {
			if _, wrapped := proxycore.VerifUnwrapRequest(req); wrapped {
				if ca, st, ok := s.reqKey(req); ok {
					host, local := hostOfConn(args[0].(*proxycore.ClientConn))
					s.T.Emit("H.prepstore", "caddr", ca, "stream", st, "ord", s.reqOrdinal(req), "host", host, "local", local, "bstream", int(args[1].(int16)))
				}
			}
		}
	case "exec.iter":
		s.reqOrdinal(args[0])
		if next, _ := args[1].(bool); next {
			s.resetLimits(args[0])
		}
		if ca, st, ok := s.reqKey(args[0]); ok {
			s.mu.Lock()
			s.Spins[fmt.Sprint(ca, "/", st)]++
			s.mu.Unlock()
		}
	case "slot.delay":
		s.T.Emit("H.delay", "who", "pool", "host", proxycore.VerifPoolEndpoint(args[0]), "idx", args[1], "ns", int64(args[2].(time.Duration)), "pool", s.poolOrdinal(args[0]))
	case "ctrl.delay":
		s.T.Emit("H.delay", "who", "ctrl", "host", "", "idx", 0, "ns", int64(args[1].(time.Duration)))
	case "outage":
		s.T.Emit("H.outage", "zero", args[1])
	case "host.add":
		s.T.Emit("H.hostadd", "host", args[1].(*proxycore.Host).Key())
	case "host.remove":
		s.T.Emit("H.hostremove", "host", args[1].(*proxycore.Host).Key())
	case "slot.clear":
		s.T.Emit("H.slotclear", "host", proxycore.VerifPoolEndpoint(args[0]), "idx", args[1], "pool", s.poolOrdinal(args[0]))
	case "slot.fill":
		host, local := hostOfConn(args[2].(*proxycore.ClientConn))
		s.T.Emit("H.slotfill", "host", host, "idx", args[1], "local", local, "pool", s.poolOrdinal(args[0]))
	}
	for _, g := range gates {
		if g.Point == point && (g.Pred == nil || g.Pred(args)) {
			atomic.AddInt32(&g.Hits, 1)
			g.aonce.Do(func() { close(g.arrived) })
			<-g.ch
		}
	}
}

// MaxSpin returns the largest executeInternal iteration count of any request.
func (s *Sink) MaxSpin() (string, int) {
	s.mu.Lock()
	defer s.mu.Unlock()
	best, bk := 0, ""
	for k, v := range s.Spins {
		if v > best {
			best, bk = v, k
		}
	}
	return bk, best
}
