// Package fakecql is a scripted fake CQL backend cluster for the verification harness.
//
// It speaks the native protocol with the *reference* codecs of go-cassandra-native-protocol
// (never the proxy's partial codecs), listens on one loopback address per node with a shared
// port (what the proxy's default endpoint resolver needs), serves system.local / system.peers
// from the cluster's current membership, implements USE against a set of valid keyspaces,
// PREPARE/EXECUTE with a per-node prepared set that is forgotten on restart (so UNPREPARED is
// real), answers data requests according to a script, can drop connections, stop answering,
// emit EVENT frames on registered connections, and records everything it receives.
package fakecql

import (
	"bytes"
	"crypto/md5"
	"crypto/sha256"
	"encoding/hex"
	"errors"
	"fmt"
	"io"
	"net"
	"regexp"
	"sort"
	"strings"
	"sync"
	"sync/atomic"
	"time"

	"verif/tracer"

	"github.com/datastax/go-cassandra-native-protocol/compression/lz4"
	"github.com/datastax/go-cassandra-native-protocol/compression/snappy"
	"github.com/datastax/go-cassandra-native-protocol/datacodec"
	"github.com/datastax/go-cassandra-native-protocol/datatype"
	"github.com/datastax/go-cassandra-native-protocol/frame"
	"github.com/datastax/go-cassandra-native-protocol/message"
	"github.com/datastax/go-cassandra-native-protocol/primitive"
)

var TokenRe = regexp.MustCompile(`tok[0-9A-Za-z_]+;`)

// Outcome kinds understood by Respond.
const (
	OK          = "ok"
	RTSame      = "rt_same"  // read timeout: received >= blockFor, no data
	RTOther     = "rt_other" // read timeout that the default policy does not retry
	WTBatchLog  = "wt_batchlog"
	WTOther     = "wt_other"
	Unavailable = "unavail"
	Boot        = "boot"
	ServerErr   = "srverr"
	Overloaded  = "overloaded"
	Truncate    = "truncate"
	ReadFail    = "rfail"
	WriteFail   = "wfail"
	Unprepared  = "unprepared" // forced unprepared (normally produced by the prepared set)
	Invalid     = "invalid"
	Syntax      = "syntax"
	FuncFail    = "funcfail"
	Silent      = "silent"
	Drop        = "drop"
	RawReply    = "raw"
)

type Outcome struct {
	Kind  string
	Delay time.Duration
	Raw   []byte          // Kind == RawReply: bytes written verbatim
	Msg   message.Message // optional explicit message (overrides Kind)
	Flags primitive.HeaderFlag
	// Fields for timeouts etc. (zero values replaced by defaults)
	Received, BlockFor int32
	DataPresent        bool
	WriteType          primitive.WriteType
	Warnings           []string
	Payload            map[string][]byte
	Tracing            bool
	// RawErrorBody, when set on an uncompressed connection, is written as the body of an ERROR frame as it stands (an
	// error of the outcome's class that the protocol library used by the proxy cannot decode)
	RawErrorBody []byte
}

// Attempt is one request frame received by a node.
type Attempt struct {
	Node     *Node
	Conn     *Conn
	Header   frame.Header
	WireBody []byte // body bytes as received (compressed if the flag is set)
	Body     []byte // decompressed body bytes
	Frame    *frame.Frame
	Token    string
	N        int // 1-based attempt number for this token across the cluster
	Seq      int // per-connection receive sequence
}

type prepared struct {
	Query    string
	Keyspace string
	uses     int
}

type Cluster struct {
	Port       int
	T          *tracer.Tracer
	DSEVersion string
	MaxVersion primitive.ProtocolVersion // 0 = accept everything the library knows
	// BigEvery > 0: every BigEvery-th plain OK answer carries a blob of about 20 KiB (atomic).
	BigEvery int64
	okCount  int64
	// Auth "" | "password" | "dse": the nodes demand authentication (PasswordAuthenticator: token -> success;
	// DseAuthenticator: "PLAIN" -> challenge PLAIN-START -> token -> success) with AuthUser / AuthPass.
	Auth, AuthUser, AuthPass string
	// WidePrepared: the PREPARED result of a SELECT carries the metadata of 48 columns (a frame of a few KiB).
	WidePrepared bool
	// EvictAfter > 0: a node forgets a prepared statement after this many executions (atomic).
	EvictAfter int64
	// PeersDelay delays every answer to a read of system.peers (set and read atomically).
	PeersDelay time.Duration
	// Handshake, when set, sees every decoded frame before the default handling (backend personalities during the
	// connection handshake: version refusals, authentication exchanges, REGISTER answers); true = it has answered.
	Handshake func(cn *Conn, a *Attempt) bool
	Script    func(a *Attempt) Outcome
	// PrepareScript decides the outcome of PREPARE frames without a token (re-prepares); nil = ok
	PrepareScript func(a *Attempt) Outcome
	OnConn        func(c *Conn)
	// OptionsDelay, if set, returns how long the answer to an OPTIONS frame (a heartbeat) is held back
	OptionsDelay func(c *Conn) time.Duration
	SlowStart    time.Duration

	mu        sync.Mutex
	nodes     map[string]*Node
	keyspaces map[string]bool
	attempts  map[string]int
	connSeq   int
	log       []*Attempt
	KeepLog   bool
}

type Node struct {
	C      *Cluster
	IP     string
	DC     string
	HostID primitive.UUID

	mu         sync.Mutex
	ln         net.Listener
	conns      map[*Conn]struct{}
	prepared   map[string]prepared
	listed     bool
	up         bool
	muted      bool                      // the node reads but never answers (heartbeat silence)
	maxVer     primitive.ProtocolVersion // 0 = the cluster's MaxVersion
	shape      RowShape                  // how the other nodes' system.peers describe this node
	stallUntil int64                     // unix nanoseconds until which the node reads nothing from its connections
}

// StallThenDrop makes the node stop reading from its connections for d and then drops every data connection: what the
// proxy had queued for them and could not write goes down with them.
func (c *Cluster) StallThenDrop(ip string, d time.Duration) {
	n := c.Node(ip)
	if n == nil {
		return
	}
	atomic.StoreInt64(&n.stallUntil, time.Now().Add(d).UnixNano())
	go func() {
		time.Sleep(d)
		for _, cn := range n.Conns() {
			if !cn.Registered {
				cn.Close("stall-drop")
			}
		}
	}()
}

// RowShape is what the other nodes' system.peers say about a node: RPC "" (the node's address) | "wild4" | "wild6" |
// "null"; Peer "" (the node's address) | "other" (an address nobody listens on) | "null"; NullDC: data_center is null.
type RowShape struct {
	RPC    string
	Peer   string
	NullDC bool
}

// SetRowShape changes how the node appears in the peers tables of the others.
func (c *Cluster) SetRowShape(ip string, sh RowShape) {
	if n := c.Node(ip); n != nil {
		n.mu.Lock()
		n.shape = sh
		n.mu.Unlock()
	}
}

// SetNodeMaxVersion makes one node accept only protocol versions up to v (0 = follow the cluster), as a node
// restarted on an older release would.
func (c *Cluster) SetNodeMaxVersion(ip string, v primitive.ProtocolVersion) {
	if n := c.Node(ip); n != nil {
		n.mu.Lock()
		n.maxVer = v
		n.mu.Unlock()
	}
}

// SetListed adds a running node to / removes it from the peers table without touching its listener.
func (c *Cluster) SetListed(ip string, listed bool) {
	if n := c.Node(ip); n != nil {
		n.mu.Lock()
		n.listed = listed
		n.mu.Unlock()
	}
}

// Mute makes the node stop answering anything on its existing connections (sockets stay open).
func (c *Cluster) Mute(ip string, on bool) {
	if n := c.Node(ip); n != nil {
		n.mu.Lock()
		n.muted = on
		n.mu.Unlock()
	}
}

type Conn struct {
	ID          int
	N           *Node
	nc          net.Conn
	wmu         sync.Mutex
	codec       frame.RawCodec
	compressor  frame.BodyCompressor
	Version     primitive.ProtocolVersion
	Compression string
	Keyspace    string
	Registered  bool
	Started     bool
	Local       string
	seq         int
	closed      chan struct{}
	once        sync.Once
	emu         sync.Mutex // orders this connection's Recv/Reply events against its Drop event
	dead        bool
	authStep    int
	authComp    string
}

// emitIfOpen logs an event for this connection unless the connection has been dropped; no event
// of a connection is ever logged after its BackendDrop.
func (cn *Conn) emitIfOpen(ev string, kv ...interface{}) bool {
	cn.emu.Lock()
	defer cn.emu.Unlock()
	if cn.dead {
		return false
	}
	cn.N.C.T.Emit(ev, kv...)
	return true
}

func New(t *tracer.Tracer) *Cluster {
	return &Cluster{T: t, nodes: map[string]*Node{}, keyspaces: map[string]bool{}, attempts: map[string]int{}}
}

// IP returns the loopback address of node i (1-based): 127.0.<b>.<i>.
func IP(block, i int) string { return fmt.Sprintf("127.0.%d.%d", block, i) }

func (c *Cluster) AddKeyspace(names ...string) {
	c.mu.Lock()
	for _, n := range names {
		c.keyspaces[n] = true
	}
	c.mu.Unlock()
}

// Start binds the given node addresses on one shared free port.
func (c *Cluster) Start(ips ...string) error {
	for try := 0; try < 50; try++ {
		l, err := net.Listen("tcp", "127.0.0.1:0")
		if err != nil {
			return err
		}
		port := l.Addr().(*net.TCPAddr).Port
		l.Close()
		c.Port = port
		ok := true
		var started []*Node
		for _, ip := range ips {
			n, err := c.startNode(ip)
			if err != nil {
				ok = false
				break
			}
			started = append(started, n)
		}
		if ok {
			return nil
		}
		for _, n := range started {
			n.stop(false)
			c.mu.Lock()
			delete(c.nodes, n.IP)
			c.mu.Unlock()
		}
	}
	return errors.New("fakecql: no free port")
}

func hostID(ip string) primitive.UUID {
	h := md5.Sum([]byte("fakecql-host-" + ip))
	var u primitive.UUID
	copy(u[:], h[:])
	u[6] = (u[6] & 0x0f) | 0x40
	u[8] = (u[8] & 0x3f) | 0x80
	return u
}

func (c *Cluster) startNode(ip string) (*Node, error) {
	ln, err := net.Listen("tcp", fmt.Sprintf("%s:%d", ip, c.Port))
	if err != nil {
		return nil, err
	}
	c.mu.Lock()
	n := c.nodes[ip]
	if n == nil {
		n = &Node{C: c, IP: ip, DC: "dc1", HostID: hostID(ip), conns: map[*Conn]struct{}{}, prepared: map[string]prepared{}}
		c.nodes[ip] = n
	}
	c.mu.Unlock()
	n.mu.Lock()
	n.ln = ln
	n.up = true
	n.listed = true
	n.mu.Unlock()
	go n.accept(ln)
	return n, nil
}

// AddNode starts (or restarts) a node and lists it in system.peers.
func (c *Cluster) AddNode(ip string) error {
	c.T.Emit("NodeAdd", "host", ip)
	_, err := c.startNode(ip)
	return err
}

// RemoveNode unlists a node and shuts it down.
func (c *Cluster) RemoveNode(ip string) {
	c.T.Emit("NodeRemove", "host", ip)
	if n := c.Node(ip); n != nil {
		n.mu.Lock()
		n.listed = false
		n.mu.Unlock()
		n.stop(true)
	}
}

// StopNode shuts a node down but keeps it listed in system.peers (a node that is down).
func (c *Cluster) StopNode(ip string) {
	c.T.Emit("NodeStop", "host", ip)
	if n := c.Node(ip); n != nil {
		n.stop(true)
	}
}

// RestartNode drops every connection of the node and clears its prepared statements; the
// listener keeps running.
func (c *Cluster) RestartNode(ip string) {
	c.T.Emit("NodeRestart", "host", ip)
	if n := c.Node(ip); n != nil {
		n.mu.Lock()
		n.prepared = map[string]prepared{}
		conns := n.connList()
		n.mu.Unlock()
		for _, cn := range conns {
			cn.Close("restart")
		}
	}
}

// PrepareDirect registers a statement as prepared on every node without any PREPARE frame (a statement that was
// prepared by another client, or before the proxy started); returns its id.
func (c *Cluster) PrepareDirect(keyspace, query string) []byte {
	id := PreparedID(keyspace, query)
	for _, n := range c.Nodes() {
		n.mu.Lock()
		n.prepared[hex.EncodeToString(id)] = prepared{Query: query, Keyspace: keyspace}
		n.mu.Unlock()
		everPrepared.Store(hex.EncodeToString(id), query)
	}
	return id
}

// ForgetPrepared clears the prepared statements of a node without touching its connections.
func (c *Cluster) ForgetPrepared(ip string) {
	if n := c.Node(ip); n != nil {
		n.mu.Lock()
		n.prepared = map[string]prepared{}
		n.mu.Unlock()
	}
}

func (c *Cluster) Node(ip string) *Node {
	c.mu.Lock()
	defer c.mu.Unlock()
	return c.nodes[ip]
}

func (c *Cluster) Nodes() []*Node {
	c.mu.Lock()
	defer c.mu.Unlock()
	var out []*Node
	for _, n := range c.nodes {
		out = append(out, n)
	}
	sort.Slice(out, func(i, j int) bool { return out[i].IP < out[j].IP })
	return out
}

func (c *Cluster) Shutdown() {
	for _, n := range c.Nodes() {
		n.stop(true)
	}
}

func (c *Cluster) ContactPoint(ip string) string { return fmt.Sprintf("%s:%d", ip, c.Port) }

// Log returns the attempts recorded so far (KeepLog must be set).
func (c *Cluster) Log() []*Attempt {
	c.mu.Lock()
	defer c.mu.Unlock()
	out := make([]*Attempt, len(c.log))
	copy(out, c.log)
	return out
}

func (n *Node) connList() []*Conn {
	var out []*Conn
	for cn := range n.conns {
		out = append(out, cn)
	}
	return out
}

// Conns returns the open connections of the node.
func (n *Node) Conns() []*Conn {
	n.mu.Lock()
	defer n.mu.Unlock()
	return n.connList()
}

func (n *Node) Up() bool {
	n.mu.Lock()
	defer n.mu.Unlock()
	return n.up
}

func (n *Node) Listed() bool {
	n.mu.Lock()
	defer n.mu.Unlock()
	return n.listed
}

func (n *Node) HasPrepared(id []byte) bool {
	n.mu.Lock()
	defer n.mu.Unlock()
	_, ok := n.prepared[hex.EncodeToString(id)]
	return ok
}

// usePrepared is HasPrepared for an EXECUTE: with Cluster.EvictAfter = k > 0 a node forgets a statement after k
// executions (a node with a tiny prepared-statement cache), so re-preparations are frequent and concurrent.
func (n *Node) usePrepared(id []byte) bool {
	n.mu.Lock()
	defer n.mu.Unlock()
	key := hex.EncodeToString(id)
	p, ok := n.prepared[key]
	if !ok {
		return false
	}
	if k := int(atomic.LoadInt64(&n.C.EvictAfter)); k > 0 {
		p.uses++
		if p.uses > k {
			delete(n.prepared, key)
			return false
		}
		n.prepared[key] = p
	}
	return true
}

func (n *Node) stop(closeConns bool) {
	n.mu.Lock()
	ln := n.ln
	n.ln = nil
	n.up = false
	conns := n.connList()
	n.prepared = map[string]prepared{}
	n.mu.Unlock()
	if ln != nil {
		ln.Close()
	}
	if closeConns {
		for _, cn := range conns {
			cn.Close("stop")
		}
	}
}

func (n *Node) accept(ln net.Listener) {
	for {
		nc, err := ln.Accept()
		if err != nil {
			return
		}
		if tc, ok := nc.(*net.TCPConn); ok {
			tc.SetNoDelay(true)
		}
		n.C.mu.Lock()
		n.C.connSeq++
		id := n.C.connSeq
		n.C.mu.Unlock()
		cn := &Conn{ID: id, N: n, nc: nc, codec: frame.NewRawCodec(), Local: nc.RemoteAddr().String(), closed: make(chan struct{})}
		n.mu.Lock()
		if !n.up {
			n.mu.Unlock()
			nc.Close()
			continue
		}
		n.conns[cn] = struct{}{}
		n.mu.Unlock()
		go cn.serve()
	}
}

// Close drops the connection (logged as BackendDrop before the socket is closed).
func (cn *Conn) Close(why string) {
	cn.once.Do(func() {
		cn.emu.Lock()
		cn.dead = true
		cn.N.C.T.Emit("BackendDrop", "b", cn.ID, "host", cn.N.IP, "why", why)
		cn.emu.Unlock()
		close(cn.closed)
		cn.nc.Close()
		cn.N.mu.Lock()
		delete(cn.N.conns, cn)
		cn.N.mu.Unlock()
	})
}

func (cn *Conn) Closed() bool {
	select {
	case <-cn.closed:
		return true
	default:
		return false
	}
}

func (cn *Conn) serve() {
	defer cn.Close("eof")
	c := cn.N.C
	for {
		// a node that has stopped reading (its receive buffer fills, then the proxy's writes block)
		for time.Now().UnixNano() < atomic.LoadInt64(&cn.N.stallUntil) && !cn.Closed() {
			time.Sleep(5 * time.Millisecond)
		}
		raw, err := cn.codec.DecodeRawFrame(cn.nc)
		if err != nil {
			return
		}
		body := raw.Body
		if raw.Header.Flags.Contains(primitive.HeaderFlagCompressed) && cn.compressor != nil {
			var buf bytes.Buffer
			if err := cn.compressor.DecompressWithLength(bytes.NewReader(raw.Body), &buf); err == nil {
				body = buf.Bytes()
			}
		}
		if cn.Started && raw.Header.Version != cn.Version {
			// as Cassandra: every frame of a connection carries the version the connection was started with
			cn.emitIfOpen("BackendBadFrame", "b", cn.ID, "host", cn.N.IP, "bstream", int(raw.Header.StreamId), "op", raw.Header.OpCode.String(),
				"err", fmt.Sprintf("invalid message version: got %d but previous messages on this connection had version %d", raw.Header.Version, cn.Version))
			cn.send(raw.Header, &message.ProtocolError{ErrorMessage: "fakecql: invalid message version"}, 0, nil)
			continue
		}
		frm, err := cn.codec.ConvertFromRawFrame(raw)
		if err != nil {
			// a frame the reference codec cannot decode with this connection's settings: on record, then answered
			cn.emitIfOpen("BackendBadFrame", "b", cn.ID, "host", cn.N.IP, "bstream", int(raw.Header.StreamId), "op", raw.Header.OpCode.String(), "err", err.Error())
			cn.send(raw.Header, &message.ProtocolError{ErrorMessage: "fakecql: cannot decode frame: " + err.Error()}, 0, nil)
			continue
		}
		cn.seq++
		a := &Attempt{Node: cn.N, Conn: cn, Header: *raw.Header, WireBody: raw.Body, Body: body, Frame: frm, Seq: cn.seq}
		if t := TokenRe.Find(body); t != nil {
			a.Token = string(t)
		}
		cn.handle(a)
		_ = c
	}
}

func (c *Cluster) versionOK(v primitive.ProtocolVersion) bool {
	if v < primitive.ProtocolVersion3 {
		return false
	}
	return c.MaxVersion == 0 || v <= c.MaxVersion
}

func (cn *Conn) handle(a *Attempt) {
	c := cn.N.C
	cn.N.mu.Lock()
	muted := cn.N.muted && cn.Started
	cn.N.mu.Unlock()
	if muted {
		// the node reads the frame and never answers it: on record, so that the attempt is known to be outstanding on
		// this (still open) connection
		switch a.Frame.Body.Message.(type) {
		case *message.Query:
			if a.Token != "" {
				c.record(a, "QUERY", Silent)
			}
		case *message.Execute:
			c.record(a, "EXECUTE", Silent)
		case *message.Batch:
			c.record(a, "BATCH", Silent)
		case *message.Prepare:
			c.record(a, "PREPARE", Silent)
		}
		return
	}
	if c.Handshake != nil && c.Handshake(cn, a) {
		return
	}
	hdr := &a.Header
	cn.N.mu.Lock()
	nodeMax := cn.N.maxVer
	cn.N.mu.Unlock()
	if !c.versionOK(hdr.Version) || (nodeMax != 0 && hdr.Version > nodeMax) {
		v := hdr.Version
		reply := *hdr
		if c.MaxVersion != 0 && v > c.MaxVersion {
			reply.Version = c.MaxVersion
		}
		if nodeMax != 0 && v > nodeMax {
			reply.Version = nodeMax
		}
		cn.send(&reply, &message.ProtocolError{ErrorMessage: fmt.Sprintf("Invalid or unsupported protocol version (%d)", v)}, 0, nil)
		return
	}
	switch m := a.Frame.Body.Message.(type) {
	case *message.Options:
		sup := &message.Supported{Options: map[string][]string{"CQL_VERSION": {"3.4.5"}, "COMPRESSION": {"lz4", "snappy"}}}
		if c.OptionsDelay != nil && cn.Started {
			if d := c.OptionsDelay(cn); d > 0 {
				h := *hdr
				c.T.Emit("BackendHeartbeatHeld", "b", cn.ID, "host", cn.N.IP, "bstream", int(h.StreamId), "ms", d.Milliseconds())
				go func() {
					select {
					case <-time.After(d):
						cn.emitIfOpen("BackendHeartbeatLate", "b", cn.ID, "host", cn.N.IP, "bstream", int(h.StreamId))
						cn.send(&h, sup, 0, nil)
					case <-cn.closed:
					}
				}()
				return
			}
		}
		cn.send(hdr, sup, 0, nil)
	case *message.AuthResponse:
		// (only with Cluster.Auth) the DSE authenticator wants the mechanism first and answers with a challenge
		tokenOK := string(m.Token) == "\x00"+c.AuthUser+"\x00"+c.AuthPass
		cn.authStep++
		switch {
		case c.Auth == "dse" && cn.authStep == 1:
			if string(m.Token) == "PLAIN" {
				cn.send(hdr, &message.AuthChallenge{Token: []byte("PLAIN-START")}, 0, nil)
			} else {
				cn.send(hdr, &message.AuthenticationError{ErrorMessage: "fakecql: unsupported SASL mechanism"}, 0, nil)
			}
		case (c.Auth == "dse" && cn.authStep == 2 || c.Auth == "password" && cn.authStep == 1) && tokenOK:
			cn.CompleteStartup(hdr, cn.authComp, &message.AuthSuccess{})
		default:
			cn.send(hdr, &message.AuthenticationError{ErrorMessage: "fakecql: bad credentials"}, 0, nil)
		}
	case *message.Startup:
		comp := strings.ToLower(m.Options["COMPRESSION"])
		if d := time.Duration(atomic.LoadInt64((*int64)(&c.SlowStart))); d > 0 {
			time.Sleep(d)
		}
		if c.Auth != "" {
			cn.authStep, cn.authComp = 0, comp
			name := "org.apache.cassandra.auth.PasswordAuthenticator"
			if c.Auth == "dse" {
				name = "com.datastax.bdp.cassandra.auth.DseAuthenticator"
			}
			cn.send(hdr, &message.Authenticate{Authenticator: name}, 0, nil)
			return
		}
		cn.Version = hdr.Version
		cn.Started = true
		// READY is sent uncompressed, then the connection switches
		cn.send(hdr, &message.Ready{}, 0, nil)
		switch comp {
		case "lz4":
			cn.compressor = lz4.Compressor{}
			cn.codec = frame.NewRawCodecWithCompression(lz4.Compressor{})
		case "snappy":
			cn.compressor = snappy.Compressor{}
			cn.codec = frame.NewRawCodecWithCompression(snappy.Compressor{})
		}
		cn.Compression = comp
		c.T.Emit("BackendConn", "b", cn.ID, "host", cn.N.IP, "version", int(cn.Version), "compression", comp, "local", cn.Local)
		if c.OnConn != nil {
			c.OnConn(cn)
		}
	case *message.Register:
		cn.Registered = true
		c.T.Emit("BackendRegister", "b", cn.ID, "host", cn.N.IP)
		cn.send(hdr, &message.Ready{}, 0, nil)
	case *message.Query:
		cn.handleQuery(a, m)
	case *message.Prepare:
		cn.handlePrepare(a, m)
	case *message.Execute:
		if !cn.N.usePrepared(m.QueryId) {
			if c.record(a, "EXECUTE", Unprepared) {
				cn.sendKind(a, Outcome{Msg: &message.Unprepared{ErrorMessage: "fakecql: unprepared " + a.Token, Id: m.QueryId}, Kind: Unprepared})
			}
			return
		}
		cn.scripted(a, "EXECUTE")
	case *message.Batch:
		for _, ch := range m.Children {
			if len(ch.Id) > 0 && !cn.N.HasPrepared(ch.Id) {
				if c.record(a, "BATCH", Unprepared) {
					cn.sendKind(a, Outcome{Msg: &message.Unprepared{ErrorMessage: "fakecql: unprepared " + a.Token, Id: ch.Id}, Kind: Unprepared})
				}
				return
			}
		}
		cn.scripted(a, "BATCH")
	default:
		cn.send(hdr, &message.ProtocolError{ErrorMessage: "fakecql: unexpected message"}, 0, nil)
	}
}

var useRe = regexp.MustCompile(`(?i)^\s*use\s+("(?:[^"]|"")*"|[A-Za-z0-9_]+)\s*;?\s*$`)

// FoldKeyspace applies CQL identifier rules: unquoted -> lower case, quoted -> exact with "" -> ".
func FoldKeyspace(id string) string {
	if len(id) >= 2 && id[0] == '"' && id[len(id)-1] == '"' {
		return strings.ReplaceAll(id[1:len(id)-1], `""`, `"`)
	}
	return strings.ToLower(id)
}

func (cn *Conn) handleQuery(a *Attempt, m *message.Query) {
	c := cn.N.C
	q := strings.TrimSpace(m.Query)
	lq := strings.ToLower(q)
	switch {
	case a.Token == "" && strings.HasPrefix(lq, "select * from system.local"):
		cn.send(&a.Header, c.localRows(cn.N, a.Header.Version), 0, nil)
	case a.Token == "" && strings.HasPrefix(lq, "select * from system.peers"):
		if d := time.Duration(atomic.LoadInt64((*int64)(&c.PeersDelay))); d > 0 {
			// a topology query that takes a while (a busy coordinator, a distant one)
			h := a.Header
			rows := c.peersRows(cn.N, a.Header.Version) // evaluated now, delivered late
			go func() {
				select {
				case <-time.After(d):
					cn.send(&h, rows, 0, nil)
				case <-cn.closed:
				}
			}()
			return
		}
		cn.send(&a.Header, c.peersRows(cn.N, a.Header.Version), 0, nil)
	case useRe.MatchString(q):
		ks := FoldKeyspace(useRe.FindStringSubmatch(q)[1])
		c.mu.Lock()
		ok := c.keyspaces[ks]
		c.mu.Unlock()
		if ok {
			cn.Keyspace = ks
			c.T.Emit("BackendUse", "b", cn.ID, "host", cn.N.IP, "ks", ks, "ok", true)
			cn.send(&a.Header, &message.SetKeyspaceResult{Keyspace: ks}, 0, nil)
		} else {
			c.T.Emit("BackendUse", "b", cn.ID, "host", cn.N.IP, "ks", ks, "ok", false)
			cn.send(&a.Header, &message.Invalid{ErrorMessage: fmt.Sprintf("Keyspace '%s' does not exist", ks)}, 0, nil)
		}
	default:
		cn.scripted(a, "QUERY")
	}
}

func PreparedID(keyspace, query string) []byte {
	h := md5.Sum([]byte(keyspace + "\x00" + query))
	return h[:]
}

func (cn *Conn) handlePrepare(a *Attempt, m *message.Prepare) {
	c := cn.N.C
	out := Outcome{Kind: OK}
	if c.Script != nil && a.Token != "" {
		c.mu.Lock()
		c.attempts[a.Token]++
		a.N = c.attempts[a.Token]
		c.mu.Unlock()
		out = c.Script(a)
	} else if c.PrepareScript != nil {
		out = c.PrepareScript(a)
	}
	if !c.record(a, "PREPARE", out.Kind) {
		return
	}
	if out.Kind != OK {
		cn.respond(a, out)
		return
	}
	ks := cn.Keyspace
	if m.Keyspace != "" {
		ks = m.Keyspace
	}
	id := PreparedID(ks, m.Query)
	cn.N.mu.Lock()
	cn.N.prepared[hex.EncodeToString(id)] = prepared{Query: m.Query, Keyspace: ks}
	everPrepared.Store(hex.EncodeToString(id), m.Query)
	cn.N.mu.Unlock()
	rm := &message.RowsMetadata{ColumnCount: 0}
	if strings.HasPrefix(strings.ToUpper(strings.TrimSpace(m.Query)), "SELECT") && c.WidePrepared {
		// the result of preparing a SELECT describes its columns: a wide table makes it a frame of a few KiB
		for i := 0; i < 48; i++ {
			rm.Columns = append(rm.Columns, &message.ColumnMetadata{Keyspace: "a_keyspace_with_a_long_name", Table: "a_table_with_a_long_name",
				Name: fmt.Sprintf("column_number_%02d_of_the_wide_table", i), Type: datatype.Varchar})
		}
		rm.ColumnCount = int32(len(rm.Columns))
	}
	out.Msg = &message.PreparedResult{
		PreparedQueryId:   id,
		ResultMetadataId:  id,
		VariablesMetadata: &message.VariablesMetadata{},
		ResultMetadata:    rm,
	}
	cn.respond(a, out)
}

// everPrepared: id -> statement text, for every statement any node was ever asked to prepare (nodes forget, this does not)
var everPrepared sync.Map

// consistencyOf returns the consistency level a data request carries (-1: none) and whether it is a SELECT as far as
// the backend can tell (text of a QUERY, text behind the id of an EXECUTE).
func consistencyOf(a *Attempt) (cl int, sel bool) {
	cl = -1
	if a.Frame == nil || a.Frame.Body == nil {
		return
	}
	isSel := func(q string) bool { return strings.HasPrefix(strings.ToUpper(strings.TrimSpace(q)), "SELECT") }
	switch m := a.Frame.Body.Message.(type) {
	case *message.Query:
		if m.Options != nil {
			cl = int(m.Options.Consistency)
		}
		sel = isSel(m.Query)
	case *message.Execute:
		if m.Options != nil {
			cl = int(m.Options.Consistency)
		}
		if q, ok := everPrepared.Load(hex.EncodeToString(m.QueryId)); ok {
			sel = isSel(q.(string))
		} else {
			sel = true // unknown statement: nothing is claimed about it
		}
	case *message.Batch:
		cl = int(m.Consistency)
	}
	return
}

func (c *Cluster) record(a *Attempt, op string, outcome string) bool {
	cl, sel := consistencyOf(a)
	if !a.Conn.emitIfOpen("BackendRecv", "b", a.Conn.ID, "host", a.Node.IP, "bstream", int(a.Header.StreamId), "op", op,
		"t", a.Token, "att", a.N, "ks", a.Conn.Keyspace, "ver", int(a.Conn.Version), "comp", a.Conn.Compression, "o", outcome, "cl", cl, "sel", sel) {
		return false
	}
	if c.KeepLog {
		c.mu.Lock()
		c.log = append(c.log, a)
		c.mu.Unlock()
	}
	return true
}

func (cn *Conn) scripted(a *Attempt, op string) {
	c := cn.N.C
	out := Outcome{Kind: OK}
	c.mu.Lock()
	if a.Token != "" {
		c.attempts[a.Token]++
		a.N = c.attempts[a.Token]
	}
	c.mu.Unlock()
	if c.Script != nil {
		out = c.Script(a)
	}
	if c.record(a, op, out.Kind) {
		cn.respond(a, out)
	}
}

func (cn *Conn) respond(a *Attempt, out Outcome) {
	if out.Delay > 0 {
		go func() {
			select {
			case <-time.After(out.Delay):
				cn.sendKind(a, out)
			case <-cn.closed:
			}
		}()
		return
	}
	cn.sendKind(a, out)
}

func varchar(s string) []byte {
	b, _ := datacodec.Varchar.Encode(s, primitive.ProtocolVersion4)
	return b
}

// BuildMessage turns an outcome kind into a concrete response message.
func BuildMessage(a *Attempt, out Outcome) message.Message {
	if out.Msg != nil {
		return out.Msg
	}
	recv, block := out.Received, out.BlockFor
	switch out.Kind {
	case OK:
		if k := atomic.LoadInt64(&a.Node.C.BigEvery); k > 0 && atomic.AddInt64(&a.Node.C.okCount, 1)%k == 0 {
			// a result of about 20 KiB (beyond what the proxy coalesces into one write), filled with bytes that tell
			// where in which answer they belong
			blob := make([]byte, 20000+int(atomic.LoadInt64(&a.Node.C.okCount)%977))
			for i := range blob {
				blob[i] = byte('a' + (i+len(a.Token))%23)
			}
			copy(blob, a.Token)
			return &message.RowsResult{
				Metadata: &message.RowsMetadata{ColumnCount: 3, Columns: []*message.ColumnMetadata{
					{Keyspace: "ks", Table: "t", Name: "tok", Type: datatype.Varchar},
					{Keyspace: "ks", Table: "t", Name: "node", Type: datatype.Varchar},
					{Keyspace: "ks", Table: "t", Name: "pad", Type: datatype.Blob}}},
				Data: message.RowSet{{varchar(a.Token), varchar(a.Node.IP), blob}},
			}
		}
		return &message.RowsResult{
			Metadata: &message.RowsMetadata{ColumnCount: 2, Columns: []*message.ColumnMetadata{
				{Keyspace: "ks", Table: "t", Name: "tok", Type: datatype.Varchar},
				{Keyspace: "ks", Table: "t", Name: "node", Type: datatype.Varchar}}},
			Data: message.RowSet{{varchar(a.Token), varchar(a.Node.IP)}},
		}
	case RTSame:
		if block == 0 {
			recv, block = 2, 2
		}
		return &message.ReadTimeout{ErrorMessage: "rt " + a.Token, Consistency: primitive.ConsistencyLevelQuorum, Received: recv, BlockFor: block, DataPresent: false}
	case RTOther:
		if block == 0 {
			recv, block = 1, 2
		}
		return &message.ReadTimeout{ErrorMessage: "rt " + a.Token, Consistency: primitive.ConsistencyLevelQuorum, Received: recv, BlockFor: block, DataPresent: out.DataPresent}
	case WTBatchLog:
		return &message.WriteTimeout{ErrorMessage: "wt " + a.Token, Consistency: primitive.ConsistencyLevelQuorum, Received: 1, BlockFor: 2, WriteType: primitive.WriteTypeBatchLog}
	case WTOther:
		wt := out.WriteType
		if wt == "" {
			wt = primitive.WriteTypeSimple
		}
		return &message.WriteTimeout{ErrorMessage: "wt " + a.Token, Consistency: primitive.ConsistencyLevelQuorum, Received: 1, BlockFor: 2, WriteType: wt}
	case Unavailable:
		return &message.Unavailable{ErrorMessage: "unavail " + a.Token, Consistency: primitive.ConsistencyLevelQuorum, Required: 2, Alive: 1}
	case Boot:
		return &message.IsBootstrapping{ErrorMessage: "boot " + a.Token}
	case ServerErr:
		return &message.ServerError{ErrorMessage: "srverr " + a.Token}
	case Overloaded:
		return &message.Overloaded{ErrorMessage: "overloaded " + a.Token}
	case Truncate:
		return &message.TruncateError{ErrorMessage: "truncate " + a.Token}
	case ReadFail:
		return &message.ReadFailure{ErrorMessage: "rfail " + a.Token, Consistency: primitive.ConsistencyLevelQuorum, Received: 1, BlockFor: 2, NumFailures: 1}
	case WriteFail:
		return &message.WriteFailure{ErrorMessage: "wfail " + a.Token, Consistency: primitive.ConsistencyLevelQuorum, Received: 1, BlockFor: 2, NumFailures: 1, WriteType: primitive.WriteTypeSimple}
	case Invalid:
		return &message.Invalid{ErrorMessage: "invalid " + a.Token}
	case Syntax:
		return &message.SyntaxError{ErrorMessage: "syntax " + a.Token}
	case FuncFail:
		return &message.FunctionFailure{ErrorMessage: "funcfail " + a.Token, Keyspace: "ks", Function: "f", Arguments: []string{"int"}}
	case Unprepared:
		return &message.Unprepared{ErrorMessage: "unprepared " + a.Token, Id: []byte{1, 2, 3, 4}}
	}
	return &message.ServerError{ErrorMessage: "fakecql: unknown outcome " + out.Kind}
}

func (cn *Conn) sendKind(a *Attempt, out Outcome) {
	switch out.Kind {
	case Silent:
		return
	case Drop:
		cn.Close("script")
		return
	case RawReply:
		if !cn.emitIfOpen("BackendReply", "b", cn.ID, "host", cn.N.IP, "bstream", int(a.Header.StreamId), "t", a.Token, "o", out.Kind) {
			return
		}
		cn.wmu.Lock()
		cn.nc.Write(out.Raw)
		cn.wmu.Unlock()
		return
	}
	if out.RawErrorBody != nil && cn.compressor == nil {
		hs := sha256.New()
		hs.Write([]byte{0, byte(primitive.OpCodeError)})
		hs.Write(out.RawErrorBody)
		if !cn.emitIfOpen("BackendReply", "b", cn.ID, "host", cn.N.IP, "bstream", int(a.Header.StreamId), "t", a.Token, "o", out.Kind, "h", hex.EncodeToString(hs.Sum(nil))[:16]) {
			return
		}
		raw := &frame.RawFrame{Header: &frame.Header{IsResponse: true, Version: a.Header.Version, StreamId: a.Header.StreamId, OpCode: primitive.OpCodeError,
			BodyLength: int32(len(out.RawErrorBody))}, Body: out.RawErrorBody}
		var buf bytes.Buffer
		if err := frame.NewRawCodec().EncodeRawFrame(raw, &buf); err == nil {
			cn.wmu.Lock()
			cn.nc.Write(buf.Bytes())
			cn.wmu.Unlock()
		}
		return
	}
	msg := BuildMessage(a, out)
	if !cn.emitIfOpen("BackendReply", "b", cn.ID, "host", cn.N.IP, "bstream", int(a.Header.StreamId), "t", a.Token, "o", out.Kind, "h", cn.replyHash(&a.Header, msg, out)) {
		return
	}
	cn.sendFull(&a.Header, msg, out)
}

// replyHash identifies (flags without COMPRESSED, opcode, uncompressed body) of the frame sendFull will write: what the
// client must receive, byte for byte.
func (cn *Conn) replyHash(hdr *frame.Header, msg message.Message, out Outcome) string {
	frm := frame.NewFrame(hdr.Version, hdr.StreamId, msg)
	if out.Payload != nil {
		frm.SetCustomPayload(out.Payload)
	}
	if len(out.Warnings) > 0 {
		frm.SetWarnings(out.Warnings)
	}
	if out.Tracing {
		id := primitive.UUID{1, 2, 3, 4, 5, 6, 7, 8, 9, 10, 11, 12, 13, 14, 15, 16}
		frm.SetTracingId(&id)
	}
	var buf bytes.Buffer
	if err := frame.NewRawCodec().EncodeFrame(frm, &buf); err != nil || buf.Len() < 9 {
		return ""
	}
	b := buf.Bytes()
	h := sha256.New()
	h.Write([]byte{b[1] &^ byte(primitive.HeaderFlagCompressed), b[4]})
	h.Write(b[9:])
	return hex.EncodeToString(h.Sum(nil))[:16]
}

func (cn *Conn) send(hdr *frame.Header, msg message.Message, flags primitive.HeaderFlag, payload map[string][]byte) {
	cn.sendFull(hdr, msg, Outcome{Flags: flags, Payload: payload})
}

func (cn *Conn) sendFull(hdr *frame.Header, msg message.Message, out Outcome) {
	frm := frame.NewFrame(hdr.Version, hdr.StreamId, msg)
	if out.Payload != nil {
		frm.SetCustomPayload(out.Payload)
	}
	if len(out.Warnings) > 0 {
		frm.SetWarnings(out.Warnings)
	}
	if out.Tracing {
		id := primitive.UUID{1, 2, 3, 4, 5, 6, 7, 8, 9, 10, 11, 12, 13, 14, 15, 16}
		frm.SetTracingId(&id)
	}
	if cn.compressor != nil && cn.Started && msg.GetOpCode() != primitive.OpCodeReady {
		frm.SetCompress(true)
	}
	var buf bytes.Buffer
	if err := cn.codec.EncodeFrame(frm, &buf); err != nil {
		// fall back to a server error the codec can always encode
		buf.Reset()
		_ = cn.codec.EncodeFrame(frame.NewFrame(hdr.Version, hdr.StreamId, &message.ServerError{ErrorMessage: "fakecql: encode: " + err.Error()}), &buf)
	}
	cn.wmu.Lock()
	cn.nc.Write(buf.Bytes())
	cn.wmu.Unlock()
}

// Reply answers a frame with msg, in the version v (0: the frame's own).
func (cn *Conn) Reply(hdr *frame.Header, v primitive.ProtocolVersion, msg message.Message) {
	h := *hdr
	if v != 0 {
		h.Version = v
	}
	cn.send(&h, msg, 0, nil)
}

// CompleteStartup does what the default STARTUP handling does once the connection is accepted: done (READY or
// AUTH_SUCCESS) is sent uncompressed, then the connection switches to the compression asked for.
func (cn *Conn) CompleteStartup(hdr *frame.Header, comp string, done message.Message) {
	c := cn.N.C
	cn.Version = hdr.Version
	cn.send(hdr, done, 0, nil)
	cn.Started = true
	switch comp {
	case "lz4":
		cn.compressor = lz4.Compressor{}
		cn.codec = frame.NewRawCodecWithCompression(lz4.Compressor{})
	case "snappy":
		cn.compressor = snappy.Compressor{}
		cn.codec = frame.NewRawCodecWithCompression(snappy.Compressor{})
	}
	cn.Compression = comp
	c.T.Emit("BackendConn", "b", cn.ID, "host", cn.N.IP, "version", int(cn.Version), "compression", comp, "local", cn.Local)
	if c.OnConn != nil {
		c.OnConn(cn)
	}
}

// WriteRaw writes bytes verbatim to the connection (hostile backend).
func (cn *Conn) WriteRaw(b []byte) {
	cn.wmu.Lock()
	cn.nc.Write(b)
	cn.wmu.Unlock()
}

// SendFrame encodes and writes an arbitrary frame with the connection's codec.
func (cn *Conn) SendFrame(frm *frame.Frame) error {
	if cn.compressor != nil {
		frm.SetCompress(true)
	}
	var buf bytes.Buffer
	if err := cn.codec.EncodeFrame(frm, &buf); err != nil {
		return err
	}
	cn.wmu.Lock()
	_, err := cn.nc.Write(buf.Bytes())
	cn.wmu.Unlock()
	return err
}

// EmitEvent writes an EVENT frame on every registered connection (the control connection);
// returns the number of connections written to. The logged hash identifies the event's content.
func (c *Cluster) EmitEvent(id string, kind string, msg message.Message) int {
	n := 0
	for _, node := range c.Nodes() {
		for _, cn := range node.Conns() {
			if cn.Registered && !cn.Closed() {
				frm := frame.NewFrame(cn.Version, -1, msg)
				h := ""
				if raw, err := frame.NewRawCodec().ConvertToRawFrame(frm); err == nil {
					h = HashBody(raw.Header.Flags, raw.Header.OpCode, raw.Body)
				}
				// changes of functions and aggregates cannot be expressed before protocol version 4
				v4only := false
				if sc, ok := msg.(*message.SchemaChangeEvent); ok {
					v4only = sc.Target == primitive.SchemaChangeTargetFunction || sc.Target == primitive.SchemaChangeTargetAggregate
				}
				if !cn.emitIfOpen("BackendEvent", "id", id, "b", cn.ID, "host", node.IP, "kind", kind, "h", h, "v4only", v4only) {
					continue
				}
				if err := cn.SendFrame(frm); err == nil {
					n++
				}
			}
		}
	}
	return n
}

// EmitEventBurst writes the EVENT frames of all msgs on the registered (control) connection with one write: the
// receiver finds them back to back in its read buffer.  ids[i] names msgs[i]; returns the number of events written.
func (c *Cluster) EmitEventBurst(ids []string, kind string, msgs []message.Message) int {
	cn := c.ControlConn()
	if cn == nil {
		return 0
	}
	var all bytes.Buffer
	n := 0
	for i, msg := range msgs {
		frm := frame.NewFrame(cn.Version, -1, msg)
		h := ""
		if raw, err := frame.NewRawCodec().ConvertToRawFrame(frm); err == nil {
			h = HashBody(raw.Header.Flags, raw.Header.OpCode, raw.Body)
		}
		v4only := false
		if sc, ok := msg.(*message.SchemaChangeEvent); ok {
			v4only = sc.Target == primitive.SchemaChangeTargetFunction || sc.Target == primitive.SchemaChangeTargetAggregate
		}
		if cn.compressor != nil {
			frm.SetCompress(true)
		}
		var buf bytes.Buffer
		if err := cn.codec.EncodeFrame(frm, &buf); err != nil {
			continue
		}
		if !cn.emitIfOpen("BackendEvent", "id", ids[i], "b", cn.ID, "host", cn.N.IP, "kind", kind, "h", h, "v4only", v4only) {
			break
		}
		all.Write(buf.Bytes())
		n++
	}
	cn.wmu.Lock()
	_, err := cn.nc.Write(all.Bytes())
	cn.wmu.Unlock()
	if err != nil {
		return 0
	}
	return n
}

// HashBody identifies (flags without the compression bit, opcode, uncompressed body).
func HashBody(flags primitive.HeaderFlag, op primitive.OpCode, body []byte) string {
	h := sha256.New()
	h.Write([]byte{byte(flags &^ primitive.HeaderFlagCompressed), byte(op)})
	h.Write(body)
	return hex.EncodeToString(h.Sum(nil))[:16]
}

// ControlConn returns the registered (control) connection, if any.
func (c *Cluster) ControlConn() *Conn {
	for _, node := range c.Nodes() {
		for _, cn := range node.Conns() {
			if cn.Registered && !cn.Closed() {
				return cn
			}
		}
	}
	return nil
}

func enc(dt datatype.DataType, v interface{}, ver primitive.ProtocolVersion) []byte {
	codec, err := datacodec.NewCodec(dt)
	if err != nil {
		panic(err)
	}
	b, err := codec.Encode(v, ver)
	if err != nil {
		panic(err)
	}
	return b
}

func (c *Cluster) localRows(n *Node, ver primitive.ProtocolVersion) *message.RowsResult {
	cols := []*message.ColumnMetadata{
		{Keyspace: "system", Table: "local", Name: "key", Type: datatype.Varchar},
		{Keyspace: "system", Table: "local", Name: "rpc_address", Type: datatype.Inet},
		{Keyspace: "system", Table: "local", Name: "data_center", Type: datatype.Varchar},
		{Keyspace: "system", Table: "local", Name: "rack", Type: datatype.Varchar},
		{Keyspace: "system", Table: "local", Name: "release_version", Type: datatype.Varchar},
		{Keyspace: "system", Table: "local", Name: "partitioner", Type: datatype.Varchar},
		{Keyspace: "system", Table: "local", Name: "cql_version", Type: datatype.Varchar},
		{Keyspace: "system", Table: "local", Name: "host_id", Type: datatype.Uuid},
	}
	row := message.Row{
		enc(datatype.Varchar, "local", ver),
		enc(datatype.Inet, net.ParseIP(n.IP), ver),
		enc(datatype.Varchar, n.DC, ver),
		enc(datatype.Varchar, "rack1", ver),
		enc(datatype.Varchar, "4.0.0-fake", ver),
		enc(datatype.Varchar, "org.apache.cassandra.dht.Murmur3Partitioner", ver),
		enc(datatype.Varchar, "3.4.5", ver),
		enc(datatype.Uuid, n.HostID, ver),
	}
	if c.DSEVersion != "" {
		cols = append(cols, &message.ColumnMetadata{Keyspace: "system", Table: "local", Name: "dse_version", Type: datatype.Varchar})
		row = append(row, enc(datatype.Varchar, c.DSEVersion, ver))
	}
	return &message.RowsResult{Metadata: &message.RowsMetadata{ColumnCount: int32(len(cols)), Columns: cols}, Data: message.RowSet{row}}
}

func (c *Cluster) peersRows(self *Node, ver primitive.ProtocolVersion) *message.RowsResult {
	cols := []*message.ColumnMetadata{
		{Keyspace: "system", Table: "peers", Name: "peer", Type: datatype.Inet},
		{Keyspace: "system", Table: "peers", Name: "rpc_address", Type: datatype.Inet},
		{Keyspace: "system", Table: "peers", Name: "data_center", Type: datatype.Varchar},
		{Keyspace: "system", Table: "peers", Name: "rack", Type: datatype.Varchar},
		{Keyspace: "system", Table: "peers", Name: "host_id", Type: datatype.Uuid},
	}
	var rows message.RowSet
	for _, n := range c.Nodes() {
		if n == self || !n.Listed() {
			continue
		}
		n.mu.Lock()
		sh := n.shape
		n.mu.Unlock()
		peer, rpc, dc := enc(datatype.Inet, net.ParseIP(n.IP), ver), enc(datatype.Inet, net.ParseIP(n.IP), ver), enc(datatype.Varchar, n.DC, ver)
		switch sh.Peer {
		case "other":
			o := net.ParseIP(n.IP).To4()
			peer = enc(datatype.Inet, net.IPv4(o[0], o[1], o[2], 200+o[3]), ver)
		case "null":
			peer = nil
		}
		switch sh.RPC {
		case "wild4":
			rpc = enc(datatype.Inet, net.IPv4zero.To4(), ver)
		case "wild6":
			rpc = enc(datatype.Inet, net.IPv6zero, ver)
		case "null":
			rpc = nil
		}
		if sh.NullDC {
			dc = nil
		}
		rows = append(rows, message.Row{
			peer,
			rpc,
			dc,
			enc(datatype.Varchar, "rack1", ver),
			enc(datatype.Uuid, n.HostID, ver),
		})
	}
	return &message.RowsResult{Metadata: &message.RowsMetadata{ColumnCount: int32(len(cols)), Columns: cols}, Data: rows}
}

// ListedUp returns the addresses of nodes that are listed and up.
func (c *Cluster) ListedUp() []string {
	var out []string
	for _, n := range c.Nodes() {
		if n.Listed() && n.Up() {
			out = append(out, n.IP)
		}
	}
	return out
}

var _ = io.EOF
