module verif

go 1.24.2

require github.com/datastax/cql-proxy v0.0.0

require (
	github.com/datastax/go-cassandra-native-protocol v0.0.0-20220706104457-5e8aad05cf90 // indirect
	github.com/golang/snappy v0.0.3 // indirect
	github.com/google/uuid v1.3.0 // indirect
	github.com/pierrec/lz4/v4 v4.0.3 // indirect
	go.uber.org/atomic v1.8.0 // indirect
	go.uber.org/multierr v1.7.0 // indirect
	go.uber.org/zap v1.17.0 // indirect
)

replace github.com/datastax/cql-proxy => /repo
