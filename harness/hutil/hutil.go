// Package hutil holds small helpers shared by the driver commands.
package hutil

import (
	"bufio"
	"encoding/json"
	"math/rand"
	"os"
	"strconv"
)

// Seed returns VERIF_SEED (default 1).
func Seed() int64 {
	if s, err := strconv.ParseInt(os.Getenv("VERIF_SEED"), 10, 64); err == nil {
		return s
	}
	return 1
}

// NewRand returns a generator derived from VERIF_SEED and a salt.
func NewRand(salt int64) *rand.Rand { return rand.New(rand.NewSource(Seed()*1000003 + salt)) }

// Thorough reports whether VERIF_TIER=thorough.
func Thorough() bool { return os.Getenv("VERIF_TIER") == "thorough" }

// ReadJSONLines calls each for every non-empty line of path.
func ReadJSONLines(path string, each func(line []byte) error) error {
	f, err := os.Open(path)
	if err != nil {
		return err
	}
	defer f.Close()
	sc := bufio.NewScanner(f)
	sc.Buffer(make([]byte, 1<<20), 1<<28)
	for sc.Scan() {
		b := sc.Bytes()
		if len(b) == 0 {
			continue
		}
		if err := each(b); err != nil {
			return err
		}
	}
	return sc.Err()
}

// WriteJSON writes v (indented) to path, or to stdout when path is "" or "-".
func WriteJSON(path string, v interface{}) error {
	b, err := json.MarshalIndent(v, "", " ")
	if err != nil {
		return err
	}
	if path == "" || path == "-" {
		_, err = os.Stdout.Write(append(b, '\n'))
		return err
	}
	return os.WriteFile(path, b, 0o644)
}
