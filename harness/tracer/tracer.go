// Package tracer collects the event log of a harness run. One mutex issues the global ticket
// and appends the event, so the log order is a linearisation of the events as the harness
// performed (sends: logged before the write) or observed (receives: logged after the read) them.
package tracer

import (
	"bufio"
	"encoding/json"
	"os"
	"sync"
	"sync/atomic"
	"time"
)

type Event map[string]interface{}

type Tracer struct {
	mu     sync.Mutex
	n      int
	events []Event
	last   int64 // unix nanos of the last event (quiescence detection)
	off    bool
}

func New() *Tracer { return &Tracer{last: time.Now().UnixNano()} }

// Emit appends an event; kv are alternating keys and values.
func (t *Tracer) Emit(ev string, kv ...interface{}) int {
	if t == nil {
		return 0
	}
	e := Event{"ev": ev}
	for i := 0; i+1 < len(kv); i += 2 {
		e[kv[i].(string)] = kv[i+1]
	}
	t.mu.Lock()
	defer t.mu.Unlock()
	if t.off {
		return 0
	}
	t.n++
	e["n"] = t.n
	e["ts"] = time.Now().UnixNano()
	t.events = append(t.events, e)
	atomic.StoreInt64(&t.last, time.Now().UnixNano())
	return t.n
}

// Do runs f and emits the event under the tracer mutex (used to make "log, then act" atomic with
// respect to other logged events).
func (t *Tracer) Do(f func(), ev string, kv ...interface{}) {
	t.Emit(ev, kv...)
	f()
}

func (t *Tracer) SinceLast() time.Duration {
	return time.Duration(time.Now().UnixNano() - atomic.LoadInt64(&t.last))
}

// Quiesce waits until no event has been logged for `window` (or `max` elapses); reports whether
// quiescence was reached.
func (t *Tracer) Quiesce(window, max time.Duration) bool {
	deadline := time.Now().Add(max)
	for time.Now().Before(deadline) {
		if t.SinceLast() >= window {
			return true
		}
		time.Sleep(window / 10)
	}
	return false
}

func (t *Tracer) Len() int {
	t.mu.Lock()
	defer t.mu.Unlock()
	return len(t.events)
}

func (t *Tracer) Stop() {
	t.mu.Lock()
	t.off = true
	t.mu.Unlock()
}

func (t *Tracer) Events() []Event {
	t.mu.Lock()
	defer t.mu.Unlock()
	out := make([]Event, len(t.events))
	copy(out, t.events)
	return out
}

func (t *Tracer) Reset() {
	t.mu.Lock()
	t.events = nil
	t.n = 0
	t.off = false
	t.mu.Unlock()
}

// WriteNDJSON appends the events to path, one JSON object per line.
func WriteNDJSON(path string, events []Event, appendTo bool) error {
	flag := os.O_CREATE | os.O_WRONLY | os.O_TRUNC
	if appendTo {
		flag = os.O_CREATE | os.O_WRONLY | os.O_APPEND
	}
	f, err := os.OpenFile(path, flag, 0o644)
	if err != nil {
		return err
	}
	w := bufio.NewWriter(f)
	for _, e := range events {
		b, err := json.Marshal(e)
		if err != nil {
			return err
		}
		w.Write(b)
		w.WriteByte('\n')
	}
	if err := w.Flush(); err != nil {
		return err
	}
	return f.Close()
}
