------------------------------ MODULE AstraTLS ------------------------------
(* C19 - Astra bundle connections authenticate the server and identify the client *)
(* (astra/endpoint.go Resolve / NewEndpoint / copyTLSConfig, astra/bundle.go,       *)
(* proxycore/conn.go Connect).                                                      *)
(*                                                                                  *)
(* The module enumerates the abstract server certificate chains of the property     *)
(* statement, decides acceptance from the statement alone                           *)
(*     Accept == the leaf chains to the bundle's CA using only the intermediates    *)
(*               the server sent /\ the leaf names the BUNDLE's host /\ valid now   *)
(* and runs, for every row, the tiny client-side handshake machine                  *)
(*     hello -> certificate -> verify -> (established -> cql | aborted)              *)
(* whose invariants are the obligations of the statement (NoCQLBeforeAccept,        *)
(* PresentsBundleCert, SNI).  The terminal state of every row is exported as the    *)
(* observation the harness must make on the real code with real certificates.       *)
(* Nothing here is derived from copyTLSConfig's control flow.                       *)
EXTENDS Naturals, Sequences, FiniteSets, TLC, Json

CONSTANTS HostKinds,     \* subset of {"dns", "ip"}: the bundle host is a DNS name / an IP literal
          TLSVersions,   \* subset of {"1.2", "1.3"}
          IdDraws        \* number of independent draws of node ids / contact points

VARIABLES row, phase, sni, clientCert, cqlSent

vars == <<row, phase, sni, clientCert, cqlSent>>

-----------------------------------------------------------------------------
(* Abstract chains                                                             *)
(*  signer    who signed the leaf: the bundle CA through an intermediate, the   *)
(*            bundle CA through an intermediate that has EXPIRED ("verifies ... *)
(*            at the current time" speaks of the chain), the bundle CA          *)
(*            directly, another (private) CA, the leaf itself                   *)
(*  extra     the server also sends a second certificate: the intermediate      *)
(*            (signer = int / intexp), an unrelated intermediate (direct, self), or the  *)
(*            OTHER CA's self-signed root (other) - a presented certificate     *)
(*            must never become a trust anchor                                  *)
(*  san       the name in the leaf: the bundle's host, some other name, or the  *)
(*            very name the client sends as SNI (node id / contact point)       *)
(*  validity  of the leaf at the time of the handshake.  "At the current time"  *)
(*            is the time of the handshake, not the time the endpoint or its    *)
(*            TLS configuration was made: a leaf that was valid then and has     *)
(*            expired since must be rejected (expired_since_config), one that     *)
(*            was not yet valid then and is now must be accepted                  *)
(*            (valid_since_config)                                                *)
\*            "lookalike": a chain that copies every name and number of a genuine chain (subject, issuer name, serial
\*            number, names, validity) but none of its keys - issued by a private CA carrying the bundle CA's name
\*            "borrowed": the server proves possession of a certificate of its own making (self-signed, flagged as a CA) and
\*            appends (extra) the PUBLIC certificate of a genuine server - right CA, right name, current - whose key it does
\*            not have: the certificate that authenticates the server is the first one, whatever else is presented
Signers == {"int", "intexp", "direct", "other", "self", "lookalike", "borrowed"}
SANs == {"bundleHost", "otherName", "sniName"}
Validities == {"current", "expired", "notyet", "expired_since_config", "valid_since_config"}
TimeShifted == {"expired_since_config", "valid_since_config"}
ValidNow == {"current", "valid_since_config"}
Chains == [signer : Signers, extra : BOOLEAN, san : SANs, validity : Validities]
EmptyChain == [signer |-> "none", extra |-> FALSE, san |-> "none", validity |-> "none"]

ChainsToBundleCA(c) == c.signer = "direct" \/ (c.signer = "int" /\ c.extra)

Accept(c) == /\ c # EmptyChain
             /\ ChainsToBundleCA(c)
             /\ c.san = "bundleHost"
             /\ c.validity \in ValidNow

\* the conjuncts of Accept a chain violates (names the failing shape of a rejected row)
Why(c) ==
    IF c = EmptyChain THEN {"empty-chain"}
    ELSE (IF c.signer \in {"other", "self"} THEN {"signer=" \o c.signer} ELSE {})
         \cup (IF c.signer = "lookalike" THEN {"signer=lookalike"} ELSE {})
         \cup (IF c.signer = "borrowed" THEN {"signer=borrowed"} ELSE {})
         \cup (IF c.signer \in {"int", "intexp"} /\ ~c.extra THEN {"intermediate-missing"} ELSE {})
         \cup (IF c.signer = "intexp" THEN {"intermediate=expired"} ELSE {})
         \cup (IF c.san # "bundleHost" THEN {"name=" \o c.san} ELSE {})
         \cup (IF c.validity \notin ValidNow THEN {"leaf=" \o c.validity} ELSE {})

\* the connection kinds of the statement: the metadata service, a node reached through a contact
\* point of the metadata (Resolve), a node learnt from system.peers (NewEndpoint)
Targets == {"metadata", "contact", "peer"}

\* what the client must send as SNI
ExpectedSNI(t) == CASE t = "metadata" -> "bundleHost"
                    [] t = "contact"  -> "contactPoint"
                    [] t = "peer"     -> "hostId"

\* for the metadata service the SNI *is* the bundle host: the sniName rows coincide with bundleHost
\* prior: what happened on the same resolver before the handshake of the row - nothing ("cold"), or a handshake with a
\* genuine server that was accepted ("warm").  Acceptance is a function of the presented chain alone: Accept does not
\* mention `prior`.
\* "concurrent": while the handshake of the row runs, other handshakes with a genuine server run through the same endpoint
\* (the node presents the row's chain to every second connection) - acceptance does not depend on them either.
Priors == {"cold", "warm", "concurrent"}
Rows == {[target |-> t, chain |-> c, host |-> h, tls |-> v, draw |-> d, prior |-> p] :
            t \in Targets, c \in Chains \cup {EmptyChain}, h \in HostKinds, v \in TLSVersions, d \in 1..IdDraws, p \in Priors}
\* the time-shifted validities are only combined with otherwise acceptable chains presented by a node (an endpoint
\* object with its TLS configuration exists between its creation and the handshake only for nodes)
RealRows == {r \in Rows : /\ ~(r.target = "metadata" /\ r.chain.san = "sniName")
                          \* warm rows: node targets, chains that are current and carry the right name (the interesting ones)
                          /\ r.prior = "warm" => (r.target # "metadata" /\ r.chain # EmptyChain /\ r.chain.san = "bundleHost" /\ r.chain.validity = "current")
                          /\ r.prior = "concurrent" => (r.target = "peer" /\ r.chain # EmptyChain /\ r.chain.validity \notin TimeShifted /\ r.draw = 1)
                          /\ (r.chain # EmptyChain /\ r.chain.validity \in TimeShifted) =>
                                (r.target # "metadata" /\ ChainsToBundleCA(r.chain) /\ r.chain.san = "bundleHost")}

-----------------------------------------------------------------------------
(* Client-side handshake machine                                               *)

Init == /\ row \in RealRows
        /\ phase = "start" /\ sni = "none" /\ clientCert = "none" /\ cqlSent = FALSE

\* ClientHello carries the SNI
Hello == /\ phase = "start"
         /\ phase' = "hello" /\ sni' = ExpectedSNI(row.target)
         /\ UNCHANGED <<row, clientCert, cqlSent>>

\* the server answers with its chain; the client verifies it
Verify == /\ phase = "hello"
          /\ phase' = (IF Accept(row.chain) THEN "verified" ELSE "aborted")
          /\ UNCHANGED <<row, sni, clientCert, cqlSent>>

\* only a verified server is shown the bundle's client certificate and gets the handshake finished
Finish == /\ phase = "verified"
          /\ phase' = "established" /\ clientCert' = "bundle"
          /\ UNCHANGED <<row, sni, cqlSent>>

\* application data: the HTTP request to /metadata, or CQL frames
SendCQL == /\ phase = "established"
           /\ phase' = "cql" /\ cqlSent' = TRUE
           /\ UNCHANGED <<row, sni, clientCert>>

Next == Hello \/ Verify \/ Finish \/ SendCQL
Spec == Init /\ [][Next]_vars

Terminal == phase \in {"cql", "aborted"}

-----------------------------------------------------------------------------
(* Obligations of the statement                                                *)

NoCQLBeforeAccept == cqlSent => Accept(row.chain)
PresentsBundleCert == phase \in {"established", "cql"} => clientCert = "bundle"
CertOnlyToVerified == clientCert # "none" => Accept(row.chain)
SNIOk == phase # "start" => sni = ExpectedSNI(row.target)
AcceptedGetService == (Terminal /\ Accept(row.chain)) => cqlSent

\* table sanity: each rejected class of the statement is rejected, the good chains are accepted
ASSUME ClassesSane ==
    /\ \A c \in Chains : c.signer = "self" => ~Accept(c)                   \* self-signed
    /\ \A c \in Chains : c.signer = "other" => ~Accept(c)                  \* leaf under another CA (root presented or not)
    /\ \A c \in Chains : c.san # "bundleHost" => ~Accept(c)                \* wrong name (even the SNI's name)
    /\ \A c \in Chains : c.validity \notin ValidNow => ~Accept(c)         \* expired (also since the endpoint was made) / not yet valid
    /\ \A c \in Chains : (c.signer = "int" /\ ~c.extra) => ~Accept(c)      \* intermediate missing
    /\ \A c \in Chains : c.signer = "intexp" => ~Accept(c)                 \* intermediate expired
    /\ ~Accept(EmptyChain)
    /\ Accept([signer |-> "direct", extra |-> FALSE, san |-> "bundleHost", validity |-> "current"])
    /\ Accept([signer |-> "direct", extra |-> TRUE, san |-> "bundleHost", validity |-> "current"])
    /\ Accept([signer |-> "int", extra |-> TRUE, san |-> "bundleHost", validity |-> "current"])
    /\ Cardinality({c \in Chains : Accept(c)}) = 6
    /\ Cardinality(Chains) = 210
    /\ \A c \in Chains : c.signer = "borrowed" => ~Accept(c)              \* a genuine certificate shown, its key not held
    /\ \A c \in Chains : c.signer = "lookalike" => ~Accept(c)             \* copied names and numbers, foreign keys
    /\ \A c \in Chains \cup {EmptyChain} : Accept(c) <=> Why(c) = {}

\* export: the observation expected at the end of every row
Export ==
    Terminal => PrintT(<<"ROW", ToJson([target |-> row.target, chain |-> row.chain, host |-> row.host,
                                         tls |-> row.tls, draw |-> row.draw, prior |-> row.prior,
                                         expect |-> [accept |-> Accept(row.chain), why |-> Why(row.chain), sni |-> sni,
                                                     clientCert |-> clientCert, appData |-> cqlSent]])>>)
=============================================================================
