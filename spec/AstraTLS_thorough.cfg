SPECIFICATION Spec
CONSTANTS
  HostKinds = {"dns", "ip"}
  TLSVersions = {"1.2", "1.3"}
  IdDraws = 16
INVARIANTS NoCQLBeforeAccept PresentsBundleCert CertOnlyToVerified SNIOk AcceptedGetService Export
CHECK_DEADLOCK FALSE
