-------------------------- MODULE BackendHandshake --------------------------
(* The proxy as a CQL client: the handshake every backend connection goes through       *)
(* (proxycore/clientconn.go Handshake / authInitialResponse / authChallenge /            *)
(* registerForEvents, proxycore/auth.go, and what proxycore/cluster.go connect and        *)
(* proxycore/connpool.go connect do with its result).  Beyond the twenty listed           *)
(* properties, but everything C14 / C16 / C20 say about "the control connection",         *)
(* "replaces it" and "selects the protocol version it names" goes through this machine.   *)
(*                                                                                        *)
(* One behaviour per row: the row (how the connection is used, the version asked for,     *)
(* whether credentials are configured, and the personality of the backend) is chosen in   *)
(* the initial state; each action is one request / response exchange of the code.  The     *)
(* terminal state is exported: the frames the backend must have received, in order, and    *)
(* the outcome.  The driver plays the backend personality against the real                 *)
(* proxycore.ConnectCluster (initial / reconnect) and proxycore.ConnectSession (pool).      *)
EXTENDS Naturals, Sequences, FiniteSets, SequencesExt, TLC, Json

V2 == 2  V3 == 3  V4 == 4  V5 == 5  DSE1 == 65  DSE2 == 66
Versions == {V3, V4, V5, DSE1, DSE2}

CONSTANTS Kinds,        \* subset of {"initial", "reconnect", "pool"}
          Starts,       \* versions the connection is asked to use
          Supports,     \* the version sets a backend may support
          Wordings,     \* how a backend refuses a version: "invalid" | "beta" | "server_error"
          Auths,        \* backend authentication personalities
          Regs,         \* answer to REGISTER: "ready" | "error" | "unexpected"
          Comps,        \* compression of a pooled connection: "" | "lz4" | "snappy"
          Keyspaces     \* keyspace of a pooled connection: "" | "ks" | "nosuch"

VARIABLES row, pc, ver, sent, out, nauth
vars == <<row, pc, ver, sent, out, nauth>>

\* the downgrade chain of Handshake(): DSEv2 -> DSEv1 -> v4 ; v5 -> v4 -> v3 -> v2 ; v2 is the end
Down(v) == CASE v = DSE2 -> DSE1 [] v = DSE1 -> V4 [] v = V2 -> V2 [] OTHER -> v - 1
Chain(v) == LET RECURSIVE C(_)
                C(x) == IF x = V2 THEN {V2} ELSE {x} \cup C(Down(x))
            IN C(v)
\* the first version on the chain the backend supports (0: none)
RECURSIVE FirstSupported(_, _)
FirstSupported(v, supp) == IF v \in supp THEN v ELSE IF v = V2 THEN 0 ELSE FirstSupported(Down(v), supp)

Rows == [kind: Kinds, start: Starts, supp: Supports, wording: Wordings, auth: Auths, creds: BOOLEAN,
         reg: Regs, comp: Comps, ks: Keyspaces]
\* rows that differ only in fields their kind never looks at are the same row
Canonical(r) == /\ (r.kind # "pool" => r.comp = "" /\ r.ks = "")
                /\ (r.kind = "pool" => r.reg = "ready")

Frame(op, v, f) == [op |-> op, ver |-> v, f |-> f]
Send(op, f) == sent' = Append(sent, Frame(op, ver, f))

Init == /\ row \in {r \in Rows : Canonical(r)}
        /\ pc = "startup" /\ ver = row.start /\ sent = <<>> /\ out = "" /\ nauth = 0

Fail(why) == pc' = "fail" /\ out' = why
\* what follows a completed authentication / READY
AfterReady == IF row.kind = "pool" THEN pc' = "check_version" ELSE pc' = "register"

(* STARTUP, with the COMPRESSION option of a compressed pool *)
Startup == /\ pc = "startup"
           /\ Send("STARTUP", row.comp)
           /\ pc' = "wait_startup"
           /\ UNCHANGED <<row, ver, out, nauth>>

(* the backend's answer to STARTUP *)
StartupAnswer ==
    /\ pc = "wait_startup"
    /\ UNCHANGED <<row, sent, nauth>>
    /\ IF ver \notin row.supp
       THEN \* refused: only the documented wording makes the client step down, and v2 is the end of the chain
            IF row.wording = "invalid" /\ ver # V2
            THEN ver' = Down(ver) /\ pc' = "startup" /\ out' = out
            ELSE ver' = ver /\ Fail("cql_error")
       ELSE /\ ver' = ver
            /\ CASE row.auth = "none" -> AfterReady /\ out' = out
                 [] row.auth = "unexpected" -> Fail("unexpected")
                 [] OTHER -> IF row.creds THEN pc' = "auth1" /\ out' = out ELSE Fail("auth_expected")

Authenticator == CASE row.auth \in {"dse", "dse_badchallenge"} -> "dse"
                   [] row.auth = "unknown_sasl" -> "other"
                   [] OTHER -> "password"
\* InitialResponse: "PLAIN" for the DSE authenticator, the SASL token for every other one
Auth1 == /\ pc = "auth1"
         /\ Send("AUTH_RESPONSE", IF Authenticator = "dse" THEN "PLAIN" ELSE "token")
         /\ pc' = "wait_auth1" /\ nauth' = nauth + 1
         /\ UNCHANGED <<row, ver, out>>
Auth1Answer ==
    /\ pc = "wait_auth1"
    /\ UNCHANGED <<row, ver, sent, nauth>>
    /\ CASE row.auth \in {"password", "unknown_sasl"} -> AfterReady /\ out' = out       \* AUTH_SUCCESS
         [] row.auth = "reject" -> Fail("cql_error")                                       \* ERROR bad credentials
         [] row.auth \in {"dse", "challenge_loop"} -> pc' = "auth2" /\ out' = out        \* AUTH_CHALLENGE PLAIN-START
         [] row.auth = "dse_badchallenge" -> Fail("bad_challenge")                         \* a challenge that is not PLAIN-START
(* EvaluateChallenge: the token, for PLAIN-START only *)
Auth2 == /\ pc = "auth2"
         /\ Send("AUTH_RESPONSE", "token")
         /\ pc' = "wait_auth2" /\ nauth' = nauth + 1
         /\ UNCHANGED <<row, ver, out>>
Auth2Answer ==
    /\ pc = "wait_auth2"
    /\ UNCHANGED <<row, ver, sent, nauth>>
    /\ IF row.auth = "dse" THEN AfterReady /\ out' = out
       ELSE Fail("unexpected")                                                             \* a second challenge

(* control connections register for all events *)
Register == /\ pc = "register"
            /\ Send("REGISTER", "all")
            /\ pc' = "wait_register"
            /\ UNCHANGED <<row, ver, out, nauth>>
RegisterAnswer ==
    /\ pc = "wait_register"
    /\ UNCHANGED <<row, ver, sent, nauth>>
    /\ CASE row.reg = "ready" -> pc' = "check_version" /\ out' = out
         [] row.reg = "error" -> Fail("cql_error")
         [] OTHER -> Fail("unexpected")

(* what the callers do with the negotiated version: only the first control connection may     *)
(* settle for less than it asked for                                                           *)
CheckVersion ==
    /\ pc = "check_version"
    /\ UNCHANGED <<row, ver, nauth>>
    /\ IF row.kind # "initial" /\ ver # row.start
       THEN Fail("version_mismatch") /\ sent' = sent
       ELSE CASE row.kind = "pool" /\ row.ks # "" -> Send("USE", row.ks) /\ pc' = "wait_use" /\ out' = out
              [] row.kind = "pool" -> pc' = "ok" /\ out' = "ok" /\ sent' = sent
              [] OTHER -> Send("QUERY", "system.local") /\ pc' = "wait_local" /\ out' = out
UseAnswer == /\ pc = "wait_use"
             /\ UNCHANGED <<row, ver, sent, nauth>>
             /\ IF row.ks = "ks" THEN pc' = "ok" /\ out' = "ok" ELSE Fail("cql_error")
(* the control connection reads the topology before it is installed *)
LocalAnswer == /\ pc = "wait_local"
               /\ Send("QUERY", "system.peers")
               /\ pc' = "ok" /\ out' = "ok"
               /\ UNCHANGED <<row, ver, nauth>>

Done == pc \in {"ok", "fail"}
Next == \/ Startup \/ StartupAnswer \/ Auth1 \/ Auth1Answer \/ Auth2 \/ Auth2Answer
        \/ Register \/ RegisterAnswer \/ CheckVersion \/ UseAnswer \/ LocalAnswer
        \/ (Done /\ UNCHANGED vars)
Spec == Init /\ [][Next]_vars /\ WF_vars(Next)

------------------------------------------------------------------------------
TypeOK == /\ pc \in {"startup", "wait_startup", "auth1", "wait_auth1", "auth2", "wait_auth2", "register",
                     "wait_register", "check_version", "wait_use", "wait_local", "ok", "fail"}
          /\ ver \in Versions \cup {V2}
          /\ Len(sent) <= 12
Ops(op) == {i \in 1..Len(sent) : sent[i].op = op}

\* the version only moves down the chain of the version asked for, and never below v2
OnChain == ver \in Chain(row.start)
\* every frame of one exchange carries the version of the STARTUP that was accepted
OneVersionAfterStartup ==
    \A i \in 1..Len(sent) : sent[i].op # "STARTUP" => sent[i].ver = ver
\* success means the backend accepted this version, authentication completed and (control) the registration stands
OkMeansAccepted ==
    out = "ok" => /\ ver \in row.supp
                  /\ row.auth \in {"none", "password", "unknown_sasl", "dse"}
                  /\ (row.auth # "none" => row.creds)
                  /\ (row.kind # "pool" => row.reg = "ready" /\ Ops("REGISTER") # {})
                  /\ (row.kind # "initial" => ver = row.start)
\* the first control connection settles for the best version both sides speak
NegotiatesBest ==
    (out = "ok" /\ row.kind = "initial") => ver = FirstSupported(row.start, row.supp)
\* ... and does find it whenever the backend refuses with the documented wording and everything else is in order
FindsCommonVersion ==
    (Done /\ row.kind = "initial" /\ row.wording = "invalid" /\ FirstSupported(row.start, row.supp) # 0
          /\ (row.auth = "none" \/ (row.auth \in {"password", "unknown_sasl", "dse"} /\ row.creds)) /\ row.reg = "ready")
        => out = "ok"
\* credentials leave the proxy only after the backend asked for them, at most twice, never without configuration
CredentialsOnlyWhenAsked ==
    /\ (Ops("AUTH_RESPONSE") # {} => row.auth \notin {"none", "unexpected"} /\ row.creds)
    /\ nauth <= 2
    /\ \A i \in Ops("AUTH_RESPONSE") : \E j \in Ops("STARTUP") : j < i /\ sent[j].ver = sent[i].ver
\* the token is never sent to answer a challenge other than PLAIN-START
NoTokenForForeignChallenge ==
    row.auth = "dse_badchallenge" => \A i \in Ops("AUTH_RESPONSE") : sent[i].f = "PLAIN"
\* nothing is asked of a connection before its handshake completed: USE / topology queries come last
WorkOnlyAfterHandshake ==
    \A i \in Ops("USE") \cup Ops("QUERY") : \A j \in Ops("STARTUP") \cup Ops("AUTH_RESPONSE") \cup Ops("REGISTER") : j < i
\* a compressed pool announces its compression in every STARTUP, nobody else does
CompressionAnnounced == \A i \in Ops("STARTUP") : sent[i].f = row.comp
\* every row ends
Terminates == <>Done

Export == Done => PrintT(<<"BHS", ToJson([row |-> [row EXCEPT !.supp = SetToSeq(row.supp)],
                                             out |-> out, ver |-> ver, sent |-> sent])>>)
=============================================================================
