SPECIFICATION Spec
CONSTANTS
  Kinds = {"initial", "reconnect", "pool"}
  Starts <- AllStarts
  Supports <- AllSupports
  Wordings = {"invalid", "beta", "server_error"}
  Auths = {"none", "password", "dse", "dse_badchallenge", "unknown_sasl", "reject", "challenge_loop", "unexpected"}
  Regs = {"ready", "error", "unexpected"}
  Comps = {"", "lz4", "snappy"}
  Keyspaces = {"", "ks", "nosuch"}
INVARIANTS TypeOK OnChain OneVersionAfterStartup OkMeansAccepted NegotiatesBest FindsCommonVersion
  CredentialsOnlyWhenAsked NoTokenForForeignChallenge WorkOnlyAfterHandshake CompressionAnnounced Export
PROPERTY Terminates
CHECK_DEADLOCK FALSE
