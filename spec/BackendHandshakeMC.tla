------------------------- MODULE BackendHandshakeMC -------------------------
EXTENDS BackendHandshake
\* what a backend may speak: Cassandra 2.1 / 2.2-3.x / 4.x, DSE 5.1 / 6.x, and something that refuses everything
AllSupports == {{3}, {3, 4}, {3, 4, 5}, {3, 4, 65}, {3, 4, 65, 66}, {}}
AllStarts == {3, 4, 5, 65, 66}
=============================================================================
