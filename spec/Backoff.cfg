SPECIFICATION Spec
CONSTANTS
  Bases = {0, 1, 200, 2000, 3600000, 43200000}
  Maxes = {0, 1, 150, 1000, 600000, 86400000}
  Attempts = {0, 1, 2, 3, 5, 8, 10, 12, 20, 31, 40, 44, 45, 46, 50, 62, 63, 70}
INVARIANTS WithinBounds Monotone Export
CHECK_DEADLOCK FALSE
