-------------------------------- MODULE Backoff --------------------------------
(* Reconnect back-off calculator (proxycore/reconnpolicy.go).  Delay in nanoseconds:  *)
(* min(max, base + 1ms * 2^attempt + jitter), jitter in [85ms, 115ms), attempts capped *)
(* where the exponential term alone would exceed the base (the policy then returns     *)
(* max).  Property (C16): min(base, max) <= delay <= max for every attempt; the delay  *)
(* is non-decreasing in the attempt number for fixed jitter; Reset returns to attempt 0.*)
EXTENDS Integers, Sequences, TLC, Json
CONSTANTS Bases, Maxes, Attempts    \* in milliseconds
VARIABLE row
MS == 1000000
\* 2^n milliseconds, saturated at 2^30 ms (about 12 days, above every maximum delay used) so that it fits TLC's integers
Pow2(n) == LET RECURSIVE P(_) P(k) == IF k = 0 THEN 1 ELSE 2 * P(k - 1) IN P(IF n > 30 THEN 30 ELSE n)
Min(a, b) == IF a < b THEN a ELSE b
\* delay (ms) for attempt a with jitter j (ms) as long as the exponential term is used
DelayMs(b, m, a, j) == Min(m, b + Pow2(a) + j)
Rows == {[base |-> b, max |-> m, attempt |-> a] : b \in Bases, m \in Maxes, a \in Attempts}
Init == row \in Rows
Next == UNCHANGED row
Spec == Init /\ [][Next]_row
Lo(r) == DelayMs(r.base, r.max, r.attempt, 85)
Hi(r) == DelayMs(r.base, r.max, r.attempt, 114)
WithinBounds == Min(row.base, row.max) <= Lo(row) /\ Hi(row) <= row.max /\ Lo(row) <= Hi(row)
Monotone == row.attempt > 0 => DelayMs(row.base, row.max, row.attempt - 1, 85) <= Lo(row)
Export == PrintT(<<"ROW", ToJson([base |-> row.base, max |-> row.max, attempt |-> row.attempt, lo |-> Lo(row), hi |-> Hi(row),
                                   floor |-> Min(row.base, row.max)])>>)
=============================================================================
