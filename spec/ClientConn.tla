------------------------------- MODULE ClientConn -------------------------------
(* C13 - handshake, version negotiation and compression selection are answered    *)
(* locally (proxy/proxy.go client.Receive, codecs/codec.go).                      *)
(*                                                                                *)
(* Behavioural specification of the client side of the proxy, at the level of     *)
(* what is observable on the sockets.  Per client connection the state is         *)
(*   codec   - body compression negotiated on this connection                     *)
(*   started - a STARTUP was answered with READY                                  *)
(*   alive   - "yes" | "no" (closed) | "open" (the statement does not say)        *)
(* The input alphabet are abstract frames [op, ver, arg, extra, body]; the step    *)
(* function Outcomes(m, st, f) gives, for configured maximum version m, the SET of *)
(* allowed outcomes: how many frames are sent back to this client on the request's *)
(* stream, their opcode, header version, whether they must be the protocol error   *)
(* naming the version, whether the frame may reach the backend, and the new        *)
(* connection state.  The oracle is written from the property statement, the       *)
(* native protocol specification (section 2: frame header, 4.1.1 STARTUP, 4.1.3    *)
(* OPTIONS, 4.1.8 REGISTER, 5 compression) and the README - not from the Go code.  *)
(* Where the statement leaves the verdict open the outcome says so ("*", "any",    *)
(* "open") and nothing is asserted by the replay.                                  *)
EXTENDS Naturals, Sequences, FiniteSets, TLC, Json

CONSTANTS MaxVersions,  \* configured maximum versions explored, subset of {3,4,5,65,66}
          NConns,       \* client connections
          MaxFrames,    \* bound on the number of frames of a behaviour
          Mode          \* "mc" | "seq" | "seqmid" | "seqwide" | "rows"   (alphabet / history switch)

VARIABLES maxv,   \* the configured maximum (chosen initially, never changes)
          conn,   \* conn[c] = [codec, started, alive]
          nsent,  \* frames sent so far
          hist    \* history of steps with expected outcomes (export modes only)

vars == <<maxv, conn, nsent, hist>>

Conns == 1..NConns

-----------------------------------------------------------------------------
(* Protocol versions.  DSE versions carry bit 6 (DSEv1 = 65, DSEv2 = 66) which is  *)
(* how they sit numerically above v5.  0 stands for the class "version byte the    *)
(* protocol does not define" (the replay picks concrete bytes).                    *)
Known        == {2, 3, 4, 5, 65, 66}
UNK          == 0
VerClasses   == Known \cup {UNK}
Configurable == {3, 4, 5, 65, 66}
ASSUME MaxVersions \subseteq Configurable /\ MaxVersions # {}

VersionOK(v, m) == v \in Known /\ v >= 3 /\ v <= m
Gated(v, m)     == v \in Known /\ ~VersionOK(v, m)

(* Compression names as they appear in the STARTUP option map.  "-" = no           *)
(* COMPRESSION key; "lz4~"/"snappy~" = the name in mixed letter case (concretised   *)
(* by the replay); "" = empty value.  Algorithm names are matched without regard    *)
(* to letter case (the property quantifies over "compression names in any case").   *)
CompArgs   == {"-", "lz4", "LZ4", "lz4~", "snappy", "SNAPPY", "snappy~", "bogus", "", "deflate"}
Algorithms == {"lz4", "snappy"}     \* what SUPPORTED advertises (README, COMPRESSION option)
Fold(a) == CASE a \in {"lz4", "LZ4", "lz4~"}          -> "lz4"
             [] a \in {"snappy", "SNAPPY", "snappy~"} -> "snappy"
             [] OTHER                                 -> "?"
(* native_protocol_v5.spec dropped snappy; whether a proxy that advertises it       *)
(* accepts it on v5 is left open.                                                   *)
CompVerdict(v, a) ==
    IF a = "-" THEN "absent"
    ELSE IF Fold(a) \notin Algorithms THEN "unsupported"
    ELSE IF v = 5 /\ Fold(a) = "snappy" THEN "open"
    ELSE "supported"

-----------------------------------------------------------------------------
(* Frame alphabet                                                                  *)
Fr(op, ver, arg, extra, body) == [op |-> op, ver |-> ver, arg |-> arg, extra |-> extra, body |-> body]

ResponseOps == {"ERROR", "READY", "AUTHENTICATE", "SUPPORTED", "RESULT", "EVENT", "AUTH_CHALLENGE", "AUTH_SUCCESS"}
HandshakeOps == {"OPTIONS", "STARTUP", "REGISTER"}

\* every well-formed frame class, on every version class
WellFormed(v) ==
       {Fr("OPTIONS", v, "", FALSE, "ok")}
  \cup {Fr("STARTUP", v, a, x, "ok") : a \in CompArgs, x \in BOOLEAN}
  \cup {Fr("REGISTER", v, a, FALSE, "ok") : a \in {"schema", "all", "topo", "none"}}
  \cup {Fr("QUERY", v, a, FALSE, "ok") : a \in {"fwd", "local"}}
  \cup {Fr(op, v, "", FALSE, "ok") : op \in {"PREPARE", "EXECUTE", "BATCH", "AUTH_RESPONSE"}}
\* not requests at all: a response opcode, an undefined opcode byte, the direction bit set
Malformed(v) ==
       {Fr("RESPONSE", v, a, FALSE, "ok") : a \in ResponseOps}
  \cup {Fr("BADOP", v, "", FALSE, "ok"), Fr("RESPDIR", v, "", FALSE, "ok")}
\* a body that is not a body of that opcode (the gate must not depend on it)
Garbage(v) == {Fr(op, v, "", FALSE, "garbage") : op \in {"STARTUP", "REGISTER", "QUERY"}}

Full == UNION {WellFormed(v) \cup Malformed(v) \cup Garbage(v) : v \in VerClasses}

\* the smallest known version above m; v2 when there is none (m = DSEv2)
Above(m) == IF \E v \in Known : v > m
            THEN CHOOSE v \in Known : v > m /\ \A w \in Known : w > m => v <= w
            ELSE 2

\* sequence alphabets (every accepted frame at the configured maximum, as a driver would)
SeqNarrow(m) == { Fr("OPTIONS", m, "", FALSE, "ok"),
                  Fr("STARTUP", m, "lz4", FALSE, "ok"),
                  Fr("STARTUP", m, "bogus", FALSE, "ok"),
                  Fr("REGISTER", m, "schema", FALSE, "ok"),
                  Fr("QUERY", m, "fwd", FALSE, "ok"),
                  Fr("STARTUP", Above(m), "snappy", FALSE, "ok") }          \* gated: must not switch
SeqMid(m)    == SeqNarrow(m) \cup
                { Fr("STARTUP", m, "-", TRUE, "ok"),
                  Fr("QUERY", m, "local", FALSE, "ok") }
SeqWide(m)   == SeqMid(m) \cup
                { Fr("STARTUP", m, "SNAPPY", TRUE, "ok"),
                  Fr("QUERY", Above(m), "fwd", FALSE, "ok"),                \* gated: must not be forwarded
                  Fr("OPTIONS", 2, "", FALSE, "ok"),
                  Fr("OPTIONS", UNK, "", FALSE, "ok") }

\* "rows": one arbitrary frame in each of the states reachable by one STARTUP
Prefix(m) == {Fr("STARTUP", m, a, FALSE, "ok") : a \in {"-", "lz4", "snappy~"}}

-----------------------------------------------------------------------------
(* Step function, written as the decision list of a protocol handler.              *)
Codecs    == {"none", "lz4", "snappy", "open"}   \* "open": the statement does not determine it
AliveVals == {"yes", "no", "open"}

Out(nmin, nmax, ops, perr, ver, fwd, alive, codec, started) ==
    [nmin |-> nmin, nmax |-> nmax, ops |-> ops, perr |-> perr, ver |-> ver, fwd |-> fwd,
     alive |-> alive, codec |-> codec, started |-> started]

\* exactly one local reply with an opcode out of `ops`, in the request's version; state as given
Local(ops, f, codec, started) == Out(1, 1, ops, FALSE, f.ver, "no", "yes", codec, started)
\* the protocol error that names the version; connection and state untouched
VersionError(f, st) == Out(1, 1, {"ERROR"}, TRUE, f.ver, "no", "yes", st.codec, st.started)
\* connection closed (at most one error frame before that); nothing forwarded
Closed(st) == Out(0, 1, {"ERROR"}, FALSE, 0, "no", "no", st.codec, st.started)
\* no verdict
Open(fwd, st) == Out(0, 99, {"*"}, FALSE, 0, fwd, "open", st.codec, st.started)

Outcomes(m, st, f) ==
    IF f.ver \notin Known THEN
        \* unknown version byte: the version error (its header version cannot be prescribed) or a close
        {[VersionError(f, st) EXCEPT !.ver = 0], Closed(st)}
    ELSE IF f.op \in {"RESPONSE", "BADOP", "RESPDIR"} THEN
        \* not a request: verdict open, but a gated version is never forwarded
        {Open(IF Gated(f.ver, m) THEN "no" ELSE "any", st)}
    ELSE IF Gated(f.ver, m) THEN
        {VersionError(f, st)}
    ELSE IF f.body # "ok" THEN
        {Open("any", st)}                 \* hostile body on an accepted version: C11 / C17
    ELSE CASE f.op = "OPTIONS"  -> {Local({"SUPPORTED"}, f, st.codec, st.started)}
           [] f.op = "STARTUP"  ->
               (LET cv == CompVerdict(f.ver, f.arg)
                    ready(c) == Local({"READY"}, f, c, TRUE)
                    err      == Local({"ERROR"}, f, st.codec, st.started)
                IN CASE cv = "absent"      -> {ready(IF st.codec = "none" THEN "none" ELSE "open")}
                     [] cv = "supported"   -> {ready(Fold(f.arg))}
                     [] cv = "unsupported" -> {err}
                     [] cv = "open"        -> {ready(Fold(f.arg)), err})
           [] f.op = "REGISTER" ->
                {Local(IF st.started /\ f.arg # "none" THEN {"READY"} ELSE {"READY", "ERROR"}, f, st.codec, st.started)}
           [] f.op = "QUERY"    ->
                \* not C13's subject; used to observe the codec in both directions.  A started
                \* connection gets its result; before STARTUP an error is as good.
                {Out(1, 1, IF st.started THEN {"RESULT"} ELSE {"RESULT", "ERROR"}, FALSE, 0, "any", "yes", st.codec, st.started)}
           [] OTHER             -> {Open("any", st)}

-----------------------------------------------------------------------------
(* Compact strings for the export (the replay driver splits them)                  *)
F2S(f) == f.op \o "|" \o ToString(f.ver) \o "|" \o f.arg \o "|" \o (IF f.extra THEN "1" ELSE "0") \o "|" \o f.body
OpsStr(S) == LET p(x) == IF x \in S THEN x \o "/" ELSE ""
             IN p("SUPPORTED") \o p("READY") \o p("ERROR") \o p("RESULT") \o p("*")
B2S(b) == IF b THEN "1" ELSE "0"
O2S(o) == ToString(o.nmin) \o "," \o ToString(o.nmax) \o "," \o OpsStr(o.ops) \o "," \o B2S(o.perr) \o ","
          \o ToString(o.ver) \o "," \o o.fwd \o "," \o o.alive \o "," \o o.codec \o "," \o B2S(o.started)
St2S(st) == st.codec \o "," \o B2S(st.started) \o "," \o st.alive

-----------------------------------------------------------------------------
InitConn == [codec |-> "none", started |-> FALSE, alive |-> "yes"]

Init == /\ maxv \in MaxVersions
        /\ conn = [c \in Conns |-> InitConn]
        /\ nsent = 0
        /\ hist = <<>>

Alphabet ==
    CASE Mode = "mc"      -> Full
      [] Mode = "seq"     -> SeqNarrow(maxv)
      [] Mode = "seqmid"  -> SeqMid(maxv)
      [] Mode = "seqwide" -> SeqWide(maxv)
      [] Mode = "rows"    -> IF nsent = 0 THEN Full
                             ELSE IF hist[1].f \in {F2S(p) : p \in Prefix(maxv)} THEN Full ELSE {}

Send(c, f, o) ==
    /\ nsent < MaxFrames
    /\ conn[c].alive = "yes"
    /\ (Mode # "mc" /\ nsent = 0) => c = 1            \* connections are interchangeable
    /\ (Mode = "rows") => c = 1
    /\ o \in Outcomes(maxv, conn[c], f)
    /\ conn' = [conn EXCEPT ![c] = [codec |-> o.codec, started |-> o.started, alive |-> o.alive]]
    /\ nsent' = nsent + 1
    /\ hist' = IF Mode = "mc" THEN hist
               ELSE Append(hist, [c |-> c, f |-> F2S(f), o |-> O2S(o), s |-> St2S(conn[c]),
                                  a |-> {O2S(x) : x \in Outcomes(maxv, conn[c], f)} \ {O2S(o)}])
    /\ UNCHANGED maxv

Next == \E c \in Conns : \E f \in Alphabet : \E o \in Outcomes(maxv, conn[c], f) : Send(c, f, o)

Spec == Init /\ [][Next]_vars

-----------------------------------------------------------------------------
(* Properties (C13).  Each quantifies over EVERY frame of the full alphabet in      *)
(* every reachable state, i.e. over all sequences of <= MaxFrames frames followed   *)
(* by any frame.                                                                    *)
ConnStates == [codec : Codecs, started : BOOLEAN, alive : AliveVals]

TypeOK == /\ maxv \in MaxVersions
          /\ conn \in [Conns -> ConnStates]
          /\ nsent \in 0..MaxFrames
          /\ \A c \in Conns : (conn[c].codec \in {"lz4", "snappy"} => conn[c].started)

LiveSteps(P(_, _, _)) ==
    \A c \in Conns : conn[c].alive = "yes" =>
        \A f \in Full : \A o \in Outcomes(maxv, conn[c], f) : P(conn[c], f, o)

ExactlyOne(o) == o.nmin = 1 /\ o.nmax = 1

\* OPTIONS / STARTUP / REGISTER: exactly one SUPPORTED, READY or ERROR, never forwarded
HandshakeLocalExactlyOne ==
    LiveSteps(LAMBDA st, f, o :
        (f.op \in HandshakeOps /\ VersionOK(f.ver, maxv) /\ f.body = "ok") =>
            /\ ExactlyOne(o)
            /\ o.ops # {} /\ o.ops \subseteq {"SUPPORTED", "READY", "ERROR"}
            /\ (f.op = "OPTIONS") = ("SUPPORTED" \in o.ops)
            /\ (f.op = "OPTIONS" => o.ops = {"SUPPORTED"})
            /\ o.fwd = "no" /\ o.alive = "yes" /\ o.ver = f.ver)

\* known version above the maximum or below v3: one protocol error naming the version, in that
\* version, nothing forwarded, connection usable and unchanged - whatever the opcode and body of a
\* request frame; unknown byte: that error or a close, never forwarded
VersionGate ==
    LiveSteps(LAMBDA st, f, o :
        /\ (Gated(f.ver, maxv) /\ f.op \notin {"RESPONSE", "BADOP", "RESPDIR"}) =>
              /\ ExactlyOne(o) /\ o.ops = {"ERROR"} /\ o.perr /\ o.ver = f.ver
              /\ o.fwd = "no" /\ o.alive = "yes"
              /\ o.codec = st.codec /\ o.started = st.started
        /\ Gated(f.ver, maxv) => o.fwd = "no"
        /\ (f.ver \notin Known) =>
              /\ o.fwd = "no"
              /\ \/ o.alive = "no"
                 \/ ExactlyOne(o) /\ o.ops = {"ERROR"} /\ o.perr /\ o.alive = "yes"
              /\ o.codec = st.codec /\ o.started = st.started
        \* and the gate is exactly the numeric comparison of the statement
        /\ (f.ver \in Known /\ f.ver >= 3 /\ f.ver <= maxv /\ f.op \in HandshakeOps /\ f.body = "ok") => ~o.perr)

\* unsupported compression: only an error, nothing changes
UnsupportedCompressionOnlyError ==
    LiveSteps(LAMBDA st, f, o :
        (f.op = "STARTUP" /\ VersionOK(f.ver, maxv) /\ f.body = "ok" /\ f.arg # "-" /\ Fold(f.arg) \notin Algorithms) =>
            /\ ExactlyOne(o) /\ o.ops = {"ERROR"}
            /\ o.codec = st.codec /\ o.started = st.started /\ o.alive = "yes")

\* supported compression: READY and this connection uses the algorithm from the next frame on ...
CodecSwitch ==
    LiveSteps(LAMBDA st, f, o :
        /\ (f.op = "STARTUP" /\ VersionOK(f.ver, maxv) /\ f.body = "ok" /\ "READY" \in o.ops) =>
              /\ o.started
              /\ (Fold(f.arg) \in Algorithms => o.codec = Fold(f.arg))
              /\ (f.arg = "-" /\ st.codec = "none" => o.codec = "none")
        \* nothing but an accepted STARTUP changes the codec
        /\ (o.codec # st.codec) => (f.op = "STARTUP" /\ VersionOK(f.ver, maxv) /\ "READY" \in o.ops))
\* ... and only this connection
CodecSwitchLocalToConnection ==
    [][\A c \in Conns : conn'[c] # conn[c] => \A d \in Conns \ {c} : conn'[d] = conn[d]]_vars
MaxVersionFixed == [][maxv' = maxv]_vars

-----------------------------------------------------------------------------
(* Probes appended by the replay after the last frame of a behaviour on every       *)
(* connection that is still alive: a REGISTER (request direction of the codec,      *)
(* "usable") and a forwarded QUERY (response direction).  Their expected outcomes   *)
(* come from the same step function; neither changes the state.                     *)
ProbeFrames(m) == <<Fr("REGISTER", m, "schema", FALSE, "ok"), Fr("QUERY", m, "fwd", FALSE, "ok")>>
ProbeRow(m, st) ==
    [m |-> m, s |-> St2S(st),
     p |-> [i \in 1..2 |-> LET f == ProbeFrames(m)[i]
                           IN [f |-> F2S(f), o |-> O2S(CHOOSE o \in Outcomes(m, st, f) : TRUE)]]]
ProbeTable == {ProbeRow(m, st) : m \in MaxVersions, st \in {s \in ConnStates : s.alive = "yes"}}
ASSUME \A r \in ProbeTable : PrintT(<<"PROBE", ToJson(r)>>)
ASSUME \A m \in MaxVersions : \A st \in ConnStates : \A i \in 1..2 :
          Cardinality(Outcomes(m, st, ProbeFrames(m)[i])) = 1

-----------------------------------------------------------------------------
(* Export: every maximal behaviour is printed as one JSON line                      *)
Beh == [m |-> maxv, steps |-> hist, fin |-> [c \in Conns |-> St2S(conn[c])]]
ExportConstraint ==
    (nsent > 0 /\ (nsent = MaxFrames \/ ~ENABLED Next)) => PrintT(<<"BEH", ToJson(Beh)>>)
=============================================================================
