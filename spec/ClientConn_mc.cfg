SPECIFICATION Spec
CONSTANTS
  MaxVersions = {3, 4, 5, 65, 66}
  NConns = 2
  MaxFrames = 4
  Mode = "mc"
INVARIANTS TypeOK HandshakeLocalExactlyOne VersionGate UnsupportedCompressionOnlyError CodecSwitch
PROPERTIES CodecSwitchLocalToConnection MaxVersionFixed
CHECK_DEADLOCK FALSE
