SPECIFICATION Spec
CONSTANTS
  MaxVersions = {3, 4, 5, 65, 66}
  NConns = 2
  MaxFrames = 2
  Mode = "rows"
CONSTRAINT ExportConstraint
CHECK_DEADLOCK FALSE
