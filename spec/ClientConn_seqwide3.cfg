SPECIFICATION Spec
CONSTANTS
  MaxVersions = {3, 4, 5, 65, 66}
  NConns = 2
  MaxFrames = 3
  Mode = "seqwide"
CONSTRAINT ExportConstraint
CHECK_DEADLOCK FALSE
