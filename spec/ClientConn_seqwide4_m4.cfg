SPECIFICATION Spec
CONSTANTS
  MaxVersions = {4}
  NConns = 2
  MaxFrames = 4
  Mode = "seqwide"
CONSTRAINT ExportConstraint
CHECK_DEADLOCK FALSE
