SPECIFICATION Spec
CONSTANTS
  MaxVersions = {66}
  NConns = 2
  MaxFrames = 4
  Mode = "seqwide"
CONSTRAINT ExportConstraint
CHECK_DEADLOCK FALSE
