------------------------------- MODULE Config -------------------------------
(* C20 - configuration values are honoured as documented and bad configurations  *)
(* are refused (proxy/run.go Run, README "Configuration", `cql-proxy --help`).    *)
(*                                                                                *)
(* Decision table.  The module holds                                              *)
(*   - the DOCUMENTED tables: protocol version names (help text of                *)
(*     --protocol-version / --max-protocol-version: "options: v3, v4, v5, DSEv1,  *)
(*     DSEv2", default v4) with their wire codes (native protocol specification:  *)
(*     v3 = 3, v4 = 4, v5 = 5; DSE: DSE_V1 = 0x41, DSE_V2 = 0x42), the eleven      *)
(*     consistency names of the native protocol specification section 3           *)
(*     ([consistency]: ANY 0x0000 ... LOCAL_ONE 0x000A), the documented defaults  *)
(*     (heartbeat 30s, idle 60s, one connection, override LOCAL_QUORUM);          *)
(*   - Valid(cfg): the conjunction of the documented start-up validations         *)
(*     (property statement; README "Setting up peer proxies"; help texts);        *)
(*   - Outcome(cfg): a valid configuration RUNS with exactly the version /        *)
(*     max version / consistency mapping it names, an invalid one is REFUSED;     *)
(*   - the enumeration of the abstract input domain (Rows) by class.              *)
(* Nothing here is derived from the control flow of run.go.  Where the            *)
(* documentation leaves a verdict open the row says so (`open`) and the check     *)
(* asserts nothing about acceptance for it.                                       *)
EXTENDS Integers, Sequences, FiniteSets, TLC, Json

CONSTANT Thorough     \* BOOLEAN: thorough tier enumerates every class with every source

VARIABLE row

Range(s) == {s[i] : i \in DOMAIN s}
Injective(f) == \A a, b \in DOMAIN f : f[a] = f[b] => a = b

-----------------------------------------------------------------------------
(* Documented tables                                                          *)

VersionNames == <<"v3", "v4", "v5", "DSEv1", "DSEv2">>      \* in the order of the help text
VNames == Range(VersionNames)
VersionOf == [n \in VNames |-> CASE n = "v3" -> 3 [] n = "v4" -> 4 [] n = "v5" -> 5
                                 [] n = "DSEv1" -> 65 [] n = "DSEv2" -> 66]
Rank(n) == CHOOSE i \in DOMAIN VersionNames : VersionNames[i] = n
\* The help text lists the options in ascending order.  Whether OSS v5 is "above" or "below"
\* a DSE version is not stated anywhere: such pairs are left open.
Ambiguous(a, b) == \/ (a = "v5" /\ b \in {"DSEv1", "DSEv2"})
                   \/ (b = "v5" /\ a \in {"DSEv1", "DSEv2"})

ConsistencyNames == <<"ANY", "ONE", "TWO", "THREE", "QUORUM", "ALL", "LOCAL_QUORUM",
                      "EACH_QUORUM", "SERIAL", "LOCAL_SERIAL", "LOCAL_ONE">>
CNames == Range(ConsistencyNames)
\* native_protocol_v4.spec section 3: the code of a consistency is its position, from 0
ConsistencyOf == [n \in CNames |-> (CHOOSE i \in DOMAIN ConsistencyNames : ConsistencyNames[i] = n) - 1]
Codes == 0..10

ASSUME TablesSane ==
    /\ Injective(VersionOf)
    /\ Injective(ConsistencyOf)
    /\ {ConsistencyOf[n] : n \in CNames} = Codes
    /\ Cardinality(VNames) = 5 /\ Cardinality(CNames) = 11
    /\ \A a, b \in VNames : Rank(a) < Rank(b) => VersionOf[a] < VersionOf[b]

\* Documented defaults (help text): durations in milliseconds
Default == [ver |-> "v4", max |-> "v4", hb |-> 30000, idle |-> 60000, conns |-> 1,
            backend |-> TRUE, rpc |-> FALSE, tokens |-> FALSE, peers |-> <<>>,
            unsup |-> <<>>, override |-> "LOCAL_QUORUM"]

-----------------------------------------------------------------------------
(* Validity and outcome                                                       *)

PeerOK(c) ==
    /\ (Len(c.peers) > 0 => c.rpc)                              \* README: rpc-address required with peers
    /\ \A i \in DOMAIN c.peers : c.peers[i].rpc                 \* every peers: entry names its proxy
    /\ (c.tokens => \A i \in DOMAIN c.peers : c.peers[i].tokens)

NamesKnown(c) ==
    /\ c.ver \in VNames /\ c.max \in VNames
    /\ c.override \in CNames
    /\ \A i \in DOMAIN c.unsup : c.unsup[i] \in CNames

Valid(c) ==
    /\ NamesKnown(c)
    /\ c.hb < c.idle
    /\ c.conns >= 1
    /\ Rank(c.ver) <= Rank(c.max)
    /\ c.backend
    /\ PeerOK(c)

\* the clauses of Valid that a configuration violates (names the failing shape of a refused row)
Why(c) ==
    (IF c.ver \notin VNames THEN {"unknown-protocol-version"} ELSE {})
    \cup (IF c.max \notin VNames THEN {"unknown-max-protocol-version"} ELSE {})
    \cup (IF c.override \notin CNames THEN {"unknown-consistency-override"} ELSE {})
    \cup (IF \E i \in DOMAIN c.unsup : c.unsup[i] \notin CNames THEN {"unknown-unsupported-consistency"} ELSE {})
    \cup (IF c.hb >= c.idle THEN {"heartbeat-not-below-idle"} ELSE {})
    \cup (IF c.conns < 1 THEN {"fewer-than-one-connection"} ELSE {})
    \cup (IF c.ver \in VNames /\ c.max \in VNames /\ Rank(c.ver) > Rank(c.max) THEN {"version-above-max"} ELSE {})
    \cup (IF ~c.backend THEN {"no-backend"} ELSE {})
    \cup (IF Len(c.peers) > 0 /\ ~c.rpc THEN {"peers-without-rpc-address"} ELSE {})
    \cup (IF \E i \in DOMAIN c.peers : ~c.peers[i].rpc THEN {"peer-entry-without-rpc-address"} ELSE {})
    \cup (IF c.tokens /\ \E i \in DOMAIN c.peers : ~c.peers[i].tokens THEN {"tokens-not-for-every-peer"} ELSE {})

\* consistency seen by the backend for a write sent with code x
SeenCL(c, x) == IF \E i \in DOMAIN c.unsup : ConsistencyOf[c.unsup[i]] = x
                THEN ConsistencyOf[c.override] ELSE x

Outcome(c) ==
    IF Valid(c)
    THEN [kind     |-> "run", why |-> {},
          startup  |-> VersionOf[c.ver],                 \* version of the first STARTUP the backend receives
          accepted |-> VersionOf[c.max],                 \* a client speaking the max version is served
          rejected |-> {VersionOf[n] : n \in {m \in VNames : Rank(m) > Rank(c.max) /\ ~Ambiguous(m, c.max)}},
          cl       |-> [i \in 1..11 |-> SeenCL(c, i - 1)]]   \* cl[code+1]
    ELSE [kind |-> "refuse", why |-> Why(c), startup |-> 0, accepted |-> 0, rejected |-> {}, cl |-> <<>>]

-----------------------------------------------------------------------------
(* Enumeration of the input domain.  A row is                                  *)
(*   cls    class of the row                                                   *)
(*   src    where the `given` options are supplied: flag / env / yaml          *)
(*   given  the options that are supplied explicitly (the rest keep defaults)  *)
(*   cfg    the abstract configuration                                         *)
(*   sp     spelling variant of the option under test                          *)
(*   mask   letter-case bit mask when sp = "mask" (else -1)                    *)
(*   open   TRUE when the documentation leaves ACCEPTANCE of the row open      *)
(*          (undocumented spelling, OSS-v5/DSE ordering): if the proxy runs    *)
(*          the effect is still compared, if it refuses nothing is asserted    *)
(*   expect Outcome(cfg)                                                       *)

Srcs == {"flag", "env", "yaml"}
SrcsOf(important) == IF Thorough \/ important THEN Srcs ELSE {"flag"}

MkM(cls, src, given, cfg, sp, mask, open) ==
    [cls |-> cls, src |-> src, given |-> given, cfg |-> cfg, sp |-> sp, mask |-> mask, open |-> open,
     expect |-> Outcome(cfg)]
Mk(cls, src, given, cfg, sp, open) == MkM(cls, src, given, cfg, sp, -1, open)

VSpell == {"doc", "lower", "upper", "num"}     \* "num": the decimal wire code

VerSpellingRows ==
    {Mk("ver_spelling", s, {"ver", "max"}, [Default EXCEPT !.ver = n, !.max = n], sp, sp # "doc") :
        <<n, sp, s>> \in {t \in VNames \X VSpell \X Srcs : Thorough \/ t[3] = "flag" \/ t[2] = "doc"}}

MaxSpellingRows ==
    {Mk("max_spelling", s, {"ver", "max"}, [Default EXCEPT !.ver = "v3", !.max = n], sp, sp # "doc") :
        <<n, sp, s>> \in {t \in VNames \X VSpell \X Srcs : Thorough \/ t[3] = "flag" \/ t[2] = "doc"}}

PairRows ==
    {Mk("pair", s, {"ver", "max"}, [Default EXCEPT !.ver = a, !.max = b], "doc", Ambiguous(a, b)) :
        <<a, b, s>> \in VNames \X VNames \X SrcsOf(FALSE)}

\* names nobody documents; the second group looks like a documented name to a lenient reader (a number that equals a wire code
\* modulo 256, a sign or a leading zero, the prefix of the other family, a letter too many)
UnknownVersions == {"v2", "v6", "DSEv3", "v4.0", "latest"}
                   \cup {"260", "259", "321", "322", "+4", "04", "4.", "v04", "v65", "v66", "dse1", "dse2", "dsev-61", "DSEv01", "vv4", "v4x", "0x4", "65536"}
UnknownVerRows ==
    {Mk("ver_unknown", s, {"ver", "max"}, [Default EXCEPT !.ver = u, !.max = "DSEv2"], "doc", FALSE) :
        <<u, s>> \in UnknownVersions \X Srcs}
    \cup
    {Mk("max_unknown", s, {"ver", "max"}, [Default EXCEPT !.ver = "v3", !.max = u], "doc", FALSE) :
        <<u, s>> \in UnknownVersions \X Srcs}

CCase == {"upper", "lower", "capital", "random"}   \* "any letter case": four variants per name
OtherCL(n) == IF n = "ANY" THEN "ONE" ELSE "ANY"

\* the name under test is the OVERRIDE; a write sent with OtherCL(n) must arrive with n
OverrideRows ==
    {Mk("cl_override", s, {"unsup", "override"},
        [Default EXCEPT !.unsup = <<OtherCL(n)>>, !.override = n], cs, FALSE) :
        <<n, cs, s>> \in {t \in CNames \X CCase \X {"flag", "yaml"} : Thorough \/ t[3] = "flag" \/ t[2] = "upper"}}

\* the name under test is the UNSUPPORTED level; exactly that level is replaced by the (default) override
UnsupportedRows ==
    {Mk("cl_unsupported", s, {"unsup"}, [Default EXCEPT !.unsup = <<n>>], cs, FALSE) :
        <<n, cs, s>> \in {t \in CNames \X CCase \X Srcs : Thorough \/ t[3] = "flag" \/ t[2] = "upper"}}
    \cup
    {Mk("cl_unsupported", s, {"unsup", "override"},
        [Default EXCEPT !.unsup = <<"LOCAL_QUORUM">>, !.override = "QUORUM"], cs, FALSE) :
        <<cs, s>> \in CCase \X {"flag", "yaml"}}
    \cup
    {Mk("cl_list", s, {"unsup"}, [Default EXCEPT !.unsup = l], "upper", FALSE) :
        <<l, s>> \in {<<"ANY", "TWO", "EACH_QUORUM">>, <<"THREE", "ALL">>,
                      <<"SERIAL", "LOCAL_SERIAL", "LOCAL_ONE", "ONE">>} \X Srcs}

\* thorough tier: EVERY letter-case variant of every name, in both roles.  A variant is a bit mask over
\* the letters of the name (bit i set = letter i in upper case; the underscore is not a letter).
Letters(n) == Len(n) - (IF n \in {"LOCAL_QUORUM", "EACH_QUORUM", "LOCAL_SERIAL", "LOCAL_ONE"} THEN 1 ELSE 0)
Pow2(k) == LET RECURSIVE P(_)
               P(i) == IF i = 0 THEN 1 ELSE 2 * P(i - 1)
           IN P(k)
Masks(n) == IF Thorough THEN 0..(Pow2(Letters(n)) - 1) ELSE {}
AllCaseRows ==
    UNION {{MkM("cl_override", "flag", {"unsup", "override"},
                [Default EXCEPT !.unsup = <<OtherCL(n)>>, !.override = n], "mask", m, FALSE) : m \in Masks(n)} : n \in CNames}
    \cup
    UNION {{MkM("cl_unsupported", "flag", {"unsup"}, [Default EXCEPT !.unsup = <<n>>], "mask", m, FALSE) : m \in Masks(n)} : n \in CNames}

UnknownCLs == {"BOGUS", "LOCAL", "LOCAL-QUORUM", "QUORUMS", "11"} \cup {"LOCALQUORUM", "LOCAL_QUORUM_", "6", "0x06", "QUORUM1", "ON", "EACHQUORUM"}
UnknownCLRows ==
    {Mk("override_unknown", s, {"unsup", "override"},
        [Default EXCEPT !.unsup = <<"ANY">>, !.override = u], "upper", FALSE) :
        <<u, s>> \in UnknownCLs \X {"flag", "yaml"}}
    \cup
    {Mk("unsupported_unknown", s, {"unsup"}, [Default EXCEPT !.unsup = <<u>>], "upper", FALSE) :
        <<u, s>> \in UnknownCLs \X Srcs}
    \cup
    {Mk("unsupported_unknown", s, {"unsup"}, [Default EXCEPT !.unsup = <<"ANY", u>>], "upper", FALSE) :
        <<u, s>> \in {"BOGUS"} \X Srcs}

\* heartbeat interval / idle timeout around the validity edge hb < idle (milliseconds)
HbIdleRows ==
    {Mk("hb_idle", s, {"hb"}, [Default EXCEPT !.hb = Default.idle + d], "doc", FALSE) :
        <<d, s>> \in {-1, 0, 1} \X Srcs}
    \cup
    {Mk("hb_idle", s, {"idle"}, [Default EXCEPT !.idle = Default.hb + d], "doc", FALSE) :
        <<d, s>> \in {-1, 0, 1} \X Srcs}
    \cup
    {Mk("hb_idle", s, {"hb", "idle"}, [Default EXCEPT !.hb = i + d, !.idle = i], "doc", FALSE) :
        <<i, d, s>> \in {1000, 2500, 3600000} \X {-1, 0, 1} \X Srcs}

ConnsRows ==
    {Mk("conns", s, {"conns"}, [Default EXCEPT !.conns = n], "doc", FALSE) :
        <<n, s>> \in {-1, 0, 1, 2, 3} \X Srcs}

BackendRows ==
    {Mk("backend", "flag", {}, [Default EXCEPT !.backend = FALSE], "doc", FALSE)}
    \cup {Mk("backend", s, {"backend"}, Default, "doc", FALSE) : s \in Srcs}

Peer == [rpc : BOOLEAN, tokens : BOOLEAN]
PeerLists == {<<>>} \cup {<<p>> : p \in Peer} \cup {<<p, q>> : <<p, q>> \in Peer \X Peer}
PeersRows ==
    {Mk("peers", s, {"peers"} \cup (IF r THEN {"rpc"} ELSE {}) \cup (IF t THEN {"tokens"} ELSE {}),
        [Default EXCEPT !.peers = pl, !.rpc = r, !.tokens = t], "doc", FALSE) :
        <<pl, r, t, s>> \in PeerLists \X BOOLEAN \X BOOLEAN \X SrcsOf(FALSE)}

Rows == VerSpellingRows \cup MaxSpellingRows \cup PairRows \cup UnknownVerRows
        \cup OverrideRows \cup UnsupportedRows \cup AllCaseRows \cup UnknownCLRows
        \cup HbIdleRows \cup ConnsRows \cup BackendRows \cup PeersRows

\* options that have no environment variable (run.go struct tags / help text show no `$VAR`)
NoEnv == {"override", "peers"}
Expressible(r) == r.src = "env" => (r.given \cap {"override"} = {})

Init == row \in {r \in Rows : Expressible(r)}
Next == UNCHANGED row
Spec == Init /\ [][Next]_row

-----------------------------------------------------------------------------
(* Sanity of the table (invariants over every row)                             *)

RowSane ==
    /\ row.expect = Outcome(row.cfg)
    /\ row.expect.kind \in {"run", "refuse"}
    /\ (row.expect.kind = "run" <=> Valid(row.cfg))
    /\ (Valid(row.cfg) <=> Why(row.cfg) = {})
    /\ row.expect.why = Why(row.cfg)
    \* a running proxy never rejects the version it was told to accept, and talks a version it accepts
    /\ (row.expect.kind = "run" =>
            /\ row.expect.accepted \notin row.expect.rejected
            /\ row.expect.startup \notin row.expect.rejected
            /\ \A i \in 1..11 : row.expect.cl[i] \in Codes)

\* every class of single fault named by the property statement is refused
SingleFaultsRefused ==
    /\ ~Valid([Default EXCEPT !.hb = Default.idle])
    /\ ~Valid([Default EXCEPT !.conns = 0])
    /\ ~Valid([Default EXCEPT !.ver = "v5", !.max = "v4"])
    /\ ~Valid([Default EXCEPT !.backend = FALSE])
    /\ ~Valid([Default EXCEPT !.peers = <<[rpc |-> TRUE, tokens |-> FALSE]>>])
    /\ ~Valid([Default EXCEPT !.peers = <<[rpc |-> FALSE, tokens |-> FALSE]>>, !.rpc = TRUE])
    /\ ~Valid([Default EXCEPT !.peers = <<[rpc |-> TRUE, tokens |-> FALSE]>>, !.rpc = TRUE, !.tokens = TRUE])
    /\ ~Valid([Default EXCEPT !.ver = "v6"])
    /\ ~Valid([Default EXCEPT !.override = "BOGUS"])
    /\ Valid(Default)

\* distinct names select distinct values (on the expected outcomes of the spelling rows)
DistinctNames ==
    /\ \A a, b \in VNames : a # b =>
          Outcome([Default EXCEPT !.ver = a, !.max = a]).startup # Outcome([Default EXCEPT !.ver = b, !.max = b]).startup
    /\ \A a, b \in CNames : a # b =>
          Outcome([Default EXCEPT !.unsup = <<"ANY", "ONE">>, !.override = a]).cl[1]
              # Outcome([Default EXCEPT !.unsup = <<"ANY", "ONE">>, !.override = b]).cl[1]

\* the version order used by Valid is a total order on the documented names
OrderSane ==
    \A a, b, c \in VNames :
        /\ (Rank(a) <= Rank(b) \/ Rank(b) <= Rank(a))
        /\ (Rank(a) <= Rank(b) /\ Rank(b) <= Rank(a) => a = b)
        /\ (Rank(a) <= Rank(b) /\ Rank(b) <= Rank(c) => Rank(a) <= Rank(c))

ASSUME SingleFaultsRefused
ASSUME DistinctNames
ASSUME OrderSane

Export == PrintT(<<"ROW", ToJson(row)>>)
=============================================================================
