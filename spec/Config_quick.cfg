SPECIFICATION Spec
CONSTANT Thorough = FALSE
INVARIANT RowSane
INVARIANT Export
CHECK_DEADLOCK FALSE
