SPECIFICATION Spec
CONSTANT Thorough = TRUE
INVARIANT RowSane
INVARIANT Export
CHECK_DEADLOCK FALSE
