-------------------------------- MODULE Conn --------------------------------
(* proxycore.Conn: the connection object used on both sides of the proxy (client         *)
(* connections and backend connections).  Goroutines: any number of callers of Write     *)
(* and Close, one writer (Conn.write) and one reader (Conn.read).  Shared state: the      *)
(* channel `messages` (capacity QCap), the channel `closed`, `err` under `mu`, the        *)
(* buffered writer and the socket.  One action per channel operation / critical section:  *)
(*                                                                                       *)
(*   Write(m):  select { messages <- m : nil ; <-closed : err }     (blocks when neither) *)
(*   writer:    select { m := <-messages ; <-closed }, then the coalescing loop           *)
(*              select { m := <-messages ; <-closed ; default -> Flush }                   *)
(*   reader:    Receive until it fails, then checkErr, then recv.Closing(err) once        *)
(*   checkErr / Close:  under mu: first one sets err, closes the socket and `closed`      *)
(*                                                                                       *)
(* The peer is the environment: it reads what is on the wire (or stalls: the socket        *)
(* buffer holds SockCap messages, then Flush blocks), sends, or goes away.                 *)
(*                                                                                       *)
(* What the listed properties need from this object:                                       *)
(*  C01/C03  the wire carries the accepted messages in the order they were accepted,        *)
(*           each once, and while the connection is open none is dropped;                    *)
(*           Write fails only on a closed connection (a full queue makes it wait);           *)
(*  C17      once the connection is closed nobody stays blocked in Write, the writer and     *)
(*           the reader end, and recv.Closing is called exactly once.                        *)
(* Hazard switches (FALSE describes the tree): WriteIgnoresClose (Write waits for room       *)
(* in the queue whatever happens), WriteFailsWhenFull (a full queue is an error).            *)
EXTENDS Integers, Sequences, FiniteSets, TLC

CONSTANTS Senders, QCap, SockCap,
          WriteIgnoresClose, WriteFailsWhenFull

VARIABLES queue,      \* channel `messages`
          wbuf,       \* messages handed to the buffered writer, not yet on the wire
          wire,       \* messages written to the socket, in order
          nread,      \* how many of them the peer has read
          err,        \* "none" | "closed" (Close) | "io" (checkErr): c.err; `closed` is closed iff err # "none"
          peerGone,   \* the peer closed its end
          inb,        \* frames the peer sent and the reader has not consumed
          spc,        \* sender -> [pc, m]
          wpc,        \* writer: "select" | "coalesce" | "flush" | "done"
          rpc,        \* reader: "receive" | "failed" | "closing" | "done"
          accepted,   \* ghost: messages whose Write returned nil, in queue order
          closings    \* ghost: number of recv.Closing calls

cvars == <<queue, wbuf, wire, nread, err, peerGone, inb, spc, wpc, rpc, accepted, closings>>

IsClosed == err # "none"
SockBroken == IsClosed \/ peerGone
SIdle == [pc |-> "idle", m |-> 0]

CInit ==
    /\ queue = <<>> /\ wbuf = <<>> /\ wire = <<>> /\ nread = 0
    /\ err = "none" /\ peerGone = FALSE /\ inb = 0
    /\ spc = [s \in Senders |-> SIdle]
    /\ wpc = "select" /\ rpc = "receive"
    /\ accepted = <<>> /\ closings = 0

CReset ==
    /\ queue' = <<>> /\ wbuf' = <<>> /\ wire' = <<>> /\ nread' = 0
    /\ err' = "none" /\ peerGone' = FALSE /\ inb' = 0
    /\ spc' = [s \in Senders |-> SIdle]
    /\ wpc' = "select" /\ rpc' = "receive"
    /\ accepted' = <<>> /\ closings' = 0

(* ------------------------------ callers of Write ----------------------------------- *)
CallWrite(s, m) ==
    /\ spc[s].pc = "idle"
    /\ spc' = [spc EXCEPT ![s] = [pc |-> "select", m |-> m]]
    /\ UNCHANGED <<queue, wbuf, wire, nread, err, peerGone, inb, wpc, rpc, accepted, closings>>

WriteEnqueue(s) ==
    /\ spc[s].pc = "select" /\ Len(queue) < QCap
    /\ queue' = Append(queue, spc[s].m)
    /\ accepted' = Append(accepted, spc[s].m)
    /\ spc' = [spc EXCEPT ![s].pc = "ok"]
    /\ UNCHANGED <<wbuf, wire, nread, err, peerGone, inb, wpc, rpc, closings>>

(* the same, seen from outside as one step (a message that never reaches the writer: nothing tells when it was queued) *)
WriteEnqueueRet(s) ==
    /\ spc[s].pc = "select" /\ Len(queue) < QCap
    /\ queue' = Append(queue, spc[s].m)
    /\ accepted' = Append(accepted, spc[s].m)
    /\ spc' = [spc EXCEPT ![s] = SIdle]
    /\ UNCHANGED <<wbuf, wire, nread, err, peerGone, inb, wpc, rpc, closings>>

WriteClosed(s) ==
    /\ spc[s].pc = "select"
    /\ IF WriteFailsWhenFull THEN IsClosed \/ Len(queue) >= QCap
       ELSE IsClosed /\ ~WriteIgnoresClose
    /\ spc' = [spc EXCEPT ![s].pc = "err"]
    /\ UNCHANGED <<queue, wbuf, wire, nread, err, peerGone, inb, wpc, rpc, accepted, closings>>

RetWrite(s, ok) ==
    /\ spc[s].pc = (IF ok THEN "ok" ELSE "err")
    /\ spc' = [spc EXCEPT ![s] = SIdle]
    /\ UNCHANGED <<queue, wbuf, wire, nread, err, peerGone, inb, wpc, rpc, accepted, closings>>

(* ---------------------------------- writer ----------------------------------------- *)
(* the sender function of the head message runs (observable: it is the caller's code)  *)
WTake(m) ==
    /\ wpc \in {"select", "coalesce"}
    /\ queue # <<>> /\ Head(queue) = m
    /\ queue' = Tail(queue)
    /\ wbuf' = Append(wbuf, m)
    /\ wpc' = "coalesce"
    /\ UNCHANGED <<wire, nread, err, peerGone, inb, spc, rpc, accepted, closings>>

WSeesClosed ==
    /\ wpc \in {"select", "coalesce"} /\ IsClosed
    /\ wpc' = "done"
    /\ UNCHANGED <<queue, wbuf, wire, nread, err, peerGone, inb, spc, rpc, accepted, closings>>

WDefault ==
    /\ wpc = "coalesce" /\ queue = <<>> /\ ~IsClosed
    /\ wpc' = "flush"
    /\ UNCHANGED <<queue, wbuf, wire, nread, err, peerGone, inb, spc, rpc, accepted, closings>>

(* bytes go out: at Flush, or earlier when the buffered writer is full *)
WEmit ==
    /\ wpc \in {"coalesce", "flush"} /\ wbuf # <<>>
    /\ ~IsClosed /\ Len(wire) - nread < SockCap     \* (a write to a peer that has just gone may still be accepted by the kernel)
    /\ wire' = Append(wire, Head(wbuf))
    /\ wbuf' = Tail(wbuf)
    /\ UNCHANGED <<queue, nread, err, peerGone, inb, spc, wpc, rpc, accepted, closings>>

WFlushed ==
    /\ wpc = "flush" /\ wbuf = <<>>
    /\ wpc' = "select"
    /\ UNCHANGED <<queue, wbuf, wire, nread, err, peerGone, inb, spc, rpc, accepted, closings>>

(* a write on a broken socket fails: checkErr *)
WFails ==
    /\ wpc \in {"coalesce", "flush"} /\ wbuf # <<>> /\ SockBroken
    /\ err' = IF err = "none" THEN "io" ELSE err
    /\ wpc' = "done"
    /\ UNCHANGED <<queue, wbuf, wire, nread, peerGone, inb, spc, rpc, accepted, closings>>

(* ---------------------------------- reader ----------------------------------------- *)
RReceive ==
    /\ rpc = "receive" /\ inb > 0     \* (a frame already buffered may still be consumed after the socket was closed)
    /\ inb' = inb - 1
    /\ UNCHANGED <<queue, wbuf, wire, nread, err, peerGone, spc, wpc, rpc, accepted, closings>>

(* Receive fails: the socket is closed, the peer is gone and everything was read, or the receiver refuses a frame *)
RFails(refused) ==
    /\ rpc = "receive"
    /\ IsClosed \/ (peerGone /\ inb = 0) \/ (refused /\ inb > 0)
    /\ rpc' = "failed"
    /\ UNCHANGED <<queue, wbuf, wire, nread, err, peerGone, inb, spc, wpc, accepted, closings>>

(* ... and the reader's checkErr *)
RCheckErr ==
    /\ rpc = "failed"
    /\ err' = IF err = "none" THEN "io" ELSE err
    /\ rpc' = "closing"
    /\ UNCHANGED <<queue, wbuf, wire, nread, peerGone, inb, spc, wpc, accepted, closings>>

RClosing ==
    /\ rpc = "closing"
    /\ closings' = closings + 1
    /\ rpc' = "done"
    /\ UNCHANGED <<queue, wbuf, wire, nread, err, peerGone, inb, spc, wpc, accepted>>

(* ---------------------------------- Close ------------------------------------------ *)
(* one critical section; `fresh` = it returned nil (FALSE: AlreadyClosed)               *)
DoClose(fresh) ==
    /\ fresh = (err = "none")
    /\ err' = IF err = "none" THEN "closed" ELSE err
    /\ UNCHANGED <<queue, wbuf, wire, nread, peerGone, inb, spc, wpc, rpc, accepted, closings>>

(* ----------------------------------- peer ------------------------------------------ *)
PeerRead(m) ==
    /\ nread < Len(wire) /\ wire[nread + 1] = m
    /\ nread' = nread + 1
    /\ UNCHANGED <<queue, wbuf, wire, err, peerGone, inb, spc, wpc, rpc, accepted, closings>>

PeerSend ==
    /\ ~peerGone
    /\ inb' = inb + 1
    /\ UNCHANGED <<queue, wbuf, wire, nread, err, peerGone, spc, wpc, rpc, accepted, closings>>

PeerClose ==
    /\ ~peerGone
    /\ peerGone' = TRUE
    /\ UNCHANGED <<queue, wbuf, wire, nread, err, inb, spc, wpc, rpc, accepted, closings>>

(* steps that leave no trace of their own in a recorded history (the reader's Receive calls and recv.Closing are the
   caller's code and are logged) *)
Hidden == (\E s \in Senders : WriteEnqueue(s) \/ WriteClosed(s)) \/ WSeesClosed \/ WDefault \/ WEmit \/ WFlushed \/ WFails
          \/ (queue # <<>> /\ WTake(Head(queue))) \/ RCheckErr

(* ------------------------------- properties ---------------------------------------- *)
IsPrefix(a, b) == Len(a) <= Len(b) /\ \A i \in 1..Len(a) : a[i] = b[i]
(* the wire carries the accepted messages, in order, each once *)
WireFaithful == IsPrefix(wire \o wbuf, accepted)
(* while the connection is open nothing that was accepted has been dropped *)
Custody == ~IsClosed => wire \o wbuf \o queue = accepted
QueueBounded == Len(queue) <= QCap
ClosingOnce == closings <= 1 /\ (rpc = "done" => closings = 1) /\ (closings = 1 => IsClosed)
(* Write fails only on a closed connection *)
FailsOnlyWhenClosed == [][\A s \in Senders : (spc[s].pc = "select" /\ spc'[s].pc = "err") => IsClosed]_cvars
(* nothing goes out after the connection was closed *)
SilentAfterClose == [][IsClosed => wire' = wire]_cvars
=============================================================================
