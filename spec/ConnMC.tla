------------------------------- MODULE ConnMC -------------------------------
(* Exhaustive exploration of Conn.tla: a few callers of Write, callers of Close, the    *)
(* writer, the reader and a peer that reads, stalls, sends and goes away.               *)
EXTENDS Conn
CONSTANTS MaxPer, MaxCloses, MaxIn
VARIABLES nsent, ncloses, nin
vars == <<queue, wbuf, wire, nread, err, peerGone, inb, spc, wpc, rpc, accepted, closings, nsent, ncloses, nin>>
env == <<nsent, ncloses, nin>>

Init == CInit /\ nsent = [s \in Senders |-> 0] /\ ncloses = 0 /\ nin = 0

Caller(s) ==
    \/ /\ nsent[s] < MaxPer /\ CallWrite(s, 10 * s + nsent[s] + 1)
       /\ nsent' = [nsent EXCEPT ![s] = @ + 1] /\ UNCHANGED <<ncloses, nin>>
    \/ (\E b \in BOOLEAN : RetWrite(s, b)) /\ UNCHANGED env
    \/ (WriteEnqueue(s) \/ WriteClosed(s)) /\ UNCHANGED env
Writer == ((queue # <<>> /\ WTake(Head(queue))) \/ WSeesClosed \/ WDefault \/ WEmit \/ WFlushed \/ WFails) /\ UNCHANGED env
Reader == (RReceive \/ (\E b \in BOOLEAN : RFails(b)) \/ RCheckErr \/ RClosing) /\ UNCHANGED env
Closer == ncloses < MaxCloses /\ (\E b \in BOOLEAN : DoClose(b)) /\ ncloses' = ncloses + 1 /\ UNCHANGED <<nsent, nin>>
PeerReads == nread < Len(wire) /\ PeerRead(wire[nread + 1]) /\ UNCHANGED env
PeerOther == \/ nin < MaxIn /\ PeerSend /\ nin' = nin + 1 /\ UNCHANGED <<nsent, ncloses>>
             \/ PeerClose /\ UNCHANGED env
Done == UNCHANGED vars
Next == (\E s \in Senders : Caller(s)) \/ Writer \/ Reader \/ Closer \/ PeerReads \/ PeerOther \/ Done

Fairness == /\ \A s \in Senders : WF_vars((WriteEnqueue(s) \/ WriteClosed(s) \/ \E b \in BOOLEAN : RetWrite(s, b)) /\ UNCHANGED env)
            /\ WF_vars(Writer) /\ WF_vars(Reader) /\ WF_vars(PeerReads)
Spec == Init /\ [][Next]_vars /\ Fairness

(* C17: once the connection is closed every goroutine that belongs to it comes to rest *)
Quiesces == [](IsClosed => <>(wpc = "done" /\ rpc = "done" /\ \A s \in Senders : spc[s].pc # "select"))
(* C01: on a connection that stays open and whose peer keeps reading every accepted message is delivered *)
Delivers == (<>[](~IsClosed /\ ~peerGone)) => <>[](Len(wire) = Len(accepted) /\ nread = Len(wire))
=============================================================================
