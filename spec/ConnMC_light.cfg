SPECIFICATION Spec
CONSTANTS
  Senders = {1, 2}
  QCap = 1
  SockCap = 1
  WriteIgnoresClose = FALSE
  WriteFailsWhenFull = FALSE
  MaxPer = 1
  MaxCloses = 1
  MaxIn = 1
INVARIANTS WireFaithful Custody QueueBounded ClosingOnce
PROPERTIES FailsOnlyWhenClosed SilentAfterClose Quiesces Delivers
