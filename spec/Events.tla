-------------------------------- MODULE Events --------------------------------
(* Event fan-out (proxycore/cluster.go: Cluster.OnEvent / stayConnected event branch,  *)
(* proxy/proxy.go: Proxy.OnEvent, client REGISTER handling, removeClient).              *)
(*                                                                                      *)
(* Observable state: which clients are connected and registered for SCHEMA_CHANGE,     *)
(* which events the backend emitted on the (registered) control connection, and which   *)
(* EVENT frames each client received.  Registration and disconnection race with the      *)
(* fan-out, so every emitted event carries the set of clients that MUST receive it       *)
(* (registered-and-acknowledged and connected when it was emitted, and still connected   *)
(* when the system is quiet again) and the set that MAY receive it (registration sent).  *)
(* The actions are total; violations are recorded in `bad` (see RequestObs.tla).         *)
EXTENDS Naturals, Sequences, FiniteSets, TLC

VARIABLES cl,    \* client -> [up, reg ("no"|"sent"|"acked"), schema (registered for SCHEMA_CHANGE), ver (protocol version of the connection)]
          ev,    \* event id -> [kind, h, must, may, got (set of <<client>> that received it), open]
          bad

evars == <<cl, ev, bad>>
Flag(ok, what, c) == IF ok THEN bad ELSE (IF Len(bad) < 200 THEN Append(bad, [p |-> "C14", what |-> what, r |-> c]) ELSE bad)

Up(c) == c \in DOMAIN cl /\ cl[c].up
OpenEvents == {e \in DOMAIN ev : ev[e].open}

DoHello(c, ver) ==
    /\ cl' = (c :> [up |-> TRUE, reg |-> "no", schema |-> FALSE, ver |-> ver]) @@ cl
    /\ UNCHANGED <<ev, bad>>

(* the client sent REGISTER; `schema` says whether SCHEMA_CHANGE is among the types *)
DoRegister(c, schema) ==
    /\ cl' = [cl EXCEPT ![c] = [@ EXCEPT !.reg = "sent", !.schema = @ \/ schema]]
    /\ ev' = [e \in DOMAIN ev |-> IF ev[e].open /\ ev[e].kind = "schema" /\ (schema \/ cl[c].schema) /\ (~ev[e].v4only \/ cl[c].ver >= 4)
                                  THEN [ev[e] EXCEPT !.may = @ \cup {c}] ELSE ev[e]]
    /\ UNCHANGED bad

(* READY for the REGISTER arrived *)
DoRegisterAck(c) ==
    /\ cl' = [cl EXCEPT ![c].reg = "acked"]
    /\ UNCHANGED <<ev, bad>>

DoClose(c) ==
    /\ cl' = IF c \in DOMAIN cl THEN [cl EXCEPT ![c].up = FALSE] ELSE cl
    /\ ev' = [e \in DOMAIN ev |-> IF ev[e].open THEN [ev[e] EXCEPT !.must = @ \ {c}] ELSE ev[e]]
    /\ UNCHANGED bad

(* the backend wrote an EVENT frame on the registered control connection *)
\* v4only: a change of a function or an aggregate, which protocol versions before 4 cannot express: such an event has no
\* "same content" for a v3 client and is not delivered to it (Cassandra does not send it either)
DoEmit(e, kind, h, v4only) ==
    LET can(c) == ~v4only \/ cl[c].ver >= 4 IN
    /\ ev' = (e :> [kind |-> kind, h |-> h, open |-> TRUE, got |-> {}, v4only |-> v4only,
                    must |-> IF kind = "schema" THEN {c \in DOMAIN cl : cl[c].up /\ cl[c].reg = "acked" /\ cl[c].schema /\ can(c)} ELSE {},
                    may  |-> IF kind = "schema" THEN {c \in DOMAIN cl : cl[c].up /\ cl[c].reg # "no" /\ cl[c].schema /\ can(c)} ELSE {}]) @@ ev
    /\ UNCHANGED <<cl, bad>>

(* client c received an EVENT frame that carries event e (matched by content hash) *)
DoRecv(c, e, stream, sameContent, ver) ==
    IF e \notin DOMAIN ev THEN
        /\ bad' = Flag(FALSE, "EVENT frame that no backend event corresponds to", c) /\ UNCHANGED <<cl, ev>>
    ELSE
    /\ ev' = [ev EXCEPT ![e].got = @ \cup {c}]
    /\ bad' = Flag(ev[e].kind = "schema" /\ c \in ev[e].may /\ c \notin ev[e].got /\ stream = 0 - 1 /\ sameContent /\ ver = cl[c].ver,
                   IF ev[e].kind # "schema" THEN "topology/status event forwarded to a client"
                   ELSE IF c \notin ev[e].may THEN "schema event delivered to a client that did not register for SCHEMA_CHANGE"
                   ELSE IF c \in ev[e].got THEN "schema event delivered twice to one client"
                   ELSE IF stream # 0 - 1 THEN "EVENT frame not on stream -1"
                   ELSE IF ver # cl[c].ver THEN "EVENT frame carries another protocol version than the client's connection"
                   ELSE "EVENT frame content differs from the backend's event", c)
    /\ UNCHANGED cl

(* quiescence: every open event must have reached every client that had to get it *)
DoQuiet ==
    LET missing == {<<e, c>> \in (DOMAIN ev) \X (DOMAIN cl) : ev[e].open /\ c \in ev[e].must /\ c \notin ev[e].got /\ cl[c].up}
    IN
    /\ bad' = IF missing = {} THEN bad
              ELSE Flag(FALSE, "schema event not delivered to a registered, connected client", (CHOOSE m \in missing : TRUE)[2])
    /\ ev' = [e \in DOMAIN ev |-> [ev[e] EXCEPT !.open = FALSE]]
    /\ UNCHANGED cl
=============================================================================
