------------------------------- MODULE EventsMC -------------------------------
(* Exhaustive exploration of Events.tla: clients connect / register (any subset of    *)
(* event types, also twice) / disconnect at any point, the backend emits events of     *)
(* all three kinds, and a proxy that delivers each schema event to the clients that    *)
(* must get it (and possibly to those that may) is never flagged; conversely the       *)
(* properties hold: only schema events, only registered clients, exactly once.         *)
EXTENDS Naturals, Sequences, FiniteSets, TLC
CONSTANTS Clients, MaxEvents, MaxOps
VARIABLES cl, ev, bad, ops
vars == <<cl, ev, bad, ops>>
E == INSTANCE Events
Empty == [x \in {} |-> 0]
Init == cl = Empty /\ ev = Empty /\ bad = <<>> /\ ops = 0
Kinds == {"schema", "topology", "status"}
Op(A) == ops < MaxOps /\ ops' = ops + 1 /\ A
Next ==
    \/ \E c \in Clients \ DOMAIN cl : \E v \in (IF c = 1 THEN {3, 4} ELSE {4}) : Op(E!DoHello(c, v))
    \/ \E c \in DOMAIN cl : cl[c].up /\ \E s \in BOOLEAN : Op(E!DoRegister(c, s))
    \/ \E c \in DOMAIN cl : cl[c].up /\ cl[c].reg = "sent" /\ Op(E!DoRegisterAck(c))
    \/ \E c \in DOMAIN cl : cl[c].up /\ Op(E!DoClose(c))
    \/ Cardinality(DOMAIN ev) < MaxEvents /\ \E k \in Kinds : \E v4 \in (IF k = "schema" THEN BOOLEAN ELSE {FALSE}) : Op(E!DoEmit(Cardinality(DOMAIN ev) + 1, k, Cardinality(DOMAIN ev) + 1, v4))
    \* the proxy delivers an open schema event to a client that must or may get it, once
    \/ \E e \in E!OpenEvents : \E c \in ev[e].may \ ev[e].got : cl[c].up /\ E!DoRecv(c, e, 0 - 1, TRUE, cl[c].ver) /\ UNCHANGED ops
    \* quiescence is only declared when the proxy has delivered everything it must
    \/ /\ \A e \in E!OpenEvents : \A c \in ev[e].must : c \in ev[e].got \/ ~cl[c].up
       /\ E!OpenEvents # {} /\ E!DoQuiet /\ UNCHANGED ops
Spec == Init /\ [][Next]_vars
NoBad == bad = <<>>
OnlySchema == \A e \in DOMAIN ev : ev[e].kind # "schema" => ev[e].got = {}
OnlyRegistered == \A e \in DOMAIN ev : \A c \in ev[e].got : cl[c].schema /\ cl[c].reg # "no"
MustSubsetMay == \A e \in DOMAIN ev : ev[e].must \subseteq ev[e].may
DeliveredAtRest == \A e \in DOMAIN ev : ~ev[e].open => \A c \in ev[e].must : c \in ev[e].got \/ ~cl[c].up
=============================================================================
