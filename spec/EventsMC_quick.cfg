SPECIFICATION Spec
CONSTANTS
  Clients = {1, 2, 3}
  MaxEvents = 3
  MaxOps = 9
INVARIANTS NoBad OnlySchema OnlyRegistered MustSubsetMay DeliveredAtRest
CHECK_DEADLOCK FALSE
