SPECIFICATION Spec
CONSTANTS
  Clients = {1, 2, 3}
  MaxEvents = 4
  MaxOps = 11
INVARIANTS NoBad OnlySchema OnlyRegistered MustSubsetMay DeliveredAtRest
CHECK_DEADLOCK FALSE
