------------------------------ MODULE Heartbeat ------------------------------
(* ClientConn.Heartbeats (proxycore/clientconn.go): one loop per backend connection.    *)
(*   every Interval after the previous round ended: OPTIONS, wait for the answer for    *)
(*   at most Timeout (the connect timeout); an answered round re-arms the idle timer;     *)
(*   when the idle timer fires the connection is closed (and the pool / the control       *)
(*   loop replaces it).  The idle timer is only looked at between rounds.                 *)
(* Discrete time.  C16: a connection that stops answering heartbeats for longer than the  *)
(* idle timeout is given up (bound below); a connection whose peer answers is never given  *)
(* up - provided the heartbeat interval is below the idle timeout, which is why start-up   *)
(* refuses other configurations (C20).                                                     *)
EXTENDS Naturals, TLC
CONSTANTS Interval, Idle, Timeout,   \* ticks
          RespMax,                    \* a live peer answers within this many ticks
          Horizon,
          MayMute                     \* whether the environment may silence the peer (at most once, for good)
VARIABLES t, open, hbAt, wait, idleAt, muted, mutedAt
vars == <<t, open, hbAt, wait, idleAt, muted, mutedAt>>
None == 999

Init == t = 0 /\ open = TRUE /\ hbAt = Interval /\ wait = None /\ idleAt = Idle /\ muted = FALSE /\ mutedAt = None

\* the loop is between rounds and the idle timer has fired: c.Close()
IdleFire == open /\ wait = None /\ t >= idleAt /\ open' = FALSE /\ UNCHANGED <<t, hbAt, wait, idleAt, muted, mutedAt>>
\* a round starts
Send == open /\ wait = None /\ t < idleAt /\ t >= hbAt /\ wait' = t + Timeout /\ UNCHANGED <<t, open, hbAt, idleAt, muted, mutedAt>>
\* the peer answers: the idle timer is re-armed, the next round starts an interval later
Answer == open /\ wait # None /\ ~muted /\ wait' = None /\ idleAt' = t + Idle /\ hbAt' = t + Interval /\ UNCHANGED <<t, open, muted, mutedAt>>
\* no answer within the timeout: the round ends, the idle timer keeps running
GiveUp == open /\ wait # None /\ t >= wait /\ wait' = None /\ hbAt' = t + Interval /\ UNCHANGED <<t, open, idleAt, muted, mutedAt>>
Mute == MayMute /\ ~muted /\ open /\ muted' = TRUE /\ mutedAt' = t /\ UNCHANGED <<t, open, hbAt, wait, idleAt>>
\* time passes unless something is due: a live peer does not sit on a heartbeat longer than RespMax
Due == \/ (open /\ wait = None /\ (t >= idleAt \/ t >= hbAt))
       \/ (open /\ wait # None /\ t >= wait)
       \/ (open /\ wait # None /\ ~muted /\ t >= wait - Timeout + RespMax)
Tick == t < Horizon /\ ~Due /\ t' = t + 1 /\ UNCHANGED <<open, hbAt, wait, idleAt, muted, mutedAt>>
Next == IdleFire \/ Send \/ Answer \/ GiveUp \/ Mute \/ Tick
Spec == Init /\ [][Next]_vars

\* a peer that answers is never given up
NeverClosedWhileAnswering == ~muted => open
\* a silent peer is given up at the latest an idle timeout, one interval and one timed-out round after it fell silent
SilentPeerGivenUp == (muted /\ open) => t <= mutedAt + Idle + Interval + Timeout
=============================================================================
