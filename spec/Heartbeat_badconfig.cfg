SPECIFICATION Spec
CONSTANTS
  Interval = 6
  Idle = 6
  Timeout = 4
  RespMax = 1
  Horizon = 40
  MayMute = FALSE
INVARIANTS NeverClosedWhileAnswering
CHECK_DEADLOCK FALSE
