SPECIFICATION Spec
CONSTANTS
  Interval = 2
  Idle = 6
  Timeout = 4
  RespMax = 1
  Horizon = 40
  MayMute = TRUE
INVARIANTS NeverClosedWhileAnswering SilentPeerGivenUp
CHECK_DEADLOCK FALSE
