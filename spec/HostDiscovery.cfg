SPECIFICATION Spec
INVARIANTS OrdinaryRouted RpcWins PeerOnlyUnderWildcard WildcardsAlike IncompleteIgnored HistoryFree OthersAlwaysRouted Export
CHECK_DEADLOCK FALSE
