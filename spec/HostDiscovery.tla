---------------------------- MODULE HostDiscovery ----------------------------
(* How a row of system.peers becomes a host the proxy routes to (proxycore/endpoint.go  *)
(* defaultEndpointResolver.NewEndpoint, proxycore/host.go NewHostFromRow,                *)
(* proxycore/cluster.go addHosts / mergeHosts) - C16's "the proxy's routing follows the   *)
(* backend's peers table".                                                               *)
(*                                                                                       *)
(* A peers row is abstracted to what the code looks at:                                   *)
(*   rpc  - rpc_address: the node's client address, the IPv4 / IPv6 wildcard (a node      *)
(*          configured with rpc_address 0.0.0.0 and no broadcast address), or null (a       *)
(*          node that is still joining);                                                   *)
(*   peer - the peer column: the node's address, an address nobody listens on (the          *)
(*          internode interface is not the client interface), or null;                      *)
(*   dc   - data_center: set or null.                                                        *)
(* The row is about one node (h2 of three); the rows of the others are ordinary.  A          *)
(* behaviour is the three phases the driver replays: the shape is there when the proxy        *)
(* starts (bootstrap path), the row becomes ordinary (refresh after a topology event), the     *)
(* row takes the shape again (refresh).                                                         *)
EXTENDS Naturals, Sequences, FiniteSets, TLC, Json

Rpcs == {"addr", "wild4", "wild6", "null"}
Peers == {"addr", "other", "null"}
Dcs == {"set", "null"}
Shapes == [rpc: Rpcs, peer: Peers, dc: Dcs]
Ordinary == [rpc |-> "addr", peer |-> "addr", dc |-> "set"]

\* where the proxy connects for a row: the node, an address nobody listens on, or nowhere (row ignored)
Target(s) ==
    IF s.dc = "null" THEN "ignored"
    ELSE CASE s.rpc = "addr" -> "node"                  \* rpc_address wins whatever the peer column says
           [] s.rpc = "null" -> "ignored"               \* no client address yet
           [] OTHER -> CASE s.peer = "addr" -> "node"    \* wildcard: fall back to the peer column
                         [] s.peer = "other" -> "elsewhere"
                         [] OTHER -> "ignored"
\* the row makes its node a host the proxy knows
Known(s) == Target(s) # "ignored"
\* ... and one that receives requests
Routed(s) == Target(s) = "node"

VARIABLES shape, phase, hist
vars == <<shape, phase, hist>>
Nodes == {"h1", "h2", "h3"}
RoutedSet(s) == {"h1", "h3"} \cup (IF Routed(s) THEN {"h2"} ELSE {})
Rec(s) == [shape |-> s, target |-> Target(s), routed |-> RoutedSet(s)]

Init == shape \in Shapes /\ phase = 0 /\ hist = <<>>
Boot == phase = 0 /\ phase' = 1 /\ hist' = Append(hist, Rec(shape)) /\ UNCHANGED shape
BecomeOrdinary == phase = 1 /\ phase' = 2 /\ hist' = Append(hist, Rec(Ordinary)) /\ UNCHANGED shape
TakeShape == phase = 2 /\ phase' = 3 /\ hist' = Append(hist, Rec(shape)) /\ UNCHANGED shape
Next == Boot \/ BecomeOrdinary \/ TakeShape \/ (phase = 3 /\ UNCHANGED vars)
Spec == Init /\ [][Next]_vars

\* an ordinary row always routes
OrdinaryRouted == Routed(Ordinary)
\* the client address wins: the peer column matters only under a wildcard
RpcWins == \A s \in Shapes : s.rpc = "addr" /\ s.dc = "set" => Routed(s)
PeerOnlyUnderWildcard ==
    \A s, u \in Shapes : (s.rpc = u.rpc /\ s.dc = u.dc /\ s.rpc \notin {"wild4", "wild6"}) => Target(s) = Target(u)
\* both wildcards are treated alike
WildcardsAlike == \A s \in Shapes : s.rpc = "wild4" => Target(s) = Target([s EXCEPT !.rpc = "wild6"])
\* a row without a client address or a data centre never yields a host
IncompleteIgnored == \A s \in Shapes : (s.rpc = "null" \/ s.dc = "null") => ~Known(s)
\* routing depends on the current shape only (what the row was before leaves no trace)
HistoryFree == \A i \in 1..Len(hist) : hist[i].routed = RoutedSet(hist[i].shape)
\* the other nodes are never affected
OthersAlwaysRouted == \A i \in 1..Len(hist) : {"h1", "h3"} \subseteq hist[i].routed

Export == phase = 3 => PrintT(<<"HD", ToJson([shape |-> shape, steps |-> hist])>>)
=============================================================================
