-------------------------------- MODULE Hostile --------------------------------
(* Hostile or malformed peers (property C17).                                          *)
(*                                                                                     *)
(* The proxy process is a state machine with one bit that matters here - alive - and   *)
(* per client connection the bit `open`.  The input alphabet is a set of abstract       *)
(* classes of hostile behaviour, on the client side (malformed framing, wrong           *)
(* directions, hostile field contents) and on the backend side (replies that no         *)
(* request asked for, wrong opcodes, short bodies, garbage).  For every class the       *)
(* specification states what the offender may observe - an ERROR frame, a closed        *)
(* connection, or (where the input is merely unusual, not malformed) a normal answer -  *)
(* and requires of every class that the process stays alive and that a well-behaved     *)
(* canary client keeps receiving correct answers.  TLC enumerates all sequences of      *)
(* classes up to the bound; the driver concretises each class into several byte          *)
(* strings and replays the sequences against the real proxy binary.                     *)
EXTENDS Naturals, Sequences, FiniteSets, TLC, Json

CONSTANTS ClientClasses, BackendClasses, MaxLen,
          LenFields       \* the length and count fields of the request grammar, as "<OPCODE>_<field>"

\* one class per length / count field of a request body: a well-formed frame of that opcode whose field carries a
\* boundary value (null / not-set markers, the extremes of the integer type, values whose sum with the read position
\* overflows, one more and exactly as many bytes as remain)
FieldClasses == {"fl_" \o f : f \in LenFields}

VARIABLES alive, seq
vars == <<alive, seq>>

\* what the offending client connection may observe
Allowed(c) ==
    CASE c \in {"trunc_header", "trunc_body", "len_huge", "garbage_bytes"} -> {"closed", "nothing"}
      [] c \in {"len_zero_with_body", "len_short", "len_long"} -> {"error", "closed", "answered", "nothing"}
      [] c \in {"response_bit", "response_opcode", "unknown_version", "bad_opcode"} -> {"error", "closed"}
      [] c \in {"compressed_flag_no_codec", "bad_compressed_block"} -> {"error", "closed"}
      [] c \in {"bad_string_len", "bad_map_len", "bad_batch_count", "empty_execute_id", "bad_consistency"} -> {"error", "closed", "answered"}
      [] c \in {"hostile_use", "hostile_prepare_ks", "hostile_query_text", "hostile_register", "hostile_startup", "hostile_auth"} -> {"error", "closed", "answered"}
      \* a peer that sends valid frames only but never reads what it is sent, and hangs up with everything outstanding
      [] c = "nonreader_flood" -> {"closed"}
      [] c \in FieldClasses -> {"error", "closed", "answered"}
      [] c \in BackendClasses -> {"error", "closed", "answered", "nothing"}
      [] OTHER -> {"error", "closed", "answered", "nothing"}

Init == alive = TRUE /\ seq = <<>>
Step(c) == /\ Len(seq) < MaxLen /\ alive        \* the specification never lets the process die
           /\ seq' = Append(seq, c) /\ alive' = TRUE
Classes == ClientClasses \cup FieldClasses \cup BackendClasses
Next == \E c \in Classes : Step(c)
Spec == Init /\ [][Next]_vars

ProcessAlive == alive
EveryClassHasVerdict == \A c \in Classes : Allowed(c) # {}
Export == (Len(seq) = MaxLen) => PrintT(<<"SEQ", ToJson([seq |-> seq, allowed |-> [i \in DOMAIN seq |-> Allowed(seq[i])]])>>)
=============================================================================
