------------------------------ MODULE HostileTLS ------------------------------
(* Hostile peers at a TLS listener (property C17; proxy/run.go resolveAndListen with     *)
(* --proxy-cert-file / --proxy-key-file).  Before the first CQL byte there is a TLS        *)
(* handshake, and a peer can misbehave in it: say nothing, stop in the middle of its        *)
(* ClientHello, speak plaintext CQL, send a record that is not TLS - and keep its socket     *)
(* open.  The state that matters is the set of such sockets still open (`held`): whatever    *)
(* it is, the process stays alive, a client that is already connected keeps being served      *)
(* and a NEW client completes its handshake and is served.  TLC enumerates the sequences of   *)
(* offences and releases up to the bound; the driver replays them against the real binary      *)
(* and runs both canaries after every step.                                                     *)
EXTENDS Naturals, Sequences, TLC, Json
CONSTANTS Classes, MaxLen, MaxHeld
VARIABLES alive, held, seq
vars == <<alive, held, seq>>

\* sockets the class leaves open
Holds(c) == IF c = "t_many_silent" THEN 3 ELSE IF c = "t_closes_at_once" THEN 0 ELSE 1
\* what the offender may observe: nothing (the proxy waits for the rest of the handshake) or a closed connection
Allowed(c) == IF c \in {"t_silent", "t_partial_hello", "t_many_silent"} THEN {"nothing", "closed"} ELSE {"closed", "alert", "nothing"}

Rec(a) == [a |-> a, held |-> held', allowed |-> IF a = "release" THEN {} ELSE Allowed(a)]
Init == alive = TRUE /\ held = 0 /\ seq = <<>>
Offend(c) == /\ Len(seq) < MaxLen /\ alive /\ held + Holds(c) <= MaxHeld
             /\ held' = held + Holds(c) /\ alive' = TRUE /\ seq' = Append(seq, Rec(c))
Release == /\ Len(seq) < MaxLen /\ held > 0
           /\ held' = 0 /\ alive' = TRUE /\ seq' = Append(seq, Rec("release"))
Next == Release \/ \E c \in Classes : Offend(c)
Spec == Init /\ [][Next]_vars

ProcessAlive == alive
\* serving never depends on how many half-open handshakes there are: the obligations of a step are the same in every state
ObligationsStateFree == \A i \in DOMAIN seq : seq[i].a = "release" \/ seq[i].allowed = Allowed(seq[i].a)
Export == (Len(seq) = MaxLen) => PrintT(<<"TLSSEQ", ToJson(seq)>>)
=============================================================================
