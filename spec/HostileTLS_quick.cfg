SPECIFICATION Spec
CONSTANTS
  Classes = {"t_silent", "t_partial_hello", "t_plaintext_cql", "t_garbage_record", "t_many_silent", "t_closes_at_once"}
  MaxLen = 2
  MaxHeld = 6
INVARIANTS ProcessAlive ObligationsStateFree Export
CHECK_DEADLOCK FALSE
