SPECIFICATION Spec
CONSTANTS
  ClientClasses = {"trunc_header", "trunc_body", "len_huge", "garbage_bytes", "len_zero_with_body", "len_short", "len_long", "response_bit", "response_opcode", "unknown_version", "bad_opcode", "compressed_flag_no_codec", "bad_compressed_block", "bad_string_len", "bad_map_len", "bad_batch_count", "empty_execute_id", "bad_consistency", "hostile_use", "hostile_prepare_ks", "hostile_query_text", "hostile_register", "hostile_startup", "hostile_auth"}
  BackendClasses = {"b_unknown_stream", "b_wrong_opcode", "b_short_error", "b_garbage", "b_unsolicited_event", "b_truncated_result", "b_unprepared_unknown_id", "b_compressed_flag", "b_error_for_heartbeat"}
  MaxLen = 2
INVARIANTS ProcessAlive EveryClassHasVerdict Export
CHECK_DEADLOCK FALSE
