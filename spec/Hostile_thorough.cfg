SPECIFICATION Spec
CONSTANTS
  ClientClasses = {"trunc_header", "trunc_body", "len_huge", "garbage_bytes", "len_zero_with_body", "len_short", "len_long", "response_bit", "response_opcode", "unknown_version", "bad_opcode", "compressed_flag_no_codec", "bad_compressed_block", "bad_string_len", "bad_map_len", "bad_batch_count", "empty_execute_id", "bad_consistency", "hostile_use", "hostile_prepare_ks", "hostile_query_text", "hostile_register", "hostile_startup", "hostile_auth", "nonreader_flood"}
  BackendClasses = {"b_unknown_stream", "b_bad_event_on_control", "b_unsolicited_result", "b_wrong_opcode", "b_short_error", "b_garbage", "b_unsolicited_event", "b_truncated_result", "b_unprepared_unknown_id", "b_compressed_flag", "b_error_for_heartbeat", "b_prepare_wrong_result"}
  LenFields = {"QUERY_text", "QUERY_nvalues", "QUERY_value", "QUERY_paging", "PREPARE_text", "EXECUTE_id", "EXECUTE_nvalues", "EXECUTE_value", "EXECUTE_paging", "BATCH_count", "BATCH_text", "BATCH_nvalues", "BATCH_value", "BATCH_id", "BATCH_value2", "REGISTER_count", "REGISTER_item", "STARTUP_count", "STARTUP_key", "STARTUP_value", "AUTH_token"}
  MaxLen = 3
INVARIANTS ProcessAlive EveryClassHasVerdict Export
CHECK_DEADLOCK FALSE
