----------------------------- MODULE Idempotency -----------------------------
(* C06 - the idempotency classifier (parser.IsQueryIdempotent) is sound, spelling-stable  *)
(* and total.  Decision-table specification.                                              *)
(*                                                                                        *)
(* The abstract CQL grammar is a derivation system: the state is an abstract syntax tree  *)
(* with holes (a hole names the non-terminal still to be derived), every step replaces    *)
(* the left-most hole by the right-hand side of one production.  Every production has a   *)
(* weight; a derivation may spend at most `Budget`.  The zero-weight productions are the  *)
(* "filler" (integer literal, plain assignment, `=` relation, no USING, no IF, one        *)
(* element), so the complete sentences of weight <= Budget are exactly the statements     *)
(* that deviate from the minimal statement of their kind in at most Budget places         *)
(* (nesting one level deeper is one deviation).  TLC enumerates them exhaustively (BFS)   *)
(* or samples deep ones (simulation with a large budget).                                 *)
(*                                                                                        *)
(* The expected verdict is declarative and three-valued.  It is written from the property *)
(* statement and from the documentation comments of the parser package (what makes an     *)
(* INSERT / UPDATE / DELETE / BATCH / term non-idempotent) - not from its control flow:   *)
(*   "F"  the classifier must answer `not idempotent`,                                    *)
(*   "T"  the classifier must answer `idempotent`,                                        *)
(*   "O"  (open) the statement leaves the verdict open; only stability is asserted.       *)
(* A node of the tree is the record [k |-> kind, a |-> attribute, c |-> children].        *)
EXTENDS Naturals, Sequences, FiniteSets, TLC, Json

CONSTANTS Budget,    \* total weight a derivation may spend
          MaxW,      \* maximal number of elements of a collection / arguments / batch children
          Emit,      \* TRUE: print every complete sentence as a JSON row
          Start      \* start symbol: "Stmt" (every statement kind) or "Mutation" (INSERT/UPDATE/DELETE/BATCH only;
                     \* used by the random deep derivations, which would otherwise mostly end in one step)

VARIABLES ast,       \* the tree derived so far
          w          \* weight still available

vars == <<ast, w>>

N(k, a, c) == [k |-> k, a |-> a, c |-> c]
Leaf(k, a) == N(k, a, <<>>)
H(nt)      == Leaf("hole", nt)
Holes(nt, n) == [i \in 1..n |-> H(nt)]
P(cost, node) == [cost |-> cost, node |-> node]
Max(a, b) == IF a > b THEN a ELSE b

-----------------------------------------------------------------------------
(* Grammar.                                                                               *)

\* primitive literal kinds other than the integer (the integer is special: it can be a
\* list index and a counter delta)
PrimKinds == {"string", "pgstring", "float", "bool", "null", "hex", "uuid", "duration", "nan"}

\* function names: now/uuid are the documented non-idempotent functions; `other` stands
\* for any other function.  The qualifier is absent, the system keyspace, or a user keyspace.
NonIdemFns   == {"now", "uuid", "system.now", "system.uuid"}
UserNamedFns == {"user.now", "user.uuid"}          \* user-defined functions that merely share the name
OtherFns     == {"other", "system.other", "user.other"}
NullaryFns   == NonIdemFns \cup UserNamedFns \cup OtherFns

TermProds ==
         {P(0, Leaf("int", ""))}
    \cup {P(1, Leaf("prim", p)) : p \in PrimKinds}
    \cup {P(1, Leaf("bind", b)) : b \in {"pos", "named"}}
    \cup {P(1, Leaf("fn", f)) : f \in NullaryFns}
    \cup {P(n, N("fn", f, Holes("FnArg", n))) : f \in OtherFns, n \in 1..MaxW}
    \cup {P(Max(n, 1), N("list", "", Holes("Term", n))) : n \in 0..MaxW}
    \cup {P(Max(n, 1), N("set", "", Holes("Term", n))) : n \in 0..MaxW}
    \cup {P(n, N("map", "", Holes("Term", 2 * n))) : n \in 1..MaxW}     \* k1 v1 k2 v2 ...
    \cup {P(n, N("udt", "", Holes("Term", n))) : n \in 1..MaxW}
    \cup {P(n, N("tuple", "", Holes("Term", n))) : n \in 1..MaxW}
    \cup {P(1, N("cast", ty, <<H("Term")>>)) : ty \in {"simple", "param"}}

FnArgProds == TermProds \cup {P(1, Leaf("colref", ""))}

None == Leaf("none", "")

DmlProds ==
    { P(0, N("insert", "", <<H("InsBody"), H("Ine"), H("Using")>>)),
      P(0, N("update", "", <<H("Using"), H("Ops"), H("Where"), H("If")>>)),
      P(0, N("delete", "", <<H("DelOps"), H("UsingTs"), H("Where"), H("If")>>)) }

BatchProds ==
    { P((IF kind = "logged" THEN 0 ELSE 1) + (IF n = 0 THEN 1 ELSE n - 1),
        N("batch", kind, <<H("UsingTs")>> \o Holes("Child", n)))
      : kind \in {"logged", "unlogged", "counter"}, n \in 0..MaxW }

\* byte strings that are not derivable from any CQL grammar; the concretiser owns the
\* spelling of each kind (harness/cmd/vdrv-idem)
GarbageKinds == {"empty", "blank", "semicolon", "unknown-verb", "binary",
                 "insert-no-into", "insert-no-table", "insert-no-values-kw", "insert-unclosed-values",
                 "update-no-table", "update-no-set-kw", "update-op-without-operator",
                 "delete-no-from", "delete-no-table", "batch-no-apply", "batch-select-child",
                 "unclosed-list", "unclosed-set", "unclosed-call", "invalid-token-term",
                 "unterminated-string"}
\* prefixes of valid statements: not derivable either, but a classifier that merely skims
\* the statement may still "parse" them; the statement leaves the verdict open
TruncatedKinds == {"update-no-ops", "update-no-where", "delete-where-no-relation", "insert-trailing-words"}

StmtProds ==
         {P(0, Leaf("select", v)) : v \in {"star", "where", "now"}}
    \cup {P(0, Leaf("use", ""))}
    \cup {P(0, Leaf("ddl", v)) : v \in {"create", "alter", "drop"}}
    \cup {P(0, Leaf("other", v)) : v \in {"truncate", "grant", "list"}}
    \cup {P(0, Leaf("garbage", v)) : v \in GarbageKinds}
    \cup {P(0, Leaf("truncated", v)) : v \in TruncatedKinds}
    \cup DmlProds \cup BatchProds

ArithOps == {"colplus", "colminus", "termpluscol", "pluseq", "minuseq"}

Prods(nt) ==
    CASE nt = "Stmt"    -> StmtProds
      [] nt = "Mutation" -> DmlProds \cup BatchProds
      [] nt = "Child"   -> DmlProds
      [] nt = "Term"    -> TermProds
      [] nt = "FnArg"   -> FnArgProds
      [] nt = "InsBody" -> {P(n - 1, N("values", "", Holes("Term", n))) : n \in 1..MaxW}
                           \cup {P(1, Leaf("json", v)) : v \in {"plain", "default-null", "default-unset"}}
      [] nt = "Ine"     -> {P(0, None), P(1, Leaf("if", "not-exists"))}
      [] nt = "Using"   -> {P(0, None)} \cup {P(1, Leaf("using", v)) : v \in {"ttl-int", "ts-bind", "ttl-bind-ts-int"}}
      [] nt = "UsingTs" -> {P(0, None)} \cup {P(1, Leaf("using", v)) : v \in {"ts-int", "ts-bind"}}
      [] nt = "Ops"     -> {P(n - 1, N("ops", "", Holes("Op", n))) : n \in 1..MaxW}
      [] nt = "Op"      -> {P(0, N("op", "assign", <<H("Term")>>))}
                           \cup {P(1, N("op", o, <<H("Term")>>)) : o \in ArithOps \cup {"field"}}
                           \cup {P(1, N("op", "idx", <<H("Term"), H("Term")>>))}
      [] nt = "Where"   -> {P(n - 1, N("where", "", Holes("Rel", n))) : n \in 1..MaxW}
      [] nt = "Rel"     -> {P(0, N("rel", "eq", <<H("Term")>>))}
                           \cup {P(1, N("rel", r, <<H("Term")>>)) : r \in {"cmp", "token", "contains", "contains-key", "like"}}
                           \cup {P(Max(n, 1), N("rel", "in", Holes("Term", n))) : n \in 0..MaxW}
                           \cup {P(1, Leaf("rel", r)) : r \in {"in-bind-pos", "in-bind-named", "tuple-in-bind"}}
                           \cup {P(1, N("rel", "idx", <<H("Term"), H("Term")>>))}
                           \cup {P(n, N("rel", "tuple-in", Holes("Term", n))) : n \in 1..MaxW}
                           \cup {P(1, N("rel", "tuple-cmp", <<H("Term"), H("Term")>>))}
                           \cup {P(1, N("rel", "paren", <<H("Rel")>>))}
      [] nt = "If"      -> {P(0, None), P(1, Leaf("if", "exists")), P(1, N("if", "cond", <<H("Term")>>))}
      [] nt = "DelOps"  -> {P(n, N("delops", "", Holes("DelOp", n))) : n \in 0..MaxW}
      [] nt = "DelOp"   -> {P(0, Leaf("delop", "col")), P(1, Leaf("delop", "field")),
                            P(0, N("delop", "idx", <<H("Term")>>))}

-----------------------------------------------------------------------------
(* Derivation.                                                                            *)

RECURSIVE HasHole(_)
HasHole(t) == t.k = "hole" \/ \E i \in DOMAIN t.c : HasHole(t.c[i])

RECURSIVE FirstHole(_)
FirstHole(t) ==
    IF t.k = "hole" THEN t
    ELSE LET i == CHOOSE j \in DOMAIN t.c : HasHole(t.c[j]) /\ \A l \in 1..(j - 1) : ~HasHole(t.c[l])
         IN FirstHole(t.c[i])

RECURSIVE Fill(_, _)
Fill(t, r) ==
    IF t.k = "hole" THEN r
    ELSE LET i == CHOOSE j \in DOMAIN t.c : HasHole(t.c[j]) /\ \A l \in 1..(j - 1) : ~HasHole(t.c[l])
         IN [t EXCEPT !.c[i] = Fill(t.c[i], r)]

Complete(t) == ~HasHole(t)

Init == ast = H(Start) /\ w = Budget

Derive ==
    /\ HasHole(ast)
    /\ \E p \in Prods(FirstHole(ast).a) :
          /\ p.cost <= w
          /\ ast' = Fill(ast, p.node)
          /\ w' = w - p.cost

Next == Derive
Spec == Init /\ [][Next]_vars

-----------------------------------------------------------------------------
(* Ground truth.                                                                          *)

\* Why node n - looked at with its immediate children only - makes the statement it occurs
\* in non-idempotent ("" = it does not).  Sources: the property statement; the comments
\* on isIdempotentInsertStmt / UpdateStmt / DeleteStmt / BatchStmt, parseUpdateOp,
\* isIdempotentUpdateOpTermType, isIdempotentDeleteElementTermType and parseTerm.
Reason(n) ==
    IF n.k \in {"use", "ddl", "other"}              THEN "not-select-or-dml"
    ELSE IF n.k = "garbage"                         THEN "unparseable"
    ELSE IF n.k = "batch" /\ n.a = "counter"        THEN "counter-batch"
    ELSE IF n.k = "fn" /\ n.a \in NonIdemFns        THEN "nonidem-call"
    ELSE IF n.k = "if"                              THEN "lwt"
    ELSE IF n.k = "op" /\ n.a \in ArithOps THEN
             (CASE n.c[1].k = "list"            -> "list-append-prepend-remove"
                [] n.c[1].k = "int"             -> "counter-update"
                [] n.c[1].k \in {"bind", "fn"}  -> "ambiguous-col-plus-minus"
                [] OTHER                        -> "")
    ELSE IF n.k = "delop" /\ n.a = "idx" THEN
             (CASE n.c[1].k = "int"             -> "list-delete-by-index"
                [] n.c[1].k \in {"bind", "fn"}  -> "ambiguous-delete-element"
                [] OTHER                        -> "")
    ELSE ""

\* Node n leaves the verdict open: the statement promises `idempotent` only for mutations
\* built from literals, bind markers and set/map(/UDT/tuple) additions.
Open(n) ==
    \/ n.k = "truncated"
    \/ n.k = "fn" /\ n.a \notin NonIdemFns
    \/ n.k \in {"cast", "colref"}
    \/ n.k = "op" /\ n.a \in ArithOps /\ n.c[1].k \in {"prim", "cast"}
    \/ n.k = "rel" /\ n.a \in {"token", "contains", "contains-key", "like", "idx", "paren"}   \* not valid in the WHERE of a mutation

\* paths (child indices from the root) of the nodes that make the statement non-idempotent
RECURSIVE Witnesses(_, _)
Witnesses(n, path) ==
    (IF Reason(n) # "" THEN {[path |-> path, why |-> Reason(n)]} ELSE {})
    \cup UNION {Witnesses(n.c[i], Append(path, i)) : i \in DOMAIN n.c}

RECURSIVE AnyOpen(_)
AnyOpen(n) == Open(n) \/ \E i \in DOMAIN n.c : AnyOpen(n.c[i])

MustBeFalse(s) == Witnesses(s, <<>>) # {}
MustBeTrue(s)  == \/ s.k = "select"
                  \/ /\ s.k \in {"insert", "update", "delete", "batch"}
                     /\ ~MustBeFalse(s)
                     /\ ~AnyOpen(s)
Class(s) == IF MustBeFalse(s) THEN "F" ELSE IF MustBeTrue(s) THEN "T" ELSE "O"

-----------------------------------------------------------------------------
(* Algebra of the table (INVARIANTS).                                                     *)

TypeOK == w \in 0..Budget

\* no statement is required to be both
Disjoint == Complete(ast) => ~(MustBeFalse(ast) /\ MustBeTrue(ast))

\* a batch is idempotent iff it is not a counter batch and every child is; it is
\* non-idempotent iff it is a counter batch or some child is
Compositional ==
    (Complete(ast) /\ ast.k = "batch") =>
        LET kids == {ast.c[i] : i \in 2..Len(ast.c)} IN
        /\ (Class(ast) = "T") = (ast.a # "counter" /\ \A c \in kids : Class(c) = "T")
        /\ (Class(ast) = "F") = (ast.a = "counter" \/ \E c \in kids : Class(c) = "F")

\* replacing any sub-term of a mutation by now() / system.uuid() makes it non-idempotent
IsTerm(n) == n.k \in {"int", "prim", "bind", "fn", "list", "set", "map", "udt", "tuple", "cast", "colref"}
RECURSIVE Poisoned(_, _)
Poisoned(n, bad) ==
    (IF IsTerm(n) THEN {bad} ELSE {})
    \cup UNION {{[n EXCEPT !.c[i] = v] : v \in Poisoned(n.c[i], bad)} : i \in DOMAIN n.c}
Monotone ==
    (Complete(ast) /\ ast.k \in {"insert", "update", "delete", "batch"}) =>
        \A bad \in {Leaf("fn", "now"), Leaf("fn", "system.uuid")} :
            \A v \in Poisoned(ast, bad) : Class(v) = "F"

\* a SELECT is always idempotent, everything that is not SELECT / DML / BATCH never is
Roots == Complete(ast) =>
           /\ (ast.k = "select" => Class(ast) = "T")
           /\ (ast.k \in {"use", "ddl", "other", "garbage"} => Class(ast) = "F")

-----------------------------------------------------------------------------
(* Export of the table: one JSON row per complete sentence.                               *)
Row == [ast  |-> ast,
        cls  |-> Class(ast),
        wit  |-> Witnesses(ast, <<>>),
        cost |-> Budget - w]
Export == (Emit /\ Complete(ast)) => PrintT(<<"ROW", ToJson(Row)>>)
=============================================================================
