SPECIFICATION Spec
CONSTANTS
  Budget = 2
  MaxW = 2
  Emit = TRUE
  Start = "Stmt"
INVARIANTS TypeOK Disjoint Compositional Monotone Roots Export
CHECK_DEADLOCK FALSE
