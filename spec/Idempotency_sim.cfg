SPECIFICATION Spec
CONSTANTS
  Budget = 7
  MaxW = 3
  Emit = TRUE
  Start = "Mutation"
INVARIANTS TypeOK Disjoint Compositional Monotone Roots Export
CHECK_DEADLOCK FALSE
