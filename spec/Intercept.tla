------------------------------- MODULE Intercept -------------------------------
(* C09 - which client statements does the proxy answer itself?                    *)
(*                                                                                *)
(* Sources of the oracle (never the Go control flow):                             *)
(*  - property statement C09: a QUERY or PREPARE is answered by the proxy itself  *)
(*    iff it is a USE statement or a SELECT whose table is one of the virtualised *)
(*    system tables in keyspace `system` - qualified as system, or unqualified    *)
(*    while the connection's current keyspace is system - with CQL identifier     *)
(*    case and quoting rules; everything else is forwarded; reads of system.local *)
(*    and system.peers are never forwarded;                                       *)
(*  - CQL reference, "Identifiers": an unquoted identifier is case-insensitive    *)
(*    (folded to lower case), a double-quoted identifier is case-sensitive and a  *)
(*    double quote inside it is written twice; `ks.table` names the table of      *)
(*    keyspace ks, a bare table name the table of the connection's keyspace (the  *)
(*    one of the last successful USE);                                            *)
(*  - native protocol: PREPARE returns an id, EXECUTE <id> runs that statement;   *)
(*    the statement was bound to its keyspace when it was prepared;               *)
(*  - the doc comment of parser/parse_select.go and the tables of                 *)
(*    parser/metadata.go for the list of virtualised tables.                      *)
(*                                                                                *)
(* The module is a decision table (one row = current keyspace x statement) run    *)
(* through a small model of one client connection: the keyspace is established    *)
(* with USE, the statement is sent as QUERY, or as PREPARE followed by EXECUTE,   *)
(* or as PREPARE, a USE of a keyspace of the opposite kind, and EXECUTE; or as    *)
(* QUERY after a second USE (successful or failed) - see Vias.  Every             *)
(* complete behaviour is exported as one JSON line and replayed into the real     *)
(* code (parser.IsQueryHandled for every statement step; the in-process proxy     *)
(* for the whole behaviour).                                                      *)
EXTENDS Naturals, Sequences, FiniteSets, TLC, Json

CONSTANT Deep      \* FALSE: the enumeration of DESIGN 6/C09; TRUE: plus further spellings

VARIABLES row,     \* [cur, st]: current keyspace as the client spells it ("" = none), statement
          via,     \* one of Vias
          pc,      \* "setks" | "switch" | "faileduse" | "stmt" | "exec" | "done"
          ks,      \* keyspace of the connection, as spelled in the last USE ("" = none)
          prep,    \* disposition of the PREPARE of this behaviour: "none" | "local" | "forward"
          hist     \* steps so far, each with the expected disposition

vars == <<row, via, pc, ks, prep, hist>>

-----------------------------------------------------------------------------
(* Strings: TLC implements Len, SubSeq and \o on strings.                        *)
Q == "\""
Uppers == <<"A","B","C","D","E","F","G","H","I","J","K","L","M","N","O","P","Q","R","S","T","U","V","W","X","Y","Z">>
Lowers == <<"a","b","c","d","e","f","g","h","i","j","k","l","m","n","o","p","q","r","s","t","u","v","w","x","y","z">>
Ch(s, i) == SubSeq(s, i, i)
LowerCh(c) == IF \E i \in 1..26 : Uppers[i] = c
              THEN Lowers[CHOOSE i \in 1..26 : Uppers[i] = c] ELSE c
RECURSIVE LowerFrom(_, _)
LowerFrom(s, i) == IF i > Len(s) THEN "" ELSE LowerCh(Ch(s, i)) \o LowerFrom(s, i + 1)
RECURSIVE UnescFrom(_, _, _)
UnescFrom(s, i, n) ==
    IF i > n THEN ""
    ELSE IF i < n /\ Ch(s, i) = Q /\ Ch(s, i + 1) = Q THEN Q \o UnescFrom(s, i + 2, n)
    ELSE Ch(s, i) \o UnescFrom(s, i + 1, n)
IsQuoted(s) == Len(s) >= 2 /\ Ch(s, 1) = Q /\ Ch(s, Len(s)) = Q
Quote(s) == Q \o s \o Q

\* the name an identifier denotes (CQL identifier rules)
Fold(s) == IF IsQuoted(s) THEN UnescFrom(s, 2, Len(s) - 1) ELSE LowerFrom(s, 1)

ASSUME /\ Fold("SyStEm") = "system" /\ Fold(Quote("System")) = "System"
       /\ Fold(Quote("sys" \o Q \o Q \o "tem")) = "sys" \o Q \o "tem"
       /\ Fold("") = "" /\ Fold("peers_V2") = "peers_v2"

-----------------------------------------------------------------------------
(* The virtualised tables of keyspace system.                                    *)
TopologyTables == {"local", "peers", "peers_v2"}
SystemTables == TopologyTables \cup
    {"schema_keyspaces", "schema_columnfamilies", "schema_columns", "schema_usertypes"}

(* Enumerated spellings.                                                          *)
CurKsBase == {"", "system", "SYSTEM", Quote("system"), Quote("System"), "ks1", Quote("Ks1")}
CurKsDeep == {"System", Quote("ks1"), "system_schema"}
QualBase  == {"", "system", "SyStEm", Quote("system"), Quote("SYSTEM"), "ks1", "system_schema"}
QualDeep  == {"SYSTEM", Quote("System"), Quote("Ks1"), "systems", Quote("sys" \o Q \o Q \o "tem"), "system_auth"}
LookAlikeBase == {Quote("Local"), "locals", "peers2", "local_"}
LookAlikeDeep == {Quote("PEERS"), "peers_v3", "schema_tables", "xlocal", "peers_", "schema_column",
                  Quote("lo" \o Q \o Q \o "cal"), Quote("local ")}
TableBase == SystemTables \cup {"LOCAL", Quote("local")} \cup LookAlikeBase \cup {"t1"}
TableDeep == {"PEERS_V2", "Peers", Quote("peers"), Quote("peers_v2"), "Schema_Columns", Quote("T1")} \cup LookAlikeDeep
UseTargets == {"ks1", Quote("Ks1"), "system", Quote("system"), "SYSTEM"}

Shape(n, k, pre, post) == [name |-> n, kind |-> k, pre |-> pre, post |-> post]
SelectShapes == {
    Shape("star",        "SELECT", "SELECT * FROM ", ""),
    Shape("cols",        "SELECT", "SELECT key, rpc_address FROM ", ""),
    Shape("alias",       "SELECT", "SELECT key AS k, rpc_address AS addr FROM ", ""),
    Shape("count",       "SELECT", "SELECT count(*) FROM ", ""),
    Shape("where",       "SELECT", "SELECT * FROM ", " WHERE key = 'local'"),
    Shape("limit",       "SELECT", "SELECT * FROM ", " LIMIT 1"),
    Shape("where_limit_filtering", "SELECT", "SELECT key FROM ", " WHERE key = 'local' LIMIT 10 ALLOW FILTERING"),
    Shape("json",        "SELECT", "SELECT JSON * FROM ", ""),
    Shape("distinct",    "SELECT", "SELECT DISTINCT key FROM ", ""),
    Shape("func",        "SELECT", "SELECT now() FROM ", ""),
    Shape("writetime",   "SELECT", "SELECT key, writetime(rack) FROM ", " WHERE key = 'local'"),
    Shape("quoted_from_column", "SELECT", "SELECT " \o Quote("from") \o ", key FROM ", ""),
    Shape("from_prefixed_names", "SELECT", "SELECT key AS from_key, fromage FROM ", "") }
CoreSelectShapes == {s \in SelectShapes : s.name \in {"star", "where_limit_filtering", "alias"}}
OtherShapes == {
    Shape("insert",   "INSERT",   "INSERT INTO ", " (key, v) VALUES ('local', 1)"),
    Shape("update",   "UPDATE",   "UPDATE ", " SET v = 1 WHERE key = 'local'"),
    Shape("delete",   "DELETE",   "DELETE FROM ", " WHERE key = 'local'"),
    Shape("truncate", "TRUNCATE", "TRUNCATE ", ""),
    Shape("create",   "DDL",      "CREATE TABLE ", " (key text PRIMARY KEY, v int)"),
    Shape("drop",     "DDL",      "DROP TABLE ", ""),
    Shape("alter",    "DDL",      "ALTER TABLE ", " ADD w int"),
    Shape("batch",    "BATCH",    "BEGIN BATCH INSERT INTO ", " (key, v) VALUES ('local', 1); APPLY BATCH"),
    Shape("garbage_typo", "GARBAGE", "SELEC * FROM ", ""),
    Shape("garbage_verb", "GARBAGE", "GET * FROM ", "") }
CoreOtherShapes == {s \in OtherShapes : s.name \in {"insert", "delete"}}

Stmt(sh, q, t) == [kind |-> sh.kind, name |-> sh.name, pre |-> sh.pre, qual |-> q, table |-> t, post |-> sh.post]
UseStmt(k) == [kind |-> "USE", name |-> "use", pre |-> "USE ", qual |-> "", table |-> k, post |-> ""]

StmtsBase == {Stmt(sh, q, t) : sh \in SelectShapes \cup OtherShapes, q \in QualBase, t \in TableBase}
             \cup {UseStmt(k) : k \in UseTargets}
\* further spellings (thorough tier): crossed with a core of the shapes
StmtsDeep == {Stmt(sh, q, t) : sh \in CoreSelectShapes \cup CoreOtherShapes,
                               q \in QualBase \cup QualDeep, t \in TableBase \cup TableDeep}
CurKs == IF Deep THEN CurKsBase \cup CurKsDeep ELSE CurKsBase
Stmts == IF Deep THEN StmtsBase \cup StmtsDeep ELSE StmtsBase
Rows  == {[cur |-> c, st |-> s] : c \in CurKs, s \in Stmts}
\* how the statement is submitted:
\*   query            USE cur; QUERY st
\*   prepare          USE cur; PREPARE st; EXECUTE
\*   prepare_switch   USE cur; PREPARE st; USE other; EXECUTE      (other: keyspace of the opposite kind)
\*   switch_query     USE cur; USE other; QUERY st                 (the last USE counts)
\*   faileduse_query  USE cur; USE <unknown keyspace>; QUERY st    (a failed USE changes nothing)
\*   prepare_reqks    USE cur; PREPARE st carrying a keyspace of its own (protocol v5 / DSEv2: "supersedes the keyspace
\*                    the connection is bound to"), of the opposite kind; EXECUTE
Vias  == {"query", "prepare", "prepare_switch", "switch_query", "faileduse_query", "prepare_reqks"}
NoSuchKs == "nosuch"   \* a keyspace the backend does not have
\* The failed-USE submission is exercised on a core of the statements only (every current keyspace;
\* SELECT, INSERT and USE; unqualified, system and user qualifier; a system and a user table):
\* what it adds is a property of the connection's keyspace, not of the statement, and on the current
\* tree a failed USE is expensive for the replay (see the report of C09: it leaks a backend
\* connection and can, rarely, kill the proxy).
FailedUseStmts == {s \in Stmts : \/ s.kind = "USE"
                                 \/ /\ s.name \in {"star", "insert"}
                                    /\ s.qual \in {"", "system", "ks1"}
                                    /\ s.table \in {"local", "t1"}}

Ref(st)  == IF st.qual = "" THEN st.table ELSE st.qual \o "." \o st.table
Text(st) == st.pre \o Ref(st) \o st.post

\* Fold of every identifier spelling of the table, computed once (TLC caches constant definitions)
Idents  == CurKsBase \cup CurKsDeep \cup QualBase \cup QualDeep \cup TableBase \cup TableDeep \cup UseTargets
FoldTab == [s \in Idents |-> Fold(s)]
F(s)    == FoldTab[s]

-----------------------------------------------------------------------------
(* THE ORACLE.  `cur` is the keyspace of the connection when the statement is     *)
(* received ("" = none).                                                          *)
Resolved(cur, st) == IF st.qual # "" THEN st.qual ELSE cur
Handled(cur, st) ==
    \/ st.kind = "USE"
    \/ /\ st.kind = "SELECT"
       /\ F(Resolved(cur, st)) = "system"
       /\ F(st.table) \in SystemTables
Disp(cur, st) == IF Handled(cur, st) THEN "local" ELSE "forward"

\* abstract classes (used for evidence counts and for stable finding keys)
KsClass(k)   == IF k = "" THEN "none" ELSE IF F(k) = "system" THEN "system" ELSE "user"
QualClass(q) == IF q = "" THEN "absent" ELSE IF F(q) = "system" THEN "system" ELSE "user"
TableClass(st) == IF st.kind = "USE" THEN "na"
                  ELSE IF F(st.table) \in SystemTables THEN "systable"
                  ELSE IF st.table \in LookAlikeBase \cup LookAlikeDeep THEN "lookalike"
                  ELSE "user"

\* a keyspace of the opposite kind, for the switch between PREPARE and EXECUTE
Other(cur) == IF F(cur) = "system" THEN "ks1" ELSE "system"

Entry(op, role, st, cur, disp) ==
    [op |-> op, role |-> role, kind |-> st.kind, shape |-> st.name, pre |-> st.pre, qual |-> st.qual,
     table |-> st.table, post |-> st.post, text |-> Text(st), ks |-> cur, disp |-> disp,
     cc |-> KsClass(cur), qc |-> QualClass(st.qual), tc |-> TableClass(st), reqks |-> ""]
\* effect of a locally executed statement on the connection's keyspace
KsAfter(cur, st) == IF st.kind = "USE" THEN st.table ELSE cur

-----------------------------------------------------------------------------
Init == /\ row \in Rows /\ via \in Vias
        /\ (via = "faileduse_query" => row.st \in FailedUseStmts)
        /\ (via = "prepare_reqks" => row.st.kind # "USE")
        /\ pc = "setks" /\ ks = "" /\ prep = "none" /\ hist = <<>>

\* the client establishes the row's current keyspace (a USE is answered by the proxy)
SetKs ==
    /\ pc = "setks"
    /\ pc' = (IF via = "switch_query" THEN "switch" ELSE IF via = "faileduse_query" THEN "faileduse" ELSE "stmt")
    /\ IF row.cur = "" THEN UNCHANGED <<ks, hist>>
       ELSE /\ ks' = row.cur
            /\ hist' = Append(hist, Entry("QUERY", "setks", UseStmt(row.cur), ks, "local"))
    /\ UNCHANGED <<row, via, prep>>

Query ==
    /\ pc = "stmt" /\ via \in {"query", "switch_query", "faileduse_query"} /\ pc' = "done"
    /\ hist' = Append(hist, Entry("QUERY", "stmt", row.st, ks, Disp(ks, row.st)))
    /\ ks' = KsAfter(ks, row.st)
    /\ UNCHANGED <<row, via, prep>>

\* preparing never changes the connection's keyspace (not even PREPARE of a USE)
Prepare ==
    /\ pc = "stmt" /\ via \in {"prepare", "prepare_switch"}
    /\ pc' = (IF via = "prepare_switch" THEN "switch" ELSE "exec")
    /\ prep' = Disp(ks, row.st)
    /\ hist' = Append(hist, Entry("PREPARE", "stmt", row.st, ks, Disp(ks, row.st)))
    /\ UNCHANGED <<row, via, ks>>

\* the PREPARE names its own keyspace: unqualified names are resolved there, not in the connection's keyspace
PrepareReqKs ==
    /\ pc = "stmt" /\ via = "prepare_reqks"
    /\ pc' = "exec"
    /\ prep' = Disp(Other(ks), row.st)
    /\ hist' = Append(hist, [Entry("PREPARE", "stmt", row.st, Other(ks), Disp(Other(ks), row.st)) EXCEPT !.reqks = Other(ks)])
    /\ UNCHANGED <<row, via, ks>>

Switch ==
    /\ pc = "switch" /\ pc' = (IF via = "prepare_switch" THEN "exec" ELSE "stmt")
    /\ ks' = Other(ks)
    /\ hist' = Append(hist, Entry("QUERY", "switch", UseStmt(Other(ks)), ks, "local"))
    /\ UNCHANGED <<row, via, prep>>

\* a USE of a keyspace that does not exist is answered (with an error) by the proxy and leaves
\* the connection's keyspace as it was
FailedUse ==
    /\ pc = "faileduse" /\ pc' = "stmt"
    /\ hist' = Append(hist, Entry("QUERY", "faileduse", UseStmt(NoSuchKs), ks, "local"))
    /\ UNCHANGED <<row, via, ks, prep>>

\* EXECUTE of the id returned by this connection's PREPARE: answered where the PREPARE was
\* answered - the id of a locally answered PREPARE is unknown to the backend, the id of a
\* forwarded PREPARE is unknown to the proxy - whatever the connection's keyspace is by now
Execute ==
    /\ pc = "exec" /\ pc' = "done"
    /\ hist' = Append(hist, Entry("EXECUTE", "stmt", row.st, ks, prep))
    /\ ks' = (IF prep = "local" THEN KsAfter(ks, row.st) ELSE ks)
    /\ UNCHANGED <<row, via, prep>>

Done == pc = "done" /\ UNCHANGED vars

Next == SetKs \/ Query \/ Prepare \/ PrepareReqKs \/ Switch \/ FailedUse \/ Execute \/ Done
Spec == Init /\ [][Next]_vars

-----------------------------------------------------------------------------
(* Sanity properties of the table and of the dispatch model (checked by TLC on    *)
(* every state; they are consequences a reader of C09 expects, stated without     *)
(* reference to Handled's definition wherever possible).                          *)
Steps == {hist[i] : i \in DOMAIN hist}
StmtSteps == {e \in Steps : e.op \in {"QUERY", "PREPARE"}}

TypeOK == /\ pc \in {"setks", "stmt", "switch", "faileduse", "exec", "done"}
          /\ prep \in {"none", "local", "forward"}
          /\ \A e \in Steps : e.disp \in {"local", "forward"}

\* confidentiality corollary: a read of system.local / system.peers / system.peers_v2 is
\* never forwarded, however it is spelled and whichever way the keyspace is given
NeverForwardSystemLocalOrPeers ==
    \A e \in StmtSteps :
        (e.kind = "SELECT" /\ F(e.table) \in TopologyTables
         /\ ((e.qual # "" /\ F(e.qual) = "system") \/ (e.qual = "" /\ F(e.ks) = "system")))
            => e.disp = "local"

\* anything in a user keyspace is forwarded, even for a table named local or peers
UserKeyspaceForwarded ==
    \A e \in StmtSteps :
        (e.kind # "USE" /\ ((e.qual # "" /\ F(e.qual) # "system") \/ (e.qual = "" /\ F(e.ks) # "system")))
            => e.disp = "forward"

\* only USE and SELECT are ever answered locally; USE always is
OnlyUseAndSelectLocal ==
    \A e \in StmtSteps : /\ (e.disp = "local" => e.kind \in {"USE", "SELECT"})
                         /\ (e.kind = "USE" => e.disp = "local")

\* a look-alike or user table is never intercepted
LookAlikeForwarded ==
    \A e \in StmtSteps : (e.kind # "USE" /\ e.tc # "systable") => e.disp = "forward"

\* The next three are properties of the table as a whole, evaluated once.  The verdict of a
\* statement depends on its kind only through Kinds, so one shape per kind suffices.
Kinds == {sh.kind : sh \in SelectShapes \cup OtherShapes}
Quals == IF Deep THEN QualBase \cup QualDeep ELSE QualBase
Tables == IF Deep THEN TableBase \cup TableDeep ELSE TableBase
KStmt(k, q, t) == [kind |-> k, name |-> "any", pre |-> "", qual |-> q, table |-> t, post |-> ""]

\* an explicit qualifier takes precedence: the connection's keyspace is irrelevant
ASSUME QualifierWins ==
    \A k \in Kinds, q \in Quals \ {""}, t \in Tables, c1 \in CurKs, c2 \in CurKs :
        Handled(c1, KStmt(k, q, t)) = Handled(c2, KStmt(k, q, t))

\* the verdict depends only on what the identifiers denote, not on how they are spelled
ASSUME KeyspaceSpellingIrrelevant ==
    \A k \in Kinds, t \in Tables, c1 \in CurKs, c2 \in CurKs, q1 \in Quals, q2 \in Quals :
        F(Resolved(c1, KStmt(k, q1, t))) = F(Resolved(c2, KStmt(k, q2, t)))
            => Handled(c1, KStmt(k, q1, t)) = Handled(c2, KStmt(k, q2, t))
ASSUME TableSpellingIrrelevant ==
    \A k \in Kinds, c \in CurKs, q \in Quals, t1 \in Tables, t2 \in Tables :
        F(t1) = F(t2) => Handled(c, KStmt(k, q, t1)) = Handled(c, KStmt(k, q, t2))

\* EXECUTE goes where its PREPARE went
ExecuteFollowsPrepare ==
    \A i, j \in DOMAIN hist :
        (hist[i].op = "PREPARE" /\ hist[j].op = "EXECUTE") => hist[j].disp = hist[i].disp

\* the connection's keyspace is the one of the last USE that was executed
KeyspaceTracksUse ==
    pc = "stmt" => ks = (IF via = "switch_query" THEN Other(row.cur) ELSE row.cur)

\* every class of interest occurs in the table (vacuity guard, evaluated once)
ASSUME \A cc \in {"none", "system", "user"}, qc \in {"absent", "system", "user"}, tc \in {"systable", "lookalike", "user"} :
          \E r \in {[cur |-> c, st |-> s] : c \in CurKsBase, s \in StmtsBase} :
              r.st.kind = "SELECT" /\ KsClass(r.cur) = cc /\ QualClass(r.st.qual) = qc /\ TableClass(r.st) = tc

-----------------------------------------------------------------------------
\* export: one JSON line per complete behaviour
Export ==
    pc = "done" => PrintT(<<"BEH", ToJson([cur |-> row.cur, via |-> via, steps |-> hist])>>)
=============================================================================
