SPECIFICATION Spec
CONSTANT Deep = FALSE
INVARIANTS TypeOK NeverForwardSystemLocalOrPeers UserKeyspaceForwarded OnlyUseAndSelectLocal
           LookAlikeForwarded QualifierWins SpellingIrrelevant ExecuteFollowsPrepare KeyspaceTracksUse
           Export
