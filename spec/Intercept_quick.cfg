SPECIFICATION Spec
CONSTANT Deep = FALSE
INVARIANTS TypeOK NeverForwardSystemLocalOrPeers UserKeyspaceForwarded OnlyUseAndSelectLocal
           LookAlikeForwarded ExecuteFollowsPrepare KeyspaceTracksUse
           Export
