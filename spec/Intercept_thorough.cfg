SPECIFICATION Spec
CONSTANT Deep = TRUE
INVARIANTS TypeOK NeverForwardSystemLocalOrPeers UserKeyspaceForwarded OnlyUseAndSelectLocal
           LookAlikeForwarded QualifierWins SpellingIrrelevant ExecuteFollowsPrepare KeyspaceTracksUse
           Export
