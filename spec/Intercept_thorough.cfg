SPECIFICATION Spec
CONSTANT Deep = TRUE
INVARIANTS TypeOK NeverForwardSystemLocalOrPeers UserKeyspaceForwarded OnlyUseAndSelectLocal
           LookAlikeForwarded ExecuteFollowsPrepare KeyspaceTracksUse
           Export
